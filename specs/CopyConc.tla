------------------------------ MODULE CopyConc ------------------------------
(***************************************************************************)
(* X20 - CONCURRENT invocations of copy_folder_from_global_to_local /      *)
(* copy_imagefolder_from_global_to_local (kappadata/copying/folder.py,     *)
(* image_folder.py) on ONE destination.                                    *)
(*                                                                         *)
(* Copy.tla (property C20) has one invocation at a time, possibly killed.  *)
(* This module runs the same marker protocol (Proto "v1" of Copy.tla: the  *)
(* protocol of the current tree) in SEVERAL processes with a program       *)
(* counter each; every file-system operation AND every decision read       *)
(* (exists tests, directory listings) is an action of its own, because     *)
(* between any two of them the other process may act.  Operations whose    *)
(* precondition the other process destroyed raise the exception the        *)
(* operating system raises (FileExistsError, FileNotFoundError, OSError    *)
(* ENOTEMPTY, IsADirectoryError) - that is the event `exc'.                *)
(*                                                                         *)
(*   check : exists(dst)? exists(start marker)? exists(end marker)?        *)
(*   redo  : list dst ; remove every listed entry but the start marker     *)
(*           (sub-directory: list it, unlink its files, rmdir) ; copy      *)
(*   fresh : exists(tmp)? [rmtree tmp: open it, list, unlink, rmdir] ;     *)
(*           mkdir tmp ; write start marker into tmp ; rename tmp -> dst ; *)
(*           copy                                                          *)
(*   copy  : the per-format program Progs[fmt] (mkdir / exists-then-mkdir  *)
(*           of sub-directories, create+truncate, payload, utime/chmod) ;  *)
(*           write end marker ; return                                     *)
(*                                                                         *)
(* Objects, not names: shutil.rmtree opens the directory it removes and    *)
(* works relative to that descriptor.  A process that found a temporary    *)
(* folder holds a handle h = "tmp"; when the folder's owner renames it to  *)
(* dst the handle follows the object (h = "dst") and the cleaner's unlinks *)
(* hit the destination's start marker and data.  An open data file that is *)
(* unlinked keeps receiving the writer's payload without ever appearing    *)
(* (lnk = FALSE).                                                          *)
(*                                                                         *)
(* Proto = "v2" is the small repair proposed in reports/xconc-1.patch      *)
(* (private temporary folder per invocation, a lost rename race means      *)
(* "somebody else is copying": wait for the end marker).  Proto = "v3"     *)
(* additionally takes an advisory lock on the start marker for the whole   *)
(* wipe + copy phase (reports/xconc-2.patch); a lock dies with its owner.  *)
(***************************************************************************)
EXTENDS Naturals, Sequences, FiniteSets, TLC

CONSTANTS Procs,        \* process names (strings)
          Files, Dirs,  \* data files / sub-directories of the source (strings, disjoint from marker names)
          DirOf,        \* [Files -> Dirs \cup {"."}]
          Progs,        \* [format -> sequence of copy steps [k |-> kind, x |-> target]]
          WipeOrder,    \* listing order of the entries of dst: sequence over RootEntries
          FileOrder,    \* listing order inside a sub-directory: sequence over Files
          Inits,        \* initial disk kinds to explore
          Proto,        \* "v1" | "v2" | "v3"
          MaxCrashes,   \* process deaths
          MaxRounds,    \* sequential re-invocations after everything has ended (the "next job")
          Serial,       \* TRUE: callers serialise (SerialFirst runs alone until it has ended)
          SerialFirst,
          KeepHist      \* TRUE: hist = the last action taken (counterexample traces then carry their schedule)

VARIABLES d,        \* the disk: [dst, start, end, file, sub, junk, tmp]
          ps,       \* per process: local state record
          lock,     \* v3 only: owner of the advisory lock or "none"
          user,     \* ghost: dst was provided by the user (present and unmarked before any invocation)
          fmt, init, crashes, rounds,
          claimed,  \* ghost: some invocation has returned normally
          faulted,  \* ghost: some invocation was killed or ended in an exception
          hist

vars == <<d, ps, lock, user, fmt, init, crashes, rounds, claimed, faulted, hist>>

RootFiles == {f \in Files : DirOf[f] = "."}
RootEntries == {"start", "end", "junk"} \cup RootFiles \cup Dirs
Ended == {"ret", "exc", "dead"}
NoRes == [copied |-> FALSE, deleted |-> FALSE, fmt |-> "none"]
Prog == Progs[fmt]

EmptyDisk == [dst |-> "absent", start |-> FALSE, end |-> FALSE, file |-> [f \in Files |-> "none"],
              sub |-> [x \in Dirs |-> FALSE], junk |-> FALSE, tmp |-> "absent"]
FreshProc == [pc |-> "chkdst", mode |-> "none", wl |-> <<>>, sl |-> <<>>, cur |-> "none", subdead |-> FALSE,
              h |-> "none", cp |-> 1, open |-> "none", lnk |-> FALSE, wiped |-> FALSE, copied |-> FALSE,
              res |-> NoRes, exc |-> "none", errs |-> FALSE, mine |-> FALSE, round |-> 0]

DiskOfInit(k) ==
  CASE k = "absent" -> EmptyDisk
    [] k = "staletmp" -> [EmptyDisk EXCEPT !.tmp = "marked"]
    [] k = "incomplete" -> [EmptyDisk EXCEPT !.dst = "present", !.start = TRUE, !.junk = TRUE,   \* + a stale foreign file
                              !.file = [f \in Files |-> IF DirOf[f] = "." THEN "partial" ELSE "full"],
                              !.sub = [x \in Dirs |-> TRUE]]
    [] k = "complete" -> [EmptyDisk EXCEPT !.dst = "present", !.start = TRUE, !.end = TRUE,
                            !.file = [f \in Files |-> "full"], !.sub = [x \in Dirs |-> TRUE]]
    [] k = "user" -> [EmptyDisk EXCEPT !.dst = "present", !.junk = TRUE,
                        !.file = [f \in Files |-> IF DirOf[f] = "." THEN "partial" ELSE "none"]]
    [] k = "userempty" -> [EmptyDisk EXCEPT !.dst = "present"]

TypeOK ==
  /\ d.dst \in {"absent", "present"} /\ d.tmp \in {"absent", "empty", "marked"}
  /\ d.start \in BOOLEAN /\ d.end \in BOOLEAN /\ d.junk \in BOOLEAN
  /\ d.file \in [Files -> {"none", "partial", "full"}] /\ d.sub \in [Dirs -> BOOLEAN]
  /\ \A p \in Procs : ps[p].pc \in {"chkdst", "chkstart", "chkend", "list", "wipe", "rmgone", "sublist", "subwipe",
                                    "chktmp", "tmplist", "rmtmpdir", "mktmp", "wtmp", "rename", "lostrace", "wait",
                                    "trylock", "lockchk", "copy", "ret", "exc", "dead"}

Init ==
  /\ init \in Inits /\ d = DiskOfInit(init)
  /\ user = (init \in {"user", "userempty"})
  /\ fmt \in DOMAIN Progs
  /\ ps = [p \in Procs |-> FreshProc]
  /\ lock = "none" /\ crashes = 0 /\ rounds = 0 /\ claimed = FALSE /\ faulted = FALSE /\ hist = <<>>

(* ------------------------------ helpers -------------------------------- *)
Present(x) == CASE x = "start" -> d.start [] x = "end" -> d.end [] x = "junk" -> d.junk
                [] x \in Files -> d.file[x] # "none" [] x \in Dirs -> d.sub[x]
DirExists(f) == IF DirOf[f] = "." THEN TRUE ELSE d.sub[DirOf[f]]
DirEmpty(x) == \A f \in Files : DirOf[f] = x => d.file[f] = "none"
AllFull == \A f \in Files : d.file[f] = "full"
DstEmpty == ~d.start /\ ~d.end /\ ~d.junk /\ (\A f \in Files : d.file[f] = "none") /\ (\A x \in Dirs : ~d.sub[x])
Complete == d.dst = "present" /\ AllFull
Listing(withStart) == SelectSeq(WipeOrder, LAMBDA x : Present(x) /\ (withStart \/ x # "start"))
SubListing(x) == SelectSeq(FileOrder, LAMBDA f : DirOf[f] = x /\ d.file[f] # "none")

CanRun(p) == ~Serial \/ p = SerialFirst \/ ps[SerialFirst].pc \in Ended
At(p, pcv) == ps[p].pc = pcv /\ CanRun(p)
\* p's record becomes r, every other process q's record becomes Oth(q) (side effects on handles)
Set(p, r) == ps' = [ps EXCEPT ![p] = r]
SetAll(p, r, Oth(_)) == ps' = [q \in Procs |-> IF q = p THEN r ELSE Oth(q)]
Goto(p, pcv) == [ps[p] EXCEPT !.pc = pcv]
Raise(p, e) == [ps[p] EXCEPT !.pc = "exc", !.exc = e]
Ret(p, r) == [ps[p] EXCEPT !.pc = "ret", !.res = r]
\* the lock dies with its owner (flock semantics), also on exceptions and returns
Release(p) == lock' = IF lock = p /\ ps'[p].pc \in Ended THEN "none" ELSE lock
\* unlinking file f: writers that have it open lose the link
Unlinked(f, q) == IF ps[q].open = f THEN [ps[q] EXCEPT !.lnk = FALSE] ELSE ps[q]

(* ------------------------------- check --------------------------------- *)
ChkDst(p) ==
  /\ At(p, "chkdst")
  /\ Set(p, Goto(p, IF d.dst = "present" THEN "chkstart" ELSE "chktmp"))
  /\ UNCHANGED d
ChkStart(p) ==
  /\ At(p, "chkstart")
  /\ Set(p, IF d.start THEN Goto(p, "chkend") ELSE Ret(p, NoRes))        \* "manually copied dataset"
  /\ UNCHANGED d
ChkEnd(p) ==
  /\ At(p, "chkend")
  /\ Set(p, IF d.end THEN Ret(p, NoRes)                                    \* "already copied"
            ELSE Goto(p, IF Proto = "v3" THEN "trylock" ELSE "list"))      \* "incomplete copy -> delete, copy again"
  /\ UNCHANGED d

(* -------------------------- redo: wipe dst ----------------------------- *)
ListDst(p) ==
  /\ At(p, "list")
  /\ Set(p, [ps[p] EXCEPT !.pc = "wipe", !.mode = "redo", !.wl = Listing(FALSE)])
  /\ UNCHANGED d
\* which directory object the entries of p's current listing live in
Where(p) == IF ps[p].mode = "redo" THEN "dst" ELSE ps[p].h
NextEntry(p) == Head(ps[p].wl)
Popped(p) == [ps[p] EXCEPT !.wl = Tail(ps[p].wl)]

RmMarker(p) ==   \* unlink of the start / end marker or of a foreign file
  /\ At(p, "wipe") /\ ps[p].wl # <<>> /\ NextEntry(p) \in {"start", "end", "junk"}
  /\ LET x == NextEntry(p) IN
     IF Where(p) = "tmp"
       THEN \* the entry is the marker inside the temporary folder
            IF d.tmp = "marked" THEN d' = [d EXCEPT !.tmp = "empty"] /\ Set(p, Popped(p))
            ELSE UNCHANGED d /\ Set(p, Raise(p, "FileNotFoundError"))
       ELSE IF Where(p) = "dst" /\ d.dst = "present" /\ Present(x)
              THEN /\ d' = (CASE x = "start" -> [d EXCEPT !.start = FALSE] [] x = "end" -> [d EXCEPT !.end = FALSE]
                              [] x = "junk" -> [d EXCEPT !.junk = FALSE])
                   /\ Set(p, Popped(p))
              ELSE UNCHANGED d /\ Set(p, Raise(p, "FileNotFoundError"))
RmFile(p) ==
  /\ At(p, "wipe") /\ ps[p].wl # <<>> /\ NextEntry(p) \in Files
  /\ LET f == NextEntry(p) IN
     IF Where(p) = "dst" /\ d.file[f] # "none"
       THEN /\ d' = [d EXCEPT !.file[f] = "none"]
            /\ SetAll(p, Popped(p), LAMBDA q : Unlinked(f, q))
       ELSE UNCHANGED d /\ Set(p, Raise(p, "FileNotFoundError"))
\* a directory entry: is_dir? (redo: a stat of its own; rmtree(tmp): taken from the listing) then open it
EnterSub(p) ==
  /\ At(p, "wipe") /\ ps[p].wl # <<>> /\ NextEntry(p) \in Dirs
  /\ LET x == NextEntry(p) IN
     Set(p, IF Where(p) = "dst" /\ d.sub[x] THEN [ps[p] EXCEPT !.pc = "sublist", !.cur = x, !.subdead = FALSE]
            ELSE IF ps[p].mode = "redo" THEN [ps[p] EXCEPT !.pc = "rmgone", !.cur = x]
            ELSE Raise(p, "FileNotFoundError"))
  /\ UNCHANGED d
RmGone(p) ==   \* the entry was no directory when looked at: unlink it
  /\ At(p, "rmgone")
  /\ Set(p, Raise(p, IF d.sub[ps[p].cur] THEN "IsADirectoryError" ELSE "FileNotFoundError"))
  /\ UNCHANGED d
SubList(p) ==
  /\ At(p, "sublist")
  /\ Set(p, [ps[p] EXCEPT !.pc = "subwipe", !.sl = IF ps[p].subdead THEN <<>> ELSE SubListing(ps[p].cur)])
  /\ UNCHANGED d
RmSubFile(p) ==
  /\ At(p, "subwipe") /\ ps[p].sl # <<>>
  /\ LET f == Head(ps[p].sl) IN
     IF ~ps[p].subdead /\ d.file[f] # "none"
       THEN /\ d' = [d EXCEPT !.file[f] = "none"]
            /\ SetAll(p, [ps[p] EXCEPT !.sl = Tail(ps[p].sl)], LAMBDA q : Unlinked(f, q))
       ELSE UNCHANGED d /\ Set(p, Raise(p, "FileNotFoundError"))
RmSubDir(p) ==
  /\ At(p, "subwipe") /\ ps[p].sl = <<>>
  /\ LET x == ps[p].cur IN
     IF Where(p) # "dst" \/ ~d.sub[x] THEN UNCHANGED d /\ Set(p, Raise(p, "FileNotFoundError"))
     ELSE IF ~DirEmpty(x) THEN UNCHANGED d /\ Set(p, Raise(p, "OSError"))              \* ENOTEMPTY
     ELSE /\ d' = [d EXCEPT !.sub[x] = FALSE]
          /\ SetAll(p, [ps[p] EXCEPT !.pc = "wipe", !.cur = "none", !.wl = Tail(ps[p].wl)],
                    LAMBDA q : IF ps[q].cur = x THEN [ps[q] EXCEPT !.subdead = TRUE] ELSE ps[q])
WipeDone(p) ==   \* no gate of its own: the loop ends
  /\ At(p, "wipe") /\ ps[p].wl = <<>>
  /\ Set(p, IF ps[p].mode = "redo" THEN [ps[p] EXCEPT !.pc = "copy", !.cp = 1, !.wiped = TRUE]
            ELSE Goto(p, "rmtmpdir"))
  /\ UNCHANGED d

(* ---------------------- fresh: claim the destination ------------------- *)
ChkTmp(p) ==     \* v1: exists(tmp)?  -> rmtree opens the folder at once (handle on the object)
  /\ At(p, "chktmp")
  /\ Set(p, IF Proto = "v1" /\ d.tmp # "absent" THEN [ps[p] EXCEPT !.pc = "tmplist", !.h = "tmp"]
            ELSE Goto(p, "mktmp"))
  /\ UNCHANGED d
TmpList(p) ==
  /\ At(p, "tmplist")
  /\ Set(p, [ps[p] EXCEPT !.pc = "wipe", !.mode = "tmpclean",
                          !.wl = CASE ps[p].h = "tmp" -> (IF d.tmp = "marked" THEN <<"start">> ELSE <<>>)
                                   [] ps[p].h = "dst" -> Listing(TRUE)
                                   [] OTHER -> <<>>])
  /\ UNCHANGED d
RmTmpDir(p) ==   \* rmdir(tmp) BY NAME
  /\ At(p, "rmtmpdir")
  /\ IF d.tmp = "absent" THEN UNCHANGED d /\ Set(p, Raise(p, "FileNotFoundError"))
     ELSE IF d.tmp = "marked" THEN UNCHANGED d /\ Set(p, Raise(p, "OSError"))
     ELSE /\ d' = [d EXCEPT !.tmp = "absent"]
          /\ SetAll(p, [ps[p] EXCEPT !.pc = "mktmp", !.h = "none"],
                    LAMBDA q : IF ps[q].h = "tmp" THEN [ps[q] EXCEPT !.h = "gone"] ELSE ps[q])
\* v1: ONE temporary name for everybody.  v2/v3: a private temporary folder (<dst>.autocopy_tmp.<pid>): no interference, the
\* abstract disk does not show other processes' private folders (mine = this process has one)
MkTmp(p) ==
  /\ At(p, "mktmp")
  /\ IF Proto = "v1"
       THEN IF d.tmp = "absent" THEN d' = [d EXCEPT !.tmp = "empty"] /\ Set(p, Goto(p, "wtmp"))
            ELSE UNCHANGED d /\ Set(p, Raise(p, "FileExistsError"))
       ELSE UNCHANGED d /\ Set(p, [ps[p] EXCEPT !.pc = "wtmp", !.mine = TRUE])
WriteTmpStart(p) ==
  /\ At(p, "wtmp")
  /\ IF Proto = "v1"
       THEN IF d.tmp = "absent" THEN UNCHANGED d /\ Set(p, Raise(p, "FileNotFoundError"))
            ELSE d' = [d EXCEPT !.tmp = "marked"] /\ Set(p, Goto(p, "rename"))
       ELSE UNCHANGED d /\ Set(p, Goto(p, "rename"))
Rename(p) ==     \* atomic; fails on a non-empty destination, replaces an empty one
  /\ At(p, "rename")
  /\ IF Proto = "v1"
       THEN IF d.tmp = "absent" THEN UNCHANGED d /\ Set(p, Raise(p, "FileNotFoundError"))
            ELSE IF d.dst = "present" /\ ~DstEmpty THEN UNCHANGED d /\ Set(p, Raise(p, "OSError"))
            ELSE /\ d' = [d EXCEPT !.dst = "present", !.start = (d.tmp = "marked"), !.tmp = "absent"]
                 /\ SetAll(p, [ps[p] EXCEPT !.pc = "copy", !.cp = 1],
                           LAMBDA q : IF ps[q].h = "tmp" THEN [ps[q] EXCEPT !.h = "dst"]
                                      ELSE IF ps[q].h = "dst" THEN [ps[q] EXCEPT !.h = "gone"] ELSE ps[q])
       ELSE IF d.dst = "present" /\ ~DstEmpty
              THEN UNCHANGED d /\ Set(p, Goto(p, "lostrace"))     \* somebody else claimed dst first
              ELSE /\ d' = [d EXCEPT !.dst = "present", !.start = TRUE]
                   /\ Set(p, [ps[p] EXCEPT !.pc = IF Proto = "v3" THEN "trylock" ELSE "copy", !.cp = 1, !.mine = FALSE,
                                           !.mode = "fresh"])
\* v2/v3: remove the private temporary folder, then behave like a caller that found dst
LostRace(p) ==
  /\ At(p, "lostrace")
  /\ Set(p, [ps[p] EXCEPT !.pc = IF Proto = "v3" THEN "chkdst" ELSE "wait", !.mine = FALSE])
  /\ UNCHANGED d
\* v2: the winner of the race is copying: wait for its end marker (a poll loop; enabled when it is there)
Wait(p) ==
  /\ At(p, "wait") /\ d.end
  /\ Set(p, Ret(p, NoRes))
  /\ UNCHANGED d
\* v3: advisory lock on the start marker (non-blocking attempt in a poll loop; enabled when free).
\* After the lock is held the end marker is looked at again.
TryLock(p) ==
  /\ At(p, "trylock") /\ lock = "none"
  /\ Set(p, Goto(p, "lockchk")) /\ lock' = p
  /\ UNCHANGED d
LockChk(p) ==    \* under the lock: exists(end marker)? - somebody else may have finished meanwhile
  /\ At(p, "lockchk")
  /\ Set(p, IF d.end THEN Ret(p, NoRes) ELSE Goto(p, IF ps[p].mode = "fresh" THEN "copy" ELSE "list"))
  /\ UNCHANGED d

(* ------------------------------- copy ---------------------------------- *)
StepIs(p, k) == At(p, "copy") /\ ps[p].cp <= Len(Prog) /\ Prog[ps[p].cp].k = k
Tgt(p) == Prog[ps[p].cp].x
Adv(p, n) == [ps[p] EXCEPT !.cp = ps[p].cp + n]
\* shutil.copytree (format "raw") does not stop at a failing entry: it collects the errors, goes on with the next
\* entry and raises shutil.Error at the very end; zipfile's extraction raises at once
Deferred == fmt = "raw"
Fail(p, e, skip) == IF Deferred THEN [Adv(p, skip) EXCEPT !.errs = TRUE] ELSE Raise(p, e)
ChkSub(p) ==     \* zip extraction: "if not exists(upper directory): makedirs(...)"
  /\ StepIs(p, "chksub")
  /\ Set(p, Adv(p, IF d.sub[Tgt(p)] THEN 2 ELSE 1))
  /\ UNCHANGED d
MkSubZ(p) ==     \* ... the makedirs of that statement (no exist_ok)
  /\ StepIs(p, "mksubz")
  /\ IF d.sub[Tgt(p)] THEN UNCHANGED d /\ Set(p, Raise(p, "FileExistsError"))
     ELSE d' = [d EXCEPT !.sub[Tgt(p)] = TRUE] /\ Set(p, Adv(p, 1))
MkSub(p) ==      \* copytree: makedirs(exist_ok=True)
  /\ StepIs(p, "mksub")
  /\ d' = [d EXCEPT !.sub[Tgt(p)] = TRUE] /\ Set(p, Adv(p, 1))
CreateFile(p) == \* open(..., "wb"): creates or TRUNCATES
  /\ StepIs(p, "create")
  /\ LET f == Tgt(p) IN
     IF ~DirExists(f) THEN UNCHANGED d /\ Set(p, Fail(p, "FileNotFoundError", 3))   \* raw: create, fill, touch
     ELSE /\ d' = [d EXCEPT !.file[f] = "partial"]
          /\ Set(p, [Adv(p, 1) EXCEPT !.open = f, !.lnk = TRUE])
FillFile(p) ==   \* the payload, through the open descriptor
  /\ StepIs(p, "fill")
  /\ LET f == Tgt(p) IN
     /\ d' = IF ps[p].lnk THEN [d EXCEPT !.file[f] = "full"] ELSE d
     /\ Set(p, [Adv(p, 1) EXCEPT !.open = "none", !.lnk = FALSE])
Touch(p) ==      \* copystat on a file: utime + chmod BY NAME
  /\ StepIs(p, "touch")
  /\ IF d.file[Tgt(p)] = "none" THEN Set(p, Fail(p, "FileNotFoundError", 1)) ELSE Set(p, Adv(p, 1))
  /\ UNCHANGED d
TouchSub(p) ==   \* copystat on a sub-directory
  /\ StepIs(p, "touchsub")
  /\ IF ~d.sub[Tgt(p)] THEN Set(p, Fail(p, "FileNotFoundError", 1)) ELSE Set(p, Adv(p, 1))
  /\ UNCHANGED d
RaiseErrors(p) ==   \* no operation of its own: copytree raises what it collected; no end marker is written
  /\ At(p, "copy") /\ ps[p].cp = Len(Prog) + 1 /\ ps[p].errs
  /\ Set(p, Raise(p, "Error"))
  /\ UNCHANGED d
WriteEnd(p) ==   \* open(end marker, "w") and return
  /\ At(p, "copy") /\ ps[p].cp = Len(Prog) + 1 /\ ~ps[p].errs
  /\ d' = [d EXCEPT !.end = TRUE]
  /\ Set(p, [Ret(p, [copied |-> TRUE, deleted |-> ps[p].wiped, fmt |-> fmt]) EXCEPT !.copied = TRUE])

(* --------------------------- death, next job --------------------------- *)
Crash(p) ==
  /\ ps[p].pc \notin Ended /\ CanRun(p) /\ crashes < MaxCrashes
  /\ Set(p, Goto(p, "dead"))
  /\ UNCHANGED d
\* after everything has ended somebody calls again (the next job on this node)
Quiescent == \A q \in Procs : ps[q].pc \in Ended
Reinvoke(p) ==
  /\ Quiescent /\ rounds < MaxRounds /\ p = SerialFirst
  /\ Set(p, [FreshProc EXCEPT !.round = rounds + 1])
  /\ UNCHANGED d

(* ------------------------------- Next ---------------------------------- *)
Lbl(p, n) == hist' = IF KeepHist THEN <<p, n>> ELSE <<>>   \* the LAST action only (keeps the state space finite)
Frame(p, n, dcr, drd) ==
  /\ Lbl(p, n) /\ crashes' = crashes + dcr /\ rounds' = rounds + drd
  /\ claimed' = (claimed \/ ps'[p].pc = "ret")
  /\ faulted' = (faulted \/ ps'[p].pc \in {"exc", "dead"})
  /\ UNCHANGED <<user, fmt, init>>
Op(p, n) == Frame(p, n, 0, 0) /\ (IF n = "TryLock" THEN TRUE ELSE Release(p))

AChkDst(p) == ChkDst(p) /\ Op(p, "ChkDst")
AChkStart(p) == ChkStart(p) /\ Op(p, "ChkStart")
AChkEnd(p) == ChkEnd(p) /\ Op(p, "ChkEnd")
AListDst(p) == ListDst(p) /\ Op(p, "ListDst")
ARmMarker(p) == RmMarker(p) /\ Op(p, "RmMarker")
ARmFile(p) == RmFile(p) /\ Op(p, "RmFile")
AEnterSub(p) == EnterSub(p) /\ Op(p, "EnterSub")
ARmGone(p) == RmGone(p) /\ Op(p, "RmGone")
ASubList(p) == SubList(p) /\ Op(p, "SubList")
ARmSubFile(p) == RmSubFile(p) /\ Op(p, "RmSubFile")
ARmSubDir(p) == RmSubDir(p) /\ Op(p, "RmSubDir")
AWipeDone(p) == WipeDone(p) /\ Op(p, "WipeDone")
AChkTmp(p) == ChkTmp(p) /\ Op(p, "ChkTmp")
ATmpList(p) == TmpList(p) /\ Op(p, "TmpList")
ARmTmpDir(p) == RmTmpDir(p) /\ Op(p, "RmTmpDir")
AMkTmp(p) == MkTmp(p) /\ Op(p, "MkTmp")
AWriteTmpStart(p) == WriteTmpStart(p) /\ Op(p, "WriteTmpStart")
ARename(p) == Rename(p) /\ Op(p, "Rename")
ALostRace(p) == LostRace(p) /\ Op(p, "LostRace")
AWait(p) == Wait(p) /\ Op(p, "Wait")
ATryLock(p) == TryLock(p) /\ Op(p, "TryLock")
ALockChk(p) == LockChk(p) /\ Op(p, "LockChk")
AChkSub(p) == ChkSub(p) /\ Op(p, "ChkSub")
AMkSubZ(p) == MkSubZ(p) /\ Op(p, "MkSubZ")
AMkSub(p) == MkSub(p) /\ Op(p, "MkSub")
ACreateFile(p) == CreateFile(p) /\ Op(p, "CreateFile")
AFillFile(p) == FillFile(p) /\ Op(p, "FillFile")
ATouch(p) == Touch(p) /\ Op(p, "Touch")
ATouchSub(p) == TouchSub(p) /\ Op(p, "TouchSub")
AWriteEnd(p) == WriteEnd(p) /\ Op(p, "WriteEnd")
ARaiseErrors(p) == RaiseErrors(p) /\ Op(p, "RaiseErrors")
ACrash(p) == Crash(p) /\ Frame(p, "Crash", 1, 0) /\ lock' = (IF lock = p THEN "none" ELSE lock)
AReinvoke(p) == Reinvoke(p) /\ Frame(p, "Reinvoke", 0, 1) /\ UNCHANGED lock

ProcStep(p) ==
  \/ AChkDst(p) \/ AChkStart(p) \/ AChkEnd(p) \/ AListDst(p) \/ ARmMarker(p) \/ ARmFile(p) \/ AEnterSub(p)
  \/ ARmGone(p) \/ ASubList(p) \/ ARmSubFile(p) \/ ARmSubDir(p) \/ AWipeDone(p) \/ AChkTmp(p) \/ ATmpList(p)
  \/ ARmTmpDir(p) \/ AMkTmp(p) \/ AWriteTmpStart(p) \/ ARename(p) \/ ALostRace(p) \/ AWait(p) \/ ATryLock(p) \/ ALockChk(p)
  \/ AChkSub(p) \/ AMkSubZ(p) \/ AMkSub(p) \/ ACreateFile(p) \/ AFillFile(p) \/ ATouch(p) \/ ATouchSub(p)
  \/ AWriteEnd(p) \/ ARaiseErrors(p)
Next == \E p \in Procs : ProcStep(p) \/ ACrash(p) \/ AReinvoke(p)

Spec == Init /\ [][Next]_vars /\ \A p \in Procs : WF_vars(ProcStep(p))

(* =============================== NORMATIVE ============================= *)
(* Candidate clauses for concurrent invocations.  TLC decides which of     *)
(* them the marker protocol guarantees (see the cfg files):                *)
(*   CopyConcMC_*_holds.cfg   clauses that hold for Proto                  *)
(*   CopyConcMC_*_f_<clause>.cfg  one clause each, EXPECTED TO FAIL        *)
(* ======================================================================= *)
\* (1) whenever ANY invocation has returned normally, the destination holds a complete byte-identical copy - at
\*     that moment and from then on
NoFalseComplete == (claimed /\ ~user) => Complete
\* (1a) the "at that moment" half alone: the step that returns leads to a complete folder
RetMoment == [][\A p \in Procs : (ps'[p].pc = "ret" /\ ps[p].pc # "ret" /\ ~user) => Complete']_vars
\* (1b) the "keeps holding" half alone
StaysComplete == [][(claimed /\ ~user /\ Complete) => Complete']_vars
\* (2) a folder the user provided is never touched
NoUserDamage == [][user => d' = d]_vars
\* (3) the end marker exists only on complete data
EndMarkerTruth == (d.dst = "present" /\ d.end /\ ~user) => AllFull
\* (3a) an automatic destination always carries its start marker (else it is taken for a user's folder)
StartMarkerKept == (d.dst = "present" /\ ~user) => d.start
\* (4) the result says what this invocation did
Truthful == \A p \in Procs : ps[p].pc = "ret" =>
  /\ ps[p].res.copied = ps[p].copied
  /\ ps[p].res.deleted = (ps[p].wiped /\ ps[p].copied)
  /\ (ps[p].res.copied => ps[p].res.fmt = fmt) /\ (~ps[p].res.copied => ps[p].res.fmt = "none")
\* (4a) "nothing to do" is only answered for a user's folder or when both markers are there (at that moment)
NotUsable == [][\A p \in Procs : (ps'[p].pc = "ret" /\ ps[p].pc # "ret" /\ ~ps'[p].res.copied)
                                   => (user \/ (d.dst = "present" /\ d.start /\ d.end))]_vars
\* (5) no invocation ends in an exception caused by the race
NoRaceError == \A p \in Procs : ps[p].pc # "exc"
\* (5a) an invocation that is not killed comes to an end (returns or raises) - no waiting forever
Terminates == \A p \in Procs : (crashes = MaxCrashes) ~> (ps[p].pc \in Ended)

(* ---- weaker clauses ---- *)
\* (W1) after all invocations have ended, none killed, at least one returned normally: complete
QuiescentComplete == (Quiescent /\ crashes = 0 /\ claimed /\ ~user) => Complete
\* (W2) ... even if some were killed
QuiescentCompleteCrash == (Quiescent /\ claimed /\ ~user) => Complete
\* (W3) the next job (a call after everything has ended) returns over a complete folder
RecoverOK == \A p \in Procs : (ps[p].pc = "ret" /\ ps[p].round > 0 /\ ~user) => Complete
\* (W4) once ALL invocations have returned normally the folder is complete ("after both have returned ...")
AllReturnedComplete == (Quiescent /\ ~faulted /\ ~user) => Complete
\* (W6) "delete and copy again": once an invocation has returned, nothing of an interrupted attempt is left over
NoLeftovers == (claimed /\ ~user) => ~d.junk
\* (W7) was_copied = True is only answered by an invocation all of whose own writes succeeded
OwnWritesOK == \A p \in Procs : (ps[p].pc = "ret" /\ ps[p].res.copied) => ~ps[p].errs
\* (W5) a copy that was complete before the invocations started is never touched
CompletedKept == [][init = "complete" => d' = d]_vars
=============================================================================
