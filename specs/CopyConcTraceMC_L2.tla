---- MODULE CopyConcTraceMC_L2 ----
EXTENDS CopyConcTrace
P3 == {"p1", "p2", "p3"}
MCFiles == {"a", "b"}
MCDirs == {"c", "s"}
MCDirOf == ("a" :> "c" @@ "b" :> "s")
MCProgs == [raw |-> <<[k |-> "mksub", x |-> "c"], [k |-> "create", x |-> "a"], [k |-> "fill", x |-> "a"], [k |-> "touch", x |-> "a"], [k |-> "touchsub", x |-> "c"], [k |-> "mksub", x |-> "s"], [k |-> "create", x |-> "b"], [k |-> "fill", x |-> "b"], [k |-> "touch", x |-> "b"], [k |-> "touchsub", x |-> "s"]>>, zip |-> <<[k |-> "chksub", x |-> "c"], [k |-> "mksubz", x |-> "c"], [k |-> "create", x |-> "a"], [k |-> "fill", x |-> "a"], [k |-> "chksub", x |-> "s"], [k |-> "mksubz", x |-> "s"], [k |-> "create", x |-> "b"], [k |-> "fill", x |-> "b"]>>, zips |-> <<[k |-> "chksub", x |-> "c"], [k |-> "mksubz", x |-> "c"], [k |-> "create", x |-> "a"], [k |-> "fill", x |-> "a"], [k |-> "chksub", x |-> "s"], [k |-> "mksubz", x |-> "s"], [k |-> "create", x |-> "b"], [k |-> "fill", x |-> "b"]>>]
MCWipeOrder == <<"end", "start", "c", "junk", "s">>
MCFileOrder == <<"a", "b">>
====
