---------------------------- MODULE MixWrapperTrace ----------------------------
(***************************************************************************)
(* Trace validation for C11.  TRACE_FILE holds                             *)
(*   {"traces": [{"id": n, "cfg": {N, K, cls, shp, fshp, p1, seeded,       *)
(*                                 cutmix, S, Tol, ...}, "ev": [...]}]}    *)
(* recorded by harness/drivers/mixing.py from the REAL KDMixWrapper        *)
(* accessed through the real ModeWrapper on an id-encoded dataset.  One    *)
(* trace = one wrapper instance; one event per request                     *)
(*   {a:"get", i, form, hasx, hasc, lab, pc, xs, nx, nc}                   *)
(*   {a:"refuse", i, form}     NotImplementedError raised inside kappadata *)
(*   {a:"exc", i, form, type}  anything else that escaped                  *)
(* Every step consumes one event and evaluates the normative step function *)
(* of MixWrapperNorm; with a seed set the explanations (partner, weight)   *)
(* left possible per index are carried from request to request.            *)
(***************************************************************************)
EXTENDS MixWrapperNorm, Json, IOUtils, TLCExt

VARIABLES tid, l, asked, known, fail
tvars == <<tid, l, asked, known, fail>>

Traces == JsonDeserialize(IOEnv.TRACE_FILE).traces
ASSUME TLCSet(1, {}) /\ TLCSet(2, {})

C == Traces[tid].cfg
Ev(n) == Traces[tid].ev[n]
NEv == Len(Traces[tid].ev)

TInit ==
  /\ tid \in 1..Len(Traces)
  /\ l = 1
  /\ asked = {}
  /\ known = [k \in 1..Traces[tid].cfg.N |-> {}]
  /\ fail = {}

TGet ==
  /\ l <= NEv /\ Ev(l).a \in {"get", "refuse"}
  /\ LET e == Ev(l)
         ex == StepEx(C, e)
         was == e.i \in asked
     IN /\ fail' = StepFails(C, e, ex, was, known[e.i])
        /\ known' = [known EXCEPT ![e.i] = StepKnown(C, ex, was, @)]
        /\ asked' = asked \cup {e.i}
  /\ l' = l + 1 /\ UNCHANGED tid

\* an exception that is not an explicit refusal of the component (or a call that did not return in time)
TExc ==
  /\ l <= NEv /\ Ev(l).a = "exc"
  /\ fail' = {"C11_NoError"}
  /\ l' = l + 1 /\ UNCHANGED <<tid, asked, known>>

TNext == TGet \/ TExc
TSpec == TInit /\ [][TNext]_tvars

Collect ==
  IF fail # {} THEN TLCSet(2, TLCGet(2) \cup {<<Traces[tid].id, l - 1, fail>>})
  ELSE IF l = NEv + 1 THEN TLCSet(1, TLCGet(1) \cup {Traces[tid].id})
  ELSE TRUE
Constraint == Collect /\ fail = {}
Report == PrintT(<<"ACCEPTED", TLCGet(1)>>) /\ PrintT(<<"REJECTED", TLCGet(2)>>)
=============================================================================
