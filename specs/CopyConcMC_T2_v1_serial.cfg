SPECIFICATION Spec
CONSTANTS
  Procs <- P2
  Files <- T2Files
  Dirs <- T2Dirs
  DirOf <- T2DirOf
  Progs <- T2Progs
  WipeOrder <- T2WipeOrder
  FileOrder <- T2FileOrder
  Inits <- AllInits
  Proto = "v1"
  MaxCrashes = 1
  MaxRounds = 1
  Serial = TRUE
  SerialFirst = "p1"
  KeepHist = FALSE
INVARIANT TypeOK
INVARIANT Truthful
INVARIANT AllReturnedComplete
INVARIANT NoLeftovers
INVARIANT OwnWritesOK
INVARIANT NoFalseComplete
INVARIANT EndMarkerTruth
INVARIANT StartMarkerKept
INVARIANT NoRaceError
INVARIANT QuiescentComplete
INVARIANT RecoverOK
INVARIANT QuiescentCompleteCrash
PROPERTY NoUserDamage
PROPERTY CompletedKept
PROPERTY Terminates
PROPERTY RetMoment
PROPERTY StaysComplete
PROPERTY NotUsable
CHECK_DEADLOCK FALSE
