------------------------------- MODULE Geometry -------------------------------
(***************************************************************************)
(* C14 - geometric transforms stay in bounds and their recorded parameters *)
(* tell the truth.                                                         *)
(*                                                                         *)
(* Part 1 (normative): the clauses of the property as predicates over      *)
(*   plain values (extents, windows, coordinate maps).  A coordinate map   *)
(*   is the output of a transform applied to an H x W input whose pixel    *)
(*   (r, c) holds r*W + c + 1 (0 = constant fill of the image, -1 = ignore *)
(*   fill of a segmentation mask), flattened row-major: what the real code *)
(*   returns for such an input IS its geometry.                            *)
(*                                                                         *)
(* Part 2 (descriptive): the bound arithmetic of the code, one action per  *)
(*   loop iteration / decision, draws nondeterministic:                    *)
(*     rc   KDRandomCrop._pad_image + get_params                           *)
(*     trc  KDTwoRandomCrop.__call__ (first crop, retry loop, out_of_tries)*)
(*     rrc  KDRandomResizedCrop.get_params (10 attempts, central fallback) *)
(*     er   KDRandomErasing.forward (n rectangles x 10 attempts)           *)
(*     sa   KDSpecAugment._mask_along_axis (fixed-point draws k/Q)         *)
(*     sc   KDSemsegRandomCrop.get_params (+ category-ratio re-draws)      *)
(*     sp   KDSemsegPad.__call__                                           *)
(*     sr   KDSemsegRandomResize.__call__ (ratio from a rational set)      *)
(*     mc   KDSemsegOverlappedMultiCrop.__call__ (row / column loops)      *)
(*     pi   PatchifyImage / UnpatchifyImage / PatchwiseShuffle index maps  *)
(*   The constant Mutant selects a deliberately wrong variant of one       *)
(*   decision (negative controls; "none" = the code as repaired).          *)
(***************************************************************************)
EXTENDS Integers, Sequences, FiniteSets, TLC

CONSTANTS Mutant,   \* "none" | "guard" | "draw" | "noclamp" | "padodd" | "patchorder" | "erase" | "maskend"
          Tries,    \* attempts of the resized-crop / erasing loops (10 in the code)
          Q         \* resolution of the unit-interval draws of the spec-augment model (r = k/Q, k in 0..Q-1)

VARIABLES cfg, pc, loc, res
vars == <<cfg, pc, loc, res>>

(* ------------------------------ arithmetic ------------------------------ *)
Min(a, b) == IF a < b THEN a ELSE b
Max(a, b) == IF a > b THEN a ELSE b
Abs(a) == IF a < 0 THEN -a ELSE a
\* rationals are pairs <<num, den>> with den > 0
RLe(a, b) == a[1] * b[2] <= b[1] * a[2]
RLt(a, b) == a[1] * b[2] < b[1] * a[2]
\* Python round(): nearest integer, ties to even; p >= 0, q > 0
RoundHE(p, q) == LET f == p \div q
                     r == p % q
                 IN IF 2 * r < q THEN f ELSE IF 2 * r > q THEN f + 1 ELSE IF f % 2 = 0 THEN f ELSE f + 1
\* truncation toward zero (torch .long()), q > 0
Trunc(p, q) == IF p >= 0 THEN p \div q ELSE -((-p) \div q)

(* --------------------------- normative clauses -------------------------- *)
\* a window (i, j, h, w) of an Hh x Ww image: non-empty and inside
InBounds(i, j, h, w, Hh, Ww) == /\ 0 <= i /\ 0 <= j /\ 1 <= h /\ 1 <= w /\ i + h <= Hh /\ j + w <= Ww

\* coordinate of source pixel (r, c) of an image of width Ww; -1 on either axis = fill
Coord(r, c, Ww) == IF r < 0 \/ c < 0 THEN 0 ELSE r * Ww + c + 1

\* one padding stage along one axis: index p of the padded axis -> index of the unpadded axis (length n), -1 = fill
PadSrc(n, before, mode, p) ==
  LET q == p - before IN
    IF q >= 0 /\ q < n THEN q
    ELSE IF mode = "constant" THEN -1
    ELSE IF mode = "edge" THEN (IF q < 0 THEN 0 ELSE n - 1)
    ELSE IF mode = "reflect" THEN (IF q < 0 THEN -q ELSE 2 * (n - 1) - q)
    ELSE (IF q < 0 THEN -q - 1 ELSE 2 * n - 1 - q)        \* symmetric

\* geometry of KDRandomCrop._pad_image: explicit padding (l, t, r, b), then pad_if_needed on both sides of an axis
\* that is still shorter than the target
PadGeom(Hh, Ww, pl, pt, pr, pb, pin, th, tw) ==
  LET w1 == Ww + pl + pr
      h1 == Hh + pt + pb
      ew == IF pin /\ w1 < tw THEN tw - w1 ELSE 0
      eh == IF pin /\ h1 < th THEN th - h1 ELSE 0
  IN [h1 |-> h1, w1 |-> w1, ew |-> ew, eh |-> eh, h2 |-> h1 + 2 * eh, w2 |-> w1 + 2 * ew]
\* source row / column of padded index p (two stages), -1 = fill
SrcRow(Hh, pt, g, mode, p) == LET q == PadSrc(g.h1, g.eh, mode, p) IN IF q < 0 THEN -1 ELSE PadSrc(Hh, pt, mode, q)
SrcCol(Ww, pl, g, mode, p) == LET q == PadSrc(g.w1, g.ew, mode, p) IN IF q < 0 THEN -1 ELSE PadSrc(Ww, pl, mode, q)
\* reflect needs pad < length, symmetric pad <= length (torch's own rule) at every stage
PadModeOK(n, a, b, mode) == IF mode = "reflect" THEN a < n /\ b < n ELSE IF mode = "symmetric" THEN a <= n /\ b <= n ELSE TRUE
PadDomain(Hh, Ww, pl, pt, pr, pb, g, mode) ==
  /\ PadModeOK(Hh, pt, pb, mode) /\ PadModeOK(Ww, pl, pr, mode)
  /\ PadModeOK(g.h1, g.eh, g.eh, mode) /\ PadModeOK(g.w1, g.ew, g.ew, mode)

\* "the recorded parameters reproduce the output exactly when applied to the input by hand": the map of a crop
\* (i, j, oh, ow) of the padded coordinate image
CropMapOK(map, oh, ow, i, j, Hh, Ww, pl, pt, g, mode) ==
  /\ Len(map) = oh * ow
  /\ \A r \in 0..(oh - 1) : \A c \in 0..(ow - 1) :
        map[r * ow + c + 1] = Coord(SrcRow(Hh, pt, g, mode, i + r), SrcCol(Ww, pl, g, mode, j + c), Ww)

\* intersection over union of two windows as a rational
Inter(a, b) == Max(0, Min(a[1] + a[3], b[1] + b[3]) - Max(a[1], b[1])) * Max(0, Min(a[2] + a[4], b[2] + b[4]) - Max(a[2], b[2]))
IoU(a, b) == <<Inter(a, b), a[3] * a[4] + b[3] * b[4] - Inter(a, b)>>

\* a map is a plain window of the H x W coordinate image starting at (i, j)
WindowMapOK(map, oh, ow, i, j, Ww) ==
  /\ Len(map) = oh * ow
  /\ \A r \in 0..(oh - 1) : \A c \in 0..(ow - 1) : map[r * ow + c + 1] = (i + r) * Ww + (j + c) + 1

\* image / mask alignment: wherever the image shows source pixel v the mask shows the label of v; wherever the image
\* shows fill the mask shows the ignore label
Lab(e, v) == IF e.labid THEN v ELSE e.lab[v]
SameGeometry(e, mx, ms) ==
  /\ Len(mx) = Len(ms)
  /\ \A q \in 1..Len(mx) : IF mx[q] = 0 THEN ms[q] = -1
                           ELSE mx[q] \in 1..(e.H * e.W) /\ ms[q] = Lab(e, mx[q])

\* a resize that keeps the aspect ratio: one real scale s explains both rounded extents, |o - n*s| <= 1/2
\* (an extent of 1 also stands for "rounded below 1 and clamped")
LowS(o, n) == IF o <= 1 THEN <<0, 1>> ELSE <<2 * o - 1, 2 * n>>
UpS(o, n) == <<2 * o + 1, 2 * n>>
AspectKept(oh, ow, Hh, Ww) == RLe(LowS(oh, Hh), UpS(ow, Ww)) /\ RLe(LowS(ow, Ww), UpS(oh, Hh))
\* ... and that scale can be chosen inside [smin, smax] (intervals on a line: pairwise meeting = jointly meeting)
ScaleWithin(oh, ow, Hh, Ww, smin, smax) ==
  /\ RLe(LowS(oh, Hh), smax) /\ RLe(smin, UpS(oh, Hh))
  /\ RLe(LowS(ow, Ww), smax) /\ RLe(smin, UpS(ow, Ww))
\* KDSemsegRandomResize: scale = ratio * min(long(base) / max(H, W), short(base) / min(H, W))
ScaleOf(bh, bw, Hh, Ww, ratio) ==
  LET a == <<Max(bh, bw) * ratio[1], Max(Hh, Ww) * ratio[2]>>
      b == <<Min(bh, bw) * ratio[1], Min(Hh, Ww) * ratio[2]>>
  IN IF RLe(a, b) THEN a ELSE b

\* 0/1 maps: rows / columns / cells
Cell(map, Ww, r, c) == map[r * Ww + c + 1]
Ones(map, Hh, Ww) == {rc \in (0..(Hh - 1)) \X (0..(Ww - 1)) : Cell(map, Ww, rc[1], rc[2]) = 1}
IsInterval(S) == S = {} \/ \A x \in S : \A y \in S : \A z \in x..y : z \in S
SetMin(S) == CHOOSE x \in S : \A y \in S : x <= y
SetMax(S) == CHOOSE x \in S : \A y \in S : x >= y
\* S is one full rectangle (possibly empty)
IsRect(S) == S = {} \/ LET rs == {p[1] : p \in S}
                           cs == {p[2] : p \in S}
                       IN IsInterval(rs) /\ IsInterval(cs) /\ S = rs \X cs

(* ------------------------- patch index algebra -------------------------- *)
\* "c (lh ph) (lw pw) -> c (lh lw) ph pw": element t (0-based, row-major over (l, a, b)) of the patch tensor
PatchSrc(t, Ww, ph, pw) ==
  LET lw == Ww \div pw
      l == t \div (ph * pw)
      a == (t % (ph * pw)) \div pw
      b == t % pw
      row == IF Mutant = "patchorder" THEN (l % (Ww \div pw)) * ph + a ELSE (l \div lw) * ph + a
      col == IF Mutant = "patchorder" THEN (l \div (Ww \div pw)) * pw + b ELSE (l % lw) * pw + b
  IN row * Ww + col + 1
PatchSeq(Hh, Ww, ph, pw) == [t \in 1..(Hh * Ww) |-> PatchSrc(t - 1, Ww, ph, pw)]
\* the inverse rearrangement applied to an arbitrary patch sequence
UnpatchSeq(seq, Hh, Ww, ph, pw) ==
  [t \in 1..(Hh * Ww) |->
     LET r == (t - 1) \div Ww
         c == (t - 1) % Ww
         lw == Ww \div pw
         l == (r \div ph) * lw + (c \div pw)
     IN seq[l * ph * pw + (r % ph) * pw + (c % pw) + 1]]
Identity(n) == [t \in 1..n |-> t]
\* shuffle: patch k of the output is patch perm[k] of the input (perm 1-based sequence of 0-based positions)
ShuffleSeq(seq, perm, psz) == [t \in 1..Len(seq) |-> seq[perm[((t - 1) \div psz) + 1] * psz + ((t - 1) % psz) + 1]]
IsPerm(perm, n) == Len(perm) = n /\ {perm[q] : q \in 1..n} = 0..(n - 1)
\* un-shuffle by hand with the recorded permutation
UnshuffleSeq(seq, perm, psz) ==
  [t \in 1..Len(seq) |->
     LET l == (t - 1) \div psz
         k == CHOOSE q \in 1..Len(perm) : perm[q] = l
     IN seq[(k - 1) * psz + ((t - 1) % psz) + 1]]

(* ===================== descriptive part: the machine ==================== *)
NoRes == [st |-> "none"]
Refuse == [st |-> "refuse"]
Escape == [st |-> "raise"]       \* an exception that is not a refusal of the component's own making

InitWith(c) == /\ cfg = c /\ pc = "start" /\ loc = [a |-> 0] /\ res = NoRes
Done(r) == /\ res' = r /\ pc' = "done" /\ loc' = [a |-> 0] /\ UNCHANGED cfg
Goto(p, l) == /\ pc' = p /\ loc' = l /\ UNCHANGED <<cfg, res>>

Geom(c) == PadGeom(c.H, c.W, c.pl, c.pt, c.pr, c.pb, c.pin, c.th, c.tw)
GS == IF Mutant = "guard" THEN 1 ELSE 0      \* original tree: `h + 1 < th`
DS == IF Mutant = "draw" THEN 1 ELSE 0       \* off-by-one draw range

(* ---- rc / trc: KDRandomCrop.get_params on the padded extent (h2, w2) ---- *)
\* the set of answers of one get_params call: refusal, escape (numpy rejects an empty range) or windows
CropRefuses(c) == LET g == Geom(c) IN g.h2 + GS < c.th \/ g.w2 + GS < c.tw
CropSame(c) == LET g == Geom(c) IN g.w2 = c.tw /\ g.h2 = c.th
CropEscapes(c) == LET g == Geom(c) IN ~CropSame(c) /\ (g.h2 - c.th + DS < 0 \/ g.w2 - c.tw + DS < 0)
CropDraws(c) == LET g == Geom(c) IN
                  IF CropSame(c) THEN {<<0, 0, g.h2, g.w2>>}
                  ELSE {<<i, j, c.th, c.tw>> : i \in 0..(g.h2 - c.th + DS), j \in 0..(g.w2 - c.tw + DS)}

RcStart == /\ pc = "start" /\ cfg.k \in {"rc", "trc"}
           /\ Goto("guard", loc)                        \* _pad_image: the padded extent is Geom(cfg)
RcGuard == /\ pc = "guard"
           /\ IF CropRefuses(cfg) THEN Done(Refuse)
              ELSE IF CropEscapes(cfg) THEN Done(Escape)
              ELSE Goto("draw", loc)
RcDraw == /\ pc = "draw" /\ cfg.k = "rc"
          /\ \E b \in CropDraws(cfg) : Done([st |-> "ok", box |-> b, oh |-> cfg.th, ow |-> cfg.tw])

\* KDTwoRandomCrop: first window, then up to `tries` further draws until the overlap is inside [omin, omax]
TrcFirst == /\ pc = "draw" /\ cfg.k = "trc"
            /\ \E b \in CropDraws(cfg) : Goto("try", [a |-> 0, b0 |-> b])
OverlapOK(c, b0, b1) == LET o == IoU(b0, b1) IN RLe(c.omin, o) /\ RLe(o, c.omax)
TrcTry == /\ pc = "try"
          /\ \E b \in CropDraws(cfg) :
               IF OverlapOK(cfg, loc.b0, b)
                 THEN Done([st |-> "ok", box |-> loc.b0, box1 |-> b, oot |-> FALSE, t |-> loc.a])
               ELSE IF loc.a + 1 >= cfg.tries
                 THEN Done([st |-> "ok", box |-> loc.b0, box1 |-> b, oot |-> TRUE, t |-> loc.a + 1])
               ELSE Goto("try", [loc EXCEPT !.a = @ + 1])

(* ---- rrc: KDRandomResizedCrop.get_params ---- *)
RrcStart == /\ pc = "start" /\ cfg.k = "rrc" /\ Goto("attempt", [a |-> 0])
\* one attempt: (w, h) are whatever the float arithmetic gave; accepted iff 0 < w <= W and 0 < h <= H
RrcAttempt ==
  /\ pc = "attempt" /\ loc.a < Tries
  /\ \E w \in 0..(cfg.W + 1), h \in 0..(cfg.H + 1) :
       IF 0 < w /\ w <= cfg.W /\ 0 < h /\ h <= cfg.H
         THEN \E i \in 0..(cfg.H - h + DS), j \in 0..(cfg.W - w + DS) :
                Done([st |-> "ok", box |-> <<i, j, h, w>>, fb |-> FALSE])
         ELSE Goto("attempt", [a |-> loc.a + 1])
\* central-crop fallback with the ratio bounds as exact rationals; the repaired tree clamps the rounded extent to >= 1
Clamp1(x) == IF Mutant = "noclamp" THEN x ELSE Max(1, x)
FallbackBox(Hh, Ww, rmin, rmax) ==
  LET hw == IF Ww * rmin[2] < rmin[1] * Hh                         \* in_ratio < min(ratio)
              THEN <<Clamp1(RoundHE(Ww * rmin[2], rmin[1])), Ww>>     \* h = round(w / min(ratio))
            ELSE IF Ww * rmax[2] > rmax[1] * Hh                    \* in_ratio > max(ratio)
              THEN <<Hh, Clamp1(RoundHE(Hh * rmax[1], rmax[2]))>>     \* w = round(h * max(ratio))
            ELSE <<Hh, Ww>>
  IN <<(Hh - hw[1]) \div 2, (Ww - hw[2]) \div 2, hw[1], hw[2]>>
RrcFallback ==
  /\ pc = "attempt" /\ loc.a = Tries
  /\ Done([st |-> "ok", box |-> FallbackBox(cfg.H, cfg.W, cfg.rmin, cfg.rmax), fb |-> TRUE])

(* ---- er: KDRandomErasing.forward ---- *)
ErStart == /\ pc = "start" /\ cfg.k = "er"
           /\ \E n \in (IF cfg.cmin = cfg.cmax THEN {cfg.cmin} ELSE cfg.cmin..(cfg.cmax - 1)) :
                Goto("rect", [a |-> 0, n |-> n, b |-> 0, erased |-> {}, oob |-> FALSE])
ES == IF Mutant = "erase" THEN 1 ELSE 0
ErAttempt ==
  /\ pc = "rect" /\ loc.b < loc.n /\ loc.a < Tries
  /\ \E h \in 0..(cfg.H + 1), w \in 0..(cfg.W + 1) :
       IF w < cfg.W /\ h < cfg.H
         THEN \E top \in 0..(cfg.H - h + ES), left \in 0..(cfg.W - w + ES) :
                Goto("rect", [loc EXCEPT !.a = 0, !.b = @ + 1, !.oob = (@ \/ top + h > cfg.H \/ left + w > cfg.W),
                                         !.erased = @ \cup ((top..(top + h - 1)) \X (left..(left + w - 1)))])
         ELSE Goto("rect", [loc EXCEPT !.a = @ + 1])
ErSkip == /\ pc = "rect" /\ loc.b < loc.n /\ loc.a = Tries
          /\ Goto("rect", [loc EXCEPT !.a = 0, !.b = @ + 1])
ErDone == /\ pc = "rect" /\ loc.b = loc.n
          /\ Done([st |-> "ok", erased |-> loc.erased, n |-> loc.n, oob |-> loc.oob])

(* ---- sa: KDSpecAugment._mask_along_axis on an axis of length n with mask_param mp ---- *)
SaMask ==
  /\ pc = "start" /\ cfg.k = "sa"
  /\ IF cfg.mp < 1 THEN Done([st |-> "ok", mask |-> {}, vl |-> 0])
     ELSE \E r1 \in 0..(Q - 1), r2 \in 0..(Q - 1) :
            LET vl == (r1 * cfg.mp) \div Q                                  \* value.long()
                start == Trunc(r2 * (cfg.n * Q - r1 * cfg.mp), Q * Q)       \* (r2 * (n - value)).long()
                end == start + vl
                lastIn == IF Mutant = "maskend" THEN end ELSE end - 1       \* mask = start <= t < end
            IN IF ~(end - start < cfg.mp) THEN Done(Refuse)                 \* the code's own assert
               ELSE Done([st |-> "ok", mask |-> {t \in 0..(cfg.n - 1) : start <= t /\ t <= lastIn}, vl |-> vl])

(* ---- sc: KDSemsegRandomCrop ---- *)
ScDraw ==
  /\ pc \in {"start", "redraw"} /\ cfg.k = "sc"
  /\ \E top \in 0..(Max(0, cfg.H - cfg.th) + DS), left \in 0..(Max(0, cfg.W - cfg.tw) + DS) :
       LET b == <<top, left, Min(cfg.H, cfg.th), Min(cfg.W, cfg.tw)>>
           a == IF pc = "start" THEN 0 ELSE loc.a
       IN \/ Done([st |-> "ok", box |-> b])                      \* category ratio satisfied (or not used)
          \/ /\ cfg.loop /\ a < Tries /\ Goto("redraw", [a |-> a + 1])    \* one category dominates: draw again

(* ---- sp: KDSemsegPad ---- *)
SpPad ==
  /\ pc = "start" /\ cfg.k = "sp"
  /\ LET padh == Max(0, cfg.th - cfg.H)
         padw == Max(0, cfg.tw - cfg.W)
         top == padh \div 2
         bot == IF padh % 2 = 1 /\ Mutant # "padodd" THEN top + 1 ELSE top
         left == padw \div 2
         right == IF padw % 2 = 1 /\ Mutant # "padodd" THEN left + 1 ELSE left
     IN Done([st |-> "ok", top |-> top, left |-> left, oh |-> cfg.H + top + bot, ow |-> cfg.W + left + right])

(* ---- sr: KDSemsegRandomResize with ratio = cfg.ratio (rational) ---- *)
\* smallest_scale = min(long / max(h, w), short / min(h, w)) with (long, short) = (max, min)(base) * ratio
SrScale(c) == ScaleOf(c.bh, c.bw, c.H, c.W, c.ratio)
SrResize ==
  /\ pc = "start" /\ cfg.k = "sr"
  /\ LET s == SrScale(cfg)
     IN Done([st |-> "ok", oh |-> Clamp1(RoundHE(cfg.H * s[1], s[2])), ow |-> Clamp1(RoundHE(cfg.W * s[1], s[2]))])

(* ---- mc: KDSemsegOverlappedMultiCrop (overlap 0.5): row / column loops ---- *)
McStart == /\ pc = "start" /\ cfg.k = "mc"
           /\ IF cfg.H % cfg.th # 0 \/ cfg.W % cfg.tw # 0 \/ cfg.th % 2 # 0 \/ cfg.tw % 2 # 0
                THEN Done(Refuse)                           \* the component's own asserts
              ELSE Goto("mcloop", [a |-> 0, i |-> 0, j |-> 0, crops |-> <<>>])
McCrop ==
  /\ pc = "mcloop"
  /\ LET oh == cfg.th \div 2
         ow == cfg.tw \div 2
         rows == 1 + (cfg.H - cfg.th) \div oh
         cols == 1 + (cfg.W - cfg.tw) \div ow
     IN IF loc.i = rows THEN Done([st |-> "ok", crops |-> loc.crops])
        ELSE LET cr == <<loc.i * oh, loc.j * ow, cfg.th, cfg.tw>>
                 nj == IF loc.j + 1 = cols THEN 0 ELSE loc.j + 1
                 ni == IF loc.j + 1 = cols THEN loc.i + 1 ELSE loc.i
             IN Goto("mcloop", [loc EXCEPT !.i = ni, !.j = nj, !.crops = Append(@, cr)])

(* ---- pi: patchify, shuffle with a recorded permutation, un-shuffle, unpatchify ---- *)
PiCompute ==
  /\ pc = "start" /\ cfg.k = "pi"
  /\ IF cfg.H % cfg.ph # 0 \/ cfg.W % cfg.pw # 0 THEN Done(Refuse)
     ELSE LET seq == PatchSeq(cfg.H, cfg.W, cfg.ph, cfg.pw)
              sh == ShuffleSeq(seq, cfg.perm, cfg.ph * cfg.pw)
          IN Done([st |-> "ok", seq |-> seq, shuf |-> sh,
                   back |-> UnpatchSeq(UnshuffleSeq(sh, cfg.perm, cfg.ph * cfg.pw), cfg.H, cfg.W, cfg.ph, cfg.pw)])

Next == \/ RcStart \/ RcGuard \/ RcDraw \/ TrcFirst \/ TrcTry
        \/ RrcStart \/ RrcAttempt \/ RrcFallback
        \/ ErStart \/ ErAttempt \/ ErSkip \/ ErDone
        \/ SaMask \/ ScDraw \/ SpPad \/ SrResize \/ McStart \/ McCrop \/ PiCompute
=============================================================================
