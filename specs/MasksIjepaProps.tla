--------------------------- MODULE MasksIjepaProps ---------------------------
(***************************************************************************)
(* Model-checking harness for MasksIjepa.tla.  The configuration (grid,    *)
(* number of predictor / encoder masks, batch size, min_keep, tries) is    *)
(* chosen in Init / Configure from a bounded grid; block sizes are chosen  *)
(* when a seed (step) is first used.  Up to MaxCalls calls are made, on    *)
(* one collator or on several (NewInstance).  TLC checks the I-JEPA        *)
(* clauses of Masks.tla on every output and the algorithm's invariants.    *)
(***************************************************************************)
EXTENDS MasksIjepa

CONSTANTS MaxH, MaxW, MaxCells, MaxP, MaxE, MaxB, MaxKeep, MaxT, MaxCalls
VARIABLES configured
pvars == <<jvars, configured>>

PInit == /\ \E H \in 2..MaxH, W \in 2..MaxW :
              /\ H * W <= MaxCells
              /\ JInitWith([H |-> H, W |-> W, P |-> 1, E |-> 1, B |-> 1, minKeep |-> 0, T |-> 1])
         /\ configured = FALSE
Configure ==
  /\ ~configured /\ configured' = TRUE
  /\ \E P \in 1..MaxP, E \in 1..MaxE, B \in 1..MaxB, mk \in 0..MaxKeep, T \in 1..MaxT :
        jcfg' = [jcfg EXCEPT !.P = P, !.E = E, !.B = B, !.minKeep = mk, !.T = T]
  /\ UNCHANGED <<ctr, sizeAt, phase, smp, preds, encs, tries, relaxed, out, calls, ncalls>>
Keep == UNCHANGED configured
PNewInstance == configured /\ NewInstance /\ Keep
PBeginCall == configured /\ ncalls < MaxCalls /\ BeginCall /\ Keep
PSamplePred == configured /\ SamplePred /\ Keep
PEncReject == configured /\ EncReject /\ Keep
PEncAccept == configured /\ EncAccept /\ Keep
PCollate == configured /\ Collate /\ Keep
\* reachability probes: copies of an action with an extra guard (no new states); `-coverage 1' shows whether the
\* guarded situation occurs at all, the driver fails (exit 2) if one of them is never taken
Overlaps(o) == \E b \in 1..jcfg.B : \E e \in 0..(jcfg.E - 1), p \in 0..(jcfg.P - 1) :
                  Range(o.enc[e * jcfg.B + b]) \cap Range(o.pred[p * jcfg.B + b]) # {}
ProbeInDomain == PCollate /\ InDomain(CallCfg(Sz))           \* the disjointness claim is not vacuous
ProbeRelaxed == PCollate /\ relaxed                          \* the relaxation does trigger outside the domain
ProbeOverlap == PCollate /\ Overlaps(out')                   \* ... and then encoder and predictor masks do intersect
ProbeCut == PCollate /\ \E b \in 1..jcfg.B, e \in 1..jcfg.E : Cardinality(encs[b][e]) > Len(out'.enc[1])
ProbeSeedReused == PBeginCall /\ \E s \in sizeAt : s.step = ctr + 1     \* a step value is used by a second instance
PNext == Configure \/ PNewInstance \/ PBeginCall \/ PSamplePred \/ PEncReject \/ PEncAccept \/ PCollate
         \/ ProbeInDomain \/ ProbeRelaxed \/ ProbeOverlap \/ ProbeCut \/ ProbeSeedReused
PSpec == PInit /\ [][PNext]_pvars /\ WF_pvars(PSamplePred \/ PEncReject \/ PEncAccept \/ PCollate)

(* ------------------------- normative clauses on the output ------------------------- *)
IsOut == phase = "done"
NC == CallCfg(Sz)
C17_J_Layout == IsOut => J_Layout(NC, jcfg.B, out.enc, out.pred)
C17_J_InRange == IsOut => J_InRange(NC, out.enc) /\ J_InRange(NC, out.pred)
C17_J_SortedDupFree == IsOut => J_SortedDupFree(out.enc) /\ J_SortedDupFree(out.pred)
C17_J_PredRect == IsOut => J_PredRect(NC, out.pred)
C17_J_PredCommonSize == IsOut => J_PredCommonSize(NC, out.pred)
C17_J_Disjoint == IsOut => J_Disjoint(NC, jcfg.B, out.enc, out.pred)
C17_J_EncCommonLen == IsOut => J_EncCommonLen(NC, out.enc)
\* block sizes depend only on the step counter: equal step => equal sizes, over all calls of all instances
C17_J_StepSizes == \A c1, c2 \in calls : SameStepSameSizes(c1.step, c1, c2.step, c2)
\* ... and the sizes are what a caller can see: the predictor rectangle, and an encoder block of that size explains
\* every encoder row (the form in which MasksTrace.tla evaluates the clause on recorded outputs)
C17_J_SizesObservable ==
  IsOut =>
    /\ \A r \in 1..Len(out.pred) : RectH(out.pred[r], jcfg.W) = Sz.ph /\ RectW(out.pred[r], jcfg.W) = Sz.pw
    /\ \A r \in 1..Len(out.enc) :
         \E top \in 0..(jcfg.H - Sz.eh), left \in 0..(jcfg.W - Sz.ew), sub \in SUBSET (0..(jcfg.P - 1)) :
            EncFromBlock(NC, jcfg.B, out.enc[r], ((r - 1) % jcfg.B) + 1, out.pred, Sz.eh, Sz.ew, top, left, sub)
(* ------------------------- descriptive invariants ---------------------------------- *)
C17_TriesBound == configured => TriesBound
C17_NoRelaxInDomain == configured => NoRelaxInDomain
C17_KeepsEnough == KeepsEnough
Terminates == []<>(phase \in {"idle", "done"})
=============================================================================
