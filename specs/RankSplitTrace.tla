---------------------------- MODULE RankSplitTrace ----------------------------
(***************************************************************************)
(* Trace validation for RankSplit.tla (C12).  TRACE_FILE holds             *)
(*   {"traces": [{"id": n, "cfg": {sampler, kind, E, W, drop, rep, distinct,*)
(*                                 shuffle}, "ev": [...]}]}                *)
(* recorded from the REAL samplers (harness/drivers/samplers.py): for one  *)
(* sampler configuration and seed, W sampler objects (one per rank) plus a *)
(* single-rank object are built; every event is one epoch observation      *)
(*   {a:"epoch", e, lens:[len(S_r)], streams:[list(S_r)], g1: list(S_1of1)}*)
(* after set_epoch(e) - on the same objects, or on freshly built ones.     *)
(* {a:"exc", what} records an exception that escaped from the sampler.     *)
(*                                                                         *)
(* Per recorded epoch:                                                     *)
(*   TLoad     starts the descriptive machine of RankSplit.tla on the      *)
(*             documented configuration and the observed global draw,      *)
(*   machine   steps (ranks in rank order - the rank streams do not depend *)
(*             on the interleaving, which RankSplitProps checks),          *)
(*   ObsEpoch  consumes the event: evaluates the NORMATIVE operators of    *)
(*             RankSplit.tla on the OBSERVED values (verdict) and compares *)
(*             the machine's rank streams with the recorded ones           *)
(*             (Desc_Conforms: given C12_EqualLength, C12_LenDocumented    *)
(*             and C12_SingleDraw the streams are uniquely determined, so  *)
(*             this clause can only fail together with a normative one or  *)
(*             if the model itself were wrong).                            *)
(* `hist' remembers the draw of every epoch seen so far: "equal (seed,     *)
(* epoch) reproduces it" and "set_epoch changes the draw" are evaluated    *)
(* against all earlier epochs of the trace.                                *)
(*   cfg.kind  "dist" | "cut" | "rand"  (see RankSplit.tla)                *)
(*   cfg.E     documented number of entries of the global draw             *)
(*   cfg.distinct  the draw is without replacement (runs are distinct)     *)
(*   cfg.shuffle   the sampler shuffles (set_epoch must change the draw)   *)
(***************************************************************************)
EXTENDS RankSplit, Json, IOUtils, TLCExt

VARIABLES tid, l, hist, oFail
tvars == <<vars, tid, l, hist, oFail>>

Traces == JsonDeserialize(IOEnv.TRACE_FILE).traces
ASSUME TLCSet(1, {}) /\ TLCSet(2, {})

Ev(i) == Traces[tid].ev[i]
NEv == Len(Traces[tid].ev)
C == Traces[tid].cfg

\* "set_epoch changes the draw" is decided only where a coincidence of two uniformly shuffled draws has
\* probability < 2^-60: at least 20 distinct values in the draw (20! > 2^61)
MinDistinct == 20

DocCfg == [kind |-> C.kind, N |-> C.E, W |-> C.W, drop |-> C.drop]
\* the machine's configuration for one recorded epoch: the generator's output is read off the observed draw
\* (run k of the draw starts at slot (k-1)*rep + 1)
MCfg(g1) ==
  [kind |-> C.kind, N |-> C.E, W |-> C.W, drop |-> C.drop, rep |-> C.rep,
   pi |-> [k \in 1..C.E |-> IF (k - 1) * C.rep + 1 <= Len(g1) THEN g1[(k - 1) * C.rep + 1] ELSE -1]]

TInit ==
  /\ tid \in 1..Len(Traces)
  /\ l = 1
  /\ hist = <<>>
  /\ oFail = {}
  /\ cfg = [kind |-> "rand", N |-> 0, W |-> 1, drop |-> FALSE, rep |-> 1, pi |-> <<>>]
  /\ G = <<>> /\ padded = <<>> /\ tmp = <<>>
  /\ pc = "idle"
  /\ cur = <<0>> /\ out = <<<<>>>> /\ fin = <<FALSE>>
  /\ err = FALSE

TLoad ==
  /\ pc = "idle" /\ l <= NEv /\ Ev(l).a = "epoch"
  /\ Load(MCfg(Ev(l).g1))
  /\ UNCHANGED <<tid, l, hist, oFail>>
\* the lowest unfinished rank runs
Lowest(r) == ~fin[r] /\ \A q \in 1..(r - 1) : fin[q]
TMachine ==
  /\ \/ DrawSlot \/ DrawDone \/ Decide \/ PadHead \/ PadMulCopy \/ PadMulDone \/ PadCat \/ CutList \/ AllDone
     \/ \E r \in Ranks : Lowest(r) /\ (Emit(r) \/ Finish(r))
  /\ UNCHANGED <<tid, l, hist, oFail>>

Clause(name, holds) == IF holds THEN {} ELSE {name}

ObsEpoch ==
  /\ pc = "done" /\ l <= NEv /\ Ev(l).a = "epoch"
  /\ LET e == Ev(l)
         W == C.W
         okLen == EqualLength(e.streams, e.lens, W)
         Lr == IF Len(e.lens) > 0 THEN e.lens[1] ELSE 0
         draw == IF okLen THEN Interleave(e.streams, W, Lr) ELSE <<>>
         same == {i \in 1..Len(hist) : hist[i].e = e.e}
         other == {i \in 1..Len(hist) : hist[i].e # e.e}
     IN /\ hist' = Append(hist, [e |-> e.e, draw |-> draw, g1 |-> e.g1])
        /\ oFail' =
             Clause("C12_EqualLength", okLen)
             \cup (IF ~okLen THEN {} ELSE
                   Clause("C12_LenDocumented", Lr = LenOf(DocCfg) /\ Len(e.g1) = C.E)
                   \cup Clause("C12_SplitEvenly", SplitEvenly(Pads(DocCfg), Len(e.g1), W, Lr))
                   \cup Clause("C12_SingleDraw", SingleDraw(e.streams, W, Lr, e.g1))
                   \cup Clause("C12_RepeatRuns", RepeatRuns(e.g1, C.rep, C.distinct))
                   \cup Clause("C12_Reproducible", \A i \in same : hist[i].draw = draw /\ hist[i].g1 = e.g1)
                   \cup Clause("C12_EpochChanges",
                               (C.shuffle /\ Cardinality(Range(draw)) >= MinDistinct)
                                  => \A i \in other : hist[i].draw # draw)
                   \cup Clause("Desc_Conforms", ~err /\ out = e.streams))
  /\ l' = l + 1
  /\ pc' = "idle"
  /\ UNCHANGED <<cfg, G, padded, tmp, cur, out, fin, err, tid>>
ObsExc ==
  /\ pc = "idle" /\ l <= NEv /\ Ev(l).a = "exc"
  /\ oFail' = {"C12_NoError"}
  /\ l' = l + 1
  /\ UNCHANGED <<vars, tid, hist>>
TNext == TLoad \/ TMachine \/ ObsEpoch \/ ObsExc
TSpec == TInit /\ [][TNext]_tvars

Collect ==
  IF oFail # {} THEN TLCSet(2, TLCGet(2) \cup {<<Traces[tid].id, l - 1, oFail>>})
  ELSE IF l = NEv + 1 /\ pc = "idle" THEN TLCSet(1, TLCGet(1) \cup {Traces[tid].id})
  ELSE TRUE
Constraint == Collect /\ oFail = {}
Report == PrintT(<<"ACCEPTED", TLCGet(1)>>) /\ PrintT(<<"REJECTED", TLCGet(2)>>)
=============================================================================
