SPECIFICATION PSpec
CONSTANTS
  D = 4
  MaxMembers = 1
  MaxScales = 2
  MaxScalesComp = 2
  Variant = "shipped"
  Fine = FALSE
  CompFull = FALSE
INVARIANT C15_RestoreAtOne
CHECK_DEADLOCK FALSE
