-------------------------- MODULE InterleavedIndMC --------------------------
(* Apalache wrapper: the geometry constants range over N <= MaxGeom; admissible combinations are selected by GeomOK,
   which is a conjunct of IndInv and of IndInit *)
EXTENDS InterleavedInd
ConstInit == N \in Nat /\ B \in Nat /\ DU \in Nat
IndInit == GeomOK /\ Init
\* "any state satisfying IndInv" as an initial predicate (Apalache needs one membership per variable first)
IndStart == /\ epoch \in Nat /\ update \in Nat /\ sample \in Nat /\ sInUpd \in Nat /\ sInEp \in Nat /\ sAtLast \in Nat
            /\ pc \in {"announce", "main", "close", "after"}
            /\ IndInv
\* negative control: the resume defect (sample_at_last_update restarting at 0) must break inductiveness
AfterUpdateMut ==
  /\ pc = "after"
  /\ sAtLast' = 0
  /\ pc' = IF sInEp = SPE THEN "announce" ELSE "main"
  /\ UNCHANGED <<epoch, update, sample, sInUpd, sInEp>>
NextMut == Announce \/ EmitMain \/ CloseUpdate \/ AfterUpdateMut
\* outside the admissible geometries nothing is claimed
Inv == GeomOK => IndInv
=============================================================================
