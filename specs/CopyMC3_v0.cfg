SPECIFICATION Spec
CONSTANTS
  Files <- MCFiles3
  Dirs <- MCDirs3
  DirOf <- MCDirOf3
  Proto = "v0"
  MaxCrashes = 4
INVARIANT TypeOK
INVARIANT ReturnOK
INVARIANT NotUsable
INVARIANT Truthful
INVARIANT EndMeansComplete
PROPERTY NeverRedo
PROPERTY UserKept
PROPERTY Terminates
CHECK_DEADLOCK FALSE
