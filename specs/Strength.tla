------------------------------- MODULE Strength -------------------------------
(***************************************************************************)
(* C15, first half: strength scaling (KDTransform.scale_strength).         *)
(*                                                                         *)
(* NORMATIVE PART - the clauses of the statement as operators over         *)
(* observation vectors (sequences of integers: parameter leaves, or        *)
(* sampling ranges <<lo1, hi1, lo2, hi2, ...>>).  They are used            *)
(*   - by StrengthProps.tla on the state of the descriptive model below,   *)
(*   - by StrengthTrace.tla on values observed on the real transforms.     *)
(*                                                                         *)
(*   RestoresAtOne   scaling by 1 restores exactly the constructed ranges  *)
(*   Degenerate /    scaling by 0 collapses every range (to one point) ..  *)
(*   AtWeakest       .. which is its weakest setting                       *)
(*   BetweenEnds     every bound lies between its weakest and constructed  *)
(*                   value                                                 *)
(*   MonotonePair    f1 <= f2: the bound at f1 lies between its value at 0 *)
(*                   and its value at f2 (moves monotonically)             *)
(*   (no compounding: state after Scale(f) is a function of f alone; that  *)
(*    is a property of histories and is stated where the history lives)    *)
(*                                                                         *)
(* DESCRIPTIVE PART - the arithmetic of every _scale_strength method of    *)
(* the package, one operator per parameter family, transcribed from        *)
(*   kd_color_jitter.py (center1, hue)    kd_gaussian_blur_{pil,tv}.py     *)
(*   kd_solarize.py (solarint/solarfloat) kd_random_grayscale.py (prob)    *)
(*   kd_random_rotation.py (rot)          utils/magnitude_sampler.py (mag) *)
(* and the forwarding loop of KDComposeTransform._scale_strength.          *)
(* A factor is k/d.  Values are integers in a unit system u:               *)
(*   u.one  = 1.0      u.half = 0.5      u.top = 256 (solarize, PIL)       *)
(*   u.q    = 1 (quantum of the int() truncation of the PIL threshold)     *)
(* Variant selects the transcription:                                      *)
(*   "fixed"    the repaired tree                                          *)
(*   "shipped"  the original tree: upper colour bounds mirrored            *)
(*              (1 + (1 - ub) f), hue upper bound max(0.5, ..), rotation   *)
(*              asserts lb = ub                                            *)
(*   "compound" scales the CURRENT value instead of the constructed one    *)
(*   "nofwd"    the composition forwards to its first member only          *)
(* The last three are negative controls: TLC must refute them.             *)
(***************************************************************************)
EXTENDS Integers, Sequences, FiniteSets, TLC

(* ------------------------------ normative ------------------------------ *)
Abs(x) == IF x < 0 THEN -x ELSE x
Min2(a, b) == IF a < b THEN a ELSE b
Max2(a, b) == IF a < b THEN b ELSE a
Near(a, b, tol) == Abs(a - b) <= tol
NearSeq(s, t, tol) == Len(s) = Len(t) /\ \A i \in 1..Len(s) : Near(s[i], t[i], tol)
Between(a, x, b, tol) == Min2(a, b) - tol <= x /\ x <= Max2(a, b) + tol

\* scaling by 1 restores exactly the ranges the transform was constructed with
RestoresAtOne(cons, cur, tol) == NearSeq(cur, cons, tol)

\* ranges = <<lo1, hi1, lo2, hi2, ...>>
NRanges(r) == Len(r) \div 2
\* scaling by 0 collapses every range ...
Degenerate(r, tol) == \A j \in 1..NRanges(r) : Near(r[2 * j - 1], r[2 * j], tol)
\* ... to its weakest setting (weak = the set of weakest settings the documentation of the transform names)
AtWeakest(r, weak, tol) == \A j \in 1..NRanges(r) : \E w \in weak : Near(r[2 * j - 1], w, tol) /\ Near(r[2 * j], w, tol)

\* every bound lies between its weakest value (the one at factor 0) and its constructed value
BetweenEnds(zero, cur, cons, tol) ==
  /\ Len(cur) = Len(zero) /\ Len(cur) = Len(cons)
  /\ \A i \in 1..Len(cur) : Between(zero[i], cur[i], cons[i], tol)
\* f1 <= f2: every bound at f1 lies between its value at 0 and its value at f2
MonotonePair(zero, atlow, athigh, tol) ==
  /\ Len(atlow) = Len(zero) /\ Len(athigh) = Len(zero)
  /\ \A i \in 1..Len(zero) : Between(zero[i], atlow[i], athigh[i], tol)

(* ----------------------------- descriptive ----------------------------- *)
Kinds == {"center1", "hue", "sigma", "solarint", "solarfloat", "prob", "rot", "mag"}
Variants == {"fixed", "shipped", "compound", "nofwd"}

\* x * (k / d); exact whenever d divides x * k
Scaled(x, k, d) == (x * k) \div d

\* the new parameter leaves of one transform: og = constructed leaves, cur = current leaves, factor k/d
Formula(v, u, kind, og, cur, k, d) ==
  LET b == IF v = "compound" THEN cur ELSE og IN
  CASE kind = "center1" ->    \* brightness / contrast / saturation: range around 1, never below 0
         <<Max2(0, u.one - Scaled(u.one - b[1], k, d)),
           IF v = "shipped" THEN u.one + Scaled(u.one - b[2], k, d) ELSE u.one + Scaled(b[2] - u.one, k, d)>>
    [] kind = "hue" ->        \* range around 0 inside [-0.5, 0.5]
         <<Max2(-u.half, Scaled(b[1], k, d)),
           IF v = "shipped" THEN Max2(u.half, Scaled(b[2], k, d)) ELSE Min2(u.half, Scaled(b[2], k, d))>>
    [] kind = "sigma" ->      \* blur: the lower bound stays, the upper bound moves from the lower bound upwards
         <<b[1], b[1] + Scaled(b[2] - b[1], k, d)>>
    [] kind = "solarint" ->   \* int(256 - (256 - og) * f)
         <<((u.top * d - (u.top - b[1]) * k) \div (d * u.q)) * u.q>>
    [] kind = "solarfloat" -> \* 1 - (1 - og) * f
         <<u.one - Scaled(u.one - b[1], k, d)>>
    [] kind = "prob" ->       \* p = og_p * f
         <<Scaled(b[1], k, d)>>
    [] kind = "rot" ->        \* degrees = og * f
         <<Scaled(b[1], k, d), Scaled(b[2], k, d)>>
    [] kind = "mag" ->        \* magnitude, std, min, max: all multiplied by f
         <<Scaled(b[1], k, d), Scaled(b[2], k, d), Scaled(b[3], k, d), Scaled(b[4], k, d)>>

\* `assert self.og_degree_lb == self.og_degree_ub` of the original KDRandomRotation._scale_strength
Refuses(v, kind, og) == v = "shipped" /\ kind = "rot" /\ og[1] # og[2]

\* the weakest setting of every family, from the documentation of the classes (normative table):
\* colour factors 1 = unchanged image, hue shift 0, blur sigma = its lower bound, solarize threshold 256 / 1.0 = no
\* pixel inverted, probability 0, rotation 0 degrees, magnitude 0
Weakest(u, kind, og) ==
  CASE kind = "center1" -> <<u.one, u.one>>
    [] kind = "hue" -> <<0, 0>>
    [] kind = "sigma" -> <<og[1], og[1]>>
    [] kind = "solarint" -> <<u.top>>
    [] kind = "solarfloat" -> <<u.one>>
    [] kind = "prob" -> <<0>>
    [] kind = "rot" -> <<0, 0>>
    [] kind = "mag" -> <<0, 0, 0, 0>>

\* which leaves of a family are the two ends of one sampling range (for Degenerate / AtWeakest on model state)
RangeOf(kind, leaves) ==
  CASE kind \in {"center1", "hue", "sigma", "rot"} -> leaves
    [] kind \in {"solarint", "solarfloat", "prob"} -> <<leaves[1], leaves[1]>>
    [] kind = "mag" -> <<leaves[3], leaves[1], leaves[1], leaves[4], leaves[1] - leaves[2], leaves[1] + leaves[2]>>
=============================================================================
