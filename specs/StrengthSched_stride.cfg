SPECIFICATION SSpec
CONSTANTS
  MaxW = 3
  MaxBS = 2
  MaxNB = 4
  MaxE = 1
  FullOnly = TRUE
  Variant = "stride"
  Dispatch = "roundrobin"
INVARIANT C15_ScheduleAtBatch
CHECK_DEADLOCK FALSE
