---- MODULE CopyTraceMC_L5f ----
EXTENDS CopyTrace
MCFiles == {"a", "b", "c", "d", "e"}
MCDirs == {}
MCDirOf == "a" :> "." @@ "b" :> "." @@ "c" :> "." @@ "d" :> "." @@ "e" :> "."
====
