CONSTANTS
  Proto = "v1"
  Seeded = TRUE
SPECIFICATION ObsSpec
CONSTRAINT ObsConstraint
POSTCONDITION Report
CHECK_DEADLOCK FALSE
