------------------------------ MODULE MixWrapper ------------------------------
(***************************************************************************)
(* KDMixWrapper.getitem_xclass (kappadata/wrappers/sample_wrappers/        *)
(* kd_mix_wrapper.py) reached through ModeWrapper with the request forms   *)
(* 'x class' / 'class x' (one fused call), 'x', 'class'.                   *)
(*                                                                         *)
(* NORMATIVE PART: module MixWrapperNorm (clauses of C11 over              *)
(* observations).                                                          *)
(* DESCRIPTIVE PART (here): one action per statement group of              *)
(* getitem_xclass - the draw (apply, partner, lambda; a function of        *)
(* seed + idx when a seed is set, fresh otherwise), the three-way branch   *)
(* (untouched / cutmix -> NotImplementedError / mixup), ONE ACTION PER     *)
(* ITERATION of the pad-or-cut loop over the dimensions including the      *)
(* reversed padding-list arithmetic of torch.nn.functional.pad, and the    *)
(* in-place mix.  Samples are id-encoded as in MixWrapperNorm (unit vector *)
(* over the samples + the position's coordinates); spatial shapes have     *)
(* ND = 2 dimensions, probabilities and weights are multiples of 1/4.      *)
(* Variant "v1" is the code as written; "padleft" (padding entry one slot  *)
(* early = pads in front), "cuttail" (the cut keeps the END of the         *)
(* partner) and "labelswap" (label mixed with 1 - lambda) are mutants kept *)
(* as negative controls.                                                   *)
(***************************************************************************)
EXTENDS MixWrapperNorm

CONSTANT Variant

VARIABLES cfg,      \* [N, K, cls, shp, fshp, p1, seeded, cutmix, S, Tol, totalP, cutP, unify]
          seedTab,  \* index -> the draw that seed + idx yields (<<>> until first used)
          pc, req,  \* req = [i, form]
          draw,     \* [apply, idx2, w]
          x, x2,    \* coefficient arrays: [coordinates -> vector over samples]
          sh2,      \* current shape of x2
          deltas, d,\* the pad-or-cut loop
          y,        \* label vector
          nx, nc,   \* loads served by the wrapped dataset during this call
          ret       \* what the caller got for the last request (an observation), or <<>>
vars == <<cfg, seedTab, pc, req, draw, x, x2, sh2, deltas, d, y, nx, nc, ret>>

ND == 2
Coords(sh) == (0..(sh[1] - 1)) \X (0..(sh[2] - 1))
\* raw data vector at a position: e_i over the samples, then the position's own coordinates
ZeroV(c) == [k \in 1..(c.N + ND) |-> 0]
Sample(c, i) == [co \in Coords(c.shp[i]) |->
                   [k \in 1..(c.N + ND) |-> IF k <= c.N THEN (IF k = i THEN c.S ELSE 0) ELSE co[k - c.N] * c.S]]
OneHot(c, i) == [k \in 1..c.K |-> IF k = c.cls[i] THEN c.S ELSE 0]
NoDraw == [apply |-> 0, idx2 |-> 0, w |-> 0]
\* apply in {0, 1/2, 3/4} separates the three branches for total_p in {1/2, 1}, cutmix_p in {0, 1/4};
\* lambda in {1/4, 3/4, 1}: two asymmetric weights and the corner 1.0
Draws(c) == [apply : {0, 2, 3}, idx2 : 1..c.N, w : {1, 3, 4}]
HasX(f) == f \in {"xc", "cx", "x"}
HasC(f) == f \in {"xc", "cx", "c"}

InitWith(c) ==
  /\ cfg = c
  /\ seedTab = [k \in 1..c.N |-> NoDraw]
  /\ pc = "idle"
  /\ req = [i |-> 1, form |-> "xc"]
  /\ draw = NoDraw
  /\ x = <<>> /\ x2 = <<>> /\ sh2 = <<>> /\ deltas = <<>> /\ d = 0 /\ y = <<>>
  /\ nx = 0 /\ nc = 0
  /\ ret = <<>>

\* ModeWrapper[i] with one of the four request forms; x / cls of idx are loaded from the wrapped dataset
Begin(i, form) ==
  /\ pc = "idle"
  /\ req' = [i |-> i, form |-> form]
  /\ x' = Sample(cfg, i) /\ y' = OneHot(cfg, i)
  /\ nx' = 1 /\ nc' = 1
  /\ pc' = "draw"
  /\ ret' = <<>>
  /\ UNCHANGED <<cfg, seedTab, draw, x2, sh2, deltas, d>>

\* rng = default_rng(seed + idx) / default_rng(None); apply = rng.random(); idx2 = rng.integers(len); lamb = rng.beta
DoDraw ==
  /\ pc = "draw"
  /\ IF cfg.seeded /\ seedTab[req.i] # NoDraw
       THEN draw' = seedTab[req.i] /\ seedTab' = seedTab
       ELSE \E dr \in Draws(cfg) :
              /\ draw' = dr
              /\ seedTab' = IF cfg.seeded THEN [seedTab EXCEPT ![req.i] = dr] ELSE seedTab
  /\ pc' = "branch"
  /\ UNCHANGED <<cfg, req, x, x2, sh2, deltas, d, y, nx, nc, ret>>

\* observation of a returned value
RECURSIVE SetToSeq(_)
SetToSeq(Q) == IF Q = {} THEN <<>> ELSE LET q == CHOOSE v \in Q : TRUE IN <<q>> \o SetToSeq(Q \ {q})
\* decoded vector: coefficients, then displacement = coordinate entry - own coordinate * coefficient sum
RECURSIVE SumTo(_, _)
SumTo(q, n) == IF n = 0 THEN 0 ELSE q[n] + SumTo(q, n - 1)
Dec(f, co) == [k \in 1..(cfg.N + ND) |->
                 IF k <= cfg.N THEN f[co][k] ELSE f[co][k] - co[k - cfg.N] * SumTo(f[co], cfg.N)]
PosClasses(f, sh) ==
  { LET P == {co \in Coords(sh) : Dec(f, co) = v} IN
      [vec |-> v, n |-> Cardinality(P),
       lo |-> [dm \in 1..ND |-> CHOOSE r \in 0..sh[dm] : (\E co \in P : co[dm] = r) /\ \A co \in P : co[dm] >= r],
       hi |-> [dm \in 1..ND |-> CHOOSE r \in 0..sh[dm] : (\E co \in P : co[dm] = r - 1) /\ \A co \in P : co[dm] < r]]
    : v \in {Dec(f, co) : co \in Coords(sh)} }
ObsOf(xx, shx, yy) ==
  [a |-> "get", i |-> req.i, form |-> req.form, hasx |-> HasX(req.form), hasc |-> HasC(req.form),
   lab |-> IF HasC(req.form) THEN yy ELSE <<>>,
   pc |-> IF HasX(req.form) THEN SetToSeq(PosClasses(xx, shx)) ELSE <<>>,
   xs |-> IF HasX(req.form) THEN <<cfg.N + ND>> \o shx ELSE <<>>,
   nx |-> nx, nc |-> nc]

\* if apply > self.total_p: return x, one_hot(cls)
Untouched ==
  /\ pc = "branch" /\ draw.apply > cfg.totalP
  /\ ret' = ObsOf(x, cfg.shp[req.i], y)
  /\ pc' = "idle"
  /\ UNCHANGED <<cfg, seedTab, req, draw, x, x2, sh2, deltas, d, y, nx, nc>>

\* idx2 = rng.integers(len(self)); x2, cls2 loaded; deltas = [s - s2 ...]
LoadSecond ==
  /\ pc = "branch" /\ draw.apply <= cfg.totalP
  /\ x2' = Sample(cfg, draw.idx2)
  /\ sh2' = cfg.shp[draw.idx2]
  /\ nx' = nx + 1 /\ nc' = nc + 1
  /\ deltas' = [dm \in 1..ND |-> cfg.shp[req.i][dm] - cfg.shp[draw.idx2][dm]]
  /\ d' = 1
  /\ pc' = IF draw.apply < cfg.cutP THEN "cutmix" ELSE IF cfg.unify THEN "unify" ELSE "assert"
  /\ UNCHANGED <<cfg, seedTab, req, draw, x, y, ret>>

\* use_cutmix: raise NotImplementedError
Refuse ==
  /\ pc = "cutmix"
  /\ ret' = [a |-> "refuse", i |-> req.i, form |-> req.form]
  /\ pc' = "idle"
  /\ UNCHANGED <<cfg, seedTab, req, draw, x, x2, sh2, deltas, d, y, nx, nc>>

\* mixup_unify_shapes_mode is None: assert x.shape == x2.shape   (the model only configures equal shapes then)
AssertShapes ==
  /\ pc = "assert"
  /\ pc' = IF cfg.shp[req.i] = sh2 THEN "mix" ELSE "assertfail"
  /\ UNCHANGED <<cfg, seedTab, req, draw, x, x2, sh2, deltas, d, y, nx, nc, ret>>

\* torch.nn.functional.pad(x2, paddings, value=0): entries (2m, 2m+1) are (before, after) of the m-th dimension
\* counted FROM THE END
PadBefore(P, dm) == LET m == 2 * (ND - dm) + 1 IN IF m <= Len(P) THEN P[m] ELSE 0
PadAfter(P, dm) == LET m == 2 * (ND - dm) + 2 IN IF m <= Len(P) THEN P[m] ELSE 0
FPadShape(sh, P) == [dm \in 1..ND |-> sh[dm] + PadBefore(P, dm) + PadAfter(P, dm)]
FPad(f, sh, P) ==
  [co \in Coords(FPadShape(sh, P)) |->
     IF \A dm \in 1..ND : PadBefore(P, dm) <= co[dm] /\ co[dm] < PadBefore(P, dm) + sh[dm]
       THEN f[<<co[1] - PadBefore(P, 1), co[2] - PadBefore(P, 2)>>] ELSE ZeroV(cfg)]
\* paddings = [0] * ((len(deltas) - i) * 2 - 1) + [delta]        (i = 0-based dimension)
Paddings(i0, delta) ==
  IF Variant = "padleft"
    THEN [m \in 1..((ND - i0) * 2) |-> IF m = (ND - i0) * 2 - 1 THEN delta ELSE 0]
    ELSE [m \in 1..((ND - i0) * 2) |-> IF m = (ND - i0) * 2 THEN delta ELSE 0]
\* x2.index_select(dim=i, index=arange(x.size(i)))
CutShape(sh, dm, size) == [sh EXCEPT ![dm] = size]

\* one iteration of `for i, delta in enumerate(deltas)`
UnifyDim ==
  /\ pc = "unify"
  /\ LET delta == deltas[d] IN
       IF delta = 0 THEN x2' = x2 /\ sh2' = sh2
       ELSE IF delta > 0
         THEN /\ sh2' = FPadShape(sh2, Paddings(d - 1, delta))
              /\ x2' = FPad(x2, sh2, Paddings(d - 1, delta))
         ELSE /\ sh2' = CutShape(sh2, d, cfg.shp[req.i][d])
              /\ x2' = [co \in Coords(sh2') |->
                          IF Variant = "cuttail" THEN x2[[co EXCEPT ![d] = @ - delta]] ELSE x2[co]]
  /\ d' = d + 1
  /\ pc' = IF d = ND THEN "mix" ELSE "unify"
  /\ UNCHANGED <<cfg, seedTab, req, draw, x, deltas, y, nx, nc, ret>>

\* x.mul_(lamb).add_(x2.mul_(1 - lamb)); cls.mul_(lamb).add_(cls2.mul_(1 - lamb)); return x, cls
Mix ==
  /\ pc = "mix"
  /\ LET w == draw.w
         wl == IF Variant = "labelswap" THEN cfg.S - w ELSE w
         xm == [co \in Coords(cfg.shp[req.i]) |->
                  [k \in 1..(cfg.N + ND) |-> (w * x[co][k] + (cfg.S - w) * x2[co][k]) \div cfg.S]]
         ym == [k \in 1..cfg.K |-> (wl * y[k] + (cfg.S - wl) * OneHot(cfg, draw.idx2)[k]) \div cfg.S]
     IN /\ x' = xm /\ y' = ym
        /\ ret' = ObsOf(xm, cfg.shp[req.i], ym)
  /\ pc' = "idle"
  /\ UNCHANGED <<cfg, seedTab, req, draw, x2, sh2, deltas, d, nx, nc>>
=============================================================================
