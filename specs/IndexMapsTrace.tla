---------------------------- MODULE IndexMapsTrace ----------------------------
(***************************************************************************)
(* Trace validation for C02: a real stack of KDSubset-family / KDConcat /  *)
(* KDWrapper layers is built (cfg.pool, same terms as IndexMaps.tla) and   *)
(* every layer is observed through the public API; samples are <<root, i>> *)
(* pairs decoded from the root datasets' x values.  All clauses are        *)
(* evaluated here against the normative denotation Den.                    *)
(***************************************************************************)
EXTENDS IndexMaps, Json, IOUtils, TLCExt

VARIABLES tid, l, failed
tvars == <<vars, tid, l, failed>>

Traces == JsonDeserialize(IOEnv.TRACE_FILE).traces
ASSUME TLCSet(1, {}) /\ TLCSet(2, {})
Ev(j) == Traces[tid].ev[j]
NEv == Len(Traces[tid].ev)
P == Traces[tid].cfg.pool

Pair(x) == <<x[1], x[2]>>
SeqToSet(s) == {s[j] : j \in 1..Len(s)}

ObsFailed(e) ==
  LET den == Den(P, e.p) n == Len(den) IN
    (IF e.len = n THEN {} ELSE {"Len"})
    \cup (IF Len(e.items) = n /\ \A k \in 1..n : Pair(e.items[k]) = den[k] THEN {} ELSE {"ItemMap"})
    \* k = -n .. -1 in that order
    \cup (IF Len(e.negs) = n /\ \A k \in 1..n : Pair(e.negs[k]) = den[k] THEN {} ELSE {"NegativeIndex"})
    \* KDConcatDataset concatenates list-valued bulk results only: an explicit refusal is accepted for non-list roots
    \cup (IF e.garef THEN (IF Traces[tid].cfg.flavor \notin {"list", "listref"} THEN {} ELSE {"GetAllRefused"})
          ELSE IF Len(e.getall) = n /\ \A k \in 1..n : Pair(e.getall[k]) = den[k] THEN {} ELSE {"GetAll"})
    \cup (IF e.helpers THEN {} ELSE {"GetAllHelpers"})
    \cup (IF Len(e.mw) = n /\ \A k \in 1..n : <<e.mw[k][1], e.mw[k][2]>> = den[k] /\ e.mw[k][3] = k - 1
            THEN {} ELSE {"ModeWrapperOnTop"})
    \cup (IF e.root = RootOf(P, e.p) THEN {} ELSE {"RootDataset"})
    \cup (IF e.wrappers = WrappersOf(P, e.p) THEN {} ELSE {"WrapperList"})
    \cup (IF e.lookup THEN {} ELSE {"WrapperLookup"})
    \cup (IF e.attr = RootOf(P, e.p) /\ e.attrf THEN {} ELSE {"AttributeDelegation"})
    \cup (IF e.shape = RootOf(P, e.p) THEN {} ELSE {"ShapeDelegation"})
    \cup (IF SeqToSet(e.disposed) = RootsOf(P, e.p) THEN {} ELSE {"Dispose"})

BalFailed(e) ==
  (IF \A k \in 1..Len(e.items) : Pair(e.items[k]) = BalancedItem(P, e.p, k - 1) THEN {} ELSE {"BalancedRoundRobin"})
  \cup (IF e.lenrefused THEN {} ELSE {"BalancedLenNotRefused"})
  \cup (IF SeqToSet(e.disposed) = RootsOf(P, e.p) THEN {} ELSE {"Dispose"})

TInit == tid \in 1..Len(Traces) /\ l = 1 /\ failed = {} /\ pool = <<>>
TNext ==
  /\ l <= NEv /\ failed = {}
  /\ l' = l + 1
  /\ failed' = CASE Ev(l).a = "obs" -> ObsFailed(Ev(l))
                 [] Ev(l).a = "bal" -> BalFailed(Ev(l))
                 [] OTHER -> {"Exception"}
  /\ UNCHANGED <<vars, tid>>
TSpec == TInit /\ [][TNext]_tvars
Constraint ==
  IF failed # {} THEN TLCSet(2, TLCGet(2) \cup {<<Traces[tid].id, l - 1, failed>>})
  ELSE IF l = NEv + 1 THEN TLCSet(1, TLCGet(1) \cup {Traces[tid].id})
  ELSE TRUE
Report == PrintT(<<"ACCEPTED", TLCGet(1)>>) /\ PrintT(<<"REJECTED", TLCGet(2)>>)
=============================================================================
