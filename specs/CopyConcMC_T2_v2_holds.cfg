SPECIFICATION Spec
CONSTANTS
  Procs <- P2
  Files <- T2Files
  Dirs <- T2Dirs
  DirOf <- T2DirOf
  Progs <- T2Progs
  WipeOrder <- T2WipeOrder
  FileOrder <- T2FileOrder
  Inits <- AllInits
  Proto = "v2"
  MaxCrashes = 1
  MaxRounds = 1
  Serial = FALSE
  SerialFirst = "p1"
  KeepHist = FALSE
INVARIANT TypeOK
INVARIANT Truthful
INVARIANT AllReturnedComplete
INVARIANT NoLeftovers
INVARIANT OwnWritesOK
INVARIANT StartMarkerKept
PROPERTY NoUserDamage
PROPERTY CompletedKept
PROPERTY NotUsable
CHECK_DEADLOCK FALSE
