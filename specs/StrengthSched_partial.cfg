SPECIFICATION SSpec
CONSTANTS
  MaxW = 2
  MaxBS = 2
  MaxNB = 4
  MaxE = 2
  FullOnly = FALSE
  Variant = "shipped"
  Dispatch = "roundrobin"
INVARIANT C15_ScheduleAtBatch
CHECK_DEADLOCK FALSE
