---------------------------- MODULE CollatePadTrace ----------------------------
(***************************************************************************)
(* Trace validation for CollatePad.tla.  TRACE_FILE holds one trace per    *)
(* call of the REAL PadSequencesCollator (through KDComposeCollator,       *)
(* called directly, or through KDSingleCollatorWrapper) on a batch         *)
(* [ModeWrapper(ds, mode, ctx)[i] ...] of a harness dataset with           *)
(* variable-length items (harness/drivers/collate.py):                     *)
(*   cfg: fields, B, len, vals, style, entry, skeys, svals (see            *)
(*        CollatePad.tla - the same record the model uses)                 *)
(*   ev:  one terminal event  {a: ret|refuse|escape|diverge, pair, bare,   *)
(*        nf, f: [{dims, rows}], rkeys, rvals}                             *)
(* Obs  (normative, the verdict): the clauses P_* on the recorded result.  *)
(* Desc (conformance, informative): the machine of collate() (Proto),      *)
(*      which is deterministic, ends in exactly the recorded observation.  *)
(***************************************************************************)
EXTENDS CollatePad, Json, IOUtils, TLCExt

VARIABLES tid, l, oFail
tvars == <<vars, tid, l, oFail>>

Traces == JsonDeserialize(IOEnv.TRACE_FILE).traces
ASSUME TLCSet(1, {}) /\ TLCSet(2, {})

Ev(k) == Traces[tid].ev[k]
NEv == Len(Traces[tid].ev)
C == Traces[tid].cfg
Rec(e) == [out |-> e.a, pair |-> e.pair, bare |-> e.bare, nf |-> e.nf, f |-> e.f, rkeys |-> e.rkeys, rvals |-> e.rvals]

TInit ==
  /\ tid \in 1..Len(Traces)
  /\ l = 1
  /\ oFail = {}
  /\ InitWith(C)

ObsNext ==
  /\ l <= NEv
  /\ l' = l + 1
  /\ oFail' = IF NEv # 1 THEN {"WellFormed"} ELSE PadFailed(C, Rec(Ev(l)))
  /\ UNCHANGED <<vars, tid>>
TSpec == TInit /\ [][ObsNext]_tvars
ObsCollect ==
  IF oFail # {} THEN TLCSet(2, TLCGet(2) \cup {<<Traces[tid].id, l - 1, oFail>>})
  ELSE IF l = NEv + 1 /\ NEv >= 1 THEN TLCSet(1, TLCGet(1) \cup {Traces[tid].id})
  ELSE TRUE
Constraint == ObsCollect /\ oFail = {}

DescNext ==
  /\ Next
  /\ UNCHANGED <<tid, oFail>>
  /\ IF pc' = "done"
       THEN /\ NEv = 1
            /\ IF obs'.out = "ret" THEN obs' = Rec(Ev(1)) ELSE Ev(1).a = obs'.out
            /\ l' = 2
       ELSE l' = l
DescSpec == TInit /\ [][DescNext]_tvars
DescCollect == IF l = 2 /\ pc = "done" THEN TLCSet(1, TLCGet(1) \cup {Traces[tid].id}) ELSE TRUE

Report == PrintT(<<"ACCEPTED", TLCGet(1)>>) /\ PrintT(<<"REJECTED", TLCGet(2)>>)
DescReport == PrintT(<<"ACCEPTED", TLCGet(1)>>) /\ PrintT(<<"REJECTED", {}>>)
=============================================================================
