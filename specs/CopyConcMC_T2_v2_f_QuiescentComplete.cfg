SPECIFICATION Spec
CONSTANTS
  Procs <- P2
  Files <- T2Files
  Dirs <- T2Dirs
  DirOf <- T2DirOf
  Progs <- T2Progs
  WipeOrder <- T2WipeOrder
  FileOrder <- T2FileOrder
  Inits <- AllInits
  Proto = "v2"
  MaxCrashes = 0
  MaxRounds = 0
  Serial = FALSE
  SerialFirst = "p1"
  KeepHist = FALSE
INVARIANT QuiescentComplete
CHECK_DEADLOCK FALSE
