--------------------------- MODULE InfiniteBatchProps ---------------------------
(***************************************************************************)
(* Model-checking harness for InfiniteBatch.tla (X01).  Geometry is chosen *)
(* in Init, the stop argument in a first Configure step; the emitted       *)
(* events are collected in the history `hist' and the NORMATIVE clauses of  *)
(* InfiniteBatch.tla are checked on `hist' (not on the machine's counters), *)
(* plus the closed form of the whole stream, the counter relations at      *)
(* epoch boundaries and termination.                                       *)
(***************************************************************************)
EXTENDS InfiniteBatch, SequencesExt

CONSTANTS MaxN,        \* sampler lengths 1..MaxN
          MaxB,        \* batch sizes 1..MaxB (B > N included)
          MaxEpochs    \* budgets worth up to MaxEpochs epochs

VARIABLES hist, configured
pvars == <<vars, hist, configured>>

Geoms == { [N |-> n, B |-> b, drop |-> d, se |-> s] : n \in 1..MaxN, b \in 1..MaxB, d \in BOOLEAN, s \in BOOLEAN }
MkCfg(g, kind, budget) ==
  [N |-> g.N, B |-> g.B, drop |-> g.drop, kind |-> kind, budget |-> budget, se |-> g.se, miter |-> <<>>]
\* every stop argument whose budget is reached within MaxEpochs epochs, and every consumer horizon up to there
Budgets(g) ==
  { <<"e", b>> : b \in 1..MaxEpochs }
    \cup { <<"u", b>> : b \in 1..(MaxEpochs * UPE(g)) }
    \cup { <<"s", b>> : b \in 1..(MaxEpochs * SPE(g)) }
    \cup { <<"n", b>> : b \in 1..(MaxEpochs * UPE(g)) }

PInit == /\ \E g \in Geoms : InitWith(MkCfg(g, "e", 1))
         /\ hist = <<>>
         /\ configured = FALSE
Configure ==
  /\ ~configured
  /\ configured' = TRUE
  /\ \E kb \in Budgets(cfg) : cfg' = [cfg EXCEPT !.kind = kb[1], !.budget = kb[2]]
  /\ UNCHANGED <<epochs, updates, samples, pos, open, pc, emit, hist>>
HistUpd == /\ hist' = IF emit' = NoEv THEN hist ELSE Append(hist, emit')
           /\ UNCHANGED configured
PBegin      == configured /\ Begin /\ HistUpd
PSetEpoch   == configured /\ SetEpoch /\ HistUpd
PSetEpochAgain == configured /\ SetEpochAgain /\ HistUpd
PStartIter  == configured /\ StartIter /\ HistUpd
PEmitIndex  == configured /\ EmitIndex /\ HistUpd
PExhaust    == configured /\ Exhaust /\ HistUpd
PCloseBatch == configured /\ CloseBatch /\ HistUpd
PResume     == configured /\ Resume /\ HistUpd
PAbandon    == configured /\ Abandon /\ HistUpd
PEndEpoch   == configured /\ EndEpoch /\ HistUpd
PStop       == configured /\ Stop /\ HistUpd
PNext == Configure \/ PBegin \/ PSetEpoch \/ PSetEpochAgain \/ PStartIter \/ PEmitIndex \/ PExhaust \/ PCloseBatch
           \/ PResume \/ PAbandon \/ PEndEpoch \/ PStop
PSpec == PInit /\ [][PNext]_pvars /\ WF_pvars(PNext)

(* ------------------------- normative clauses on hist -------------------- *)
\* every state is reached by appending at most one event, so checking the last position in every state checks all
AtLast(P(_, _, _)) == hist = <<>> \/ P(cfg, hist, Len(hist))
IsDone == pc = "done"

P_SetEpochOrder      == AtLast(X_SetEpochOrder)
P_SetEpochOnce       == AtLast(X_SetEpochOnce)
P_SetEpochBeforeDraw == AtLast(X_SetEpochBeforeDraw)
P_IterOrder          == AtLast(X_IterOrder)
P_BatchesExact       == AtLast(X_BatchesExact)
P_BatchIsDrawn       == AtLast(X_BatchIsDrawn)
P_NoMix              == AtLast(X_NoMix)
P_BatchSize          == AtLast(X_BatchSize)
P_Seamless           == AtLast(X_Seamless)
P_StopNotEarly       == AtLast(X_StopNotEarly)
P_StopNotLate        == AtLast(X_StopNotLate)
P_NoError            == AtLast(X_NoError)
P_CutOnlyUnbounded   == AtLast(X_CutOnlyUnbounded)
P_EveryCutDelivered  == AtLast(X_EveryCutDelivered)
P_Complete           == IsDone => X_Complete(cfg, hist)

(* ------------------------- whole stream, counters ----------------------- *)
Batches == [i \in 1..Len(SelectSeq(hist, LAMBDA e : e.a = "b")) |-> SelectSeq(hist, LAMBDA e : e.a = "b")[i].b]
Announced == [i \in 1..Len(SelectSeq(hist, LAMBDA e : e.a = "se")) |-> SelectSeq(hist, LAMBDA e : e.a = "se")[i].v]
\* the machine never leaves the closed form and ends exactly on it; set_epoch saw 0..EpochsNeeded-1
P_RefPrefix == InDomain(cfg) /\ UPE(cfg) >= 1 => IsPrefix(Batches, RefBatches(cfg))
P_RefFinal  == IsDone => /\ (IF UPE(cfg) = 0 THEN Batches = <<>> ELSE Batches = RefBatches(cfg))
                         /\ Announced = (IF cfg.se THEN [i \in 1..EpochsNeeded(cfg) |-> i - 1] ELSE <<>>)
\* between epochs the counters are what whole epochs amount to; inside an epoch the open batch is short
P_Counters ==
  /\ pc \in {"top", "iter", "stopping"} => updates = epochs * UPE(cfg) /\ samples = epochs * SPE(cfg)
  /\ pc = "draw" => Len(open) < cfg.B /\ pos <= cfg.N
  /\ pc = "close" => Len(open) >= 1 /\ Len(open) <= cfg.B
  /\ samples + Len(open) <= epochs * SPE(cfg) + pos
\* the named deviation, stated positively: the class delivers exactly Overshoot(cfg) batches beyond an exact stop,
\* always less than one epoch's worth, and none iff the budget falls on an epoch boundary
P_Deviation ==
  (IsDone /\ Bounded(cfg) /\ UPE(cfg) >= 1) =>
     /\ Len(Batches) - MinBatches(cfg) = Overshoot(cfg)
     /\ Overshoot(cfg) \in 0..(UPE(cfg) - 1)
     /\ (Overshoot(cfg) = 0 <=> MinBatches(cfg) % UPE(cfg) = 0)
     /\ (Dev_EpochGranularity(cfg, hist) <=> Overshoot(cfg) > 0)
\* safety form of termination: never more epochs than the budget needs
P_Bounded == configured /\ InDomain(cfg) => epochs <= EpochsNeeded(cfg)
Terminates == <>IsDone
=============================================================================
