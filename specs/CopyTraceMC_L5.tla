---- MODULE CopyTraceMC_L5 ----
EXTENDS CopyTrace
MCFiles == {"a", "b", "c", "d", "e"}
MCDirs == {"s"}
MCDirOf == "a" :> "." @@ "b" :> "s" @@ "c" :> "." @@ "d" :> "." @@ "e" :> "."
====
