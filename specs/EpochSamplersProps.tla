-------------------------- MODULE EpochSamplersProps --------------------------
(***************************************************************************)
(* Model-checking harness for EpochSamplers.tla (C13).  Geometry (kind,    *)
(* dataset size, world size) is chosen in Init, the class layout / chunk   *)
(* sizes / length mode / samples_per_class / weights in a first Configure  *)
(* step; every generator outcome (each permutation of a pool, each         *)
(* admissible multinomial draw) is explored.  The clauses of C13 are       *)
(* stated over the emitted streams `out' (and, for the loops, over the     *)
(* list built so far) with the normative operators of EpochSamplers.tla.   *)
(***************************************************************************)
EXTENDS EpochSamplers

CONSTANTS MaxN,      \* dataset sizes up to MaxN
          MaxC,      \* 2..MaxC classes
          MaxSpc,    \* samples_per_class 0 (= default) .. MaxSpc
          MaxW,      \* world sizes 1..MaxW
          MaxChunk   \* num_labeled, num_unlabeled in 1..MaxChunk

VARIABLE configured
pvars == <<vars, configured>>

Base(k, n, w) == [kind |-> k, cls |-> [i \in 1..n |-> 0], C |-> 2, spc |-> 0, W |-> w, shuffle |-> FALSE,
                  nl |-> 1, nu |-> 1, mode |-> "all", size |-> 0, wpos |-> 0..(n - 1)]

PInit ==
  /\ \E k \in {"cb", "semi", "w"}, n \in 1..MaxN, w \in 1..MaxW :
       /\ (k # "w" => n >= 2)
       /\ InitWith(Base(k, n, w))
  /\ configured = FALSE

CBLayouts(n) == UNION { { f \in [1..n -> 0..(c - 1)] : \A x \in 0..(c - 1) : \E i \in 1..n : f[i] = x } : c \in 2..MaxC }
NClasses(f) == Cardinality(Range(f))
SemiLayouts(n) == { f \in [1..n -> {-1, 0, 1}] : (\E i \in 1..n : f[i] = -1) /\ (\E i \in 1..n : f[i] # -1) }

Configure ==
  /\ ~configured
  /\ configured' = TRUE
  /\ CASE cfg.kind = "cb" ->
            \E f \in CBLayouts(N), s \in 0..MaxSpc, sh \in BOOLEAN :
               cfg' = [cfg EXCEPT !.cls = f, !.C = NClasses(f), !.spc = s, !.shuffle = sh]
       [] cfg.kind = "semi" ->
            \E f \in SemiLayouts(N), a \in 1..MaxChunk, b \in 1..MaxChunk, m \in {"labeled", "unlabeled", "all"} :
               cfg' = [cfg EXCEPT !.cls = f, !.nl = a, !.nu = b, !.mode = m]
       [] cfg.kind = "w" ->
            \E ps \in (SUBSET (0..(N - 1))) \ {{}} :
              \E sz \in (IF ps = 0..(N - 1) THEN {0} ELSE {}) \cup 1..Cardinality(ps) :
                 cfg' = [cfg EXCEPT !.wpos = ps, !.size = sz]
  /\ UNCHANGED <<pc, ci, rem, acc, pL, kL, pU, kU, pos, out>>

PCBNextClass == configured /\ CBNextClass /\ UNCHANGED configured
PCBRound     == configured /\ CBRound /\ UNCHANGED configured
PCBClassDone == configured /\ CBClassDone /\ UNCHANGED configured
PCBShuffle   == configured /\ CBShuffle /\ UNCHANGED configured
PWDraw       == configured /\ WDraw /\ UNCHANGED configured
PWDrawn      == configured /\ WDrawn /\ UNCHANGED configured
PSplit       == configured /\ Split /\ UNCHANGED configured
PSemiRefillL == configured /\ SemiRefillL /\ UNCHANGED configured
PSemiRefillU == configured /\ SemiRefillU /\ UNCHANGED configured
PSemiEmitL   == configured /\ SemiEmitL /\ UNCHANGED configured
PSemiEmitU   == configured /\ SemiEmitU /\ UNCHANGED configured
PSemiDone    == configured /\ SemiDone /\ UNCHANGED configured
PNext == Configure \/ PCBNextClass \/ PCBRound \/ PCBClassDone \/ PCBShuffle \/ PWDraw \/ PWDrawn \/ PSplit
           \/ PSemiRefillL \/ PSemiRefillU \/ PSemiEmitL \/ PSemiEmitU \/ PSemiDone
PSpec == PInit /\ [][PNext]_pvars /\ WF_pvars(PNext)

(* ------------------------------- clauses -------------------------------- *)
IsDone == pc = "done"
Is(k) == configured /\ cfg.kind = k
Lens == [r \in 1..Len(out) |-> LenCode]       \* __len__ as the code computes it

\* all kinds: valid indices at every moment, documented length at the end
C13_Valid == configured => ValidIdx(out, N) /\ Range(acc) \subseteq 0..(N - 1)
C13_CB_Length == (Is("cb") /\ IsDone) => LengthIs(out, Lens, cfg.W, CB_Len(cfg.C, Spc, cfg.W))
C13_Semi_Length ==
  (Is("semi") /\ IsDone) => LengthIs(out, Lens, 1, Semi_Len(cfg.cls, cfg.nl, cfg.nu, cfg.mode, cfg.W))
C13_W_Length == (Is("w") /\ IsDone) => LengthIs(out, Lens, cfg.W, W_Len(N, cfg.size, cfg.W))

\* class-balanced: exact per-class counts over all ranks; even reuse
C13_CB_PerClass == (Is("cb") /\ IsDone) => CB_PerClass(out, cfg.cls, cfg.C, Spc, cfg.W)
C13_CB_Even == (Is("cb") /\ IsDone) => CB_Even(out, cfg.cls, cfg.C, Spc, cfg.W)
\* loop invariants of the draw: the list never holds more than samples_per_class of a class, classes are
\* completed in order, and reuse is even after every round (not only at the end)
C13_CB_Loop ==
  Is("cb") =>
     /\ \A c \in 0..(cfg.C - 1) :
          LET n == Cardinality({i \in 1..Len(acc) : cfg.cls[acc[i] + 1] = c}) IN
            /\ n <= Spc
            /\ (c < ci => n = Spc)
            /\ (c > ci => n = 0)
     /\ Even(acc, cfg.cls)
\* the linear form of "evenly" used on traces is the pairwise statement: on every list the machine builds ...
C13_EvenForms == Is("cb") => (Even(acc, cfg.cls) <=> EvenPairwise(acc, cfg.cls))
\* ... and on every list of up to 5 entries over up to 3 samples in up to 2 classes (even or not)
ASSUME \A n \in 1..3 : \A cl \in [1..n -> 0..1] : \A m \in 0..5 : \A a \in [1..m -> 0..(n - 1)] :
          Even(a, cl) <=> EvenPairwise(a, cl)
\* the whole epoch (before the split) has exactly samples_per_class of every class
C13_CB_WholeEpoch ==
  (Is("cb") /\ pc \in {"split", "done"}) =>
     \A c \in 0..(cfg.C - 1) : Cardinality({i \in 1..Len(acc) : cfg.cls[acc[i] + 1] = c}) = Spc

\* semi-supervised: alternation and pool exhaustion hold for every prefix of the stream
C13_Semi_Alternation == Is("semi") => Semi_Alternation(out[1], cfg.cls, cfg.nl, cfg.nu)
C13_Semi_PoolCycle == Is("semi") => Semi_PoolCycle(out[1], cfg.cls)

\* weighted: never an index twice, only positive weights
C13_W_NoRepeat == Is("w") => NoDup(acc) /\ (IsDone => W_NoRepeat(out))
C13_W_Positive == Is("w") => Range(acc) \subseteq cfg.wpos

Terminates == <>IsDone
=============================================================================
