SPECIFICATION SSpec
CONSTANTS
  MaxW = 4
  MaxBS = 3
  MaxNB = 9
  MaxE = 3
  FullOnly = TRUE
  Variant = "shipped"
  Dispatch = "roundrobin"
INVARIANT C15_ScheduleAtBatch
INVARIANT C15_InSchedule
INVARIANT C15_AllSamples
PROPERTY C15_Terminates
CHECK_DEADLOCK FALSE
