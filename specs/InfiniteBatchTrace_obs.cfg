SPECIFICATION ObsSpec
CONSTANTS
  Variant = "v1"
CONSTRAINT ObsConstraint
POSTCONDITION Report
CHECK_DEADLOCK FALSE
