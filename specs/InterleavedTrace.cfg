SPECIFICATION TSpec
CONSTRAINT Collect
POSTCONDITION Report
CHECK_DEADLOCK FALSE
