SPECIFICATION Spec
CONSTANTS
  MaxNodes = 4
  Forgetful <- NoneForgetful
INVARIANT SeedDetermines
INVARIANT WorkerStreams
INVARIANT NoReplayWithinCall
PROPERTY GlobalsUntouched
CHECK_DEADLOCK FALSE
