------------------------------- MODULE KDCommon -------------------------------
(* Python sequence semantics shared by several modules. *)
EXTENDS Integers, Sequences

PyNone == -99                         \* encoding of Python's None for optional integers

Max2(a, b) == IF a > b THEN a ELSE b
Min2(a, b) == IF a < b THEN a ELSE b

\* negative index counts from the end (defined for -n <= k < n)
Norm(n, k) == IF k < 0 THEN n + k ELSE k
InRange(n, k) == -n <= k /\ k < n

\* CPython slice.indices(n): <<start, stop, step>> for slice(lo, hi, st), PyNone = None, st # 0
SliceIndices(n, lo, hi, st) ==
  LET step  == IF st = PyNone THEN 1 ELSE st
      lower == IF step < 0 THEN -1 ELSE 0
      upper == IF step < 0 THEN n - 1 ELSE n
      start == IF lo = PyNone THEN (IF step < 0 THEN upper ELSE lower)
               ELSE IF lo < 0 THEN Max2(lo + n, lower) ELSE Min2(lo, upper)
      stop  == IF hi = PyNone THEN (IF step < 0 THEN lower ELSE upper)
               ELSE IF hi < 0 THEN Max2(hi + n, lower) ELSE Min2(hi, upper)
  IN <<start, stop, step>>

\* range(start, stop, step) as a sequence
RECURSIVE RangeSeq(_, _, _)
RangeSeq(start, stop, step) ==
  IF (step > 0 /\ start >= stop) \/ (step < 0 /\ start <= stop) THEN <<>>
  ELSE <<start>> \o RangeSeq(start + step, stop, step)

\* range(n)[slice(lo, hi, st)]
PySlice(n, lo, hi, st) == LET t == SliceIndices(n, lo, hi, st) IN RangeSeq(t[1], t[2], t[3])

SeqRange(s) == {s[i] : i \in 1..Len(s)}
FirstIndex(s, v) == CHOOSE i \in 1..Len(s) : s[i] = v /\ \A j \in 1..(i - 1) : s[j] # v
Count(s, v) == LET RECURSIVE C(_)
                   C(i) == IF i = 0 THEN 0 ELSE C(i - 1) + (IF s[i] = v THEN 1 ELSE 0)
               IN C(Len(s))
=============================================================================
