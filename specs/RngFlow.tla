-------------------------------- MODULE RngFlow --------------------------------
(***************************************************************************)
(* Where randomness comes from: generators held by transform object        *)
(* graphs, and the rule by which set_rng / worker_init_fn reach them.      *)
(*                                                                         *)
(* A tree of transform nodes (pool, children have smaller positions):      *)
(*   leaf      stochastic leaf: one draw per call from its own generator   *)
(*   det       deterministic leaf                                          *)
(*   compose   calls its children in order              (KDComposeTransform)*)
(*   rapply    one draw (apply?) then its child          (KDRandomApply)   *)
(*   holder    one draw, then a member transform  (KDRandomThreshold, ...) *)
(*   patchwise calls its child once per patch (twice here) (PatchwiseTransform)*)
(*   sched     calls its child once                     (KDScheduledTransform)*)
(* A generator is an identity with an origin - ctor(global position),      *)
(* inj(seed), worker(worker seed, global position) - and a position; a     *)
(* draw is the token <<origin, position>>; an output is an uninterpreted   *)
(* function of the tokens drawn while producing it (here: their sequence). *)
(*                                                                         *)
(* Forgetful = kinds whose set_rng does NOT reach their children / members *)
(* (the negative control of the invariants; {} for the current tree).      *)
(***************************************************************************)
EXTENDS Naturals, Sequences, FiniteSets, TLC

CONSTANTS MaxNodes, Forgetful

Kinds == {"leaf", "det", "compose", "rapply", "holder", "patchwise", "sched"}
OwnDraw == {"leaf", "rapply", "holder"}          \* kinds that hold a generator of their own and draw from it
Arity(k) == CASE k \in {"leaf", "det"} -> {0}
              [] k = "compose" -> {1, 2}
              [] OTHER -> {1}

VARIABLES tree,      \* Seq([kind, ch]) ; the root is the last node
          gen,       \* node -> generator id (0 = none)
          origin,    \* generator id -> origin
          pos,       \* generator id -> position
          gpos,      \* position of the process-global numpy generator
          gseed,     \* what the global generator was last seeded with ("boot" or a worker seed)
          phase,     \* "build" | "ready"
          injected,  \* 0 or the injected seed
          wseed,     \* 0 or the worker seed after worker_init_fn
          last,      \* tokens drawn by the last call
          ninj       \* number of injections / worker initialisations so far (bound)
vars == <<tree, gen, origin, pos, gpos, gseed, phase, injected, wseed, last, ninj>>

Node(k, ch) == [kind |-> k, ch |-> ch]
Root == Len(tree)

Init ==
  /\ tree = <<>> /\ gen = <<>> /\ origin = <<>> /\ pos = <<>>
  /\ gpos = 0 /\ gseed = "boot" /\ phase = "build" /\ injected = 0 /\ wseed = 0 /\ last = <<>> /\ ninj = 0

\* constructors run bottom-up; a stochastic node seeds its generator from the global generator (get_rng_from_global)
AddNode ==
  /\ phase = "build" /\ Len(tree) < MaxNodes
  /\ \E k \in Kinds : \E n \in Arity(k) :
       /\ n <= Len(tree)
       \* children: the most recent n nodes that are not yet used as a child (keeps the pool a forest of chains)
       /\ LET used == UNION {{tree[i].ch[j] : j \in 1..Len(tree[i].ch)} : i \in 1..Len(tree)}
              free == {i \in 1..Len(tree) : i \notin used}
          IN /\ Cardinality(free) >= n
             /\ \E chs \in [1..n -> free] :
                  /\ \A a, b \in 1..n : a < b => chs[a] < chs[b]
                  /\ tree' = Append(tree, Node(k, chs))
       /\ IF k \in OwnDraw
            THEN /\ origin' = Append(origin, <<"ctor", gseed, gpos>>)
                 /\ pos' = Append(pos, 0)
                 /\ gen' = Append(gen, Len(origin) + 1)
                 /\ gpos' = gpos + 1
            ELSE /\ gen' = Append(gen, 0)
                 /\ UNCHANGED <<origin, pos, gpos>>
  /\ UNCHANGED <<gseed, phase, injected, wseed, last, ninj>>
Finish ==
  /\ phase = "build" /\ tree # <<>>
  \* exactly one root: every other node is somebody's child
  /\ LET used == UNION {{tree[i].ch[j] : j \in 1..Len(tree[i].ch)} : i \in 1..Len(tree)}
     IN used = 1..(Len(tree) - 1)
  /\ phase' = "ready"
  /\ UNCHANGED <<tree, gen, origin, pos, gpos, gseed, injected, wseed, last, ninj>>

\* nodes a generator handed to node n reaches (the forwarding rule of set_rng)
RECURSIVE Reach(_)
Reach(n) ==
  LET k == tree[n].kind
      self == IF k \in OwnDraw THEN {n} ELSE {}
      down == IF k \in Forgetful THEN {} ELSE UNION {Reach(tree[n].ch[j]) : j \in 1..Len(tree[n].ch)}
  IN self \cup down

\* something else uses the global generators (any amount)
Perturb ==
  /\ phase = "ready" /\ gpos < MaxNodes + 1
  /\ gpos' = gpos + 1
  /\ UNCHANGED <<tree, gen, origin, pos, gseed, phase, injected, wseed, last, ninj>>

SetRng(s) ==
  /\ phase = "ready" /\ ninj < 2
  /\ origin' = Append(origin, <<"inj", s>>) /\ pos' = Append(pos, 0)
  /\ gen' = [n \in 1..Len(tree) |-> IF n \in Reach(Root) THEN Len(origin) + 1 ELSE gen[n]]
  /\ injected' = s /\ wseed' = 0 /\ last' = <<>> /\ ninj' = ninj + 1
  /\ UNCHANGED <<tree, gpos, gseed, phase>>

\* DataLoader worker start: the global generator is re-seeded with the worker's seed, then worker_init_fn
\* gives the root a generator drawn from it
WorkerInit(ws) ==
  /\ phase = "ready" /\ ninj < 2
  /\ gseed' = ws /\ gpos' = 1
  /\ origin' = Append(origin, <<"worker", ws, 0>>) /\ pos' = Append(pos, 0)
  /\ gen' = [n \in 1..Len(tree) |-> IF n \in Reach(Root) THEN Len(origin) + 1 ELSE gen[n]]
  /\ wseed' = ws /\ injected' = 0 /\ last' = <<>> /\ ninj' = ninj + 1
  /\ UNCHANGED <<tree, phase>>

\* the nodes that draw during one call of node n, in call order (patchwise calls its child twice)
RECURSIVE Draws(_)
Draws(n) ==
  LET k == tree[n].kind
      RECURSIVE Kids(_)
      Kids(j) == IF j > Len(tree[n].ch) THEN <<>> ELSE Draws(tree[n].ch[j]) \o Kids(j + 1)
      own == IF k \in OwnDraw THEN <<n>> ELSE <<>>
  IN own \o (IF k = "patchwise" THEN Kids(1) \o Kids(1) ELSE Kids(1))

RECURSIVE Consume(_, _, _)
\* tokens for the drawing nodes ds (in order) given positions p; returns <<tokens, positions>>
Consume(ds, p, acc) ==
  IF ds = <<>> THEN <<acc, p>>
  ELSE LET g == gen[Head(ds)] IN
         Consume(Tail(ds), [p EXCEPT ![g] = @ + 1], Append(acc, <<origin[g], p[g]>>))
Call ==
  /\ phase = "ready"
  /\ LET res == Consume(Draws(Root), pos, <<>>) IN
       /\ last' = res[1] /\ pos' = res[2]
  /\ \A g \in 1..Len(pos) : pos[g] < 2            \* bound
  /\ UNCHANGED <<tree, gen, origin, gpos, gseed, phase, injected, wseed, ninj>>

Next == AddNode \/ Finish \/ Perturb \/ (\E s \in {1, 2} : SetRng(s)) \/ (\E w \in {11, 12} : WorkerInit(w)) \/ Call
Spec == Init /\ [][Next]_vars

(* ------------------------------ normative ------------------------------ *)
\* C07: once a generator is injected, every random decision of every member comes from it - so outputs are a
\* function of the seed and the inputs only - and the process-global state is neither read nor consumed
SeedDetermines == injected # 0 => \A i \in 1..Len(last) : last[i][1] = <<"inj", injected>>
GlobalsUntouched == [][Call => gpos' = gpos]_vars
\* C09: after worker initialisation every member generator that is drawn from derives from the worker's seed
WorkerStreams == wseed # 0 => \A i \in 1..Len(last) : last[i][1][1] = "worker" /\ last[i][1][2] = wseed
\* the tokens of one call are pairwise distinct (no decision is replayed within a stream)
NoReplayWithinCall == \A i, j \in 1..Len(last) : i # j => last[i] # last[j]
=============================================================================
