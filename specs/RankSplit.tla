------------------------------ MODULE RankSplit ------------------------------
(***************************************************************************)
(* C12 - rank-aware samplers: one global epoch draw, split by rank.        *)
(*                                                                         *)
(* kappadata/samplers/distributed_sampler.py (and the torch sampler it     *)
(* extends), class_balanced_sampler.py, weighted_sampler.py,               *)
(* random_sampler.py.  All of them                                         *)
(*   1. draw ONE global sequence G from a generator seeded by seed+epoch   *)
(*      (a permutation, optionally repeat_interleave'd and cut to N),      *)
(*   2. make its length a multiple of the world size W (pad by wrapping    *)
(*      around to the head / cut the tail),                                *)
(*   3. hand rank r the strided slice  r, r+W, r+2W, ...                   *)
(*                                                                         *)
(* cfg (fixed per behaviour):                                              *)
(*   kind  "dist"  DistributedSampler: pad (drop=FALSE) or cut (drop=TRUE) *)
(*         "cut"   ClassBalanced / Weighted: slice [r:N:W] then [:N \div W]*)
(*         "rand"  RandomSampler: single rank, whole draw                  *)
(*   N     number of entries of the global draw before padding             *)
(*   W     world size, ranks 1..W (rank r of the code = r-1)               *)
(*   drop  drop_last (only "dist")                                         *)
(*   rep   num_repeats >= 1                                                *)
(*   pi    the permutation (or with-replacement draw) the generator yields *)
(*         for this (seed, epoch): a sequence of N values                  *)
(*                                                                         *)
(* NORMATIVE PART: operators over observed values (reported lengths, rank  *)
(* streams, the global draw) - used on the machine's history by            *)
(* RankSplitProps.tla and on values recorded from the real samplers by     *)
(* RankSplitTrace.tla.                                                     *)
(* DESCRIPTIVE PART: the code's algorithm, one action per loop iteration / *)
(* list operation / decision.  Mutant # "none" switches on one realistic   *)
(* fault (negative controls; the normative clauses must reject them).      *)
(***************************************************************************)
EXTENDS Integers, Sequences, FiniteSets, TLC

CONSTANT Mutant     \* "none" | "contig" | "floormul" | "padmid" | "norepeat"

Min(a, b) == IF a < b THEN a ELSE b
Max(a, b) == IF a > b THEN a ELSE b
Abs(a) == IF a < 0 THEN 0 - a ELSE a
CeilDiv(a, b) == (a + b - 1) \div b          \* = math.ceil(a / b) for b > 0, also for negative a
Range(s) == {s[i] : i \in 1..Len(s)}

(* ============================ NORMATIVE PART ============================ *)
\* "interleave back": position i of the global draw was handed to rank (i-1) % W as its ((i-1) \div W)-th entry
Interleave(ss, W, L) == [i \in 1..(L * W) |-> ss[((i - 1) % W) + 1][((i - 1) \div W) + 1]]

\* "only trailing entries are dropped or wrapped around": T <= Len(g) keeps a prefix (tail dropped),
\* T > Len(g) continues with the head of g again (cyclically, as often as needed)
WrapRef(g, T) == [i \in 1..T |-> g[((i - 1) % Len(g)) + 1]]

\* every rank's stream has exactly len(sampler) entries, and all ranks report the same len
EqualLength(ss, lens, W) ==
  /\ Len(ss) = W /\ Len(lens) = W
  /\ \A r \in 1..W : Len(ss[r]) = lens[r] /\ lens[r] = lens[1]

\* ranks are made equal by touching fewer than W entries: cutting kinds lose < W, padding kinds add < W
SplitEvenly(padding, n, W, L) ==
  /\ Abs(L * W - n) < W
  /\ (padding => L * W >= n)
  /\ (~padding => L * W <= n)

\* the rank streams interleave back into the one global draw g (prefix of g, or g plus a wrap-around of its head)
SingleDraw(ss, W, L, g) ==
  IF L * W = 0 THEN TRUE
  ELSE /\ Len(g) > 0
       /\ \A r \in 1..W : Len(ss[r]) >= L
       /\ Interleave(ss, W, L) = WrapRef(g, L * W)

\* repeated augmentation: slots (k-1)*rep+1 .. k*rep of the draw hold one sample (the last run may be cut),
\* and a sample drawn without replacement occupies no other run
RepeatRuns(g, rep, distinct) ==
  /\ \A i \in 1..Len(g) : g[i] = g[((i - 1) \div rep) * rep + 1]
  /\ distinct =>
       \A i, j \in 1..Len(g) : ((i - 1) \div rep # (j - 1) \div rep) => g[i] # g[j]

\* documented length of one rank's stream
LenOf(c) ==
  CASE c.kind = "dist" -> IF c.drop THEN c.N \div c.W ELSE CeilDiv(c.N, c.W)
    [] c.kind = "cut"  -> c.N \div c.W
    [] c.kind = "rand" -> c.N
Pads(c) == c.kind = "dist" /\ ~c.drop

(* =========================== DESCRIPTIVE PART =========================== *)
VARIABLES cfg,      \* configuration (see above)
          G,        \* indices after randperm(...).repeat_interleave(rep)[:N], built slot by slot
          padded,   \* `indices` after the padding / cutting step
          tmp,      \* the multiplied list  indices * ceil(padding / len)  while it is built
          pc,       \* "draw" | "decide" | "padhead" | "padmul" | "padcat" | "cutlist" | "emit" | "done"
          cur,      \* per rank: how many entries of its strided slice have been produced
          out,      \* per rank: the stream it yields
          fin,      \* per rank: finished
          err       \* an assert of the code failed

vars == <<cfg, G, padded, tmp, pc, cur, out, fin, err>>

\* torch.utils.data.DistributedSampler.__init__
NumSamples(c) ==
  CASE c.kind = "dist" ->
         IF c.drop /\ c.N % c.W # 0 THEN CeilDiv(c.N - c.W, c.W) ELSE CeilDiv(c.N, c.W)
    [] c.kind = "cut" -> c.N \div c.W          \* effective_length // world_size
    [] c.kind = "rand" -> c.N
TotalSize(c) == NumSamples(c) * c.W
PaddingSize == TotalSize(cfg) - Len(G)
\* stop bound of the strided slice: indices[rank:total_size:W] resp. indices[rank:effective_length:W]
SliceStop == IF cfg.kind = "dist" THEN TotalSize(cfg) ELSE cfg.N
Ranks == 1..cfg.W

InitWith(c) ==
  /\ cfg = c
  /\ G = <<>> /\ padded = <<>> /\ tmp = <<>>
  /\ pc = "draw"
  /\ cur = [r \in 1..c.W |-> 0]
  /\ out = [r \in 1..c.W |-> <<>>]
  /\ fin = [r \in 1..c.W |-> FALSE]
  /\ err = FALSE

\* (re)start the machine on configuration c (used by the trace module: one run per recorded epoch)
Load(c) ==
  /\ cfg' = c
  /\ G' = <<>> /\ padded' = <<>> /\ tmp' = <<>>
  /\ pc' = "draw"
  /\ cur' = [r \in 1..c.W |-> 0]
  /\ out' = [r \in 1..c.W |-> <<>>]
  /\ fin' = [r \in 1..c.W |-> FALSE]
  /\ err' = FALSE

\* one slot of  perm.repeat_interleave(repeats=rep)[:N]
DrawSlot ==
  /\ pc = "draw" /\ Len(G) < cfg.N
  /\ G' = Append(G, IF Mutant = "norepeat" THEN cfg.pi[Len(G) + 1] ELSE cfg.pi[(Len(G) \div cfg.rep) + 1])
  /\ UNCHANGED <<cfg, padded, tmp, pc, cur, out, fin, err>>
DrawDone ==
  /\ pc = "draw" /\ Len(G) = cfg.N
  /\ pc' = IF cfg.kind = "dist" THEN "decide" ELSE "emit"
  /\ padded' = G
  /\ UNCHANGED <<cfg, G, tmp, cur, out, fin, err>>

\* `if not self.drop_last: padding_size = total_size - len(indices); if padding_size <= len(indices): ... else: ...`
Decide ==
  /\ pc = "decide"
  /\ pc' = IF cfg.drop THEN "cutlist"
           ELSE IF PaddingSize <= Len(G) THEN "padhead" ELSE "padmul"
  /\ UNCHANGED <<cfg, G, padded, tmp, cur, out, fin, err>>
\* indices += indices[:padding_size]
PadHead ==
  /\ pc = "padhead"
  /\ padded' = IF Mutant = "padmid"
                 THEN G \o [i \in 1..PaddingSize |-> G[Len(G) - i + 1]]       \* fault: pads with the tail, reversed
                 ELSE G \o SubSeq(G, 1, PaddingSize)
  /\ pc' = "emit"
  /\ UNCHANGED <<cfg, G, tmp, cur, out, fin, err>>
\* indices * math.ceil(padding_size / len(indices)) : one whole copy per step
PadMulCopy ==
  /\ pc = "padmul"
  /\ Len(tmp) < Len(G) * (IF Mutant = "floormul" THEN PaddingSize \div Len(G) ELSE CeilDiv(PaddingSize, Len(G)))
  /\ tmp' = tmp \o G
  /\ UNCHANGED <<cfg, G, padded, pc, cur, out, fin, err>>
PadMulDone ==
  /\ pc = "padmul"
  /\ Len(tmp) >= Len(G) * (IF Mutant = "floormul" THEN PaddingSize \div Len(G) ELSE CeilDiv(PaddingSize, Len(G)))
  /\ pc' = "padcat"
  /\ UNCHANGED <<cfg, G, padded, tmp, cur, out, fin, err>>
\* indices += (...)[:padding_size]
PadCat ==
  /\ pc = "padcat"
  /\ padded' = G \o SubSeq(tmp, 1, Min(PaddingSize, Len(tmp)))
  /\ pc' = "emit"
  /\ UNCHANGED <<cfg, G, tmp, cur, out, fin, err>>
\* indices = indices[:total_size]
CutList ==
  /\ pc = "cutlist"
  /\ padded' = SubSeq(G, 1, Min(TotalSize(cfg), Len(G)))
  /\ pc' = "emit"
  /\ UNCHANGED <<cfg, G, tmp, cur, out, fin, err>>

\* position (0-based) of the next entry of rank r's strided slice
SlicePos(r) == IF Mutant = "contig" THEN (r - 1) * NumSamples(cfg) + cur[r] ELSE (r - 1) + cur[r] * cfg.W
SliceMore(r) ==
  IF Mutant = "contig" THEN cur[r] < NumSamples(cfg) /\ SlicePos(r) < Len(padded)
  ELSE SlicePos(r) < Min(SliceStop, Len(padded))
\* one entry of  indices[rank:stop:W]   (each rank runs this on its own copy of the same draw)
Emit(r) ==
  /\ pc = "emit" /\ ~fin[r] /\ SliceMore(r)
  /\ out' = [out EXCEPT ![r] = Append(@, padded[SlicePos(r) + 1])]
  /\ cur' = [cur EXCEPT ![r] = @ + 1]
  /\ UNCHANGED <<cfg, G, padded, tmp, pc, fin, err>>
\* slice exhausted: "dist" asserts len(indices) == num_samples; "cut" applies indices[:len(self)]
Finish(r) ==
  /\ pc = "emit" /\ ~fin[r] /\ ~SliceMore(r)
  /\ fin' = [fin EXCEPT ![r] = TRUE]
  /\ IF cfg.kind = "dist"
       THEN /\ err' = (err \/ Len(out[r]) # NumSamples(cfg) \/ Len(padded) # TotalSize(cfg))
            /\ out' = out
       ELSE /\ err' = err
            /\ out' = [out EXCEPT ![r] = SubSeq(@, 1, Min(Len(@), NumSamples(cfg)))]
  /\ UNCHANGED <<cfg, G, padded, tmp, pc, cur>>
AllDone ==
  /\ pc = "emit" /\ \A r \in Ranks : fin[r]
  /\ pc' = "done"
  /\ UNCHANGED <<cfg, G, padded, tmp, cur, out, fin, err>>

Next == DrawSlot \/ DrawDone \/ Decide \/ PadHead \/ PadMulCopy \/ PadMulDone \/ PadCat \/ CutList
          \/ (\E r \in Ranks : Emit(r) \/ Finish(r)) \/ AllDone
=============================================================================
