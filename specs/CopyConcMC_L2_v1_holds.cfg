SPECIFICATION Spec
CONSTANTS
  Procs <- P2
  Files <- L2Files
  Dirs <- L2Dirs
  DirOf <- L2DirOf
  Progs <- L2Progs
  WipeOrder <- L2WipeOrder
  FileOrder <- L2FileOrder
  Inits <- AllInits
  Proto = "v1"
  MaxCrashes = 1
  MaxRounds = 1
  Serial = FALSE
  SerialFirst = "p1"
  KeepHist = FALSE
INVARIANT TypeOK
INVARIANT Truthful
INVARIANT AllReturnedComplete
INVARIANT NoLeftovers
INVARIANT OwnWritesOK
PROPERTY NoUserDamage
PROPERTY CompletedKept
PROPERTY Terminates
CHECK_DEADLOCK FALSE
