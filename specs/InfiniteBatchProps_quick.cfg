SPECIFICATION PSpec
CONSTANTS
  MaxN = 4
  MaxB = 5
  MaxEpochs = 3
  Variant = "v1"
INVARIANT P_SetEpochOrder
INVARIANT P_SetEpochOnce
INVARIANT P_SetEpochBeforeDraw
INVARIANT P_IterOrder
INVARIANT P_BatchesExact
INVARIANT P_BatchIsDrawn
INVARIANT P_NoMix
INVARIANT P_BatchSize
INVARIANT P_Seamless
INVARIANT P_StopNotEarly
INVARIANT P_StopNotLate
INVARIANT P_NoError
INVARIANT P_CutOnlyUnbounded
INVARIANT P_EveryCutDelivered
INVARIANT P_Complete
INVARIANT P_RefPrefix
INVARIANT P_RefFinal
INVARIANT P_Counters
INVARIANT P_Deviation
INVARIANT P_Bounded
PROPERTY Terminates
CHECK_DEADLOCK FALSE
