SPECIFICATION PSpec
CONSTANTS
  D = 4
  MaxMembers = 1
  MaxScales = 3
  MaxScalesComp = 2
  Variant = "compound"
  Fine = FALSE
  CompFull = FALSE
INVARIANT C15_LastFactorOnly
CHECK_DEADLOCK FALSE
