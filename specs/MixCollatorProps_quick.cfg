SPECIFICATION PSpec
CONSTANTS
  Variant = "v1"
  Grid <- GridQuick
INVARIANT Inv_LabelForm
INVARIANT Inv_ImageForm
INVARIANT Inv_SamePartnerWeight
INVARIANT Inv_CtxWeight
INVARIANT Inv_RowSum
INVARIANT Inv_ShuffleMode
INVARIANT Inv_BatchLambda
INVARIANT Inv_TruePartner
INVARIANT Inv_BoxIndex
INVARIANT Inv_KindAsReported
CHECK_DEADLOCK FALSE
PROPERTY Terminates
