CONSTANTS
  Proto = "v0"
SPECIFICATION DescSpec
CONSTRAINT DescCollect
POSTCONDITION DescReport
CHECK_DEADLOCK FALSE
