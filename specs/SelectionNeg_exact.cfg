SPECIFICATION PSpec
CONSTANTS
  Proto = "v0"
  Kinds = {"oversample"}
  MaxN = 3
  MaxC = 2
  Den = 2
  MaxShots = 1
  MaxReps = 1
PROPERTY C03_Terminates
CHECK_DEADLOCK FALSE
