SPECIFICATION RSpec
CONSTANTS
  MaxN = 3
  MaxEpochs = 3
  Variant = "late"
INVARIANT R_BatchesCompatible
INVARIANT R_AnnounceCompatible
INVARIANT R_SameAsInterleaved
INVARIANT R_PrefixOfSame
INVARIANT R_Counters
INVARIANT R_Lockstep
PROPERTY Terminates
CHECK_DEADLOCK FALSE
