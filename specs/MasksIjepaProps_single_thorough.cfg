SPECIFICATION PSpec
CONSTANTS
  Mutant = "none"
  MaxH = 4
  MaxW = 4
  MaxCells = 16
  MaxP = 2
  MaxE = 2
  MaxB = 1
  MaxKeep = 2
  MaxT = 2
  MaxCalls = 1
INVARIANT C17_J_Layout
INVARIANT C17_J_InRange
INVARIANT C17_J_SortedDupFree
INVARIANT C17_J_PredRect
INVARIANT C17_J_PredCommonSize
INVARIANT C17_J_Disjoint
INVARIANT C17_J_EncCommonLen
INVARIANT C17_J_StepSizes
INVARIANT C17_J_SizesObservable
INVARIANT C17_TriesBound
INVARIANT C17_NoRelaxInDomain
INVARIANT C17_KeepsEnough
PROPERTY Terminates
CHECK_DEADLOCK FALSE
