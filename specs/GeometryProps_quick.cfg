SPECIFICATION PSpec
CONSTANTS
  Mutant = "none"
  Tries = 10
  Q = 8
  MaxHW = 5
  MaxT = 5
  MaxSmall = 3
  MaxLong = 8
INVARIANT C14_Answers
INVARIANT C14_ServesDomain
INVARIANT C14_InBounds
INVARIANT C14_Size
INVARIANT C14_TwoCrop
INVARIANT C14_Erase
INVARIANT C14_Mask
INVARIANT C14_Pad
INVARIANT C14_Resize
INVARIANT C14_Cover
INVARIANT C14_Inverse
INVARIANT C14_PatchTiles
PROPERTY Terminates
CHECK_DEADLOCK FALSE
