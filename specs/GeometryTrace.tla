---------------------------- MODULE GeometryTrace ----------------------------
(***************************************************************************)
(* Trace validation for C14.  TRACE_FILE holds                             *)
(*   {"traces": [{"id": n, "kind": k, "cfg": {constructor parameters},     *)
(*                "ev": [one record per call of the real transform]}]}     *)
(* recorded by harness/drivers/geometry.py from the real kappadata         *)
(* transforms on coordinate-encoded inputs.  Every event carries           *)
(*   st   "ok" | "refuse" (assert / raise of kappadata's own making) |     *)
(*        "raise" (any other exception) | "diverge" (deadline exceeded)    *)
(*   H, W the input extent, and - if ok - the observations of its kind.    *)
(* One step consumes one event and evaluates the clauses of C14 on the     *)
(* observed values (Fails = names of the clauses that do not hold).        *)
(* Clauses named Desc_... state conformance to the descriptive machine of  *)
(* Geometry.tla (the observation is an enabled instance of the modelled    *)
(* action); the driver reports them but they carry no verdict.  "Domain"   *)
(* fails iff the harness generated an input outside the stated domain      *)
(* (a machinery error, never a verdict).                                   *)
(***************************************************************************)
EXTENDS Geometry, Json, IOUtils, TLCExt

VARIABLES tid, l, fail
tvars == <<vars, tid, l, fail>>

Traces == JsonDeserialize(IOEnv.TRACE_FILE).traces
ASSUME TLCSet(1, {}) /\ TLCSet(2, {}) /\ TLCSet(3, {})

F(name, cond) == IF cond THEN {} ELSE {name}
Tol == 100                 \* normalise / denormalise: 1e-5 in units of 1e-7
SeqSet(s) == {s[q] : q \in 1..Len(s)}

\* cfg of the descriptive machine for a crop call
CropCfg(c, e) == [k |-> "rc", H |-> e.H, W |-> e.W, th |-> c.th, tw |-> c.tw, pl |-> c.pl, pt |-> c.pt, pr |-> c.pr,
                  pb |-> c.pb, pin |-> c.pin]
GeomOf(c, e) == PadGeom(e.H, e.W, c.pl, c.pt, c.pr, c.pb, c.pin, c.th, c.tw)
CropTooLarge(c, e) == LET g == GeomOf(c, e) IN g.h2 < c.th \/ g.w2 < c.tw

(* ------------------------------- rc / trc ------------------------------- *)
BoxIn(x, o, g) == InBounds(x[o + 1], x[o + 2], x[o + 3], x[o + 4], g.h2, g.w2)
BoxMap(c, e, map, oh, ow, x, o, g) ==
  /\ x[o + 3] = oh /\ x[o + 4] = ow
  /\ IF BoxIn(x, o, g) /\ Len(map) = oh * ow
       THEN CropMapOK(map, oh, ow, x[o + 1], x[o + 2], e.H, e.W, c.pl, c.pt, g, c.pmode)
       ELSE FALSE
RcOk(c, e) ==
  LET g == GeomOf(c, e) IN
    F("Domain", PadDomain(e.H, e.W, c.pl, c.pt, c.pr, c.pb, g, c.pmode))
    \cup F("Projection", e.cons)
    \cup F("CtxRecorded", e.hasctx)
    \cup F("SizeAsRequested", e.oh = c.th /\ e.ow = c.tw)
    \cup (IF e.hasctx
            THEN F("InBounds", BoxIn(e.ctx, 0, g))
                 \cup F("CtxReproduces", BoxMap(c, e, e.map, e.oh, e.ow, e.ctx, 0, g))
                 \cup F("Desc_Draw", <<e.ctx[1], e.ctx[2], e.ctx[3], e.ctx[4]>> \in CropDraws(CropCfg(c, e)))
            ELSE {})
TrcOk(c, e) ==
  LET g == GeomOf(c, e) IN
    F("Domain", PadDomain(e.H, e.W, c.pl, c.pt, c.pr, c.pb, g, c.pmode))
    \cup F("PairReturned", e.two)
    \cup (IF e.two
            THEN F("Projection", e.cons)
                 \cup F("CtxRecorded", e.hasctx)
                 \cup F("SizeAsRequested", e.oh = c.th /\ e.ow = c.tw /\ e.oh1 = c.th /\ e.ow1 = c.tw)
                 \cup (IF e.hasctx
                         THEN LET x == e.ctx
                                  b0 == <<x[1], x[2], x[3], x[4]>>
                                  b1 == <<x[5], x[6], x[7], x[8]>>
                                  inb == BoxIn(x, 0, g) /\ BoxIn(x, 4, g)
                                  o == IoU(b0, b1)
                                  inside == RLe(c.omin, o) /\ RLe(o, c.omax)
                              IN F("InBounds", inb)
                                 \cup F("CtxReproduces", /\ BoxMap(c, e, e.map, e.oh, e.ow, x, 0, g)
                                                         /\ BoxMap(c, e, e.map1, e.oh1, e.ow1, x, 4, g))
                                 \cup (IF inb
                                         THEN F("OverlapTruth", Abs(e.ov * o[2] - o[1] * 10000) <= o[2])
                                              \cup F("OverlapFlag", e.oot = ~inside)
                                              \cup F("Desc_Draw", b0 \in CropDraws(CropCfg(c, e)) /\ b1 \in CropDraws(CropCfg(c, e)))
                                              \cup F("Desc_Tries", IF e.oot THEN e.ndraw \in {0, 2 * (1 + c.tries)}
                                                                   ELSE e.ndraw <= 2 * (1 + c.tries))
                                         ELSE {})
                         ELSE {})
            ELSE {})

(* ---------------------------------- rrc --------------------------------- *)
RrcOk(c, e) ==
  F("CtxRecorded", e.hasctx)
  \cup F("SizeAsRequested", e.oh = c.th /\ e.ow = c.tw)
  \cup F("Projection", e.cons)
  \cup (IF e.hasctx
          THEN LET x == e.ctx
                   inb == InBounds(x[3], x[4], x[5], x[6], e.H, e.W)
               IN F("InBounds", inb)
                  \cup F("CtxReproduces", x[1] = e.H /\ x[2] = e.W /\ e.replay)
                  \cup (IF inb /\ e.near /\ e.cons
                          THEN F("SourcesInWindow", /\ x[3] <= e.box[1] /\ e.box[2] < x[3] + x[5]
                                                    /\ x[4] <= e.box[3] /\ e.box[4] < x[4] + x[6])
                          ELSE {})
                  \cup F("Desc_Attempts", /\ e.nuni % 2 = 0 /\ e.nuni >= 2 /\ e.nuni <= 2 * Tries
                                          /\ e.nint \in {0, 2} /\ (e.nint = 0 => e.nuni = 2 * Tries))
                  \cup (IF e.nint = 0 /\ e.nuni = 2 * Tries
                          THEN F("Desc_Fallback", <<x[3], x[4], x[5], x[6]>> = FallbackBox(e.H, e.W, c.rmin, c.rmax))
                          ELSE {})
          ELSE {})

(* ---------------------------------- src --------------------------------- *)
SrcOk(c, e) ==
  LET th == c.size
      tw == IF c.sq THEN c.size ELSE c.size2
      hp == e.rh + 2 * c.pad
      wp == e.rw + 2 * c.pad
  IN F("Domain", PadModeOK(e.rh, c.pad, c.pad, c.pmode) /\ PadModeOK(e.rw, c.pad, c.pad, c.pmode))
     \cup F("CtxRecorded", e.hasctx)
     \cup F("SizeAsRequested", e.oh = th /\ e.ow = tw)
     \cup (IF e.hasctx
             THEN F("InBounds", InBounds(e.ctx[1], e.ctx[2], e.ctx[3], e.ctx[4], hp, wp))
                  \cup F("CtxReproduces", e.ctx[3] = e.oh /\ e.ctx[4] = e.ow /\ e.replay)
             ELSE {})

(* -------------------------------- er / sa ------------------------------- *)
ErOk(c, e) ==
  F("ShapeKept", e.shape)
  \cup (IF e.shape
          THEN F("Projection", e.cons /\ Len(e.map) = e.H * e.W)
               \cup (IF Len(e.map) = e.H * e.W /\ (c.cmin = 1 /\ c.cmax \in {1, 2})
                       THEN LET S == Ones(e.map, e.H, e.W) IN
                              F("SingleRect", IsRect(S))
                              \cup F("Desc_LeavesRowAndColumn",
                                     S = {} \/ (Cardinality({p[1] : p \in S}) < e.H /\ Cardinality({p[2] : p \in S}) < e.W))
                       ELSE {})
          ELSE {})
SaOk(c, e) ==
  F("ShapeKept", e.shape)
  \cup (IF e.shape /\ Len(e.map) = e.H * e.W
          THEN LET rows == 0..(e.H - 1)
                   cols == 0..(e.W - 1)
                   R == {r \in rows : \A cc \in cols : Cell(e.map, e.W, r, cc) = 1}
                   Cc == {cc \in cols : \A r \in rows : Cell(e.map, e.W, r, cc) = 1}
               IN F("Projection", e.cons)
                  \cup F("BandsOnly", \A r \in rows : \A cc \in cols : Cell(e.map, e.W, r, cc) = 1 => (r \in R \/ cc \in Cc))
                  \cup (IF R = rows
                          THEN F("BandWidth", c.tm > e.H \/ c.fm > e.W)
                          ELSE F("BandContiguous", IsInterval(R) /\ IsInterval(Cc))
                               \cup F("BandWidth", /\ (R = {} \/ Cardinality(R) < c.tm)
                                                   /\ (Cc = {} \/ Cardinality(Cc) < c.fm)))
          ELSE {"Projection"})

(* ------------------------ image / segmentation pairs -------------------- *)
PairBase(e) == F("PairReturned", e.two)
SameExtent(e) == e.oh = e.sh /\ e.ow = e.sw /\ Len(e.ms) = e.sh * e.sw /\ (e.exact => Len(e.mx) = e.oh * e.ow)
Labels(e) == IF e.labid THEN 1..(e.H * e.W) ELSE SeqSet(e.lab)
MaskLabelsOnly(e) == \A q \in 1..Len(e.ms) : e.ms[q] \in Labels(e)
\* window of the coordinate image that starts where the first output pixel came from
FirstRow(e) == (e.mx[1] - 1) \div e.W
FirstCol(e) == (e.mx[1] - 1) % e.W
IsWindow(e) == /\ e.mx[1] >= 1
               /\ InBounds(FirstRow(e), FirstCol(e), e.oh, e.ow, e.H, e.W)
               /\ WindowMapOK(e.mx, e.oh, e.ow, FirstRow(e), FirstCol(e), e.W)

ScOk(c, e) ==
  PairBase(e)
  \cup (IF e.two
          THEN F("Projection", e.cons)
               \cup F("SizeAsRequested", e.oh = Min(e.H, c.th) /\ e.ow = Min(e.W, c.tw) /\ SameExtent(e))
               \cup (IF SameExtent(e) /\ e.oh >= 1 /\ e.ow >= 1
                       THEN F("InBounds", IsWindow(e))
                            \cup F("SameGeometry", SameGeometry(e, e.mx, e.ms))
                            \cup F("Desc_Draw", e.mx[1] >= 1 /\ FirstRow(e) <= Max(0, e.H - c.th) /\ FirstCol(e) <= Max(0, e.W - c.tw))
                       ELSE {})
          ELSE {})

\* the padded map shows the whole input, in place, at some offset; fill everywhere else
Embedded(e, top, left) ==
  \A r \in 0..(e.oh - 1) : \A cc \in 0..(e.ow - 1) :
     e.mx[r * e.ow + cc + 1] = IF r >= top /\ r < top + e.H /\ cc >= left /\ cc < left + e.W
                                 THEN (r - top) * e.W + (cc - left) + 1 ELSE 0
SpOk(c, e) ==
  PairBase(e)
  \cup (IF e.two
          THEN F("Projection", e.cons)
               \cup F("SizeAsRequested", e.oh = Max(e.H, c.th) /\ e.ow = Max(e.W, c.tw) /\ SameExtent(e))
               \cup (IF SameExtent(e)
                       THEN (IF \E q \in 1..Len(e.mx) : e.mx[q] = 1
                               THEN LET q1 == CHOOSE q \in 1..Len(e.mx) : e.mx[q] = 1
                                        top == (q1 - 1) \div e.ow
                                        left == (q1 - 1) % e.ow
                                    IN F("ContentPreserved", Embedded(e, top, left))
                                       \cup F("Desc_Centred", /\ (e.oh - e.H - top) - top \in {0, 1}
                                                              /\ (e.ow - e.W - left) - left \in {0, 1})
                               ELSE {"ContentPreserved"})
                            \cup F("SameGeometry", SameGeometry(e, e.mx, e.ms))
                       ELSE {})
          ELSE {})

SfOk(c, e) ==
  PairBase(e)
  \cup (IF e.two
          THEN F("Projection", e.cons)
               \cup F("SizeAsRequested", e.oh = e.H /\ e.ow = e.W /\ SameExtent(e))
               \cup (IF SameExtent(e) /\ e.oh = e.H /\ e.ow = e.W
                       THEN F("FlipOrIdentity",
                              \/ \A q \in 1..Len(e.mx) : e.mx[q] = q
                              \/ \A r \in 0..(e.H - 1) : \A cc \in 0..(e.W - 1) :
                                    e.mx[r * e.W + cc + 1] = r * e.W + (e.W - 1 - cc) + 1)
                            \cup F("SameGeometry", SameGeometry(e, e.mx, e.ms))
                       ELSE {})
          ELSE {})

ResizedPair(e) ==
  IF SameExtent(e)
    THEN (IF e.exact THEN F("SameGeometry", SameGeometry(e, e.mx, e.ms)) ELSE {})
         \cup F("MaskLabelsOnly", MaskLabelsOnly(e))
    ELSE {}
SzOk(c, e) ==
  PairBase(e)
  \cup (IF e.two
          THEN F("Projection", e.cons)
               \cup F("SizeAsRequested", e.oh = c.th /\ e.ow = c.tw /\ SameExtent(e))
               \cup ResizedPair(e)
          ELSE {})
SrOk(c, e) ==
  PairBase(e)
  \cup (IF e.two
          THEN F("Projection", e.cons)
               \cup F("SameSize", SameExtent(e))
               \cup F("NonEmpty", e.oh >= 1 /\ e.ow >= 1)
               \cup (IF e.oh >= 1 /\ e.ow >= 1
                       THEN (IF c.old
                               THEN F("ScaleRequested", /\ AspectKept(e.oh, e.ow, c.bh, c.bw)
                                                        /\ ScaleWithin(e.oh, e.ow, c.bh, c.bw, c.rmin, c.rmax))
                               ELSE F("AspectKept", AspectKept(e.oh, e.ow, e.H, e.W))
                                    \cup F("ScaleRequested",
                                           ScaleWithin(e.oh, e.ow, e.H, e.W, ScaleOf(c.bh, c.bw, e.H, e.W, c.rmin),
                                                       ScaleOf(c.bh, c.bw, e.H, e.W, c.rmax))))
                       ELSE {})
               \cup ResizedPair(e)
          ELSE {})

McOk(c, e) ==
  PairBase(e)
  \cup (IF e.two
          THEN LET rows == 2 * (e.H \div c.th) - 1
                   cols == 2 * (e.W \div c.tw) - 1
                   first(q) == e.mxs[q][1]
                   fr(q) == (first(q) - 1) \div e.W
                   fc(q) == (first(q) - 1) % e.W
                   win(q) == /\ Len(e.mxs[q]) = e.oh * e.ow /\ first(q) >= 1
                             /\ InBounds(fr(q), fc(q), e.oh, e.ow, e.H, e.W)
                             /\ WindowMapOK(e.mxs[q], e.oh, e.ow, fr(q), fc(q), e.W)
               IN F("Projection", e.cons /\ Len(e.mxs) = e.n /\ Len(e.mss) = e.n)
                  \cup F("SizeAsRequested", e.oh = c.th /\ e.ow = c.tw)
                  \cup (IF e.cons /\ Len(e.mxs) = e.n /\ Len(e.mss) = e.n /\ e.oh >= 1 /\ e.ow >= 1
                          THEN F("InBounds", \A q \in 1..e.n : win(q))
                               \cup F("SameGeometry", \A q \in 1..e.n : e.mss[q] = e.mxs[q])
                               \cup F("Desc_Grid", /\ e.n = rows * cols
                                                   /\ \A q \in 1..e.n : first(q) >= 1 => /\ fr(q) = ((q - 1) \div cols) * (c.th \div 2)
                                                                                         /\ fc(q) = ((q - 1) % cols) * (c.tw \div 2))
                          ELSE {})
          ELSE {})

PipeOk(c, e) ==
  PairBase(e)
  \cup (IF e.two
          THEN F("Projection", e.cons)
               \cup F("SameSize", SameExtent(e))
               \cup (IF c.fixed THEN F("SizeAsRequested", e.oh = c.th /\ e.ow = c.tw) ELSE {})
               \cup (IF SameExtent(e) THEN F("SameGeometry", SameGeometry(e, e.mx, e.ms)) ELSE {})
          ELSE {})

(* ------------------------- patches, normalisation ----------------------- *)
N(e) == e.H * e.W
PiOk(c, e) ==
  F("ShapeKept", e.shape)
  \cup (IF e.shape
          THEN LET lh == e.H \div c.ph
                   lw == e.W \div c.pw
               IN F("Projection", e.cons /\ Len(e.seq) = N(e) /\ Len(e.back) = N(e))
                  \cup F("CtxRecorded", e.hasctx)
                  \cup F("CtxReproduces", e.ctx = <<lh, lw>>)
                  \cup F("SizeAsRequested", e.dims = <<c.c, lh * lw, c.ph, c.pw>> /\ e.bdims = <<c.c, e.H, e.W>>)
                  \cup (IF Len(e.seq) = N(e) /\ Len(e.back) = N(e)
                          THEN F("IndexAlgebra", e.seq = PatchSeq(e.H, e.W, c.ph, c.pw))
                               \cup F("InBounds", SeqSet(e.seq) = 1..N(e))
                               \cup F("Inverse", e.back = Identity(N(e)))
                          ELSE {})
          ELSE {})
PaOk(c, e) ==
  F("ShapeKept", e.shape)
  \cup (IF e.shape
          THEN F("Projection", e.cons /\ Len(e.seq) = N(e) /\ Len(e.back) = N(e))
               \cup F("SizeAsRequested", e.dims = <<c.c, e.H \div c.ph, e.W \div c.pw, c.ph, c.pw>> /\ e.bdims = <<c.c, e.H, e.W>>)
               \cup (IF Len(e.seq) = N(e) /\ Len(e.back) = N(e)
                       THEN F("IndexAlgebra", e.seq = PatchSeq(e.H, e.W, c.ph, c.pw))
                            \cup F("InBounds", SeqSet(e.seq) = 1..N(e))
                            \cup F("Inverse", e.back = Identity(N(e)))
                       ELSE {})
          ELSE {})
PsOk(c, e) ==
  F("ShapeKept", e.shape)
  \cup (IF e.shape
          THEN LET L == (e.H \div c.ph) * (e.W \div c.pw) IN
               F("Projection", e.cons /\ Len(e.seq) = N(e) /\ Len(e.back) = N(e))
               \cup F("CtxRecorded", IsPerm(e.perm, L))
               \cup (IF Len(e.seq) = N(e) /\ Len(e.back) = N(e) /\ IsPerm(e.perm, L)
                       THEN F("CtxReproduces", e.seq = ShuffleSeq(PatchSeq(e.H, e.W, c.ph, c.pw), e.perm, c.ph * c.pw))
                            \cup F("InBounds", SeqSet(e.seq) = 1..N(e))
                            \cup F("Inverse", e.back = Identity(N(e)))
                       ELSE {})
          ELSE {})
NmOk(c, e) ==
  F("ShapeKept", e.shape)
  \cup (IF e.shape
          THEN F("Inverse", e.err_dn <= Tol /\ e.err_nd <= Tol)
               \cup F("Desc_Affine", e.err_aff <= Tol)
          ELSE {})

(* ------------------------------- dispatcher ----------------------------- *)
\* refusal is an answer only for: a crop larger than the (padded) input; extents the multi-crop grid or the patch
\* size does not divide (outside the stated domain of those transforms)
MayRefuseT(k, c, e) ==
  CASE k \in {"rc", "trc"} -> CropTooLarge(c, e)
    [] k = "mc" -> e.H % c.th # 0 \/ e.W % c.tw # 0 \/ c.th % 2 # 0 \/ c.tw % 2 # 0
    [] k \in {"pi", "pa", "ps"} -> e.H % c.ph # 0 \/ e.W % c.pw # 0
    [] OTHER -> FALSE

OkFails(k, c, e) ==
  CASE k = "rc" -> RcOk(c, e)
    [] k = "trc" -> TrcOk(c, e)
    [] k = "rrc" -> RrcOk(c, e)
    [] k = "src" -> SrcOk(c, e)
    [] k = "er" -> ErOk(c, e)
    [] k = "sa" -> SaOk(c, e)
    [] k = "sc" -> ScOk(c, e)
    [] k = "sp" -> SpOk(c, e)
    [] k = "sf" -> SfOk(c, e)
    [] k = "sz" -> SzOk(c, e)
    [] k \in {"sr", "sro"} -> SrOk(c, e)
    [] k = "mc" -> McOk(c, e)
    [] k = "pipe" -> PipeOk(c, e)
    [] k = "pi" -> PiOk(c, e)
    [] k = "pa" -> PaOk(c, e)
    [] k = "ps" -> PsOk(c, e)
    [] k = "nm" -> NmOk(c, e)
    [] OTHER -> {"UnknownKind"}

Fails(k, c, e) ==
  IF e.st = "ok" THEN OkFails(k, c, e) \cup (IF MayRefuseT(k, c, e) THEN {"Desc_Refuses"} ELSE {})
  ELSE IF e.st = "refuse" THEN F("Answers", MayRefuseT(k, c, e))
  ELSE IF e.st = "diverge" THEN {"Terminates"}
  ELSE {"Answers"}

Hard(S) == {x \in S : x \notin {"Desc_Draw", "Desc_Tries", "Desc_Attempts", "Desc_Fallback", "Desc_LeavesRowAndColumn",
                                "Desc_Centred", "Desc_Grid", "Desc_Affine", "Desc_Refuses"}}
TInit == /\ tid \in 1..Len(Traces) /\ l = 1 /\ fail = {}
         /\ cfg = 0 /\ pc = "trace" /\ loc = 0 /\ res = 0
TNext == /\ l <= Len(Traces[tid].ev) /\ Hard(fail) = {}
         /\ fail' = Fails(Traces[tid].kind, Traces[tid].cfg, Traces[tid].ev[l])
         /\ l' = l + 1
         /\ UNCHANGED <<vars, tid>>
TSpec == TInit /\ [][TNext]_tvars

\* verdict collection (state constraint).  Register 1: ids of traces whose every event satisfies every clause;
\* register 2: <<id, position of the first failing event, failed clauses>>.  Conformance-only failures (Desc_...)
\* do not stop a trace: they are reported through register 3.
Collect ==
  /\ IF Hard(fail) # {} THEN TLCSet(2, TLCGet(2) \cup {<<Traces[tid].id, l - 1, fail>>})
     ELSE IF l = Len(Traces[tid].ev) + 1 THEN TLCSet(1, TLCGet(1) \cup {Traces[tid].id})
     ELSE TRUE
  /\ IF fail # {} /\ Hard(fail) = {} THEN TLCSet(3, TLCGet(3) \cup {<<Traces[tid].id, l - 1, fail>>}) ELSE TRUE
Constraint == Collect /\ Hard(fail) = {}
Report == /\ PrintT(<<"ACCEPTED", TLCGet(1)>>) /\ PrintT(<<"REJECTED", TLCGet(2)>>)
          /\ PrintT(<<"NONCONFORMING", TLCGet(3)>>)
=============================================================================
