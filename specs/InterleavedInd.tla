---------------------------- MODULE InterleavedInd ----------------------------
(***************************************************************************)
(* The counter machine of Interleaved.tla (main stream only, no budget:    *)
(* the run goes on for ever) in a sequence-free, typed form for Apalache.  *)
(* IndInv is an inductive invariant for ANY number of epochs: checked as   *)
(*   Init => IndInv            (apalache --init=Init  --inv=IndInv  --length=0)            *)
(*   IndInv /\ Next => IndInv' (apalache --init=IndInv --inv=IndInv --length=1)            *)
(* It implies the checkpoint equations of C06 (Checkpoint) and the counter *)
(* relations C04 relies on (Relations) without any bound on the epochs.    *)
(* Geometry (N, B, DU) is fixed per run; the driver loops over a grid.     *)
(***************************************************************************)
EXTENDS Integers

CONSTANTS
  \* @type: Int;
  N,
  \* @type: Int;
  B,
  \* @type: Int;
  DU      \* drop unit: 0 = drop_last False, else drop_last_batch_size or B

VARIABLES
  \* @type: Int;
  epoch,
  \* @type: Int;
  update,
  \* @type: Int;
  sample,
  \* @type: Int;
  sInUpd,
  \* @type: Int;
  sInEp,
  \* @type: Int;
  sAtLast,
  \* @type: Str;
  pc

SPE == IF DU = 0 THEN N ELSE (N \div DU) * DU
UPE == (SPE + B - 1) \div B

GeomOK == /\ N >= 1 /\ B >= 1 /\ B <= N
          /\ (DU # 0 => (DU % B = 0 /\ DU <= N))

Init ==
  /\ epoch = 0 /\ update = 0 /\ sample = 0 /\ sInUpd = 0 /\ sInEp = 0 /\ sAtLast = 0
  /\ pc = "announce"

Announce ==
  /\ pc = "announce"
  /\ sInEp' = 0 /\ pc' = "main"
  /\ UNCHANGED <<epoch, update, sample, sInUpd, sAtLast>>
EmitMain ==
  /\ pc = "main"
  /\ sample' = sample + 1 /\ sInEp' = sInEp + 1 /\ sInUpd' = sInUpd + 1
  /\ pc' = IF sInUpd' = B \/ sInEp' = SPE THEN "close" ELSE "main"
  /\ UNCHANGED <<epoch, update, sAtLast>>
CloseUpdate ==
  /\ pc = "close"
  /\ sInUpd' = 0 /\ update' = update + 1
  /\ epoch' = IF sInEp = SPE THEN epoch + 1 ELSE epoch
  /\ pc' = "after"
  /\ UNCHANGED <<sample, sInEp, sAtLast>>
AfterUpdate ==
  /\ pc = "after"
  /\ sAtLast' = sample
  /\ pc' = IF sInEp = SPE THEN "announce" ELSE "main"
  /\ UNCHANGED <<epoch, update, sample, sInUpd, sInEp>>
Next == Announce \/ EmitMain \/ CloseUpdate \/ AfterUpdate

\* epochs completed BEFORE the epoch the counters sInEp / sInUpd talk about
Done == IF pc \in {"after", "announce"} /\ sInEp = SPE /\ SPE > 0 /\ epoch > 0 THEN epoch - 1 ELSE epoch

IndInv ==
  /\ GeomOK
  /\ pc \in {"announce", "main", "close", "after"}
  /\ epoch >= 0 /\ update >= 0 /\ sample >= 0
  /\ 0 <= sInUpd /\ sInUpd <= B
  /\ 0 <= sInEp /\ sInEp <= SPE
  /\ sInUpd <= sInEp
  \* at the top of an epoch (before its first index) the previous epoch is complete - or nothing happened yet
  /\ pc = "announce" => ((sInEp = SPE /\ epoch >= 1) \/ (sInEp = 0 /\ epoch = 0))
  /\ pc = "announce" => sInUpd = 0
  /\ pc = "after" => sInUpd = 0
  /\ pc = "after" => (sInEp >= 1 /\ (sInEp % B = 0 \/ sInEp = SPE))
  /\ (pc = "after" /\ sInEp = SPE) => epoch >= 1
  /\ pc = "close" => (sInUpd = B \/ sInEp = SPE)
  /\ pc = "close" => sInUpd >= 1
  /\ pc = "main" => (sInUpd < B /\ sInEp < SPE)
  \* the open update started on a multiple of B
  /\ pc \in {"main", "close"} => (sInEp - sInUpd) % B = 0
  \* counters as closed forms of (completed epochs, position in the epoch)
  /\ sample = Done * SPE + sInEp
  /\ pc \in {"main", "close"} => update = Done * UPE + (sInEp - sInUpd) \div B
  /\ pc \in {"after", "announce"} => update = Done * UPE + (sInEp + B - 1) \div B
  /\ pc \in {"main", "close", "after"} => sAtLast = Done * SPE + (IF pc = "after" THEN ((sInEp - 1) \div B) * B ELSE sInEp - sInUpd)
  /\ pc = "announce" => sAtLast = sample

(* ---------------- consequences (checked with --init=IndInv --length=0) ---------------- *)
\* C06: at every epoch boundary the counters are the checkpoint that boundary denotes
Checkpoint ==
  pc = "announce" => /\ update = epoch * UPE
                     /\ sample = epoch * SPE
                     /\ sInUpd = 0
                     /\ sAtLast = epoch * SPE
\* C04: an update never holds more than B samples; only an epoch's last update may be short
Relations ==
  /\ sInUpd <= B
  /\ pc = "close" /\ sInUpd < B => sInEp = SPE
=============================================================================
