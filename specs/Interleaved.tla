------------------------------ MODULE Interleaved ------------------------------
(***************************************************************************)
(* InterleavedSampler: the epoch / update / sample scheduler.              *)
(*                                                                         *)
(* Descriptive part: one action per yield / per decision of                *)
(* InterleavedSampler._training_loop / _eval_loop (kappadata/samplers/     *)
(* interleaved_sampler.py).  Every action that makes the real generator    *)
(* yield (or call set_epoch) puts the emitted event into `emit'; silent    *)
(* decisions put NoEv.                                                     *)
(*                                                                         *)
(* Normative part (independent of the actions): the closed form RefOut(c)  *)
(* of the whole stream per update number, and the clauses of C04/C05/C06   *)
(* over the history `out' (InterleavedProps.tla).                          *)
(*                                                                         *)
(* cfg (chosen in Init, never changes):                                    *)
(*   N      length of the main sampler (indices per epoch iteration)       *)
(*   md     length of the main data source (index offset of config 1)      *)
(*   B      batch size, 1..N                                               *)
(*   drop   drop_last                                                      *)
(*   dl     drop_last_batch_size, 0 = None (else multiple of B, <= N)      *)
(*   kind   "e" | "u" | "s"  budget kind, budget >= 0                      *)
(*   start  start epoch (checkpoint on an epoch boundary)                  *)
(*   se     main sampler has set_epoch                                     *)
(*   miter  <<>> (identity iteration) or sequence indexed by epoch-start+1 *)
(*          of the main sampler's own iteration at that epoch              *)
(*   sides  sequence of [len, dlen, bs, ee, eu, es, iter] (0 = None;       *)
(*          iter = <<>> means identity 0..len-1)                           *)
(***************************************************************************)
EXTENDS Integers, Sequences, FiniteSets, TLC

VARIABLES cfg, epoch, update, sample, sInUpd, sInEp, sAtLast, pc, pending, k, emit

vars == <<cfg, epoch, update, sample, sInUpd, sInEp, sAtLast, pc, pending, k, emit>>

Min(a, b) == IF a < b THEN a ELSE b

NoEv == [a |-> "none", full |-> FALSE, idx |-> -1, src |-> -1, pos |-> -1]
SetEpochEv(e) == [a |-> "se", full |-> FALSE, idx |-> e, src |-> -1, pos |-> -1]
YieldEv(f, i, s, p) == [a |-> "y", full |-> f, idx |-> i, src |-> s, pos |-> p]

(* ------------------------- geometry (normative) ------------------------ *)
DUnit(c) == IF c.dl # 0 THEN c.dl ELSE c.B
SPE(c)   == IF c.drop THEN (c.N \div DUnit(c)) * DUnit(c) ELSE c.N      \* samples per epoch
UPE(c)   == (SPE(c) + c.B - 1) \div c.B                                  \* updates per epoch
NSides(c) == Len(c.sides)
SideBS(c, i) == IF c.sides[i].bs # 0 THEN c.sides[i].bs ELSE c.B
RECURSIVE Offset(_, _)
Offset(c, i) == IF i = 1 THEN c.md ELSE Offset(c, i - 1) + c.sides[i - 1].dlen
MainIdx(c, ep, p) == IF c.miter = <<>> THEN p - 1 ELSE c.miter[ep - c.start + 1][p]
SideIdx(c, i, j)  == IF c.sides[i].iter = <<>> THEN j - 1 ELSE c.sides[i].iter[j]

\* the checkpoint an epoch boundary denotes
ResumeState(c, e) == [epoch |-> e, update |-> e * UPE(c), sample |-> e * SPE(c), sInUpd |-> 0, sAtLast |-> e * SPE(c)]

\* "reached or crossed by that update": a disjunction over the interval kinds the config carries
Due(c, i, ep, up, sa, prevSa, ended) ==
  LET s == c.sides[i] IN
     \/ s.ee # 0 /\ ended /\ ep % s.ee = 0
     \/ s.eu # 0 /\ up % s.eu = 0
     \/ s.es # 0 /\ prevSa \div s.es < sa \div s.es

ReachedAt(c, ep, up, sa) ==
     \/ c.kind = "e" /\ ep = c.budget
     \/ c.kind = "u" /\ up = c.budget
     \/ c.kind = "s" /\ sa >= c.budget

(* --------------------------- descriptive part -------------------------- *)
DueNow(i) == Due(cfg, i, epoch', update', sample, sAtLast, sInEp = SPE(cfg))

\* due configs with a non-empty pass, in config order
DueList(due(_)) == SelectSeq([i \in 1..NSides(cfg) |-> i], LAMBDA i : due(i) /\ cfg.sides[i].len > 0)

Start ==
  /\ pc = "start"
  /\ emit' = NoEv
  /\ IF cfg.budget = 0
       THEN /\ pending' = DueList(LAMBDA i : TRUE)
            /\ pc' = IF pending' = <<>> THEN "done" ELSE "eval"
       ELSE /\ pending' = <<>>
            /\ pc' = "announce"
  /\ UNCHANGED <<cfg, epoch, update, sample, sInUpd, sInEp, sAtLast, k>>

\* top of `while True`: sample_in_epoch = 0; main_sampler.set_epoch(epoch)
Announce ==
  /\ pc = "announce"
  /\ sInEp' = 0
  /\ emit' = IF cfg.se THEN SetEpochEv(epoch) ELSE NoEv
  /\ pc' = "main"
  /\ UNCHANGED <<cfg, epoch, update, sample, sInUpd, sAtLast, pending, k>>

\* one iteration of `for main_idx in self.main_sampler` up to and including the yield
EmitMain ==
  /\ pc = "main"
  /\ sample' = sample + 1
  /\ sInEp' = sInEp + 1
  /\ sInUpd' = sInUpd + 1
  /\ LET full == (sInUpd' = cfg.B) \/ (sInEp' = SPE(cfg))
         ix == MainIdx(cfg, epoch, sInEp')
     IN /\ emit' = YieldEv(full, ix, 0, ix)
        /\ pc' = IF full THEN "close" ELSE "main"
  /\ UNCHANGED <<cfg, epoch, update, sAtLast, pending, k>>

\* counters after a full batch; decide which configs are due (in config order)
CloseUpdate ==
  /\ pc = "close"
  /\ sInUpd' = 0
  /\ update' = update + 1
  /\ epoch' = IF sInEp = SPE(cfg) THEN epoch + 1 ELSE epoch
  /\ pending' = DueList(DueNow)
  /\ k' = 0
  /\ pc' = IF pending' = <<>> THEN "after" ELSE "side"
  /\ emit' = NoEv
  /\ UNCHANGED <<cfg, sample, sInEp, sAtLast>>

\* one iteration of `for interleaved_idx in config.sampler` (training loop and eval loop alike)
EmitSide ==
  /\ pc \in {"side", "eval"}
  /\ LET c == Head(pending)
         kk == k + 1
         full == (kk % SideBS(cfg, c) = 0) \/ (kk = cfg.sides[c].len)
         p == SideIdx(cfg, c, kk)
     IN /\ emit' = YieldEv(full, Offset(cfg, c) + p, c, p)
        /\ IF kk = cfg.sides[c].len
             THEN /\ pending' = Tail(pending)
                  /\ k' = 0
                  /\ pc' = IF pending' # <<>> THEN pc ELSE IF pc = "eval" THEN "done" ELSE "after"
             ELSE /\ pending' = pending
                  /\ k' = kk
                  /\ pc' = pc
  /\ UNCHANGED <<cfg, epoch, update, sample, sInUpd, sInEp, sAtLast>>

\* sample_at_last_update = sample; budget test; next epoch or next batch
AfterUpdate ==
  /\ pc = "after"
  /\ sAtLast' = sample
  /\ emit' = NoEv
  /\ pc' = IF ReachedAt(cfg, epoch, update, sample) THEN "done"
           ELSE IF sInEp = SPE(cfg) THEN "announce" ELSE "main"
  /\ UNCHANGED <<cfg, epoch, update, sample, sInUpd, sInEp, pending, k>>

Next == Start \/ Announce \/ EmitMain \/ CloseUpdate \/ EmitSide \/ AfterUpdate

InitWith(c) ==
  /\ cfg = c
  /\ LET r == ResumeState(c, c.start) IN
       /\ epoch = r.epoch /\ update = r.update /\ sample = r.sample
       /\ sInUpd = r.sInUpd /\ sAtLast = r.sAtLast
  /\ sInEp = 0
  /\ pc = "start"
  /\ pending = <<>>
  /\ k = 0
  /\ emit = NoEv

(* ----------------- normative closed form of the whole stream ----------- *)
\* Everything below is a function of cfg and the update number u >= 1 counted from the checkpoint.
RelEp(c, u)   == (u - 1) \div UPE(c)
InEp(c, u)    == (u - 1) % UPE(c)
Lo(c, u)      == InEp(c, u) * c.B + 1
Hi(c, u)      == Min((InEp(c, u) + 1) * c.B, SPE(c))
Ended(c, u)   == Hi(c, u) = SPE(c)
EpAt(c, u)    == c.start + RelEp(c, u)                              \* epoch the batch of update u belongs to
EpAfter(c, u) == EpAt(c, u) + (IF Ended(c, u) THEN 1 ELSE 0)
UpAfter(c, u) == c.start * UPE(c) + u
SaAfter(c, u) == IF u = 0 THEN c.start * SPE(c) ELSE (c.start + RelEp(c, u)) * SPE(c) + Hi(c, u)
DueAt(c, i, u) == Due(c, i, EpAfter(c, u), UpAfter(c, u), SaAfter(c, u), SaAfter(c, u - 1), Ended(c, u))
StopAt(c, u)  == ReachedAt(c, EpAfter(c, u), UpAfter(c, u), SaAfter(c, u))

\* a bound on the number of updates any in-domain run performs (budget strictly after the checkpoint)
UBound(c) == CASE c.kind = "e" -> (c.budget - c.start) * UPE(c)
               [] c.kind = "u" -> c.budget - c.start * UPE(c)
               [] c.kind = "s" -> c.budget - c.start * SPE(c)
InDomain(c) == c.budget = 0 \/ UBound(c) >= 1
LastUpdate(c) == CHOOSE u \in 1..UBound(c) : StopAt(c, u) /\ \A v \in 1..(u - 1) : ~StopAt(c, v)

WholePass(c, i) ==
  [j \in 1..c.sides[i].len |->
     YieldEv((j % SideBS(c, i) = 0) \/ (j = c.sides[i].len), Offset(c, i) + SideIdx(c, i, j), i, SideIdx(c, i, j))]
RECURSIVE ConcatAll(_)
ConcatAll(ss) == IF ss = <<>> THEN <<>> ELSE Head(ss) \o ConcatAll(Tail(ss))
Passes(c, due(_)) == ConcatAll([i \in 1..NSides(c) |-> IF due(i) THEN WholePass(c, i) ELSE <<>>])
MainBatch(c, u) ==
  [j \in 1..(Hi(c, u) - Lo(c, u) + 1) |->
     LET p == Lo(c, u) + j - 1 IN
       YieldEv((j = c.B) \/ (p = SPE(c)), MainIdx(c, EpAt(c, u), p), 0, MainIdx(c, EpAt(c, u), p))]
UpdateOut(c, u) ==
  (IF InEp(c, u) = 0 /\ c.se THEN <<SetEpochEv(EpAt(c, u))>> ELSE <<>>)
    \o MainBatch(c, u) \o Passes(c, LAMBDA i : DueAt(c, i, u))
RECURSIVE OutUpTo(_, _)
OutUpTo(c, u) == IF u = 0 THEN <<>> ELSE OutUpTo(c, u - 1) \o UpdateOut(c, u)
RefOut(c) == IF c.budget = 0 THEN Passes(c, LAMBDA i : TRUE) ELSE OutUpTo(c, LastUpdate(c))
=============================================================================
