---------------------------- MODULE MixWrapperProps ----------------------------
(***************************************************************************)
(* Model-checking harness for MixWrapper.tla.  Dataset (size, per-sample   *)
(* shapes, classes) chosen in Init, wrapper configuration (probabilities,  *)
(* seed or not, unify mode) by a first `Configure' step; then up to        *)
(* MaxCalls requests (all request forms).  Every returned value is judged  *)
(* by the normative step function of MixWrapperNorm (the one that judges   *)
(* recorded traces); the clauses of C11 are invariants over the failures.  *)
(***************************************************************************)
EXTENDS MixWrapper

CONSTANTS Grid,       \* set of <<N, shp, cls>>
          MaxCalls    \* requests per behaviour when a seed is set (without a seed requests are independent: 1)

VARIABLES configured, judged, calls, asked, known, fails
pvars == <<vars, configured, judged, calls, asked, known, fails>>

Sh2 == {<<1, 2>>, <<2, 1>>}
Sh3 == {<<1, 2>>, <<2, 1>>, <<2, 2>>}
GridQuick == {<<2, <<a, b>>, cl>> : a \in Sh2, b \in Sh2, cl \in {<<1, 2>>, <<1, 1>>}}
GridThorough ==
  {<<2, <<a, b>>, cl>> : a \in Sh3, b \in Sh3, cl \in {<<1, 2>>, <<1, 1>>}}
    \cup {<<3, <<a, b, c>>, cl>> : a \in Sh3, b \in Sh2, c \in {<<2, 2>>, <<1, 2>>}, cl \in {<<1, 2, 3>>, <<1, 2, 1>>}}
    \cup {<<1, <<a>>, <<1>>>> : a \in Sh2}
MaxOf(q) == CHOOSE m \in Range(q) : \A v \in Range(q) : v <= m

MkCfg(g, totalP, cutP, seeded, unify) ==
  [N |-> g[1], K |-> IF MaxOf(g[3]) < 2 THEN 2 ELSE MaxOf(g[3]), cls |-> g[3], shp |-> g[2],
   fshp |-> [k \in 1..g[1] |-> <<g[1] + ND>> \o g[2][k]],
   p1 |-> totalP = 4, seeded |-> seeded, cutmix |-> cutP > 0, S |-> 4, Tol |-> 0,
   totalP |-> totalP, cutP |-> cutP, unify |-> unify]

PInit ==
  /\ \E g \in Grid : InitWith(MkCfg(g, 4, 0, FALSE, TRUE))
  /\ configured = FALSE /\ judged = TRUE /\ calls = 0
  /\ asked = {} /\ fails = {}
  /\ known = [k \in 1..cfg.N |-> {}]

Configure ==
  /\ ~configured
  /\ configured' = TRUE
  /\ \E pp \in {<<4, 0>>, <<2, 0>>, <<4, 1>>, <<2, 1>>}, sd \in BOOLEAN, un \in BOOLEAN :
        /\ (~un => \A k \in 1..cfg.N : cfg.shp[k] = cfg.shp[1])    \* domain: differing shapes only with pad/cut
        /\ cfg' = [cfg EXCEPT !.totalP = pp[1], !.cutP = pp[2], !.p1 = (pp[1] = 4), !.cutmix = (pp[2] > 0),
                              !.seeded = sd, !.unify = un]
  /\ UNCHANGED <<seedTab, pc, req, draw, x, x2, sh2, deltas, d, y, nx, nc, ret, judged, calls, asked, known, fails>>

Keep == UNCHANGED <<configured, judged, calls, asked, known, fails>>
\* with a seed: several requests, all of the same index (the cross-request clause is per index)
PBegin ==
  /\ configured /\ judged
  /\ calls < (IF cfg.seeded THEN MaxCalls ELSE 1)
  /\ \E i \in 1..cfg.N, f \in {"xc", "cx", "x", "c"} : (calls > 0 => i = req.i) /\ Begin(i, f)
  /\ calls' = calls + 1 /\ judged' = FALSE
  /\ UNCHANGED <<configured, asked, known, fails>>
PDoDraw == configured /\ DoDraw /\ Keep
PUntouched == configured /\ Untouched /\ Keep
PLoadSecond == configured /\ LoadSecond /\ Keep
PRefuse == configured /\ Refuse /\ Keep
PAssertShapes == configured /\ AssertShapes /\ Keep
PUnifyDim == configured /\ UnifyDim /\ Keep
PMix == configured /\ Mix /\ Keep
\* the caller looks at what it got
Judge ==
  /\ pc = "idle" /\ ~judged /\ ret # <<>>
  /\ LET ex == StepEx(cfg, ret)
         was == ret.i \in asked
     IN /\ fails' = fails \cup StepFails(cfg, ret, ex, was, known[ret.i])
        /\ known' = [known EXCEPT ![ret.i] = StepKnown(cfg, ex, was, @)]
        /\ asked' = asked \cup {ret.i}
  /\ judged' = TRUE
  /\ UNCHANGED <<vars, configured, calls>>
PNext == Configure \/ PBegin \/ PDoDraw \/ PUntouched \/ PLoadSecond \/ PRefuse \/ PAssertShapes \/ PUnifyDim \/ PMix
           \/ Judge
PSpec == PInit /\ [][PNext]_pvars

(* ------------------------------ C11 ------------------------------------ *)
Inv_Convex == "C11_Convex" \notin fails
Inv_LabelMix == "C11_LabelMix" \notin fails
Inv_SamePartnerWeight == "C11_SamePartnerWeight" \notin fails
Inv_Simplex == "C11_Simplex" \notin fails
Inv_Shape == "C11_Shape" \notin fails
Inv_ProbOne == "C11_ProbOne" \notin fails
Inv_SeedSameDraw == "C11_SeedSameDraw" \notin fails
Inv_NoError == "C11_NoError" \notin fails
(* ------------------- descriptive sanity (not C11 clauses) -------------- *)
\* in-domain configurations never reach the failed shape assertion; the loop visits every dimension once
Inv_NoAssertFail == pc # "assertfail"
Inv_Loop == pc = "unify" => d \in 1..ND
\* the decode is faithful: the draw really used is among the explanations left
Inv_TrueDraw ==
  (judged /\ calls > 0 /\ ret # <<>> /\ ret.a = "get") =>
     \/ draw.apply > cfg.totalP /\ (<<req.i, -1>> \in known[req.i] \/ <<req.i, cfg.S>> \in known[req.i])
     \/ draw.apply <= cfg.totalP /\ \E p \in known[req.i] : p[1] = draw.idx2 /\ p[2] \in {-1, draw.w}
=============================================================================
