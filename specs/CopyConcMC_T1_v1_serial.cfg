SPECIFICATION Spec
CONSTANTS
  Procs <- P2
  Files <- T1Files
  Dirs <- T1Dirs
  DirOf <- T1DirOf
  Progs <- T1Progs
  WipeOrder <- T1WipeOrder
  FileOrder <- T1FileOrder
  Inits <- AllInits
  Proto = "v1"
  MaxCrashes = 2
  MaxRounds = 1
  Serial = TRUE
  SerialFirst = "p1"
  KeepHist = FALSE
INVARIANT TypeOK
INVARIANT Truthful
INVARIANT AllReturnedComplete
INVARIANT NoLeftovers
INVARIANT OwnWritesOK
INVARIANT NoFalseComplete
INVARIANT EndMarkerTruth
INVARIANT StartMarkerKept
INVARIANT NoRaceError
INVARIANT QuiescentComplete
INVARIANT RecoverOK
INVARIANT QuiescentCompleteCrash
PROPERTY NoUserDamage
PROPERTY CompletedKept
PROPERTY Terminates
PROPERTY RetMoment
PROPERTY StaysComplete
PROPERTY NotUsable
CHECK_DEADLOCK FALSE
