SPECIFICATION PSpec
CONSTANTS
  Proto = "v1"
  Kinds = {"filter", "percent", "subset_idx", "subset_pct", "subset_list", "shuffle", "sort", "intra", "repeat", "oversample", "fewshot", "classwise_idx", "classwise_pct"}
  MaxN = 6
  MaxC = 3
  Den = 8
  MaxShots = 3
  MaxReps = 3
INVARIANT C03_UnderlyingOnly
INVARIANT C03_FilterOnlyAllowed
INVARIANT C03_FilterAllAllowed
INVARIANT C03_FilterOriginalOrder
INVARIANT C03_RangeContiguous
INVARIANT C03_RangeBounds
INVARIANT C03_IndicesExact
INVARIANT C03_RangePartition
INVARIANT C03_ShufflePerm
INVARIANT C03_SortPerm
INVARIANT C03_SortNonDecreasing
INVARIANT C03_SortStable
INVARIANT C03_IntraPerm
INVARIANT C03_IntraClassSeq
INVARIANT C03_RepeatRoundRobin
INVARIANT C03_RepeatWhole
INVARIANT C03_RepeatSize
INVARIANT C03_OversampleKeepsAll
INVARIANT C03_OversampleBalance
INVARIANT C03_OversampleEven
INVARIANT C03_FewshotAmount
INVARIANT C03_FewshotDistinct
INVARIANT C03_ClasswiseAmount
INVARIANT C03_ClasswiseRange
INVARIANT C03_ClasswiseOrder
INVARIANT C03_SeedOnly
INVARIANT C03_Constructs
INVARIANT C03_RefuseDocumented
INVARIANT C03_ExactLoopProgress
INVARIANT C03_FailedEmpty
CHECK_DEADLOCK FALSE
