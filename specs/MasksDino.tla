------------------------------ MODULE MasksDino ------------------------------
(***************************************************************************)
(* C17 - DESCRIPTIVE part, DINO: the algorithm of                          *)
(* kappadata/collators/kd_dino_mask_collator.py, one action per decision   *)
(* of the code.                                                            *)
(*                                                                         *)
(*  collate:   K = int(B * V * mask_prob) masks are generated, mask i      *)
(*             (0-based) with a target  int(u * H*W), u drawn uniformly    *)
(*             from the i-th of K equal bins of [ratio_min, ratio_max];    *)
(*             the other B*V - K masks stay empty; the list is shuffled.   *)
(*  _generate_mask: while masked < target: delta = _mask_block(remaining); *)
(*             stop when delta = 0.                                        *)
(*  _mask_block: up to MaxTry (10) attempts; an attempt draws a block      *)
(*             h x w and a position and is REJECTED when the block does    *)
(*             not fit (h >= H or w >= W), is already fully masked, or     *)
(*             would add more new patches than remain; otherwise the block *)
(*             is painted and the attempt loop ends.                       *)
(*                                                                         *)
(* Abstraction: the float draws (target inside its bin, block area and     *)
(* aspect ratio) are nondeterministic choices over every integer result    *)
(* the arithmetic can produce (any h in 0..H, any w in 0..W: the model     *)
(* over-approximates min_num_patches / aspect-ratio limits, so whatever    *)
(* TLC proves holds for every such setting).                               *)
(*                                                                         *)
(* Mutant (negative control): "none" = the code; "noguard" drops the       *)
(* remaining-budget test of _mask_block; "ceil" rounds the number of       *)
(* masked samples up.                                                      *)
(***************************************************************************)
EXTENDS Masks

CONSTANTS MaxTry,    \* attempts per _mask_block call (10 in the code)
          Mutant

VARIABLES dcfg,      \* [H, W, B, V, p, rmin, rmax]   (p, rmin, rmax as <<num, den>>, rmin/rmax over one denominator)
          phase,     \* "next" | "loop" | "block" | "shuffle" | "done"
          idx,       \* 0-based index of the mask being generated
          target,    \* num_masked_patches_total of the current mask
          masked,    \* num_masked_patches of the current mask
          tries,     \* attempts made in the current _mask_block call
          cur,       \* the current mask (set of True patches)
          masks      \* the list `masks` (generated so far; complete after Pad)
dvars == <<dcfg, phase, idx, target, masked, tries, cur, masks>>

N == dcfg.B * dcfg.V
K == IF Mutant = "ceil" THEN (dcfg.B * dcfg.V * dcfg.p[1] + dcfg.p[2] - 1) \div dcfg.p[2]
     ELSE (dcfg.B * dcfg.V * dcfg.p[1]) \div dcfg.p[2]
HW == dcfg.H * dcfg.W
\* probs = linspace(rmin, rmax, K + 1); probs[i] = (a*K + (b - a)*i) / (d*K) with rmin = a/d, rmax = b/d
BinLo(i) == (HW * (dcfg.rmin[1] * K + (dcfg.rmax[1] - dcfg.rmin[1]) * i)) \div (dcfg.rmin[2] * K)
BinHi(i) == (HW * (dcfg.rmin[1] * K + (dcfg.rmax[1] - dcfg.rmin[1]) * (i + 1))) \div (dcfg.rmin[2] * K)

DInitWith(c) ==
  /\ dcfg = c
  /\ phase = "next" /\ idx = 0 /\ target = 0 /\ masked = 0 /\ tries = 0 /\ cur = {} /\ masks = <<>>

\* for i in range(num_masked_samples): num_masked_patches_total = int(uniform(probs[i], probs[i+1]) * num_patches)
StartMask ==
  /\ phase = "next" /\ idx < K
  /\ \E t \in BinLo(idx)..BinHi(idx) : target' = t
  /\ masked' = 0 /\ cur' = {} /\ tries' = 0
  /\ phase' = "loop"
  /\ UNCHANGED <<dcfg, idx, masks>>
\* while num_masked_patches < num_masked_patches_total: call _mask_block
EnterBlock ==
  /\ phase = "loop" /\ masked < target
  /\ tries' = 0 /\ phase' = "block"
  /\ UNCHANGED <<dcfg, idx, target, masked, cur, masks>>
\* loop condition false, or `if delta == 0: break`
FinishMask(why) ==
  /\ \/ why = "reached" /\ phase = "loop" /\ masked >= target
     \/ why = "gaveup" /\ phase = "block" /\ tries = MaxTry
  /\ masks' = Append(masks, cur)
  /\ idx' = idx + 1 /\ phase' = "next"
  /\ UNCHANGED <<dcfg, target, masked, tries, cur>>
FinishReached == FinishMask("reached")
FinishGaveUp == FinishMask("gaveup")

Reject == /\ tries' = tries + 1
          /\ UNCHANGED <<dcfg, phase, idx, target, masked, cur, masks>>
\* `if w >= self.width or h >= self.height: continue`
TryOutOfBounds ==
  /\ phase = "block" /\ tries < MaxTry
  /\ (\E h \in 0..dcfg.H, w \in 0..dcfg.W : (w >= dcfg.W \/ h >= dcfg.H)) = TRUE
  /\ Reject
\* `if num_unmasked_patches_in_block == 0: continue`   (also every empty block, h = 0 or w = 0)
TryFullyMasked ==
  /\ phase = "block" /\ tries < MaxTry
  /\ (\E h \in 0..(dcfg.H - 1), w \in 0..(dcfg.W - 1) : \E top \in 0..(dcfg.H - h), left \in 0..(dcfg.W - w) :
        Block(top, left, h, w, dcfg.W) \ cur = {}) = TRUE
  /\ Reject
\* `if num_unmasked_patches_in_block > num_remaining_patches_to_mask: continue`
TryOverBudget ==
  /\ phase = "block" /\ tries < MaxTry /\ Mutant # "noguard"
  /\ (\E h \in 0..(dcfg.H - 1), w \in 0..(dcfg.W - 1) : \E top \in 0..(dcfg.H - h), left \in 0..(dcfg.W - w) :
        Cardinality(Block(top, left, h, w, dcfg.W) \ cur) > target - masked) = TRUE
  /\ Reject
\* update mask; delta = number of newly masked patches > 0; break; num_masked_patches += delta
TryPlace ==
  /\ phase = "block" /\ tries < MaxTry
  /\ \E h \in 0..(dcfg.H - 1), w \in 0..(dcfg.W - 1) : \E top \in 0..(dcfg.H - h), left \in 0..(dcfg.W - w) :
        LET new == Block(top, left, h, w, dcfg.W) \ cur IN
          /\ new # {}
          /\ (Mutant = "noguard" \/ Cardinality(new) <= target - masked)
          /\ cur' = cur \cup new
          /\ masked' = masked + Cardinality(new)
  /\ phase' = "loop"
  /\ UNCHANGED <<dcfg, idx, target, tries, masks>>
\* masks = [zeros(H, W) for _ in range(B * V)]: the masks never generated stay empty
Pad ==
  /\ phase = "next" /\ idx >= K
  /\ masks' = masks \o [j \in 1..(N - Len(masks)) |-> {}]
  /\ phase' = "shuffle"
  /\ UNCHANGED <<dcfg, idx, target, masked, tries, cur>>
\* self.rng.shuffle(masks): any permutation
Perms(n) == { f \in [1..n -> 1..n] : \A a, b \in 1..n : f[a] = f[b] => a = b }
Shuffle ==
  /\ phase = "shuffle"
  /\ \E f \in Perms(Len(masks)) : masks' = [j \in 1..Len(masks) |-> masks[f[j]]]
  /\ phase' = "done"
  /\ UNCHANGED <<dcfg, idx, target, masked, tries, cur>>

DNext == StartMask \/ EnterBlock \/ FinishReached \/ FinishGaveUp \/ TryOutOfBounds \/ TryFullyMasked
         \/ TryOverBudget \/ TryPlace \/ Pad \/ Shuffle

(* -------- invariants of the algorithm (descriptive; they explain why the clauses hold) -------- *)
DTypeOK == /\ cur \subseteq Patches(dcfg.H, dcfg.W) /\ tries \in 0..MaxTry /\ idx \in 0..(K + 1)
           /\ phase \in {"next", "loop", "block", "shuffle", "done"}
\* remaining-budget accounting: the counter is the mask's size and never passes the target; the target never
\* passes the upper ratio
DAccounting == phase \in {"loop", "block"} => masked = Cardinality(cur) /\ masked <= target /\ target <= DinoCap(dcfg)
=============================================================================
