--------------------------- MODULE SelectionProps ---------------------------
(***************************************************************************)
(* Model-checking harness for C03: the configuration (kind, class layout,  *)
(* constructor arguments) is chosen from a bounded grid (kind and size in  *)
(* Init, the rest by a first `Configure' step so that TLC workers share    *)
(* the enumeration), the descriptive machine of SelectionAlg.tla runs to   *)
(* completion and every normative clause of Selection.tla is an invariant  *)
(* of its own, evaluated on the finished `indices'.                        *)
(***************************************************************************)
EXTENDS SelectionAlg

CONSTANTS Kinds,     \* wrapper kinds explored by this run
          MaxN,      \* dataset sizes 0..MaxN
          MaxC,      \* getdim_class() in 1..MaxC
          Den,       \* percent bounds None, 0/Den .. Den/Den
          MaxShots,  \* num_shots 0..MaxShots
          MaxReps    \* repetitions 1..MaxReps, min_size 1..MaxReps*MaxN+1

VARIABLE stage     \* 0 nothing chosen, 1 layout chosen, 2 configured
pvars == <<vars, stage>>

E0 == [mode |-> "", cs |-> <<>>, i1 |-> NoneI, i2 |-> NoneI, p1 |-> <<0, 0, 1>>, p2 |-> <<0, 0, 1>>,
       f1 |-> FALSE, f2 |-> FALSE, seed |-> NoneI]
Bounds == {<<0, 0, 1>>} \cup {<<1, x, Den>> : x \in 0..Den}
SeqsUpTo(S, m) == UNION {[1..l -> S] : l \in 0..m}

\* class layouts: every assignment of classes (absent, singleton and -1 = unlabeled included where the wrapper allows it)
LayoutsFor(kind, n) ==
  IF kind \in {"percent", "subset_idx", "subset_pct", "subset_list", "shuffle", "repeat"}
    THEN {<<1, [j \in 1..n |-> 0]>>}                                        \* class-agnostic wrappers
  ELSE LET low == IF kind \in {"filter", "oversample"} THEN -1 ELSE 0 IN
         UNION {{<<c, s>> : s \in [1..n -> low..(c - 1)]} : c \in 1..MaxC}

ArgsFor(kind, n) ==
  CASE kind = "filter" ->
         {[E0 EXCEPT !.mode = m, !.cs = s] : m \in {"valid", "invalid"}, s \in SeqsUpTo(-1..(MaxC - 1), 2)}
    [] kind = "percent" ->
         {[E0 EXCEPT !.p1 = a, !.p2 = b, !.f1 = x, !.f2 = y] : a \in Bounds, b \in Bounds, x \in BOOLEAN, y \in BOOLEAN}
    [] kind = "subset_idx" -> {[E0 EXCEPT !.i1 = a, !.i2 = b] : a \in -1..n, b \in -1..(n + 1)}
    [] kind = "subset_pct" -> {[E0 EXCEPT !.p1 = a, !.p2 = b] : a \in Bounds, b \in Bounds}
    [] kind = "subset_list" -> {[E0 EXCEPT !.cs = s] : s \in SeqsUpTo((0 - n)..(n - 1), 2)}
    [] kind \in {"shuffle", "intra"} -> {[E0 EXCEPT !.seed = s] : s \in {NoneI, 0}}
    [] kind = "sort" -> {E0}
    [] kind = "repeat" ->
         {[E0 EXCEPT !.mode = "reps", !.i1 = r] : r \in 1..MaxReps}
           \cup {[E0 EXCEPT !.mode = "min", !.i1 = r] : r \in 1..(MaxReps * MaxN + 1)}
    [] kind = "oversample" -> {[E0 EXCEPT !.mode = m] : m \in {"multiply", "exact"}}
    [] kind = "fewshot" -> {[E0 EXCEPT !.i1 = s, !.seed = 0] : s \in 0..MaxShots}
    [] kind = "classwise_idx" ->
         {[E0 EXCEPT !.i1 = a, !.i2 = b, !.f1 = x] : a \in -1..2, b \in -1..(n + 1), x \in BOOLEAN}
    [] kind = "classwise_pct" -> {[E0 EXCEPT !.p1 = a, !.p2 = b] : a \in Bounds, b \in Bounds}

PInit ==
  /\ \E kd \in Kinds, n \in 0..MaxN :
        /\ (kd \in {"repeat", "oversample", "fewshot"} => n >= 1)       \* their domain starts at one sample
        /\ InitWith([kind |-> kd, n |-> n, C |-> 1, cls |-> [j \in 1..n |-> 0]], E0)
  /\ stage = 0
\* two configuration steps (class layout, then constructor arguments) keep the fan-out of a single state small
ConfigureLayout ==
  /\ stage = 0
  /\ stage' = 1
  /\ \E lay \in LayoutsFor(ds.kind, ds.n) : ds' = [ds EXCEPT !.C = lay[1], !.cls = lay[2]]
  /\ UNCHANGED <<e, pc, ci, rem, k, out, perms, cnt, rngsrc>>
ConfigureArgs ==
  /\ stage = 1
  /\ stage' = 2
  /\ \E a \in ArgsFor(ds.kind, ds.n) : InDomain(ds, a) /\ e' = a
  /\ UNCHANGED <<ds, pc, ci, rem, k, out, perms, cnt, rngsrc>>
configured == stage = 2

Go == configured /\ UNCHANGED stage
PFilterStep == Go /\ FilterStep
PRangeStep == Go /\ RangeStep
PListStep == Go /\ ListStep
PShuffleStep == Go /\ ShuffleStep
PSortIter == Go /\ SortIter
PRepeatStart == Go /\ RepeatStart
PRepeatTile == Go /\ RepeatTile
PMulStart == Go /\ MulStart
PMulIter == Go /\ MulIter
PExStart == Go /\ ExStart
PExClass == Go /\ ExClass
PExWhile == Go /\ ExWhile
PFewIter == Go /\ FewIter
PIntraStart == Go /\ IntraStart
PIntraDraw == Go /\ IntraDraw
PIntraCompose == Go /\ IntraCompose
PCwIdxStart == Go /\ CwIdxStart
PCwIdxIter == Go /\ CwIdxIter
PCwPctIter == Go /\ CwPctIter
PNext ==
  \/ ConfigureLayout \/ ConfigureArgs \/ PFilterStep \/ PRangeStep \/ PListStep \/ PShuffleStep \/ PSortIter \/ PRepeatStart \/ PRepeatTile
  \/ PMulStart \/ PMulIter \/ PExStart \/ PExClass \/ PExWhile \/ PFewIter \/ PIntraStart \/ PIntraDraw
  \/ PIntraCompose \/ PCwIdxStart \/ PCwIdxIter \/ PCwPctIter
PSpec == PInit /\ [][PNext]_pvars /\ WF_pvars(PNext)

(* ------------------------------ the clauses ---------------------------- *)
At(kinds) == configured /\ pc = "done" /\ ds.kind \in kinds

C03_UnderlyingOnly == At(Kinds) => UnderlyingOnly(ds, out)
\* class filters keep precisely the allowed classes in original order
C03_FilterOnlyAllowed == At({"filter"}) => FilterOnlyAllowed(ds, e, out)
C03_FilterAllAllowed == At({"filter"}) => FilterAllAllowed(ds, e, out)
C03_FilterOriginalOrder == At({"filter"}) => OriginalOrder(out)
\* index / percent ranges are contiguous (and are the promised range)
C03_RangeContiguous == At(RangeKinds) => Contiguous(out)
C03_RangeBounds == At(RangeKinds) => RangeBounds(ds, e, out)
C03_IndicesExact == At({"subset_list"}) => IndicesExact(ds, e, out)
\* complementary ranges partition the dataset: the range below, the range itself and the range above
HasLo(a) == IF ds.kind \in {"subset_idx", "classwise_idx"} THEN a.i1 # NoneI ELSE IsSet(a.p1)
HasHi(a) == IF ds.kind \in {"subset_idx", "classwise_idx"} THEN a.i2 # NoneI /\ a.i2 < ds.n ELSE IsSet(a.p2)
Below(a) == [E0 EXCEPT !.i2 = a.i1, !.p2 = a.p1, !.f2 = (ds.kind = "percent" /\ a.f1)]
Above(a) == [E0 EXCEPT !.i1 = a.i2, !.p1 = a.p2, !.f1 = (ds.kind = "percent" /\ a.f2)]
C03_RangePartition ==
  (At(RangeKinds \cup ClasswiseKinds) /\ (ds.kind = "percent" => e.f1 = e.f2) /\ (ds.kind = "classwise_idx" => ~e.f1))
    => Partition(ds, << IF HasLo(e) THEN DRange(ds, Below(e)) ELSE <<>>,
                        out,
                        IF HasHi(e) THEN DRange(ds, Above(e)) ELSE <<>> >>)
\* shuffle / sort-by-class / intra-class-shuffle are permutations keeping nothing / class order with stable ties /
\* the per-position class sequence
C03_ShufflePerm == At({"shuffle"}) => IsPerm(ds, out)
C03_SortPerm == At({"sort"}) => IsPerm(ds, out)
C03_SortNonDecreasing == At({"sort"}) => NonDecreasing(ds, out)
C03_SortStable == At({"sort"}) => StableTies(ds, out)
C03_IntraPerm == At({"intra"}) => IsPerm(ds, out)
C03_IntraClassSeq == At({"intra"}) => SameClassSeq(ds, out)
\* repeat yields whole round-robin copies reaching the requested size
C03_RepeatRoundRobin == At({"repeat"}) => RoundRobin(ds, out)
C03_RepeatWhole == (configured /\ ds.kind = "repeat") => WholeCopies(ds, out)          \* at every step of the tiling
C03_RepeatSize == At({"repeat"}) => RepeatSize(ds, e, out)
\* oversampling keeps every sample and reaches the documented class balance
C03_OversampleKeepsAll == At({"oversample"}) => KeepsAll(ds, out)
C03_OversampleBalance == At({"oversample"}) => Balance(ds, e, out)
C03_OversampleEven == At({"oversample"}) => Even(ds, e, out)
\* few-shot and class-wise subsets take the requested amount per class
C03_FewshotAmount == At({"fewshot"}) => FewshotAmount(ds, e, out)
C03_FewshotDistinct == At({"fewshot"}) => Distinct(out)
C03_ClasswiseAmount == At(ClasswiseKinds) => ClasswiseAmount(ds, e, out)
C03_ClasswiseRange == At(ClasswiseKinds) => ClasswiseRange(ds, e, out)
C03_ClasswiseOrder == At(ClasswiseKinds) => NonDecreasing(ds, out)
\* the selection is a function of the constructor arguments and seed only: a draw never comes from the global
\* generator when a seed was given, and wrappers without a seed argument draw nothing
C03_SeedOnly ==
  /\ (e.seed # NoneI) => rngsrc # "global"
  /\ (ds.kind \notin RngKinds) => rngsrc = "none"
\* construction does not fail, refuses only where documented, and terminates
C03_Constructs == pc # "error"
C03_RefuseDocumented == (pc = "refuse") => MayRefuse(ds, e)
C03_ExactLoopProgress == (pc = "ex_while" /\ rem > 0) => CountOf(ds, ci) > 0           \* variant of the while loop
C03_Terminates == <>(pc \in {"done", "refuse", "error"})
\* cross-check: the whole Failed() decision table of Selection.tla (what the trace module evaluates) agrees
C03_FailedEmpty == At(Kinds) => Failed(ds, e, out) = {}
=============================================================================
