------------------------------ MODULE ModeWrapper ------------------------------
(***************************************************************************)
(* kappadata/wrappers/mode_wrapper.py: the mode string decides which items *)
(* a sample has and in which order.                                        *)
(*                                                                         *)
(* Descriptive part: the constructor's fusing loop (temp_items, first      *)
(* member trigger, all-members-present test, None-ing, for/else            *)
(* fall-through) and __getitem__'s call loop + un-fusing loop, one action  *)
(* per loop iteration.                                                     *)
(* Normative part: Ref - position p of the result is what the loader of    *)
(* mode[p] returns for the requested sample; members of a declared group   *)
(* that all occur exactly once stem from ONE joint call; 'ctx.k' is what   *)
(* the x loader recorded during THIS access.                               *)
(*                                                                         *)
(* Values are uninterpreted tags: a loader call gets a fresh call id cid;  *)
(* a single call for item it yields [it, cid]; a joint call for group g    *)
(* yields [g[j], cid] for every member j (same cid).                       *)
(***************************************************************************)
EXTENDS KDCommon, FiniteSets, TLC

VARIABLES mode,      \* Seq(item names)
          decl,      \* Seq(groups), a group = Seq(item names): the stack's fused_operations
          pc, i,
          temp,      \* temp_items (None-d entries = "None")
          fItems,    \* fused_items: sequence of [kind |-> "g", g |-> group] / [kind |-> "s", it |-> item]
          fIdxs,     \* fused_to_idxs: sequence of sequences of positions (singletons for unfused items)
          cid,       \* call-id counter
          vals,      \* values returned by the call loop, one per fItem
          recK,      \* what the x loader recorded under ctx key k in this access ("none" or cid)
          out,       \* result after un-fusing: Seq([it, cid])
          err

vars == <<mode, decl, pc, i, temp, fItems, fIdxs, cid, vals, recK, out, err>>

Loaders == {"x", "class", "y", "z"}
None == "None"
NoVal == [it |-> "none", cid |-> 0]

Init0(m, d) ==
  /\ mode = m /\ decl = d
  /\ pc = "ctor" /\ i = 1
  /\ temp = m /\ fItems = <<>> /\ fIdxs = <<>>
  /\ cid = 0 /\ vals = <<>> /\ recK = 0 /\ out = <<>> /\ err = "none"

Fused == decl # <<>>

(* ---- constructor: one iteration of `for i, item in enumerate(temp_items)` ---- *)
\* the first declared group (in declaration order) that is triggered by temp[i] and completely present
Triggered(g) == g[1] = temp[i] /\ \A j \in 2..Len(g) : g[j] \in SeqRange(temp)
Candidates == {n \in 1..Len(decl) : Triggered(decl[n])}
CtorIter ==
  /\ pc = "ctor" /\ i <= Len(mode)
  /\ i' = i + 1
  /\ IF ~Fused \/ temp[i] = None
       THEN UNCHANGED <<temp, fItems, fIdxs>>
       ELSE IF Candidates # {}
              THEN LET g == decl[CHOOSE n \in Candidates : \A n2 \in Candidates : n <= n2]
                       idxs == [j \in 1..Len(g) |-> FirstIndex(temp, g[j])]
                   IN /\ temp' = [p \in 1..Len(temp) |-> IF p \in SeqRange(idxs) THEN None ELSE temp[p]]
                      /\ fIdxs' = Append(fIdxs, idxs)
                      /\ fItems' = Append(fItems, [kind |-> "g", g |-> g, it |-> "none"])
              ELSE /\ temp' = temp
                   /\ fIdxs' = Append(fIdxs, <<i>>)
                   /\ fItems' = Append(fItems, [kind |-> "s", g |-> <<>>, it |-> temp[i]])
  /\ UNCHANGED <<mode, decl, pc, cid, vals, recK, out, err>>
CtorDone ==
  /\ pc = "ctor" /\ i > Len(mode)
  /\ pc' = "call" /\ i' = 1
  \* without fused operations the item list is the mode itself
  /\ IF Fused THEN UNCHANGED <<fItems, fIdxs>>
     ELSE /\ fItems' = [p \in 1..Len(mode) |-> [kind |-> "s", g |-> <<>>, it |-> mode[p]]]
          /\ fIdxs' = [p \in 1..Len(mode) |-> <<p>>]
  /\ UNCHANGED <<mode, decl, temp, cid, vals, recK, out, err>>

(* ---- __getitem__: one iteration of `for getitem_fn in self._getitem_fns` ---- *)
Call ==
  /\ pc = "call" /\ i <= Len(fItems)
  /\ i' = i + 1
  /\ LET f == fItems[i] IN
       IF f.kind = "g"
         THEN /\ cid' = cid + 1
              /\ vals' = Append(vals, [j \in 1..Len(f.g) |-> [it |-> f.g[j], cid |-> cid']])
              /\ recK' = IF "x" \in SeqRange(f.g) THEN cid' ELSE recK
              /\ err' = err
         ELSE IF f.it = "index"
                THEN /\ vals' = Append(vals, <<[it |-> "index", cid |-> 0]>>)
                     /\ UNCHANGED <<cid, recK, err>>
         ELSE IF f.it = "ctx.k"
                THEN /\ vals' = Append(vals, <<[it |-> "ctx.k", cid |-> recK]>>)
                     /\ err' = IF recK = 0 THEN "KeyError" ELSE err
                     /\ UNCHANGED <<cid, recK>>
         ELSE /\ cid' = cid + 1
              /\ vals' = Append(vals, <<[it |-> f.it, cid |-> cid']>>)
              /\ recK' = IF f.it = "x" THEN cid' ELSE recK
              /\ err' = err
  /\ UNCHANGED <<mode, decl, pc, temp, fItems, fIdxs, out>>
\* un-fusing: position fIdxs[n][j] receives member j of value n (later writes win, as in the code)
RECURSIVE Place(_, _, _)
Place(acc, n, j) ==
  IF n > Len(fIdxs) THEN acc
  ELSE IF j > Len(fIdxs[n]) THEN Place(acc, n + 1, 1)
  ELSE Place([acc EXCEPT ![fIdxs[n][j]] = vals[n][j]], n, j + 1)
Unfuse ==
  /\ pc = "call" /\ i > Len(fItems)
  /\ out' = Place([p \in 1..Len(mode) |-> NoVal], 1, 1)
  /\ pc' = "done"
  /\ UNCHANGED <<mode, decl, i, temp, fItems, fIdxs, cid, vals, recK, err>>

Next == CtorIter \/ CtorDone \/ Call \/ Unfuse

(* ------------------------------ normative ------------------------------ *)
\* the stated domain: a 'ctx.k' item only after an item that records k (the x loader)
InDomain(m) == \A p \in 1..Len(m) : m[p] = "ctx.k" => \E q \in 1..(p - 1) : m[q] = "x"
GroupsOK(d) == \* groups are duplicate-free and pairwise disjoint (the constructor asserts it)
  /\ \A n \in 1..Len(d) : Cardinality(SeqRange(d[n])) = Len(d[n])
  /\ \A n1, n2 \in 1..Len(d) : n1 # n2 => SeqRange(d[n1]) \cap SeqRange(d[n2]) = {}

\* clauses over a result o (sequence of [it, cid]) for mode m, declared groups d, call ids issued in (lo, hi]
PositionsRight(m, o) == Len(o) = Len(m) /\ \A p \in 1..Len(m) : o[p].it = m[p]
FreshCalls(m, o, lo, hi) ==
  \A p \in 1..Len(m) : m[p] \in Loaders \cup {"ctx.k", "ctx.k.s"} => (lo < o[p].cid /\ o[p].cid <= hi)
JointOnce(m, d, o) ==
  \A n \in 1..Len(d) :
     (\A j \in 1..Len(d[n]) : Count(m, d[n][j]) = 1) =>
        \A j1, j2 \in 1..Len(d[n]) : o[FirstIndex(m, d[n][j1])].cid = o[FirstIndex(m, d[n][j2])].cid
=============================================================================
