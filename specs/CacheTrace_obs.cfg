CONSTANTS
  Procs = {"p1", "p2", "p3"}
  Idx = {0, 1, 2, 3}
  MaxAcc = 100000
  MaxClears = 100000
  Proto = "v1"
SPECIFICATION ObsSpec
CONSTRAINT ObsConstraint
POSTCONDITION Report
CHECK_DEADLOCK FALSE
