--------------------------- MODULE InterleavedTrace ---------------------------
(***************************************************************************)
(* Trace validation for Interleaved.tla.  The file named by the            *)
(* environment variable TRACE_FILE holds                                   *)
(*    { "traces": [ { "id": n, "cfg": {...}, "resume": "none|epoch|update| *)
(*                    sample", "ev": [ {a, full, idx, src, pos}, ... ] } ] *)
(* recorded from the real InterleavedSampler (harness/drivers/interleaved. *)
(* py).  Each trace must be a behaviour of the machine: every emitting     *)
(* action consumes exactly one recorded event and must equal it field by   *)
(* field; silent actions consume nothing.  A trace is accepted when the    *)
(* machine is done and all events are consumed.  A trace whose only event  *)
(* is "refuse" (the constructor raised NotImplementedError) is accepted    *)
(* iff MayRefuse: only a start_update / start_sample checkpoint may be     *)
(* refused (C06).                                                          *)
(***************************************************************************)
EXTENDS Interleaved, Json, IOUtils, TLCExt

VARIABLES tid, l, bad
tvars == <<vars, tid, l, bad>>

Traces == JsonDeserialize(IOEnv.TRACE_FILE).traces

ASSUME TLCSet(1, {}) /\ TLCSet(2, {})

Ev(t, i) == Traces[t].ev[i]
NEv(t) == Len(Traces[t].ev)

MayRefuse(t) == Traces[t].resume \in {"update", "sample"}
IsRefusal(t) == NEv(t) = 1 /\ Ev(t, 1).a = "refuse"

\* recorded event r explains emitted event e: all logged fields equal (idx = -9 / col = -9 mean "not observable
\* in this observation mode"); a collated batch must carry the stamp of its own source's collator
Match(e, r) ==
  /\ e.a = r.a /\ e.full = r.full /\ e.src = r.src /\ e.pos = r.pos
  /\ (r.idx = -9 \/ e.idx = r.idx)
  /\ (r.col = -9 \/ r.col = e.src)

TInit ==
  /\ tid \in 1..Len(Traces)
  /\ l = 1
  /\ bad = FALSE
  /\ InitWith(Traces[tid].cfg)

TNext ==
  /\ ~IsRefusal(tid)
  /\ ~bad
  /\ Next
  /\ IF emit' = NoEv
       THEN l' = l /\ bad' = FALSE
       ELSE IF l <= NEv(tid) /\ Match(emit', Ev(tid, l))
              THEN l' = l + 1 /\ bad' = FALSE
              ELSE l' = l /\ bad' = TRUE     \* the specification emits something the trace does not contain here
  /\ UNCHANGED tid

TSpec == TInit /\ [][TNext]_tvars

Accepted ==
  \/ IsRefusal(tid) /\ MayRefuse(tid)
  \/ ~IsRefusal(tid) /\ ~bad /\ pc = "done" /\ l = NEv(tid) + 1

\* verdict collection (state constraint, always TRUE). Register 1: accepted ids. Register 2: for rejected
\* traces <<id, number of matched events, what the specification expected next>>.
Collect ==
  IF Accepted THEN TLCSet(1, TLCGet(1) \cup {Traces[tid].id})
  ELSE IF bad THEN TLCSet(2, TLCGet(2) \cup {<<Traces[tid].id, l - 1, emit>>})
  ELSE IF pc = "done" \/ IsRefusal(tid)
         THEN TLCSet(2, TLCGet(2) \cup {<<Traces[tid].id, l - 1, [NoEv EXCEPT !.a = "end"]>>})
  ELSE TRUE

Report == PrintT(<<"ACCEPTED", TLCGet(1)>>) /\ PrintT(<<"REJECTED", TLCGet(2)>>)
=============================================================================
