---------------------------- MODULE MixCollatorNorm ----------------------------
(***************************************************************************)
(* NORMATIVE PART of property C10 (batch mixup / cutmix mixes image and    *)
(* label with the same partner and weight).  No variables: the clauses are *)
(* operators over an OBSERVATION of one emitted batch                      *)
(*   c  = [B, H, W, K, onehot, lamb, shuffle, S, Tol, y0]                  *)
(*   s  = [lab  : Seq(Int)            label row of one output sample       *)
(*         pcs  : set of pixel classes [vec, n, top, left, bot, right]     *)
(*                (distinct pixel vectors, pixel count, bounding box)      *)
(*         lam  : weight reported in ctx["lambda"] for the sample, -1 none]*)
(* The batch is ID-ENCODED: image k is the k-th unit vector in channel     *)
(* space (x[k, c, :, :] = [c = k], C = B), so every output pixel is a      *)
(* coefficient vector over the SOURCE SAMPLES; labels are rows y0[k] of    *)
(* 0/1 entries (a one-hot row of K classes, or, for binary classification, *)
(* one scalar).  All real numbers are integers over the scale c.S          *)
(* (model: S = 4*H*W, exact, Tol = 0; traces: S = 10^6, Tol = 100).        *)
(* The clauses say nothing about how the collator computes; they are       *)
(* evaluated on the final state of the design model (MixCollatorProps) and *)
(* on observations recorded from the real collator (MixCollatorTrace).     *)
(***************************************************************************)
EXTENDS Integers, Sequences, FiniteSets, TLC

Abs(x) == IF x < 0 THEN -x ELSE x
Min2(a, b) == IF a < b THEN a ELSE b
Max2(a, b) == IF a > b THEN a ELSE b
Near(c, a, b) == Abs(a - b) <= c.Tol
Idx(c) == 1..c.B
Area(c) == c.H * c.W
UnitV(c, i) == [k \in 1..c.B |-> IF k = i THEN c.S ELSE 0]
\* w * e_i + (1 - w) * e_j
MixV(c, i, j, w) == [k \in 1..c.B |-> (IF k = i THEN w ELSE 0) + (IF k = j THEN c.S - w ELSE 0)]
VecNear(c, u, v) == Len(u) = Len(v) /\ \A k \in 1..Len(u) : Near(c, u[k], v[k])
RECURSIVE SumSeq(_)
SumSeq(q) == IF q = <<>> THEN 0 ELSE Head(q) + SumSeq(Tail(q))
RECURSIVE SumN(_)
SumN(Q) == IF Q = {} THEN 0 ELSE LET q == CHOOSE x \in Q : TRUE IN q.n + SumN(Q \ {q})

\* label_i = w * y_i + (1 - w) * y_j
LabelOK(c, s, i, j, w) ==
  /\ Len(s.lab) = c.K
  /\ \A k \in 1..c.K : Near(c, s.lab[k], w * c.y0[i][k] + (c.S - w) * c.y0[j][k])

\* image_i = w * x_i + (1 - w) * x_j, the same everywhere
ImageMixup(c, s, i, j, w) ==
  \E q \in s.pcs : s.pcs = {q} /\ q.n = Area(c) /\ VecNear(c, q.vec, MixV(c, i, j, w))

\* image_i = x_i with ONE box of x_j pasted; retained pixel fraction = w (exact up to the scale).
\* A box pasted from the sample itself (j = i) is invisible and leaves the weight unobservable.
ImageCutmix(c, s, i, j, w) ==
  LET own == {q \in s.pcs : VecNear(c, q.vec, UnitV(c, i))}
      oth == s.pcs \ own
      pasted == IF oth = {} THEN 0 ELSE (CHOOSE q \in oth : TRUE).n
  IN /\ Cardinality(oth) <= 1
     /\ Cardinality(own) <= 1
     /\ SumN(s.pcs) = Area(c)
     /\ \A q \in oth : /\ VecNear(c, q.vec, UnitV(c, j))
                       /\ q.n = (q.bot - q.top) * (q.right - q.left)
     /\ (i = j \/ Abs(w * Area(c) - (Area(c) - pasted) * c.S) <= c.Tol * Area(c))

ImageOK(c, s, i, j, w) == ImageMixup(c, s, i, j, w) \/ ImageCutmix(c, s, i, j, w)
Explained(c, s, i, j, w) == LabelOK(c, s, i, j, w) /\ ImageOK(c, s, i, j, w)
CtxOK(c, s, w) == s.lam < 0 \/ Near(c, w, s.lam)

\* weights an observation can possibly witness (every weight that is observable at all is within Tol of one of
\* these; an unobservable weight is witnessed by any of them).  Convexity: only weights in [0, 1].
OwnLabel(c, s, i) ==
  IF Len(s.lab) # c.K THEN {}
  ELSE IF c.onehot THEN {s.lab[k] : k \in {m \in 1..c.K : c.y0[i][m] = 1}}
  ELSE {s.lab[1], c.S - s.lab[1]}
WC(c, s, i) ==
  {w \in ({s.lam, c.S} \cup OwnLabel(c, s, i)
          \cup {q.vec[i] : q \in {r \in s.pcs : Len(r.vec) = c.B}}
          \cup {((Area(c) - q.n) * c.S) \div Area(c) : q \in s.pcs}) : w \in 0..c.S}

(* ---- the clauses of C10, per output sample ---- *)
\* the label row is a convex combination of the sample's row and ONE row of the batch
C10_LabelForm(c, s, i) == \E j \in Idx(c), w \in WC(c, s, i) : LabelOK(c, s, i, j, w)
\* the image is a mixup of, or a one-box cutmix with, ONE image of the batch
C10_ImageForm(c, s, i) == \E j \in Idx(c), w \in WC(c, s, i) : ImageOK(c, s, i, j, w)
\* image and label use the same partner and the same weight
C10_SamePartnerWeight(c, s, i) == \E j \in Idx(c), w \in WC(c, s, i) : Explained(c, s, i, j, w)
\* ... and that weight is the one reported in the context
C10_CtxWeight(c, s, i) == \E j \in Idx(c), w \in WC(c, s, i) : Explained(c, s, i, j, w) /\ CtxOK(c, s, w)
\* one-hot label rows still sum to one
C10_RowSum(c, s) == c.onehot => Near(c, SumSeq(s.lab), c.S)
\* partners that explain sample i completely
Cand(c, s, i) == {j \in Idx(c) : \E w \in WC(c, s, i) : Explained(c, s, i, j, w) /\ CtxOK(c, s, w)}

\* the failed clauses of one sample; cd = Cand(c, s, i) (clauses are only spelled out when no partner explains it)
SampleFails(c, s, i, cd) ==
  (IF C10_RowSum(c, s) THEN {} ELSE {"C10_RowSum"}) \cup
  (IF cd # {} THEN {}
   ELSE (IF C10_LabelForm(c, s, i) THEN {} ELSE {"C10_LabelForm"}) \cup
        (IF C10_ImageForm(c, s, i) THEN {} ELSE {"C10_ImageForm"}) \cup
        (IF C10_SamePartnerWeight(c, s, i) THEN {} ELSE {"C10_SamePartnerWeight"}) \cup
        (IF C10_CtxWeight(c, s, i) THEN {} ELSE {"C10_CtxWeight"}))

(* ---- the clauses of C10, per batch (cand = sequence of the samples' candidate partner sets) ---- *)
\* roll: a cyclic shift by one position, the same for every sample (the class documents "0 with 1, 1 with 2",
\* the code rolls the other way: either direction is a roll); flip: mirror; random: a permutation
RollMaps(B) == {[i \in 1..B |-> ((i + B - 2) % B) + 1], [i \in 1..B |-> (i % B) + 1]}
FlipMap(B) == [i \in 1..B |-> B + 1 - i]
Hall(B, cand) == \A T \in SUBSET (1..B) : Cardinality(UNION {cand[i] : i \in T}) >= Cardinality(T)
C10_ShuffleMode(c, cand) ==
  IF c.B = 1 THEN 1 \in cand[1]
  ELSE IF c.shuffle = "roll" THEN \E p \in RollMaps(c.B) : \A i \in Idx(c) : p[i] \in cand[i]
  ELSE IF c.shuffle = "flip" THEN c.B % 2 = 0 /\ \A i \in Idx(c) : FlipMap(c.B)[i] \in cand[i]
  ELSE Hall(c.B, cand)     \* some permutation p with p(i) \in cand[i] for all i

\* lamb_mode = batch: one weight and one box for the whole batch
VisibleBoxes(c, smp) ==
  UNION {{<<q.top, q.left, q.bot, q.right>> : q \in {r \in smp[i].pcs : ~VecNear(c, r.vec, UnitV(c, i))}} : i \in Idx(c)}
C10_BatchLambda(c, smp, cand) ==
  c.lamb = "batch" =>
    /\ Cardinality(VisibleBoxes(c, smp)) <= 1
    /\ LET obsv == {i \in Idx(c) : i \notin cand[i]} IN
         obsv = {} \/ LET i0 == CHOOSE i \in obsv : TRUE IN
                        \E w \in WC(c, smp[i0], i0) : \A i \in Idx(c) : \E j \in cand[i] : Explained(c, smp[i], i, j, w)

BatchFails(c, smp, cand) ==
  (IF C10_ShuffleMode(c, cand) THEN {} ELSE {"C10_ShuffleMode"}) \cup
  (IF C10_BatchLambda(c, smp, cand) THEN {} ELSE {"C10_BatchLambda"})


(* ---- pass-through and layout (e = the batch-level observation) ---- *)
\* items other than image and label pass through unchanged (equality classes of their bytes), nothing added or lost
C10_PassThrough(e) == e.pout = e.pin /\ e.nout = e.nin
\* image and label keep their layout: (B, C, H, W) and (B, K) - or (B) for binary scalar labels
C10_Layout(c, e) == e.xs = <<c.B, c.B, c.H, c.W>> /\ e.ys = (IF c.onehot THEN <<c.B, c.K>> ELSE <<c.B>>)
=============================================================================
