SPECIFICATION PSpec
CONSTANTS
  Proto = "v0"
  Kinds = {"percent", "subset_idx", "subset_pct", "classwise_idx", "classwise_pct"}
  MaxN = 3
  MaxC = 2
  Den = 2
  MaxShots = 1
  MaxReps = 1
INVARIANT C03_RangePartition
CHECK_DEADLOCK FALSE
