------------------------------- MODULE Labels -------------------------------
(***************************************************************************)
(* C16 - label-rewriting wrappers of KappaData.                            *)
(*                                                                         *)
(* NORMATIVE part (section 1): the clauses of the property statement as    *)
(* operators over what is observable at the public API - the per-sample    *)
(* accessor (getitem_class), the bulk accessor (getall_class), the class   *)
(* shape query (getshape_class) and the other items of the wrapped data.   *)
(* Nothing in it refers to how a wrapper computes its labels.              *)
(*                                                                         *)
(* DESCRIPTIVE part (sections 2, 3): the algorithms of the ten wrappers,   *)
(* one action per loop iteration / table construction of the code:         *)
(*   cg   ClassGroupsWrapper       group table (+shuffle), per-class       *)
(*                                 running counter, map                    *)
(*   rs   RandomSuperclassWrapper  class permutation, sample shuffle,      *)
(*                                 running counter, inverse permutation    *)
(*   swap SwapLabelWrapper         np.where(apply, new, old) per sample    *)
(*   ow   OverwriteClassesWrapper  table lookup                            *)
(*   ag   AllgatherClassWrapper    pad, rearrange "(s w) -> (w s)", cut    *)
(*   pl   KDPseudoLabelWrapper     hard / soft argmax / thresholded /      *)
(*                                 top-k choice                            *)
(*   rc   KDRandomClassWrapper     random / randperm-repeat / gatherbug    *)
(*   semi SemiWrapper              first floor(N*p) of a permutation -> -1 *)
(*   ls   LabelSmoothingWrapper    exact rationals over a common           *)
(*   oh   OneHotWrapper            denominator                             *)
(*                                                                         *)
(* Proto = "v0" is the tree as found: the all-gather bulk accessor indexes *)
(* twice, the pseudo-label bulk accessor ignores the threshold and the     *)
(* overwrite wrapper has no bulk accessor of its own (the wrapped one      *)
(* answers).  Proto = "v1" is the repaired tree.                           *)
(* Seeded = FALSE replaces every seeded draw by one that depends on the    *)
(* global generator state `glob' (negative control for Functional).        *)
(***************************************************************************)
EXTENDS Integers, Sequences, FiniteSets

CONSTANTS Proto, Seeded

VARIABLES kind, n, C, cls, par,             \* configuration (fixed once chosen)
          glob, round, first,               \* global RNG state of this construction, construction number, round-1 result
          pc, i,                            \* control
          counter, within, table, idxs,     \* working tables of the constructor
          items, encs, bulk, refused, dim   \* what the public API shows

cfgv == <<kind, n, C, cls, par>>
work == <<counter, within, table, idxs>>
obsv == <<items, encs, bulk, refused, dim>>
vars == <<kind, n, C, cls, par, glob, round, first, pc, i, counter, within, table, idxs, items, encs, bulk, refused, dim>>

(* ------------------------------ helpers -------------------------------- *)
Range(s) == {s[j] : j \in DOMAIN s}
Ceil(a, b) == (a + b - 1) \div b
Id0(m) == [j \in 1..m |-> j - 1]
Perms0(m) == {p \in [1..m -> 0..(m - 1)] : Range(p) = 0..(m - 1)}
Rot(s, g) == [j \in DOMAIN s |-> s[((j - 1 + g) % Len(s)) + 1]]
RECURSIVE SumTo(_, _)
SumTo(s, k) == IF k = 0 THEN 0 ELSE s[k] + SumTo(s, k - 1)

(***************************************************************************)
(* 1. NORMATIVE clauses                                                    *)
(***************************************************************************)
Unlabeled == -1
LabelOK(x, d) == x = Unlabeled \/ (0 <= x /\ x < d)
\* the bulk label accessor equals the per-sample accessor element-wise
Coherent(its, blk) == Len(blk) = Len(its) /\ \A j \in 1..Len(its) : blk[j] = its[j]
\* every produced label lies in the range announced by the class-shape query or is the -1 marker
InRange(labs, d) == \A j \in 1..Len(labs) : LabelOK(labs[j], d)
\* wrapped data other than the label is untouched (equality classes of the payloads, index by index)
Untouched(xw, xb) == xw = xb
\* the mapping is a function of the constructor arguments and seed
Functional(a, b) == a = b
\* the only explicit refusal the property tolerates: the bulk accessor of sampled (top-k) pseudo-labels
MayRefuseBulk(k, sub) == k = "pl" /\ sub = "topk"
\* encodings: vectors of integers over a common denominator `den'
EncNonNeg(v) == \A m \in 1..Len(v) : v[m] >= 0
EncSumOne(v, den, tol) == (SumTo(v, Len(v)) - den) \in (0 - tol)..tol
EncArgmax(v, c, strict) ==
  /\ (c + 1) \in 1..Len(v)
  /\ \A m \in 1..Len(v) : m # c + 1 => (IF strict THEN v[c + 1] > v[m] ELSE v[c + 1] >= v[m])
\* documented binary case (one announced class, labels 0/1): the scalar p stands for the pair (1-p, p)
EncBinary(p, den, c, strict) == 0 <= p /\ p <= den /\ (strict => ((2 * p > den) <=> (c = 1)))

(***************************************************************************)
(* 2. DESCRIPTIVE operators (closed forms used by the actions and lemmas)  *)
(***************************************************************************)
\* global generator reaches a draw only in the unseeded mutant
G == IF Seeded THEN 0 ELSE glob
EffPerm(p) == IF G = 0 THEN p ELSE Rot(p, G)
EffMask(m) == [j \in DOMAIN m |-> IF G = 0 THEN m[j] ELSE ~m[j]]
EffDraw(d, m) == [j \in DOMAIN d |-> (d[j] + G) % m]

\* running per-class counter, closed form: number of earlier entries with the same class
WithinOf(cs) == [j \in 1..Len(cs) |-> Cardinality({q \in 1..(j - 1) : cs[q] = cs[j]})]

\* all-gather geometry
AGPad(N, W) == (W - (N % W)) % W
\* closed form by rank shares: rank r of W reads padded[r], padded[r+W], ...; all_gather concatenates the shares
AGPadded(src, W) == src \o SubSeq(src, 1, AGPad(Len(src), W))
AGShare(pd, W, r) == [t \in 1..(Len(pd) \div W) |-> pd[r + (t - 1) * W + 1]]
RECURSIVE AGConcat(_, _, _)
AGConcat(pd, W, r) == IF r = W THEN <<>> ELSE AGShare(pd, W, r) \o AGConcat(pd, W, r + 1)
AGGathered(src, W) == SubSeq(AGConcat(AGPadded(src, W), W, 0), 1, Len(src))

\* score rows (distinct scores): first maximal index, index holding rank r (1 = largest)
ArgmaxIdx(row) == CHOOSE m \in 1..Len(row) : \A q \in 1..Len(row) : row[m] > row[q] \/ (row[m] = row[q] /\ m <= q)
IdxOfRank(row, r) == CHOOSE m \in 1..Len(row) : Cardinality({q \in 1..Len(row) : row[q] > row[m]}) = r - 1

SubOf == IF kind \in {"pl", "rc"} THEN par.sub ELSE "-"
IsEnc == kind \in {"ls", "oh"}

DimOf == CASE kind = "rs" -> Ceil(C, par.cps) * par.splits
           [] kind = "rc" -> par.nc
           [] OTHER -> C

\* the sequence the running counter walks over
SamplePerm == IF kind = "rs" /\ par.shuffle THEN EffPerm(par.sperm) ELSE Id0(n)
CountSeq == IF kind = "rs" THEN [j \in 1..n |-> cls[SamplePerm[j] + 1]] ELSE cls

PLArg(j) == ArgmaxIdx(par.rows[j]) - 1
PLItem(j) ==
  CASE par.sub = "hard" -> par.tbl[j]
    [] par.sub = "soft" -> PLArg(j)
    [] par.sub = "thr"  -> IF par.conf[j] > par.thr THEN PLArg(j) ELSE Unlabeled
    [] par.sub = "topk" -> IdxOfRank(par.rows[j], EffDraw(par.choice, par.k)[j] + 1) - 1

\* getitem_class(j-1)
MapItem(j) ==
  CASE kind = "cg"   -> (table[cls[j] + 1] * par.cpg) + (within[j] % par.cpg)
    [] kind = "rs"   -> (table[cls[j] + 1] \div par.cps)
                          + (IF par.splits > 1 THEN (within[j] % par.splits) * Ceil(C, par.cps) ELSE 0)
    [] kind = "swap" -> table[j]
    [] kind = "ow"   -> par.tbl[j]
    [] kind = "ag"   -> cls[idxs[j] + 1]
    [] kind = "pl"   -> PLItem(j)
    [] kind = "rc"   -> IF par.sub = "gatherbug" THEN idxs[j] ELSE table[j]
    [] kind = "semi" -> IF (j - 1) \in Range(idxs) THEN Unlabeled ELSE cls[j]
    [] OTHER         -> cls[j]

\* getall_class()[j-1]
MapBulk(j) ==
  CASE kind = "ag" -> IF Proto = "v0" THEN cls[idxs[idxs[j] + 1] + 1] ELSE cls[idxs[j] + 1]
    [] kind = "ow" -> IF Proto = "v0" THEN cls[j] ELSE par.tbl[j]
    [] kind = "pl" -> IF par.sub = "thr" /\ Proto = "v0" THEN PLArg(j) ELSE PLItem(j)
    [] kind \in {"ls", "oh"} -> cls[j]          \* pass-through of the original ids
    [] OTHER -> MapItem(j)

\* getitem_class(j-1) of the two encoding wrappers: [form, den, v]
EncOf(j) ==
  IF kind = "oh" THEN [form |-> "vec", den |-> 1, v |-> [m \in 1..C |-> IF m = cls[j] + 1 THEN 1 ELSE 0]]
  ELSE IF par.sn = 0 THEN [form |-> "int", den |-> 1, v |-> <<cls[j]>>]
  ELSE IF C = 1 THEN [form |-> "bin", den |-> 2 * par.sd, v |-> <<IF cls[j] = 1 THEN 2 * par.sd - par.sn ELSE par.sn>>]
  ELSE [form |-> "vec", den |-> par.sd * C,
        v |-> [m \in 1..C |-> IF m = cls[j] + 1 THEN par.sd * C - par.sn * C + par.sn ELSE par.sn]]

(***************************************************************************)
(* 3. DESCRIPTIVE machine: one construction + one sweep of both accessors  *)
(***************************************************************************)
FirstPhase ==
  CASE kind \in {"cg", "rs"} -> "table"
    [] kind = "swap" -> "where"
    [] kind = "ag" -> "pad"
    [] kind = "rc" -> (IF par.sub = "gatherbug" THEN "gbase" ELSE "fill")
    [] kind = "semi" -> "pick"
    [] OTHER -> "items"

InitWith(k, nn, cc, cl, pr) ==
  /\ kind = k /\ n = nn /\ C = cc /\ cls = cl /\ par = pr
  /\ glob = 0 /\ round = 1 /\ first = <<>>
  /\ pc = "start" /\ i = 1
  /\ counter = <<>> /\ within = <<>> /\ table = <<>> /\ idxs = <<>>
  /\ items = <<>> /\ encs = <<>> /\ bulk = <<>> /\ refused = FALSE /\ dim = 0

\* __init__ begins; the global generator is in some state; getshape_class is answered from the arguments
Start ==
  /\ pc = "start"
  /\ glob' \in (IF round = 1 THEN {0} ELSE 0..1)      \* the second construction meets another generator state
  /\ dim' = DimOf
  /\ pc' = FirstPhase /\ i' = 1
  /\ counter' = [c \in 0..(C - 1) |-> 0]
  /\ within' = <<>> /\ table' = <<>> /\ idxs' = <<>>
  /\ items' = <<>> /\ encs' = <<>> /\ bulk' = <<>> /\ refused' = FALSE
  /\ UNCHANGED <<cfgv, round, first>>

\* cg: np.arange(G).repeat(cpg) [rng.permuted]; rs: rng.permutation(C) / arange(C)
BuildTable ==
  /\ pc = "table"
  /\ table' = IF kind = "cg"
                THEN LET base == [c \in 1..(Ceil(C, par.cpg) * par.cpg) |-> (c - 1) \div par.cpg]
                     IN IF par.shuffle THEN LET p == EffPerm(par.tperm) IN [c \in DOMAIN base |-> base[p[c] + 1]]
                        ELSE base
                ELSE IF par.shuffle THEN EffPerm(par.cperm) ELSE Id0(C)
  /\ pc' = IF kind = "cg" \/ par.splits > 1 THEN "count" ELSE "items"
  /\ i' = 1
  /\ UNCHANGED <<cfgv, glob, round, first, counter, within, idxs, obsv>>

\* for cls in classes: idx_within_class.append(counter[cls]); counter[cls] += 1
CountStep ==
  /\ pc = "count" /\ i <= n
  /\ LET c == CountSeq[i] IN
       /\ within' = Append(within, counter[c])
       /\ counter' = [counter EXCEPT ![c] = @ + 1]
  /\ i' = IF i < n THEN i + 1 ELSE 1
  /\ pc' = IF i < n THEN "count" ELSE IF kind = "rs" THEN "invert" ELSE "items"
  /\ UNCHANGED <<cfgv, glob, round, first, table, idxs, obsv>>

\* rs: idx_within_class = np.array(idx_within_class)[np.argsort(perm)]
Invert ==
  /\ pc = "invert"
  /\ within' = [j \in 1..n |-> within[CHOOSE q \in 1..n : SamplePerm[q] = j - 1]]
  /\ pc' = "items" /\ i' = 1
  /\ UNCHANGED <<cfgv, glob, round, first, counter, table, idxs, obsv>>

\* swap: np.where(apply, new_classes, og_classes), element by element
WhereStep ==
  /\ pc = "where" /\ i <= n
  /\ table' = Append(table, IF EffMask(par.apply)[i] THEN EffDraw(par.newc, C)[i] ELSE cls[i])
  /\ i' = IF i < n THEN i + 1 ELSE 1
  /\ pc' = IF i < n THEN "where" ELSE "items"
  /\ UNCHANGED <<cfgv, glob, round, first, counter, within, idxs, obsv>>

\* rc gatherbug: arange(nc).repeat_interleave(ceil(N/nc))[:N]
GatherBase ==
  /\ pc = "gbase"
  /\ table' = [j \in 1..n |-> (j - 1) \div Ceil(n, par.nc)]
  /\ pc' = "pad"
  /\ UNCHANGED <<cfgv, glob, round, first, i, counter, within, idxs, obsv>>

\* pad to a multiple of the world size with the first entries
PadStep ==
  /\ pc = "pad"
  /\ LET src == IF kind = "ag" THEN Id0(n) ELSE table IN
       table' = src \o SubSeq(src, 1, AGPad(n, par.W))
  /\ idxs' = <<>> /\ i' = 1 /\ pc' = "place"
  /\ UNCHANGED <<cfgv, glob, round, first, counter, within, obsv>>

\* einops "(s w) -> (w s)": output position q = w*S + s takes input position s*W + w
PlaceStep ==
  /\ pc = "place" /\ i <= Len(table)
  /\ LET S == Len(table) \div par.W
         q == i - 1
     IN idxs' = Append(idxs, table[(q % S) * par.W + (q \div S) + 1])
  /\ i' = IF i < Len(table) THEN i + 1 ELSE 1
  /\ pc' = IF i < Len(table) THEN "place" ELSE "cut"
  /\ UNCHANGED <<cfgv, glob, round, first, counter, within, table, obsv>>

\* cut away as many trailing entries as were padded
CutStep ==
  /\ pc = "cut"
  /\ idxs' = SubSeq(idxs, 1, n)
  /\ pc' = "items" /\ i' = 1
  /\ UNCHANGED <<cfgv, glob, round, first, counter, within, table, obsv>>

\* rc random: torch.randint(nc, (N,)); randperm: torch.randperm(nc).repeat(ceil(N/nc))[:N]
FillStep ==
  /\ pc = "fill" /\ i <= n
  /\ table' = Append(table, IF par.sub = "random" THEN EffDraw(par.draw, par.nc)[i]
                            ELSE EffPerm(par.perm)[((i - 1) % par.nc) + 1])
  /\ i' = IF i < n THEN i + 1 ELSE 1
  /\ pc' = IF i < n THEN "fill" ELSE "items"
  /\ UNCHANGED <<cfgv, glob, round, first, counter, within, idxs, obsv>>

\* semi: set(rng.permutation(N)[:int(N * p)])
PickStep ==
  /\ pc = "pick"
  /\ idxs' = SubSeq(EffPerm(par.sperm), 1, (n * par.num) \div par.den)
  /\ pc' = "items" /\ i' = 1
  /\ UNCHANGED <<cfgv, glob, round, first, counter, within, table, obsv>>

\* one call of the per-sample accessor
ItemStep ==
  /\ pc = "items" /\ i <= n
  /\ items' = Append(items, MapItem(i))
  /\ encs' = IF IsEnc THEN Append(encs, EncOf(i)) ELSE encs
  /\ i' = IF i < n THEN i + 1 ELSE 1
  /\ pc' = IF i < n THEN "items" ELSE "bulk"
  /\ UNCHANGED <<cfgv, glob, round, first, work, bulk, refused, dim>>

\* one call of the bulk accessor
BulkStep ==
  /\ pc = "bulk"
  /\ IF kind = "pl" /\ par.sub = "topk"
       THEN refused' = TRUE /\ bulk' = <<>>
       ELSE refused' = FALSE /\ bulk' = [j \in 1..n |-> MapBulk(j)]
  /\ pc' = "end"
  /\ UNCHANGED <<cfgv, glob, round, first, i, work, items, encs, dim>>

\* the same arguments are used for a second construction (possibly under another global generator state)
EndRound ==
  /\ pc = "end"
  /\ IF round = 1 THEN round' = 2 /\ first' = <<items, encs, dim>> /\ pc' = "start"
                  ELSE round' = round /\ first' = first /\ pc' = "done"
  /\ UNCHANGED <<cfgv, glob, i, work, obsv>>

Build == BuildTable \/ CountStep \/ Invert \/ WhereStep \/ GatherBase \/ PadStep \/ PlaceStep \/ CutStep
           \/ FillStep \/ PickStep
Next == Start \/ Build \/ ItemStep \/ BulkStep \/ EndRound
=============================================================================
