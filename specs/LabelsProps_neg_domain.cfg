\* negative control: outside the stated domain (group size not dividing the class count) P_ItemInRange fails
SPECIFICATION PSpec
CONSTANTS
  Proto = "v1"
  Seeded = TRUE
  Kinds = {"cg"}
  MaxN = 2
  MaxNHeavy = 2
  MaxAgN = 7
  MaxC = 3
  MaxSplits = 2
  CGDomain = FALSE
INVARIANT P_Coherent
INVARIANT P_RefuseOnlyTopK
INVARIANT P_ItemInRange
INVARIANT P_BulkInRange
INVARIANT P_Functional
INVARIANT P_EncShape
INVARIANT P_EncNonNeg
INVARIANT P_EncSumOne
INVARIANT P_EncArgmax
INVARIANT P_EncBulk
INVARIANT L_CountCG
INVARIANT L_CountRS
INVARIANT L_Gathered
INVARIANT L_Semi
INVARIANT L_GroupMembers
PROPERTY P_Frame
CHECK_DEADLOCK FALSE
