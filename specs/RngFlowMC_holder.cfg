SPECIFICATION Spec
CONSTANTS
  MaxNodes = 3
  Forgetful <- HolderForgetful
INVARIANT SeedDetermines
INVARIANT WorkerStreams
INVARIANT NoReplayWithinCall
PROPERTY GlobalsUntouched
CHECK_DEADLOCK FALSE
