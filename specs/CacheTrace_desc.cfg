CONSTANTS
  Procs = {"p1", "p2", "p3"}
  Idx = {0, 1, 2, 3}
  MaxAcc = 100000
  MaxClears = 100000
  Proto = "v1"
SPECIFICATION DescSpec
CONSTRAINT DescCollect
POSTCONDITION DescReport
CHECK_DEADLOCK FALSE
