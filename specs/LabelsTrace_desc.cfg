CONSTANTS
  Proto = "v1"
  Seeded = TRUE
SPECIFICATION DescSpec
CONSTRAINT DescCollect
POSTCONDITION DescReport
CHECK_DEADLOCK FALSE
