SPECIFICATION PSpec
CONSTANTS
  Proto = "v1"
  MaxLen = 7
  MaxK = 4
INVARIANT TypeOK
INVARIANT M_NoEscape
INVARIANT M_NoRefusal
INVARIANT M_NoRefusalDesign
INVARIANT M_RefusesUnacceptable
INVARIANT M_AllMembers
INVARIANT M_MemberLayout
INVARIANT M_OnceAtPoint
INVARIANT M_FinalLayout
INVARIANT M_CtxIff
INVARIANT M_CtxMerged
INVARIANT M_CollateCount
INVARIANT M_AtMostOnce
INVARIANT M_OnlyOnSamples
INVARIANT M_CtxSplitBeforeMembers
INVARIANT M_RefusalJustified
PROPERTY Terminates
CHECK_DEADLOCK FALSE
