SPECIFICATION DescSpec
CONSTANTS
  Variant = "v1"
CONSTRAINT DescCollect
POSTCONDITION Report
CHECK_DEADLOCK FALSE
