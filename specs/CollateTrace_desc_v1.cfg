CONSTANTS
  Proto = "v1"
SPECIFICATION DescSpec
CONSTRAINT DescCollect
POSTCONDITION DescReport
CHECK_DEADLOCK FALSE
