--------------------------- MODULE SelectionTrace ---------------------------
(***************************************************************************)
(* Trace validation for C03.  The file named by the environment variable   *)
(* TRACE_FILE holds                                                        *)
(*   {"traces": [ {"id": n,                                                *)
(*                 "cfg": {"kind", "rel", "n", "C", "cls"},                *)
(*                 "ev":  [ {"a", "g", "mode", "cs", "i1", "i2", "p1",     *)
(*                           "p2", "f1", "f2", "seed", "sel"}, ... ]} ] }  *)
(* recorded from the REAL wrappers (harness/drivers/selection.py).  Every  *)
(* event is one construction of the wrapper of kind cfg.kind over the      *)
(* dataset cfg (class layout cls), performed under the global NumPy /      *)
(* torch / random seed g, with the given constructor arguments:            *)
(*   a = "build"   : sel[i] = underlying position shown by getitem_x(i-1)  *)
(*   a = "refuse"  : the constructor raised by its own assert / raise      *)
(*   a = "err"     : any other exception escaped                           *)
(*   a = "diverge" : the per-call deadline expired                         *)
(* cfg.rel relates the constructions of one trace:                         *)
(*   "same"      : identical arguments every time (seed-only dependence)   *)
(*   "partition" : successive complementary ranges 0..p1, p1..p2, .., pk..1*)
(* One event is consumed per step; the normative clauses of Selection.tla  *)
(* are evaluated on the observed values; nothing is assumed about how the  *)
(* code computes them.  Verdicts: register 1 = accepted ids, register 2 =  *)
(* <<id, position, {failed clause names}>> (first failing event).          *)
(***************************************************************************)
EXTENDS Selection, Json, IOUtils, TLCExt

VARIABLES tid, l, fail

Traces == JsonDeserialize(IOEnv.TRACE_FILE).traces
ASSUME TLCSet(1, {}) /\ TLCSet(2, {})

T == Traces[tid]
Ev(i) == Traces[tid].ev[i]
NEv == Len(Traces[tid].ev)
DS == Traces[tid].cfg
Builds(upto) == {i \in 1..upto : Ev(i).a = "build"}

(* ---- the selection is a function of the constructor arguments and seed only ---- *)
\* two constructions of a "same" trace (identical arguments, different global NumPy / torch / random seeds) must
\* expose the same selection.  Only seed=None of the randomised wrappers ("draw from the global generator") is
\* exempt: nothing is promised across such constructions.
SameDraw(x, y) == DS.kind \notin RngKinds \/ x.seed # NoneI
SeedOnly(i) ==
  DS.rel = "same" => \A j \in Builds(i - 1) : SameDraw(Ev(j), Ev(i)) => Ev(j).sel = Ev(i).sel

(* ---- complementary ranges partition the dataset ---- *)
UsesIdx == DS.kind \in {"subset_idx", "classwise_idx"}
LoUnset(x) == IF UsesIdx THEN x.i1 = NoneI \/ x.i1 = 0 ELSE ~IsSet(x.p1) \/ x.p1[2] = 0
HiUnset(x) == IF UsesIdx THEN x.i2 = NoneI \/ x.i2 >= DS.n ELSE ~IsSet(x.p2) \/ x.p2[2] = x.p2[3]
Adjacent(x, y) ==
  IF UsesIdx THEN x.i2 # NoneI /\ x.i2 = y.i1
  ELSE IsSet(x.p2) /\ IsSet(y.p1) /\ x.p2[2] * y.p1[3] = y.p1[2] * x.p2[3]
         /\ (DS.kind = "percent" => x.f2 = y.f1)
\* the driver's side of the bargain: the constructions really are a chain of complementary ranges with one rounding
ChainOK ==
  /\ DS.kind \in RangeKinds \cup ClasswiseKinds
  /\ \A i \in 1..NEv : Ev(i).a = "build"
  /\ LoUnset(Ev(1)) /\ HiUnset(Ev(NEv))
  /\ \A i \in 1..(NEv - 1) : Adjacent(Ev(i), Ev(i + 1))
  /\ DS.kind = "percent" => \A i \in 1..NEv : Ev(i).f1 = Ev(1).f2 /\ Ev(i).f2 = Ev(1).f2
  /\ DS.kind = "classwise_idx" => \A i \in 1..NEv : ~Ev(i).f1
PartitionAt(i) ==
  (DS.rel = "partition" /\ i = NEv) => Partition(DS, [j \in 1..NEv |-> Ev(j).sel])

EvFail(i) ==
  LET x == Ev(i) IN
    IF ~InDomain(DS, x) THEN {"OutOfDomain"}                                    \* generator error, never a verdict
    ELSE CASE x.a = "diverge" -> {"Terminates"}
           [] x.a = "err" -> {"Constructs"}
           [] x.a = "refuse" -> Chk("Constructs", MayRefuse(DS, x))
           [] x.a = "build" ->
                Failed(DS, x, x.sel)
                  \cup Chk("SeedOnly", SeedOnly(i))
                  \cup (IF DS.rel = "partition" /\ i = NEv
                          THEN (IF ChainOK THEN Chk("RangePartition", PartitionAt(i)) ELSE {"BadChain"})
                          ELSE {})
           [] OTHER -> {"UnknownEvent"}

TInit == tid \in 1..Len(Traces) /\ l = 1 /\ fail = {}
TNext ==
  /\ l <= NEv
  /\ fail = {}
  /\ fail' = EvFail(l)
  /\ l' = l + 1
  /\ UNCHANGED tid
TSpec == TInit /\ [][TNext]_<<tid, l, fail>>

\* verdict collection (state constraint): a trace is rejected at its first failing event, accepted at its end
Collect ==
  IF fail # {} THEN TLCSet(2, TLCGet(2) \cup {<<Traces[tid].id, l - 1, fail>>})
  ELSE IF l = NEv + 1 THEN TLCSet(1, TLCGet(1) \cup {Traces[tid].id})
  ELSE TRUE
Constraint == Collect /\ fail = {}

Report == PrintT(<<"ACCEPTED", TLCGet(1)>>) /\ PrintT(<<"REJECTED", TLCGet(2)>>)
=============================================================================
