SPECIFICATION PSpec
CONSTANTS
  Proto = "v0"
  Kinds = {"classwise_idx", "classwise_pct"}
  MaxN = 3
  MaxC = 2
  Den = 2
  MaxShots = 1
  MaxReps = 1
INVARIANT C03_ClasswiseAmount
CHECK_DEADLOCK FALSE
