-------------------------------- MODULE Collate --------------------------------
(***************************************************************************)
(* C18, part 1: the collator pipeline                                      *)
(*   kappadata/collators/base/kd_collator_base.py   KDCollatorBase._call_impl *)
(*   kd_compose_collator.py / kd_single_collator.py / kd_single_collator_wrapper.py *)
(*                                                                         *)
(* NORMATIVE part (section "normative"): the property in the words of the  *)
(* statement, over a configuration and an OBSERVATION record only:         *)
(*   cfg = [order, rc, K, entry]   order \in Seq({"n","b","a"}) = the      *)
(*         default_collate_mode of the members (None / before / after),    *)
(*         rc = return_ctx, K = number of items of the dataset mode,       *)
(*         entry = compose | single | wrapper                              *)
(*   obs = [out, seen, final, pair, rctx]                                  *)
(*         out   = ret | refuse | escape | diverge                         *)
(*         seen  = layout each member received, in call order              *)
(*         final = layout of the returned batch, pair = "(batch, ctx)      *)
(*         was returned", rctx = what the returned context is              *)
(* Layouts: "smp" sample-major (one entry per sample), "sctx" sample-major *)
(* with the per-sample ctx still inside, "fld" field-major (default        *)
(* collated: one stacked field per item of the mode, bare for one item),   *)
(* "other" anything else (mangled).                                        *)
(*                                                                         *)
(* DESCRIPTIVE part: _call_impl statement by statement, one action per     *)
(* decision, for Proto = "v0" (tree as found) and "v1" (repaired):         *)
(*   v0: an `after' member does not set called_default_collate; the        *)
(*       `before' branch unpacks (batch, ctx) even when the ctx was split  *)
(*       off earlier; KDSingleCollatorWrapper calls collate() directly and *)
(*       unpacks its result.                                               *)
(*   v1: `after' sets the flag; the unpack is guarded by                   *)
(*       removed_ctx_from_batch; the wrapper routes through _call_impl.    *)
(* torch's default_collate is not modelled beyond its contract: applied to *)
(* a list of samples it yields the field-major value; applied to anything  *)
(* else the result is unspecified (raises, or silently stacks) - DCres.    *)
(***************************************************************************)
EXTENDS Naturals, Sequences, FiniteSets, TLC

CONSTANT Proto

VARIABLES cfg,      \* configuration (never changes after Init / Configure)
          pc, i,    \* control state, index of the current member (1-based)
          batch,    \* abstract value of the local `batch'
          ctx,      \* abstract value of the local `ctx': "empty" ({}), "batched", "bad" (not a dict)
          cd, rm,   \* called_default_collate, removed_ctx_from_batch
          obs,      \* what an observer at the public API sees (history)
          ndc, dcAt, dcBad   \* model-internal: number of default_collate(batch) calls, number of members
                             \* already called at the (first) call, "applied to something that is no sample list"

vars == <<cfg, pc, i, batch, ctx, cd, rm, obs, ndc, dcAt, dcBad>>

ModeSet == {"n", "b", "a"}
Layouts == {"smp", "sctx", "fld", "other"}

(* ------------------------------ normative ------------------------------ *)
SampleMajor(l) == l \in {"smp", "sctx"}
\* what a member asks to receive: a `before' member wants the collated batch, the others the list of samples
Asked(m) == IF m = "b" THEN "fld" ELSE "smp"
LayoutIs(l, want) == IF want = "smp" THEN SampleMajor(l) ELSE l = want
Asks(order) == \E j \in 1..Len(order) : order[j] # "n"

\* p members run before default collation, the others after it. p is a position the members ask for iff
\*   every None member still sees samples, an after member is the last one before collation, every before member
\*   runs after collation, and collation happens where somebody asks for it (right after an `after' member or
\*   right before the first `before' member)
Consistent(order, p) ==
  /\ \A j \in 1..Len(order) : order[j] = "n" => j <= p
  /\ \A j \in 1..Len(order) : order[j] = "a" => j = p
  /\ \A j \in 1..Len(order) : order[j] = "b" => j > p
  /\ \/ p >= 1 /\ order[p] = "a"
     \/ p < Len(order) /\ order[p + 1] = "b"
Points(order) == {p \in 0..Len(order) : Consistent(order, p)}
\* orders that must work: nobody asks for collation, or a position exists
Acceptable(order) == ~Asks(order) \/ Points(order) # {}
Point(order) == CHOOSE p \in Points(order) : TRUE

\* the same set written as the regular expression of DESIGN.md:  None* (eps | before+ | after before*)
Lead(order) == CHOOSE a \in 0..Len(order) :
                 /\ \A j \in 1..a : order[j] = "n"
                 /\ a < Len(order) => order[a + 1] # "n"
AcceptableRegex(order) ==
  LET a == Lead(order) n == Len(order) IN
    \/ a = n
    \/ \A j \in (a + 1)..n : order[j] = "b"
    \/ order[a + 1] = "a" /\ \A j \in (a + 2)..n : order[j] = "b"
PointRegex(order) == LET a == Lead(order) IN IF a < Len(order) /\ order[a + 1] = "a" THEN a + 1 ELSE a

\* named deviation of the code as found (DESIGN.md section 3.3): None+ before... together with per-sample contexts
MayRefuse(c) == c.rc /\ Asks(c.order) /\ Acceptable(c.order) /\ Point(c.order) >= 1 /\ c.order[Point(c.order)] = "n"

\* --- the clauses. Each is a predicate of (configuration, observation).
\* nothing but an answer or an explicit refusal
C18_NoEscape(c, o) == o.out \in {"ret", "refuse"}
\* orders with a collation position (or without any request) must work
C18_NoRefusal(c, o) == (Acceptable(c.order) /\ ~MayRefuse(c)) => o.out # "refuse"
\* every member is called, in order, when an answer is returned
C18_AllMembers(c, o) == o.out = "ret" => Len(o.seen) = Len(c.order)
\* each member receives the layout it asks for
C18_MemberLayout(c, o) ==
  o.out = "ret" => \A j \in 1..Len(o.seen) : j <= Len(c.order) => LayoutIs(o.seen[j], Asked(c.order[j]))
\* default collation exactly once, at the position the members ask for - as far as an observer can tell: along
\* members 1..n and the returned value the layout switches from samples to fields exactly at Point (never, if
\* nobody asks), and never to anything else
Chain(o) == o.seen \o <<o.final>>
C18_OnceAtPoint(c, o) ==
  o.out = "ret" =>
    /\ Acceptable(c.order)
    /\ Len(o.seen) = Len(c.order)
    /\ LET p == IF Asks(c.order) THEN Point(c.order) ELSE Len(c.order) + 1 IN
         \A j \in 1..Len(Chain(o)) : IF j <= p THEN SampleMajor(Chain(o)[j]) ELSE Chain(o)[j] = "fld"
\* the returned batch has the layout given by the dataset mode (collated: one field per item)
C18_FinalLayout(c, o) ==
  o.out = "ret" => IF Asks(c.order) THEN o.final = "fld" ELSE SampleMajor(o.final)
\* (batch, ctx) iff configured to
C18_CtxIff(c, o) == o.out = "ret" => (o.pair <=> c.rc)
\* the per-sample contexts are merged into one batched context (abstractly; keys and values are compared on the
\* recorded traces in CollateTrace.tla)
C18_CtxMerged(c, o) == (o.out = "ret" /\ c.rc) => o.rctx = "batched"

AllClauses(c, o) ==
  /\ C18_NoEscape(c, o) /\ C18_NoRefusal(c, o) /\ C18_AllMembers(c, o) /\ C18_MemberLayout(c, o)
  /\ C18_OnceAtPoint(c, o) /\ C18_FinalLayout(c, o) /\ C18_CtxIff(c, o) /\ C18_CtxMerged(c, o)

(* ----------------------------- descriptive ----------------------------- *)
NoObs == [out |-> "none", seen |-> <<>>, final |-> "other", pair |-> FALSE, rctx |-> "none"]

InitWith(c) ==
  /\ cfg = c
  /\ pc = IF c.entry = "wrapper" /\ Proto = "v0" THEN "wrap" ELSE "top"
  /\ i = 1
  /\ batch = IF c.rc THEN "sctx" ELSE "smp"     \* in domain: ModeWrapper.return_ctx = collator.return_ctx
  /\ ctx = "empty"
  /\ cd = FALSE /\ rm = FALSE
  /\ obs = NoObs
  /\ ndc = 0 /\ dcAt = 0 /\ dcBad = FALSE

N == Len(cfg.order)
Member == cfg.order[i]

\* torch.utils.data.default_collate(v): on a list of samples the field-major value ("pair" = [fields, ctx] when
\* the samples are (items, ctx) pairs); on anything else unspecified: it raises ("stack expects each tensor to be
\* equal size", "must be tuple of Tensors"), or stacks same-shaped fields into one tensor, or (one item, older
\* torch) leaves the value as it is
DCres(v) == IF v = "sctx" THEN {"pair"}
            ELSE IF v = "smp" THEN {"fld"}
            ELSE {"raise", "other"} \cup (IF v = "fld" /\ cfg.K = 1 THEN {"fld"} ELSE {})
\* `batch, ctx = batch' followed by `assert isinstance(ctx, dict)'
Unpack(v) == IF v = "pair" THEN {"ok"}
             ELSE IF v = "fld" /\ cfg.K = 2 THEN {"notdict"}             \* two fields unpack; the second is a tensor
             ELSE IF v = "fld" /\ cfg.K > 2 THEN {"raise"}               \* too many values to unpack
             ELSE {"raise", "notdict"}                                    \* one field: depends on the batch size

Finish(kind) ==
  /\ pc' = "done"
  /\ obs' = [obs EXCEPT !.out = kind]
  /\ UNCHANGED <<cfg, i, batch, ctx, cd, rm>>
CountDC(v) ==
  /\ ndc' = ndc + 1
  /\ dcAt' = IF ndc = 0 THEN Len(obs.seen) ELSE dcAt
  /\ dcBad' = (dcBad \/ ~SampleMajor(v))
NoDC == UNCHANGED <<ndc, dcAt, dcBad>>

\* for collator in collators:  if collator.default_collate_mode is None: assert not called_default_collate
CheckNone ==
  /\ pc = "top" /\ i <= N
  /\ IF Member = "n" /\ cd
       THEN Finish("refuse")
       ELSE pc' = "before" /\ UNCHANGED <<cfg, i, batch, ctx, cd, rm, obs>>
  /\ NoDC

\* if mode == "before" and not called_default_collate: batch = default_collate(batch)
\*     if return_ctx [v1: and not removed_ctx_from_batch]: batch, ctx = batch; assert isinstance(ctx, dict)
\*     called_default_collate = True
Before ==
  /\ pc = "before"
  /\ IF Member = "b" /\ ~cd
       THEN \E r \in DCres(batch) :
              /\ CountDC(batch)
              /\ IF r = "raise" THEN Finish("escape")
                 ELSE IF cfg.rc /\ (Proto = "v0" \/ ~rm)
                   THEN \E u \in Unpack(r) :
                          IF u = "raise" THEN Finish("escape")
                          ELSE IF u = "notdict" THEN Finish("refuse")
                          ELSE /\ batch' = "fld" /\ ctx' = "batched" /\ cd' = TRUE /\ pc' = "split"
                               /\ UNCHANGED <<cfg, i, rm, obs>>
                   ELSE /\ batch' = r /\ cd' = TRUE /\ pc' = "split"
                        /\ UNCHANGED <<cfg, i, ctx, rm, obs>>
       ELSE pc' = "split" /\ NoDC /\ UNCHANGED <<cfg, i, batch, ctx, cd, rm, obs>>

\* if not called_default_collate and return_ctx and not removed_ctx_from_batch:
\*     batch, ctx = zip(*batch); ctx = default_collate(ctx); assert isinstance(ctx, dict); removed = True
Split ==
  /\ pc = "split"
  /\ IF ~cd /\ cfg.rc /\ ~rm
       THEN IF batch = "sctx"
              THEN /\ batch' = "smp" /\ ctx' = "batched" /\ rm' = TRUE /\ pc' = "call"
                   /\ UNCHANGED <<cfg, i, cd, obs>>
              ELSE Finish("escape")      \* zip(*...) of something that is no list of pairs (never reached)
       ELSE pc' = "call" /\ UNCHANGED <<cfg, i, batch, ctx, cd, rm, obs>>
  /\ NoDC

\* batch = collator.collate(batch, dataset_mode, ctx)    (members keep the layout they receive)
Call ==
  /\ pc = "call"
  /\ obs' = [obs EXCEPT !.seen = Append(@, batch)]
  /\ pc' = "after"
  /\ NoDC /\ UNCHANGED <<cfg, i, batch, ctx, cd, rm>>

\* if mode == "after": assert not called_default_collate; batch = default_collate(batch) [v1: called = True]
After ==
  /\ pc = "after"
  /\ IF Member = "a"
       THEN IF cd THEN Finish("refuse") /\ NoDC
            ELSE \E r \in DCres(batch) :
                   /\ CountDC(batch)
                   /\ IF r = "raise" THEN Finish("escape")
                      ELSE /\ batch' = r /\ cd' = (Proto = "v1") /\ pc' = "top" /\ i' = i + 1
                           /\ UNCHANGED <<cfg, ctx, rm, obs>>
       ELSE pc' = "top" /\ i' = i + 1 /\ NoDC /\ UNCHANGED <<cfg, batch, ctx, cd, rm, obs>>

\* if return_ctx: return batch, ctx    else: return batch
Return ==
  /\ pc = "top" /\ i > N
  /\ pc' = "done"
  /\ obs' = [obs EXCEPT !.out = "ret", !.final = batch, !.pair = cfg.rc,
                        !.rctx = IF cfg.rc THEN ctx ELSE "none"]
  /\ NoDC /\ UNCHANGED <<cfg, i, batch, ctx, cd, rm>>

\* v0 KDSingleCollatorWrapper.__call__:  batch, ctx = self.collator.collate(batch=batch, dataset_mode=.., ctx={})
\* the member receives the raw samples; its result (a list of B samples) is unpacked as a pair: raises unless B = 2,
\* then "batch" is the first sample and "ctx" the second; default collation is never applied.  What comes back is
\* (sample 1, sample 2) again with return_ctx (no pair: the second entry is a sample, not a dict), and sample 1
\* alone without return_ctx
Wrap ==
  /\ pc = "wrap"
  /\ \E u \in {"raise", "mangle"} :
       IF u = "raise"
         THEN /\ pc' = "done" /\ obs' = [obs EXCEPT !.out = "escape", !.seen = <<batch>>]
              /\ UNCHANGED <<cfg, i, batch, ctx, cd, rm>>
         ELSE /\ pc' = "done"
              /\ obs' = [obs EXCEPT !.out = "ret", !.seen = <<batch>>, !.final = IF cfg.rc THEN "sctx" ELSE "other",
                                    !.pair = FALSE, !.rctx = "none"]
              /\ UNCHANGED <<cfg, i, batch, ctx, cd, rm>>
  /\ NoDC

Next == CheckNone \/ Before \/ Split \/ Call \/ After \/ Return \/ Wrap
=============================================================================
