SPECIFICATION PSpec
CONSTANTS
  MaxN = 3
  MaxW = 5
  MaxRep = 2
  ReplN = 2
  Mutant = "contig"
INVARIANT C12_LenFormula
INVARIANT C12_EqualLength
INVARIANT C12_SplitEvenly
INVARIANT C12_SingleDraw
INVARIANT C12_OnDrawAlways
INVARIANT C12_RepeatRuns
INVARIANT C12_NoAssert
PROPERTY Terminates
CHECK_DEADLOCK FALSE
