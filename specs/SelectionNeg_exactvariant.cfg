SPECIFICATION PSpec
CONSTANTS
  Proto = "v0"
  Kinds = {"oversample"}
  MaxN = 3
  MaxC = 2
  Den = 2
  MaxShots = 1
  MaxReps = 1
INVARIANT C03_ExactLoopProgress
CHECK_DEADLOCK FALSE
