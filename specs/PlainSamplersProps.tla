--------------------------- MODULE PlainSamplersProps ---------------------------
(***************************************************************************)
(* Model checking of PlainSamplers.tla: every configuration of a small     *)
(* grid, every generator outcome; at the end of a pass the normative       *)
(* operators must hold on what the machine produced.                       *)
(***************************************************************************)
EXTENDS PlainSamplers

CONSTANTS PMaxN, PMaxRep, PMaxW

PCfgs ==
  { [kind |-> "seq", n |-> n, num |-> n, rep |-> 1, repl |-> FALSE, W |-> 1, r |-> 0] : n \in 1..PMaxN }
  \cup { [kind |-> "rand", n |-> n, num |-> m, rep |-> rp, repl |-> rl, W |-> 1, r |-> 0] :
           n \in 1..PMaxN, m \in 1..(2 * PMaxN), rp \in 1..PMaxRep, rl \in BOOLEAN }
  \cup { [kind |-> "base", n |-> n, num |-> n, rep |-> 1, repl |-> FALSE, W |-> w, r |-> r] :
           n \in 1..PMaxN, w \in 1..PMaxW, r \in 0..(PMaxW - 1) }
PSInit == \E c \in PCfgs : /\ c.r < c.W
                           /\ (c.kind = "rand" => c.num <= 2 * c.n)
                           /\ PSInitWith(c)
PSpec == PSInit /\ [][PSNext]_pvars0 /\ WF_pvars0(PSNext)

\* the machine's own report of len() and effective_length: what the classes compute (num_samples; num // W)
Obs == [len |-> LenOf(pcfg), eff |-> (IF pcfg.kind = "seq" THEN pcfg.n ELSE pcfg.num),
        out |-> pout, out2 |-> pout, gen |-> (IF pcfg.kind = "base" THEN drawn ELSE <<>>)]
PDone == ppc = "done"
Q_NoError  == ~perr
Q_Length   == (PDone /\ ~perr) => PS_Length(pcfg, Obs)
Q_Valid    == (PDone /\ ~perr) => PS_Valid(pcfg, Obs)
Q_SeqOrder == (PDone /\ ~perr) => PS_SeqOrder(pcfg, Obs)
Q_Runs     == (PDone /\ ~perr /\ pout # <<>>) => PS_Runs(pcfg, Obs)
Q_Distinct == (PDone /\ ~perr /\ pout # <<>>) => PS_Distinct(pcfg, Obs)
Q_RankSlice == (PDone /\ ~perr) => PS_RankSlice(pcfg, Obs)
Q_AllClauses == (PDone /\ ~perr) => PSFailed(pcfg, Obs) = {}
PTerminates == <>PDone
=============================================================================
