----------------------------- MODULE RngFlowTrace -----------------------------
(***************************************************************************)
(* Trace validation for C07 / C08 / C09.  The harness runs real transform  *)
(* trees / seeded sample wrappers / worker initialisation and records      *)
(* equality classes (ids of SHA-256 digests of canonical bytes) of outputs,*)
(* recorded contexts and generator states; every clause is decided here.   *)
(*                                                                         *)
(* C07 events  {a:"call", seed, k, inp, out, ctx, gadv, exc}               *)
(*   a post-injection call number k (since the seed was injected) on input *)
(*   inp; gadv = process-global generators whose state changed during the  *)
(*   call.  Two independently constructed instances (built and injected    *)
(*   under different global states and after different call histories) and *)
(*   a re-injection all log under the same (seed, k, inp) keys.            *)
(* C08 events  {a:"req", seed, i, out, probe, exc}                         *)
(*   request of index i from a wrapper configured with seed, under some    *)
(*   access order / global state / simulated worker; probe = the transform *)
(*   returns its first draws, so different indices must differ.            *)
(* C09 events  {a:"node", sameseed, drawn, sa, sb, exc}                    *)
(*   a member generator (object-graph path) after worker initialisation in *)
(*   two workers: state classes sa / sb, drawn = it was drawn from during  *)
(*   the requests that followed.                                           *)
(***************************************************************************)
EXTENDS Integers, Sequences, FiniteSets, TLC, Json, IOUtils, TLCExt

VARIABLES tid, l, failed, seen, outs
tvars == <<tid, l, failed, seen, outs>>

Traces == JsonDeserialize(IOEnv.TRACE_FILE).traces
ASSUME TLCSet(1, {}) /\ TLCSet(2, {})
Ev(j) == Traces[tid].ev[j]
NEv == Len(Traces[tid].ev)

\* `seen' is a set of <<key, value>> pairs; the map key |-> value must stay functional
Lookup(key) == {p \in seen : p[1] = key}
Functional(key, val) == \A p \in Lookup(key) : p[2] = val

CallFailed(e) ==
  (IF e.exc = "" THEN {} ELSE {"Exception"})
  \* outputs and recorded context are a function of the injected seed and the inputs only
  \cup (IF e.exc = "" /\ ~Functional(<<e.seed, e.k, e.inp>>, <<e.out, e.ctx>>) THEN {"SeedDetermines"} ELSE {})
  \* the process-global NumPy / Torch / Python generators are not consumed
  \cup (IF e.exc = "" /\ e.gadv # <<>> THEN {"GlobalsConsumed"} ELSE {})

ReqFailed(e) ==
  (IF e.exc = "" THEN {} ELSE {"Exception"})
  \* sample i is a pure function of (data, config, seed, i)
  \* (e.v = 0: the whole sample; e.v = k > 0: the k-th view of a multi-view sample, recorded for probes only)
  \cup (IF e.exc = "" /\ ~Functional(<<e.seed, e.i, e.v>>, e.out) THEN {"PureInIndex"} ELSE {})
  \* different indices draw from different streams
  \cup (IF e.exc = "" /\ e.probe /\ \E p \in seen : p[1][1] = e.seed /\ p[1][2] # e.i /\ p[2] = e.out
          THEN {"DistinctStreams"} ELSE {})

NodeFailed(e) ==
  (IF e.exc = "" THEN {} ELSE {"Exception"})
  \* workers with different seeds never replay one another's stream
  \cup (IF e.exc = "" /\ e.drawn /\ ~e.sameseed /\ e.sa = e.sb THEN {"WorkerStreamsDistinct"} ELSE {})
  \* the same worker seed reproduces the same stream
  \cup (IF e.exc = "" /\ e.sameseed /\ e.sa # e.sb THEN {"WorkerStreamReproducible"} ELSE {})

\* per-index random decisions recorded in the context (one 0/1 per index, >= 40 indices): different indices draw from
\* different streams, so the decisions cannot all coincide (probability < 2^-39 for independent fair draws)
VaryFailed(e) ==
  (IF e.exc = "" THEN {} ELSE {"Exception"})
  \cup (IF e.exc = "" /\ Len(e.vals) >= 40 /\ \A j \in 1..Len(e.vals) : e.vals[j] = e.vals[1]
          THEN {"DistinctStreams"} ELSE {})

TInit == tid \in 1..Len(Traces) /\ l = 1 /\ failed = {} /\ seen = {} /\ outs = <<>>
TNext ==
  /\ l <= NEv /\ failed = {}
  /\ l' = l + 1
  /\ LET e == Ev(l) IN
       CASE e.a = "call" -> /\ failed' = CallFailed(e)
                            /\ seen' = seen \cup {<<<<e.seed, e.k, e.inp>>, <<e.out, e.ctx>>>>}
         [] e.a = "req"  -> /\ failed' = ReqFailed(e)
                            /\ seen' = seen \cup {<<<<e.seed, e.i, e.v>>, e.out>>}
         [] e.a = "node" -> /\ failed' = NodeFailed(e)
                            /\ seen' = seen
         [] e.a = "vary" -> /\ failed' = VaryFailed(e)
                            /\ seen' = seen
         [] OTHER -> failed' = {"UnknownEvent"} /\ seen' = seen
  /\ UNCHANGED <<tid, outs>>
TSpec == TInit /\ [][TNext]_tvars
\* the history `seen' only serves the clauses: keep it out of the state fingerprint is not needed (one chain per trace)
Constraint ==
  IF failed # {} THEN TLCSet(2, TLCGet(2) \cup {<<Traces[tid].id, l - 1, failed>>})
  ELSE IF l = NEv + 1 THEN TLCSet(1, TLCGet(1) \cup {Traces[tid].id})
  ELSE TRUE
Report == PrintT(<<"ACCEPTED", TLCGet(1)>>) /\ PrintT(<<"REJECTED", TLCGet(2)>>)
=============================================================================
