SPECIFICATION SSpec
CONSTANTS
  MaxW = 3
  MaxBS = 2
  MaxNB = 4
  MaxE = 1
  FullOnly = TRUE
  Variant = "offbyone"
  Dispatch = "roundrobin"
INVARIANT C15_InSchedule
CHECK_DEADLOCK FALSE
