------------------------------ MODULE CopyTrace ------------------------------
(***************************************************************************)
(* Trace validation for Copy.tla.  TRACE_FILE holds traces recorded from   *)
(* the real copy_folder_from_global_to_local / copy_imagefolder_... run in *)
(* forked children that are killed (os._exit) before their k-th mutating   *)
(* file-system operation (harness/kdverif/fsaudit.py):                     *)
(*   {a:"invoke"}                                                          *)
(*   {a:"op", op: mkdir|wopen|remove|rmdir|rename|touch|chunk,             *)
(*            t: dst|parent|tmp|start|end|tmpstart|file|sub|junk, n: name} *)
(*   {a:"crash", disk:{...}}      abstract disk observed after the death   *)
(*   {a:"ret", res:{...}, disk:{...}}                                      *)
(*                                                                         *)
(* Two validations:                                                        *)
(*  Obs  (normative, carries the verdict): only the observation points are *)
(*       consumed; the variables of Copy.tla are bound to the OBSERVED     *)
(*       disk and result, and Copy.tla's own ReturnOK / NotUsable /        *)
(*       Truthful / EndMeansComplete / NeverRedo / UserKept are evaluated  *)
(*       on them.  Nothing about HOW the code copies is assumed.           *)
(*  Desc (conformance): every recorded operation must be an enabled action *)
(*       of the protocol (Proto) and the observed disk must equal the      *)
(*       specification's disk at every observation point.                  *)
(***************************************************************************)
EXTENDS Copy, Sequences, Json, IOUtils, TLCExt

VARIABLES tid, l, nops, prev
tvars == <<vars, tid, l, nops, prev>>

Traces == JsonDeserialize(IOEnv.TRACE_FILE).traces
ASSUME TLCSet(1, {}) /\ TLCSet(2, {})

Ev(i) == Traces[tid].ev[i]
NEv == Len(Traces[tid].ev)
Cfg == Traces[tid].cfg

DiskOf(d) == <<d.dst, d.start, d.end, [f \in Files |-> d.file[f]], [x \in Dirs |-> d.sub[x]], d.junk, d.tmp>>
DiskIs(d) == /\ dst = d.dst /\ start = d.start /\ end = d.end /\ file = [f \in Files |-> d.file[f]]
             /\ sub = [x \in Dirs |-> d.sub[x]] /\ junk = d.junk /\ tmp = d.tmp
DiskBecomes(d) == /\ dst' = d.dst /\ start' = d.start /\ end' = d.end /\ file' = [f \in Files |-> d.file[f]]
                  /\ sub' = [x \in Dirs |-> d.sub[x]] /\ junk' = d.junk /\ tmp' = d.tmp
ResOf(r) == [copied |-> r.copied, deleted |-> r.deleted, fmt |-> r.fmt]

TInit ==
  /\ tid \in 1..Len(Traces)
  /\ l = 1 /\ nops = 0
  /\ DiskIs(Cfg.init)
  /\ prev = DiskOf(Cfg.init)
  /\ user = Cfg.user
  /\ fmt = Cfg.fmt
  /\ pc = "idle" /\ wiped = FALSE /\ res = NoRes /\ crashes = 0 /\ copiedNow = FALSE
  /\ TLCSet(100 + tid, 0)

(* ----------------------- Obs: observation points only ------------------ *)
WasIncomplete(p) == p[1] = "present" /\ p[2] /\ ~p[3]
WasCompleted(p) == p[1] = "present" /\ p[2] /\ p[3]
IsCompleted == dst = "present" /\ start /\ end

ObsInvoke ==
  /\ l <= NEv /\ Ev(l).a = "invoke"
  /\ pc' = "check" /\ nops' = 0 /\ prev' = disk
  /\ l' = l + 1
  /\ UNCHANGED <<disk, user, fmt, wiped, res, crashes, copiedNow, tid>>
ObsOp ==
  /\ l <= NEv /\ Ev(l).a = "op"
  /\ nops' = nops + (IF Ev(l).op = "chunk" THEN 0 ELSE 1)
  /\ l' = l + 1
  /\ UNCHANGED <<vars, tid, prev>>
ObsCrash ==
  /\ l <= NEv /\ Ev(l).a = "crash"
  /\ DiskBecomes(Ev(l).disk)
  /\ pc' = "idle" /\ crashes' = crashes + 1
  /\ l' = l + 1
  /\ UNCHANGED <<user, fmt, wiped, res, copiedNow, tid, nops, prev>>
ObsRet ==
  /\ l <= NEv /\ Ev(l).a = "ret"
  /\ DiskBecomes(Ev(l).disk)
  /\ res' = ResOf(Ev(l).res)
  /\ pc' = "ret"
  \* what this invocation did, as far as the disk shows it
  /\ copiedNow' = (~WasCompleted(prev) /\ IsCompleted' /\ ~user)
  /\ wiped' = WasIncomplete(prev)
  /\ l' = l + 1
  /\ UNCHANGED <<user, fmt, crashes, tid, nops, prev>>
ObsNext == ObsInvoke \/ ObsOp \/ ObsCrash \/ ObsRet
ObsSpec == TInit /\ [][ObsNext]_tvars

\* the clauses of Copy.tla on the observed state; action clauses use `prev' (disk at the start of the invocation)
ObsFailed ==
  (IF ~TypeOK THEN {"TypeOK"} ELSE {})
  \cup (IF TypeOK /\ ~ReturnOK THEN {"ReturnOK"} ELSE {})
  \cup (IF TypeOK /\ ~NotUsable THEN {"NotUsable"} ELSE {})
  \cup (IF TypeOK /\ ~Truthful THEN {"Truthful"} ELSE {})
  \cup (IF TypeOK /\ ~EndMeansComplete THEN {"EndMeansComplete"} ELSE {})
  \cup (IF WasCompleted(prev) /\ (disk # prev \/ nops > 0) THEN {"NeverRedo"} ELSE {})
  \cup (IF user /\ (disk # prev \/ nops > 0) THEN {"UserKept"} ELSE {})
ObsCollect ==
  IF ObsFailed # {} THEN TLCSet(2, TLCGet(2) \cup {<<Traces[tid].id, l - 1, ObsFailed>>})
  ELSE IF l = NEv + 1 THEN TLCSet(1, TLCGet(1) \cup {Traces[tid].id})
  ELSE TRUE
\* stop a trace at its first failed clause
ObsConstraint == ObsCollect /\ ObsFailed = {}

(* ----------------------- Desc: protocol conformance -------------------- *)
IsOp(o, t) == l <= NEv /\ Ev(l).a = "op" /\ Ev(l).op = o /\ Ev(l).t = t
Consume == l' = l + 1 /\ UNCHANGED <<tid, nops, prev>>
Silent == UNCHANGED <<tid, l, nops, prev>>
Stutter == UNCHANGED vars

DescInvoke == l <= NEv /\ Ev(l).a = "invoke" /\ Invoke /\ Consume
DescCrash == /\ l <= NEv /\ Ev(l).a = "crash" /\ Crash /\ Consume
             /\ disk = DiskOf(Ev(l).disk)
DescRet == /\ l <= NEv /\ Ev(l).a = "ret" /\ pc = "ret"
           /\ res = ResOf(Ev(l).res) /\ disk = DiskOf(Ev(l).disk)
           /\ Stutter /\ Consume
DescOp ==
  \/ IsOp("mkdir", "dst") /\ (IF dst = "present" THEN Stutter ELSE MkDir) /\ Consume
  \/ IsOp("mkdir", "parent") /\ Stutter /\ Consume
  \/ IsOp("mkdir", "tmp") /\ MkTmp /\ Consume
  \/ IsOp("mkdir", "sub") /\ (IF sub[Ev(l).n] THEN Stutter ELSE MkSub(Ev(l).n)) /\ Consume
  \/ IsOp("wopen", "start") /\ WriteStart /\ Consume
  \/ IsOp("wopen", "tmpstart") /\ WriteTmpStart /\ Consume
  \/ IsOp("wopen", "end") /\ WriteEnd /\ Consume
  \/ IsOp("wopen", "file") /\ CreateFile(Ev(l).n) /\ Consume
  \/ IsOp("remove", "file") /\ RmFile(Ev(l).n) /\ Consume
  \/ IsOp("remove", "start") /\ (RmStart \/ RmTmpStart) /\ Consume
  \/ IsOp("remove", "tmpstart") /\ RmTmpStart /\ Consume
  \/ IsOp("remove", "end") /\ RmEnd /\ Consume
  \/ IsOp("remove", "junk") /\ RmJunk /\ Consume
  \/ IsOp("rmdir", "sub") /\ RmSub(Ev(l).n) /\ Consume
  \/ IsOp("rmdir", "dst") /\ RmDir /\ Consume
  \/ IsOp("rmdir", "tmp") /\ RmTmpDir /\ Consume
  \/ IsOp("rename", "tmp") /\ Rename /\ Consume
  \/ l <= NEv /\ Ev(l).a = "op" /\ Ev(l).op \in {"touch", "chunk"} /\ Stutter /\ Consume
DescSilent == (Check \/ WipeDone \/ \E f \in Files : FillFile(f)) /\ Silent
DescNext == DescInvoke \/ DescCrash \/ DescRet \/ DescOp \/ DescSilent
DescSpec == TInit /\ [][DescNext]_tvars

\* progress per trace lives in TLC register 100 + tid (furthest event matched)
DescCollect ==
  /\ IF l = NEv + 1 THEN TLCSet(1, TLCGet(1) \cup {Traces[tid].id}) ELSE TRUE
  /\ IF TLCGet(100 + tid) < l - 1 THEN TLCSet(100 + tid, l - 1) ELSE TRUE

Report == PrintT(<<"ACCEPTED", TLCGet(1)>>) /\ PrintT(<<"REJECTED", TLCGet(2)>>)
DescReport == /\ PrintT(<<"ACCEPTED", TLCGet(1)>>)
              /\ PrintT(<<"PROGRESS", [t \in 1..Len(Traces) |-> <<Traces[t].id, TLCGet(100 + t)>>]>>)
=============================================================================
