SPECIFICATION PSpec
CONSTANTS
  MaxTry = 2
  Mutant = "ceil"
  MaxH = 2
  MaxW = 2
  MaxCells = 4
  MaxN = 3
  MaxV = 1
  Den = 2
INVARIANT TypeOK
INVARIANT Accounting
INVARIANT C17_D_OnePerViewSample
INVARIANT C17_D_Boolean
INVARIANT C17_D_Budget
INVARIANT C17_D_UpperRatio
INVARIANT C17_D_UpperRatioAlways
INVARIANT C17_D_BudgetAlways

CHECK_DEADLOCK FALSE
