--------------------------- MODULE MasksDinoProps ---------------------------
(***************************************************************************)
(* Model-checking harness for MasksDino.tla.  The configuration (grid,     *)
(* batch size, views, mask_prob, ratio range) is chosen in Init / in a     *)
(* first Configure step from a bounded grid; TLC checks that every         *)
(* behaviour of the algorithm ends with an output satisfying the DINO      *)
(* clauses of Masks.tla, that the remaining-budget accounting holds at     *)
(* every step, and that generation terminates (the 10-try bound).          *)
(***************************************************************************)
EXTENDS MasksDino

CONSTANTS MaxH, MaxW,     \* grids 1..MaxH x 1..MaxW
          MaxCells,       \* ... with at most MaxCells patches
          MaxN,           \* B * V <= MaxN
          MaxV,           \* views 1..MaxV
          Den             \* mask_prob, ratio_min, ratio_max range over 0/Den .. Den/Den

VARIABLES configured
pvars == <<dvars, configured>>

Geoms == { g \in [H : 1..MaxH, W : 1..MaxW, B : 1..MaxN, V : 1..MaxV] : g.B * g.V <= MaxN /\ g.H * g.W <= MaxCells }

PInit == /\ \E g \in Geoms : DInitWith([H |-> g.H, W |-> g.W, B |-> g.B, V |-> g.V,
                                        p |-> <<0, Den>>, rmin |-> <<0, Den>>, rmax |-> <<0, Den>>])
         /\ configured = FALSE
Configure ==
  /\ ~configured /\ configured' = TRUE
  /\ \E pn \in 0..Den, a \in 0..Den, b \in 0..Den :
        /\ a <= b
        /\ dcfg' = [dcfg EXCEPT !.p = <<pn, Den>>, !.rmin = <<a, Den>>, !.rmax = <<b, Den>>]
  /\ UNCHANGED <<phase, idx, target, masked, tries, cur, masks>>

Keep == UNCHANGED configured
PStartMask == configured /\ StartMask /\ Keep
PEnterBlock == configured /\ EnterBlock /\ Keep
PFinishReached == configured /\ FinishReached /\ Keep
PFinishGaveUp == configured /\ FinishGaveUp /\ Keep
PTryOutOfBounds == configured /\ TryOutOfBounds /\ Keep
PTryFullyMasked == configured /\ TryFullyMasked /\ Keep
PTryOverBudget == configured /\ TryOverBudget /\ Keep
PTryPlace == configured /\ TryPlace /\ Keep
PPad == configured /\ Pad /\ Keep
PShuffle == configured /\ Shuffle /\ Keep
\* reachability probes: copies of an action with an extra guard (no new states); `-coverage 1' shows whether the
\* guarded situation occurs at all, the driver fails (exit 2) if one of them is never taken
NonEmpty(ms) == Cardinality({ i \in 1..Len(ms) : ms[i] # {} })
ProbeFullBudget == PShuffle /\ DinoBudget(dcfg) >= 1 /\ NonEmpty(masks) = DinoBudget(dcfg)    \* budget is attained
ProbeAtCap == PFinishReached /\ DinoCap(dcfg) >= 1 /\ Cardinality(cur) = DinoCap(dcfg)       \* upper ratio is attained
ProbeEmptyGenerated == PFinishGaveUp /\ cur = {}                    \* a generated mask may stay empty
PNext == Configure \/ PStartMask \/ PEnterBlock \/ PFinishReached \/ PFinishGaveUp \/ PTryOutOfBounds
         \/ PTryFullyMasked \/ PTryOverBudget \/ PTryPlace \/ PPad \/ PShuffle
         \/ ProbeFullBudget \/ ProbeAtCap \/ ProbeEmptyGenerated
PSpec == PInit /\ [][PNext]_pvars /\ WF_pvars(PNext)

(* ------------------------- normative clauses on the output ------------------------- *)
IsOut == phase = "done"
OutShape == <<Len(masks), dcfg.H, dcfg.W>>     \* torch.stack of Len(masks) H x W tensors
C17_D_OnePerViewSample == IsOut => D_OnePerViewSample(dcfg, OutShape, masks)
C17_D_Boolean == IsOut => D_Boolean(dcfg, TRUE, masks)
C17_D_Budget == IsOut => D_Budget(dcfg, masks)
C17_D_UpperRatio == IsOut => D_UpperRatio(dcfg, masks)
\* the clauses hold for the list under construction as well (shuffling and padding do not matter)
C17_D_UpperRatioAlways == configured => D_UpperRatio(dcfg, masks) /\ Cardinality(cur) <= DinoCap(dcfg)
C17_D_BudgetAlways == configured => D_Budget(dcfg, masks)
(* ------------------------- descriptive invariants ---------------------------------- *)
Accounting == configured => DAccounting
TypeOK == DTypeOK /\ configured \in BOOLEAN
Terminates == <>(phase = "done")
=============================================================================
