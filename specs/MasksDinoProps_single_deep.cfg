SPECIFICATION PSpec
CONSTANTS
  MaxTry = 3
  Mutant = "none"
  MaxH = 4
  MaxW = 4
  MaxCells = 12
  MaxN = 1
  MaxV = 1
  Den = 2
INVARIANT TypeOK
INVARIANT Accounting
INVARIANT C17_D_OnePerViewSample
INVARIANT C17_D_Boolean
INVARIANT C17_D_Budget
INVARIANT C17_D_UpperRatio
INVARIANT C17_D_UpperRatioAlways
INVARIANT C17_D_BudgetAlways
PROPERTY Terminates
CHECK_DEADLOCK FALSE
