SPECIFICATION PSpec
CONSTANTS
  D = 4
  MaxMembers = 2
  MaxScales = 2
  MaxScalesComp = 2
  Variant = "nofwd"
  Fine = FALSE
  CompFull = FALSE
INVARIANT C15_CollapseAtZero
CHECK_DEADLOCK FALSE
