---- MODULE CopyConcTraceMC_T1 ----
EXTENDS CopyConcTrace
P3 == {"p1", "p2", "p3"}
MCFiles == {"a"}
MCDirs == {}
MCDirOf == ("a" :> ".")
MCProgs == [raw |-> <<[k |-> "create", x |-> "a"], [k |-> "fill", x |-> "a"], [k |-> "touch", x |-> "a"]>>, zip |-> <<[k |-> "create", x |-> "a"], [k |-> "fill", x |-> "a"]>>, zips |-> <<[k |-> "create", x |-> "a"], [k |-> "fill", x |-> "a"]>>]
MCWipeOrder == <<"a", "end", "start", "junk">>
MCFileOrder == <<"a">>
====
