SPECIFICATION SSpec
CONSTANTS
  MaxW = 3
  MaxBS = 3
  MaxNB = 7
  MaxE = 2
  FullOnly = TRUE
  Variant = "shipped"
  Dispatch = "roundrobin"
INVARIANT C15_ScheduleAtBatch
INVARIANT C15_InSchedule
INVARIANT C15_AllSamples
PROPERTY C15_Terminates
CHECK_DEADLOCK FALSE
