------------------------------ MODULE MixCollator ------------------------------
(***************************************************************************)
(* KDMixCollator.collate (kappadata/collators/kd_mix_collator.py): batch   *)
(* mixup / cutmix.                                                         *)
(*                                                                         *)
(* The batch is ID-ENCODED: image k is the k-th unit vector in channel     *)
(* space (x[k, c, :, :] = [c = k], C = B), so every output pixel is a      *)
(* coefficient vector over the SOURCE SAMPLES; labels are rows y0[k] of    *)
(* 0/1 entries (a one-hot row of K classes, or, for binary classification, *)
(* one scalar).  All real numbers are integers over the scale c.S          *)
(* (model: S = 4*H*W, exact, Tol = 0; traces: S = 10^6, Tol = 100).        *)
(*                                                                         *)
(* NORMATIVE PART: module MixCollatorNorm (the clauses of property C10     *)
(* over an observation of one emitted batch; no variables).                *)
(*                                                                         *)
(* DESCRIPTIVE PART: the draw structure and the loops of `collate`, one    *)
(* action per draw / loop iteration.  Variant "v1" is the design in which  *)
(* sample i uses its own flag and its own box; Variant "v0" is the         *)
(* original per-sample loop (branch decided by the PARTNER's flag, boxes   *)
(* taken by a running counter) and is kept as the negative control.        *)
(***************************************************************************)
EXTENDS MixCollatorNorm

(* ========================== descriptive part =========================== *)
CONSTANT Variant     \* "v1" | "v0"

VARIABLES cfg,       \* [B, H, W, K, onehot, lamb, shuffle, split, S, Tol, y0]
          pc,
          flag,      \* use_cutmix per sample (lamb_mode=batch: the same everywhere)
          mixLam,    \* mixup_lamb per sample (0 = drawn but never read)
          box,       \* bbox per sample as drawn by get_random_bbox
          perm,      \* the shuffle: x2[k] = x[perm[k]]
          i,         \* loop counter of `for i in range(batch_size)` (1-based)
          bboxIdx,   \* running counter `bbox_idx` (1-based)
          img,       \* [sample -> [pixel -> coefficient vector]]
          lab,       \* [sample -> label row]
          ctxLam, ctxCut
vars == <<cfg, pc, flag, mixLam, box, perm, i, bboxIdx, img, lab, ctxLam, ctxCut>>

Pix(c) == (0..(c.H - 1)) \X (0..(c.W - 1))
NoBox == [top |-> 0, left |-> 0, bot |-> 0, right |-> 0]
InBox(b, px) == b.top <= px[1] /\ px[1] < b.bot /\ b.left <= px[2] /\ px[2] < b.right
BoxArea(b) == (b.bot - b.top) * (b.right - b.left)
\* get_random_bbox: centre uniform over the image, half sizes floor(0.5*sqrt(1-lamb)*h), clamped to the image
MkBox(c, ch, cw, hh, hw) ==
  [top |-> Max2(ch - hh, 0), left |-> Max2(cw - hw, 0), bot |-> Min2(ch + hh, c.H), right |-> Min2(cw + hw, c.W)]
\* a = 0.5*sqrt(1-lamb) ranges over [0, 1/2]; on the grid t/12 it takes every value of (floor(a*H), floor(a*W))
\* that H, W <= 4 can produce.  An empty box pastes nothing and gives lamb_adjusted = 1 wherever it lies: all empty
\* boxes are represented by NoBox (state-space reduction without observable effect).
NormBox(b) == IF BoxArea(b) = 0 THEN NoBox ELSE b
Boxes(c) == {NormBox(MkBox(c, ch, cw, (t * c.H) \div 12, (t * c.W) \div 12)) :
               ch \in 0..(c.H - 1), cw \in 0..(c.W - 1), t \in 0..6}
\* lamb_adjusted = 1 - box area / (h*w)
LamAdj(c, b) == c.S - (BoxArea(b) * c.S) \div Area(c)
WGrid(c) == {c.S \div 4, c.S \div 2, (3 * c.S) \div 4}
FlagsAllowed(c) == IF c.split = "mixup" THEN {FALSE} ELSE IF c.split = "cutmix" THEN {TRUE} ELSE BOOLEAN
RECURSIVE PermSeqs(_)
PermSeqs(T) == IF T = {} THEN {<<>>} ELSE UNION {{<<x>> \o p : p \in PermSeqs(T \ {x})} : x \in T}

\* lamb = where(use_cutmix, cutmix_lamb, mixup_lamb)
Lamb(k) == IF flag[k] THEN LamAdj(cfg, box[k]) ELSE mixLam[k]

InitWith(c) ==
  /\ cfg = c
  /\ pc = "flags"
  /\ flag = [k \in 1..c.B |-> FALSE]
  /\ mixLam = [k \in 1..c.B |-> 0]
  /\ box = [k \in 1..c.B |-> NoBox]
  /\ perm = [k \in 1..c.B |-> k]
  /\ i = 1 /\ bboxIdx = 1
  /\ img = [k \in 1..c.B |-> [px \in Pix(c) |-> UnitV(c, k)]]
  /\ lab = [k \in 1..c.B |-> [m \in 1..c.K |-> c.y0[k][m] * c.S]]
  /\ ctxLam = <<>> /\ ctxCut = <<>>

\* use_cutmix = rng.random() * total_p < cutmix_p        (one draw, or one per sample)
DrawFlags ==
  /\ pc = "flags"
  /\ IF cfg.lamb = "batch"
       THEN \E f \in FlagsAllowed(cfg) : flag' = [k \in 1..cfg.B |-> f]
       ELSE \E f \in [1..cfg.B -> FlagsAllowed(cfg)] : flag' = f
  /\ pc' = "lams"
  /\ UNCHANGED <<cfg, mixLam, box, perm, i, bboxIdx, img, lab, ctxLam, ctxCut>>

\* lamb = rng.beta(alpha, alpha)   (mixup weights; a weight that no later statement reads is left 0)
DrawLams ==
  /\ pc = "lams"
  /\ IF cfg.lamb = "batch"
       THEN IF flag[1] THEN mixLam' = mixLam ELSE \E w \in WGrid(cfg) : mixLam' = [k \in 1..cfg.B |-> w]
       ELSE \E m \in [1..cfg.B -> WGrid(cfg) \cup {0}] :
              /\ \A k \in 1..cfg.B : (m[k] = 0) = flag[k]
              /\ mixLam' = m
  /\ pc' = "boxes"
  /\ UNCHANGED <<cfg, flag, box, perm, i, bboxIdx, img, lab, ctxLam, ctxCut>>

\* get_random_bbox: one box (batch) or batch_size boxes (sample, drawn for EVERY sample whenever cutmix_p > 0)
DrawBoxes ==
  /\ pc = "boxes"
  /\ IF cfg.lamb = "batch"
       THEN IF flag[1] THEN \E b \in Boxes(cfg) : box' = [k \in 1..cfg.B |-> b] ELSE box' = box
       ELSE IF cfg.split = "mixup" THEN box' = box ELSE \E bs \in [1..cfg.B -> Boxes(cfg)] : box' = bs
  /\ pc' = "perm"
  /\ UNCHANGED <<cfg, flag, mixLam, perm, i, bboxIdx, img, lab, ctxLam, ctxCut>>

\* shuffle(): clone for a single sample, roll(shifts=1), flip(0), or one rng.permutation reused for x and y
DrawPerm ==
  /\ pc = "perm"
  /\ IF cfg.B = 1 THEN perm' = [k \in 1..1 |-> 1]
     ELSE IF cfg.shuffle = "roll" THEN perm' = [k \in 1..cfg.B |-> ((k + cfg.B - 2) % cfg.B) + 1]
     ELSE IF cfg.shuffle = "flip" THEN perm' = [k \in 1..cfg.B |-> cfg.B + 1 - k]
     ELSE \E p \in PermSeqs(1..cfg.B) : perm' = p
  /\ pc' = IF cfg.lamb = "batch" THEN "xbatch" ELSE "xloop"
  /\ UNCHANGED <<cfg, flag, mixLam, box, i, bboxIdx, img, lab, ctxLam, ctxCut>>

Paste(k, j, b) == [px \in Pix(cfg) |-> IF InBox(b, px) THEN UnitV(cfg, j) ELSE img[k][px]]
Blend(k, j, w) == [px \in Pix(cfg) |-> [m \in 1..cfg.B |-> (w * img[k][px][m] + (cfg.S - w) * UnitV(cfg, j)[m]) \div cfg.S]]

\* lamb_mode = batch: x[..., top:bot, left:right] = x2[...]   or   x.mul_(lamb).add_(x2.mul_(1 - lamb))
XBatch ==
  /\ pc = "xbatch"
  /\ img' = [k \in 1..cfg.B |-> IF flag[1] THEN Paste(k, perm[k], box[1]) ELSE Blend(k, perm[k], mixLam[1])]
  /\ pc' = "y"
  /\ UNCHANGED <<cfg, flag, mixLam, box, perm, i, bboxIdx, lab, ctxLam, ctxCut>>

\* lamb_mode = sample: one iteration of `for i in range(batch_size)`
XLoop ==
  /\ pc = "xloop"
  /\ LET j == perm[i]
         cut == IF Variant = "v0" THEN flag[j] ELSE flag[i]
         bi == IF Variant = "v0" THEN bboxIdx ELSE i
     IN IF cut
          THEN /\ img' = [img EXCEPT ![i] = Paste(i, j, box[bi])]
               /\ bboxIdx' = bboxIdx + 1
          ELSE /\ img' = [img EXCEPT ![i] = Blend(i, j, Lamb(i))]
               /\ bboxIdx' = bboxIdx
  /\ i' = i + 1
  /\ pc' = IF i = cfg.B THEN "y" ELSE "xloop"
  /\ UNCHANGED <<cfg, flag, mixLam, box, perm, lab, ctxLam, ctxCut>>

\* y.mul_(lamb).add_(y2.mul_(1 - lamb))
ApplyY ==
  /\ pc = "y"
  /\ lab' = [k \in 1..cfg.B |-> [m \in 1..cfg.K |->
               (Lamb(k) * lab[k][m] + (cfg.S - Lamb(k)) * (cfg.y0[perm[k]][m] * cfg.S)) \div cfg.S]]
  /\ pc' = "ctx"
  /\ UNCHANGED <<cfg, flag, mixLam, box, perm, i, bboxIdx, img, ctxLam, ctxCut>>

\* ctx["lambda"] = lamb, ctx["use_cutmix"] = use_cutmix    (one entry in batch mode, one per sample otherwise)
RecordCtx ==
  /\ pc = "ctx"
  /\ ctxLam' = IF cfg.lamb = "batch" THEN <<Lamb(1)>> ELSE [k \in 1..cfg.B |-> Lamb(k)]
  /\ ctxCut' = IF cfg.lamb = "batch" THEN <<flag[1]>> ELSE [k \in 1..cfg.B |-> flag[k]]
  /\ pc' = "done"
  /\ UNCHANGED <<cfg, flag, mixLam, box, perm, i, bboxIdx, img, lab>>

Next == DrawFlags \/ DrawLams \/ DrawBoxes \/ DrawPerm \/ XBatch \/ XLoop \/ ApplyY \/ RecordCtx

(* ---------- projection of the model's state to an observation ---------- *)
PixClasses(c, im) ==
  { LET P == {px \in Pix(c) : im[px] = v} IN
      [vec |-> v, n |-> Cardinality(P),
       top |-> CHOOSE r \in 0..c.H : (\E px \in P : px[1] = r) /\ \A px \in P : px[1] >= r,
       bot |-> CHOOSE r \in 0..c.H : (\E px \in P : px[1] = r - 1) /\ \A px \in P : px[1] < r,
       left |-> CHOOSE r \in 0..c.W : (\E px \in P : px[2] = r) /\ \A px \in P : px[2] >= r,
       right |-> CHOOSE r \in 0..c.W : (\E px \in P : px[2] = r - 1) /\ \A px \in P : px[2] < r]
    : v \in {im[px] : px \in Pix(c)} }
ObsSample(k) ==
  [lab |-> lab[k], pcs |-> PixClasses(cfg, img[k]),
   lam |-> IF ctxLam = <<>> THEN -1 ELSE IF Len(ctxLam) = 1 THEN ctxLam[1] ELSE ctxLam[k]]
=============================================================================
