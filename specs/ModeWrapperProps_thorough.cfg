SPECIFICATION PSpec
CONSTANT MaxLen = 5
INVARIANT C01_PositionsRight
INVARIANT C01_FreshCalls
INVARIANT C01_JointOnce
INVARIANT C01_NoError
INVARIANT C01_TableCoversAll
PROPERTY C01_Terminates
CHECK_DEADLOCK FALSE
