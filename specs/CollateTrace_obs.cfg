CONSTANTS
  Proto = "v1"
SPECIFICATION TSpec
CONSTRAINT Constraint
POSTCONDITION Report
CHECK_DEADLOCK FALSE
