SPECIFICATION Spec
CONSTANTS
  Procs <- P2
  Files <- T2Files
  Dirs <- T2Dirs
  DirOf <- T2DirOf
  Progs <- T2Progs
  WipeOrder <- T2WipeOrder
  FileOrder <- T2FileOrder
  Inits <- AllInits
  Proto = "v1"
  MaxCrashes = 1
  MaxRounds = 1
  Serial = FALSE
  SerialFirst = "p1"
  KeepHist = FALSE
INVARIANT TypeOK
INVARIANT Truthful
INVARIANT AllReturnedComplete
INVARIANT NoLeftovers
INVARIANT OwnWritesOK
PROPERTY NoUserDamage
PROPERTY CompletedKept
PROPERTY Terminates
CHECK_DEADLOCK FALSE
