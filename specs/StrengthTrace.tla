---------------------------- MODULE StrengthTrace ----------------------------
(***************************************************************************)
(* Trace validation for C15 (strength scaling).  IOEnv.TRACE_FILE holds    *)
(*   {"traces": [{"id": n, "cfg": {...}, "ev": [...]}]}                    *)
(* recorded from REAL transform instances by harness/drivers/strength.py.  *)
(* One trace = one new instance of a catalogue entry and a sequence of     *)
(* scale_strength(f) calls; one event per call.  All numbers are fixed     *)
(* point, unit 10^-6 (One = 1000000).                                      *)
(*                                                                         *)
(* cfg.cons.lv / cfg.cons.dr   leaves / sampling ranges of the instance as *)
(*                             constructed                                 *)
(* cfg.zero.lv / cfg.zero.dr   the same for a fresh instance scaled by 0   *)
(* cfg.ident    1: the class has an identity and must be it at factor 0    *)
(* cfg.collapse 1: every sampling range must be a single point at factor 0 *)
(* cfg.weak     the weakest settings the class documentation names         *)
(* cfg.sidx     positions in lv of leaves that belong to a member whose    *)
(*              stand-alone twin is scaled alongside (compositions)        *)
(* cfg.model    [{kind, og, idx}] binding to the descriptive model         *)
(* event: a = "scale" | "raise", f, lv (leaves: numeric attributes that    *)
(*   scaling acts on), dr (<<lo, hi, ...>> ranges handed to the generator  *)
(*   in one call), id (1: identity on the probe inputs), fr / fdr (leaves  *)
(*   / ranges of a FRESH instance scaled once by f), solo (leaves of the   *)
(*   stand-alone members scaled once by f)                                 *)
(*                                                                         *)
(* Obs (verdict): the clauses of the statement, evaluated on the observed  *)
(*   values with the operators of Strength.tla.                            *)
(* Desc (conformance, reported, never a verdict): at factors k/4 the       *)
(*   observed leaves equal Formula(Variant, ...) of Strength.tla for       *)
(*   Variant "fixed" resp. "shipped".                                      *)
(***************************************************************************)
EXTENDS Strength, Json, IOUtils, TLCExt

CONSTANTS Tol     \* tolerance of the fixed-point comparison (units of 10^-6)

VARIABLES tid, l, fail, cfix, cship
tvars == <<tid, l, fail, cfix, cship>>

Traces == JsonDeserialize(IOEnv.TRACE_FILE).traces
ASSUME TLCSet(1, {}) /\ TLCSet(2, {}) /\ TLCSet(3, {}) /\ TLCSet(4, {})

One == 1000000
D == 4
UFP == [one |-> One, half |-> 500000, top |-> 256000000, q |-> 1000000]

Cfg == Traces[tid].cfg
Ev(i) == Traces[tid].ev[i]
NEv == Len(Traces[tid].ev)
WeakSet == { Cfg.weak[j] : j \in 1..Len(Cfg.weak) }
SameShape(a, b) == Len(a) = Len(b)

(* -------------------------------- Obs ---------------------------------- *)
\* the failed clauses of event i (events 1..i-1 are the history)
Clauses(i) ==
  LET e == Ev(i) IN
  IF e.a = "raise" THEN {"NoRefusal"} ELSE
     \* scaling by 1 restores exactly the parameter ranges the transform was constructed with
     (IF e.f = One /\ ~(RestoresAtOne(Cfg.cons.lv, e.lv, Tol) /\ RestoresAtOne(Cfg.cons.dr, e.dr, Tol))
        THEN {"RestoreAtOne"} ELSE {})
     \* scaling by 0 collapses every range to its weakest setting - the identity where the transform has one
     \cup (IF e.f = 0 /\ Cfg.ident = 1 /\ e.id # 1 THEN {"IdentityAtZero"} ELSE {})
     \cup (IF e.f = 0 /\ Cfg.collapse = 1 /\ ~Degenerate(e.dr, Tol) THEN {"DegenerateAtZero"} ELSE {})
     \cup (IF e.f = 0 /\ Cfg.collapse = 1 /\ Degenerate(e.dr, Tol) /\ ~AtWeakest(e.dr, WeakSet, Tol)
             THEN {"WeakestAtZero"} ELSE {})
     \* intermediate factors keep every bound between the two ends ...
     \cup (IF ~BetweenEnds(Cfg.zero.lv, e.lv, Cfg.cons.lv, Tol)
              \/ (SameShape(e.dr, Cfg.zero.dr) /\ SameShape(e.dr, Cfg.cons.dr)
                    /\ ~BetweenEnds(Cfg.zero.dr, e.dr, Cfg.cons.dr, Tol))
             THEN {"BetweenEnds"} ELSE {})
     \* ... and move every bound monotonically
     \cup (IF \E j \in 1..(i - 1) :
                 /\ Ev(j).a = "scale"
                 /\ LET lo == IF Ev(j).f <= e.f THEN Ev(j) ELSE e
                        hi == IF Ev(j).f <= e.f THEN e ELSE Ev(j) IN
                      \/ ~MonotonePair(Cfg.zero.lv, lo.lv, hi.lv, Tol)
                      \/ (SameShape(lo.dr, hi.dr) /\ SameShape(lo.dr, Cfg.zero.dr)
                            /\ ~MonotonePair(Cfg.zero.dr, lo.dr, hi.dr, Tol))
             THEN {"Monotone"} ELSE {})
     \* the result depends only on the last factor given: it is what a fresh instance shows after Scale(f) alone ...
     \cup (IF ~(NearSeq(e.lv, e.fr, Tol) /\ NearSeq(e.dr, e.fdr, Tol)) THEN {"LastFactorOnly"} ELSE {})
     \* ... and the same factor always leads to the same state
     \cup (IF \E j \in 1..(i - 1) :
                 Ev(j).a = "scale" /\ Ev(j).f = e.f
                    /\ ~(NearSeq(Ev(j).lv, e.lv, Tol) /\ NearSeq(Ev(j).dr, e.dr, Tol) /\ Ev(j).id = e.id)
             THEN {"SameFactorSameState"} ELSE {})
     \* also through compositions: every member is where its stand-alone twin is after Scale(f)
     \cup (IF ~(/\ Len(e.solo) = Len(Cfg.sidx)
                /\ \A j \in 1..Len(Cfg.sidx) : Near(e.lv[Cfg.sidx[j]], e.solo[j], Tol))
             THEN {"ThroughCompositions"} ELSE {})

(* -------------------------------- Desc --------------------------------- *)
OnGrid(f) == f % (One \div D) = 0
Conforms(v, i) ==
  LET e == Ev(i) IN
  IF e.a = "raise"
    THEN \E m \in 1..Len(Cfg.model) : Refuses(v, Cfg.model[m].kind, Cfg.model[m].og)
    ELSE \A m \in 1..Len(Cfg.model) :
           LET b == Cfg.model[m]
               pred == Formula(v, UFP, b.kind, b.og, b.og, e.f \div (One \div D), D) IN
             /\ ~Refuses(v, b.kind, b.og)
             /\ \A j \in 1..Len(b.idx) : b.idx[j] = 0 \/ Near(e.lv[b.idx[j]], pred[j], Tol)
Bound(i) == Cfg.model # <<>> /\ (Ev(i).a = "raise" \/ OnGrid(Ev(i).f))

TInit ==
  /\ tid \in 1..Len(Traces)
  /\ l = 1
  /\ fail = {}
  /\ cfix = TRUE /\ cship = TRUE

TNext ==
  /\ l <= NEv /\ fail = {}
  /\ fail' = Clauses(l)
  /\ cfix' = (cfix /\ (Bound(l) => Conforms("fixed", l)))
  /\ cship' = (cship /\ (Bound(l) => Conforms("shipped", l)))
  /\ l' = l + 1
  /\ UNCHANGED tid

TSpec == TInit /\ [][TNext]_tvars

\* register 1: accepted ids, 2: <<id, event, failed clauses>>, 3 / 4: ids whose bound events all follow the
\* descriptive model "fixed" / "shipped"
Collect ==
  /\ IF fail # {} THEN TLCSet(2, TLCGet(2) \cup {<<Traces[tid].id, l - 1, fail>>})
     ELSE IF l = NEv + 1 THEN TLCSet(1, TLCGet(1) \cup {Traces[tid].id})
     ELSE TRUE
  /\ IF (l = NEv + 1 \/ fail # {}) /\ Cfg.model # <<>>
       THEN /\ (IF cfix THEN TLCSet(3, TLCGet(3) \cup {Traces[tid].id}) ELSE TRUE)
            /\ (IF cship THEN TLCSet(4, TLCGet(4) \cup {Traces[tid].id}) ELSE TRUE)
       ELSE TRUE
Constraint == Collect /\ fail = {}

\* sets are printed as one-line JSON
Report == /\ PrintT(<<"ACCEPTED", ToJson(TLCGet(1))>>) /\ PrintT(<<"REJECTED", ToJson(TLCGet(2))>>)
          /\ PrintT(<<"DESCFIXED", ToJson(TLCGet(3))>>) /\ PrintT(<<"DESCSHIPPED", ToJson(TLCGet(4))>>)
=============================================================================
