CONSTANTS
  Procs <- P3
  Files <- MCFiles
  Dirs <- MCDirs
  DirOf <- MCDirOf
  Progs <- MCProgs
  WipeOrder <- MCWipeOrder
  FileOrder <- MCFileOrder
  Inits = {"absent"}
  Proto = "v1"
  MaxCrashes = 1000
  MaxRounds = 1000
  Serial = FALSE
  SerialFirst = "p1"
  KeepHist = TRUE
SPECIFICATION DescSpec
CONSTRAINT DescCollect
POSTCONDITION DescReport
CHECK_DEADLOCK FALSE
