------------------------------ MODULE InfiniteBatch ------------------------------
(***************************************************************************)
(* X01 - InfiniteBatchSampler (kappadata/samplers/infinite_batch_sampler.  *)
(* py), a torch.utils.data.BatchSampler that "keeps fetching batches       *)
(* across epoch boundaries", optionally bounded by ONE of the constructor  *)
(* arguments epochs / updates / samples.                                   *)
(*                                                                         *)
(* cfg (chosen in Init / read from the trace, never changes):              *)
(*   N      number of indices one iteration of the wrapped sampler yields  *)
(*   B      batch_size >= 1 (B > N is allowed for this class)              *)
(*   drop   drop_last                                                      *)
(*   kind   "n" no stop argument | "e" epochs | "u" updates | "s" samples  *)
(*   budget the stop argument (>= 1); for kind "n" the number of batches   *)
(*          the CONSUMER takes before it abandons the generator            *)
(*   se     the wrapped sampler has set_epoch                              *)
(*   miter  <<>> (identity iteration 0..N-1 every epoch) or a sequence:    *)
(*          miter[k] = the sampler's own k-th iteration (k = 1, 2, ...)    *)
(*                                                                         *)
(* Events (what is observable at the boundary between the class, the       *)
(* wrapped sampler and the consumer); one record shape for all:            *)
(*   se   v = epoch passed to sampler.set_epoch                            *)
(*   it   k = ordinal of the sampler iteration that iter(sampler) starts   *)
(*   d    v = index drawn, k = ordinal of the iteration it was drawn from  *)
(*   x    k = ordinal of the iteration whose iterator raised StopIteration *)
(*   b    b = batch handed to the consumer                                 *)
(*   stop the generator returned (StopIteration at the consumer)           *)
(*   cut  the consumer stopped asking (kind "n" only)                      *)
(*   exc  an exception escaped; overrun / diverge = the harness gave up    *)
(*                                                                         *)
(* NORMATIVE PART: clauses X_...(c, ev, l) about the l-th event of an      *)
(* event sequence ev given the prefix before it - independent of the       *)
(* machine below.  A sequence satisfies a clause iff it holds at every l.  *)
(* DESCRIPTIVE PART: one action per statement / loop iteration of          *)
(* InfiniteBatchSampler.__iter__ and of BatchSampler.__iter__ (torch 2.x:  *)
(* zip over B references to one iterator with drop_last, itertools.islice otherwise).               *)
(*                                                                         *)
(* NAMED DEVIATION  Dev_EpochGranularity: the stop test of the class is    *)
(* only evaluated between epochs.  updates=U / samples=S therefore do not  *)
(* end the stream at the update that reaches the budget (as the equally    *)
(* named arguments of InterleavedSampler do) but at the end of the epoch   *)
(* in which it is reached.  The specification knowingly does not demand    *)
(* the exact stop: X_StopNotEarly / X_StopNotLate accept every stop        *)
(* between "budget reached" and "end of that epoch"; Overshoot(c) tells    *)
(* how many batches too many the class delivers.                           *)
(***************************************************************************)
EXTENDS Integers, Sequences, FiniteSets, TLC

CONSTANT Variant
\* "v1"      the repaired class (stop test: epochs == E, updates >= U, samples >= S, between epochs)
\* "v0"      as found: the stop test reads the undefined names epoch / update / sample -> NameError at the first
\*           epoch boundary whenever a stop argument is given
\* "eq"      names repaired only: `updates == self.updates` between epochs never fires unless UPE divides U
\* "exact"   a BETTER class that stops at the update reaching the budget (positive control for the deviation)
\* "mix" "nodrop" "se_late" "se_stale" "se_twice" "early" "late"   realistic faults (negative controls)

VARIABLES cfg, epochs, updates, samples, pos, open, pc, emit
vars == <<cfg, epochs, updates, samples, pos, open, pc, emit>>

Min(a, b) == IF a < b THEN a ELSE b
CeilDiv(a, b) == (a + b - 1) \div b

Ev(a, v, k, b) == [a |-> a, v |-> v, k |-> k, b |-> b]
NoEv == Ev("none", -1, -1, <<>>)

(* ============================ geometry (normative) ======================= *)
SPE(c) == IF c.drop THEN (c.N \div c.B) * c.B ELSE c.N        \* samples per epoch that reach the consumer
UPE(c) == CeilDiv(SPE(c), c.B)                                 \* batches (updates) per epoch
Idx(c, k, p) == IF c.miter = <<>> THEN p - 1 ELSE c.miter[k][p]   \* p-th index of the sampler's k-th iteration
Bounded(c) == c.kind # "n"
\* epochs=E makes sense for every geometry; the other kinds need at least one batch per epoch
InDomain(c) == c.kind = "e" \/ UPE(c) >= 1

\* budget test on counters (epochs completed, batches delivered, samples delivered)
Reached(c, ep, up, sa) ==
  \/ c.kind = "e" /\ ep >= c.budget
  \/ c.kind = "u" /\ up >= c.budget
  \/ c.kind = "s" /\ sa >= c.budget
\* the epoch in which the budget is reached (kind "n": the epoch the consumer's last batch lies in)
EpochsNeeded(c) == CASE c.kind = "e" -> c.budget
                     [] c.kind = "u" -> CeilDiv(c.budget, UPE(c))
                     [] c.kind = "s" -> CeilDiv(c.budget, SPE(c))
                     [] c.kind = "n" -> CeilDiv(c.budget, UPE(c))
MaxBatches(c) == IF c.kind = "n" THEN c.budget ELSE EpochsNeeded(c) * UPE(c)
\* samples delivered by the first j batches
SamplesAfter(c, j) == IF UPE(c) = 0 THEN 0 ELSE (j \div UPE(c)) * SPE(c) + Min((j % UPE(c)) * c.B, SPE(c))
\* fewest batches after which the budget is reached (what an exact stop would deliver)
MinBatches(c) == CASE c.kind = "e" -> c.budget * UPE(c)
                   [] c.kind = "u" -> c.budget
                   [] c.kind = "s" -> CHOOSE j \in 1..MaxBatches(c) :
                                         /\ SamplesAfter(c, j) >= c.budget
                                         /\ \A i \in 1..(j - 1) : SamplesAfter(c, i) < c.budget
                   [] c.kind = "n" -> c.budget
Overshoot(c) == MaxBatches(c) - MinBatches(c)           \* > 0 = Dev_EpochGranularity shows
\* the j-th batch of the whole stream: the r-th consecutive cut of the ke-th iteration
ExpBatch(c, j) ==
  LET ke == (j - 1) \div UPE(c) + 1
      r  == (j - 1) % UPE(c)
  IN [i \in 1..(Min((r + 1) * c.B, SPE(c)) - r * c.B) |-> Idx(c, ke, r * c.B + i)]
RefBatches(c) == [j \in 1..MaxBatches(c) |-> ExpBatch(c, j)]
RowsKnown(c, k) == c.miter = <<>> \/ k <= Len(c.miter)

(* ============================ NORMATIVE CLAUSES ========================== *)
\* counting over the prefix ev[1..l-1]
Pos(ev, l, a) == {i \in 1..(l - 1) : ev[i].a = a}
Cnt(ev, l, a) == Cardinality(Pos(ev, l, a))
\* samples in the batches among ev[1..l]
SumB(ev, l) == Cardinality(UNION { { <<i, j>> : j \in 1..Len(ev[i].b) } : i \in Pos(ev, l + 1, "b") })
EpochsDone(ev, l) == Cardinality({ev[i].k : i \in Pos(ev, l, "x")})     \* iterations that ran to exhaustion
\* positions of the last n draws before l (ascending); <<>> if there are fewer
LastDraws(ev, l, n) ==
  LET ds == SelectSeq([i \in 1..(l - 1) |-> i], LAMBDA i : ev[i].a = "d")
  IN IF Len(ds) < n THEN <<>> ELSE SubSeq(ds, Len(ds) - n + 1, Len(ds))
Is(ev, l, a) == ev[l].a = a

\* the epoch counter handed to set_epoch is 0, 1, 2, ... in this order
X_SetEpochOrder(c, ev, l) == Is(ev, l, "se") => ev[l].v = Cnt(ev, l, "se")
\* exactly once per epoch: never a second announcement before the announced epoch was started, and every
\* iteration of the sampler is started only after its epoch has been announced (samplers such as torch's
\* DistributedSampler fix the epoch's order inside iter())
X_SetEpochOnce(c, ev, l) ==
  /\ Is(ev, l, "se") => c.se /\ Cnt(ev, l, "se") = Cnt(ev, l, "it")
  /\ (Is(ev, l, "it") /\ c.se) => Cnt(ev, l, "se") = Cnt(ev, l, "it") + 1
\* ... BEFORE that epoch's first index is drawn: when an index of the k-th iteration is drawn, the epochs announced
\* so far are exactly 0..k-1
X_SetEpochBeforeDraw(c, ev, l) == (Is(ev, l, "d") /\ c.se) => Cnt(ev, l, "se") = ev[l].k
\* iteration ordinals count up; an index is drawn from the iteration started last (the class holds one iterator)
X_IterOrder(c, ev, l) ==
  /\ Is(ev, l, "it") => ev[l].k = Cnt(ev, l, "it") + 1
  /\ Is(ev, l, "d") => ev[l].k = Cnt(ev, l, "it")
\* batches are exactly the consecutive cuts of each epoch's sampler order, drop_last honoured
X_BatchesExact(c, ev, l) ==
  Is(ev, l, "b") =>
     LET j == Cnt(ev, l, "b") + 1 IN
       /\ UPE(c) >= 1
       /\ RowsKnown(c, (j - 1) \div UPE(c) + 1) => ev[l].b = ExpBatch(c, j)
\* a batch is made of the indices drawn last, in drawing order (nothing invented, nothing reordered) ...
X_BatchIsDrawn(c, ev, l) ==
  Is(ev, l, "b") =>
     LET ds == LastDraws(ev, l, Len(ev[l].b)) IN
       /\ Len(ev[l].b) >= 1 /\ Len(ds) = Len(ev[l].b)
       /\ \A i \in 1..Len(ds) : ev[ds[i]].v = ev[l].b[i]
\* ... and no batch mixes two epochs
X_NoMix(c, ev, l) ==
  Is(ev, l, "b") =>
     LET ds == LastDraws(ev, l, Len(ev[l].b)) IN \A i, j \in 1..Len(ds) : ev[ds[i]].k = ev[ds[j]].k
\* batch sizes: B, except an epoch's last batch without drop_last
X_BatchSize(c, ev, l) ==
  Is(ev, l, "b") => /\ Len(ev[l].b) <= c.B
                    /\ c.drop => Len(ev[l].b) = c.B
\* the stream continues over epoch boundaries: it ends only when a stop argument says so ...
X_Seamless(c, ev, l) == Is(ev, l, "stop") => Bounded(c)
\* ... not before the budget is reached (epochs=E: E complete epochs) ...
X_StopNotEarly(c, ev, l) ==
  (Is(ev, l, "stop") /\ Bounded(c)) => Reached(c, EpochsDone(ev, l), Cnt(ev, l, "b"), SumB(ev, l - 1))
\* ... and not after the end of the epoch in which it is reached (Dev_EpochGranularity: up to there is accepted)
X_StopNotLate(c, ev, l) ==
  Bounded(c) => /\ Is(ev, l, "it") => Cnt(ev, l, "it") + 1 <= EpochsNeeded(c)
                /\ Is(ev, l, "b") => Cnt(ev, l, "b") + 1 <= MaxBatches(c)
                /\ Is(ev, l, "se") => Cnt(ev, l, "se") + 1 <= EpochsNeeded(c)
\* every cut is delivered, in order, before the next epoch is started (nothing is withheld or skipped)
X_EveryCutDelivered(c, ev, l) ==
  /\ Is(ev, l, "it") => Cnt(ev, l, "b") = Cnt(ev, l, "it") * UPE(c)
  /\ (Is(ev, l, "stop") /\ c.kind = "e") => Cnt(ev, l, "b") = c.budget * UPE(c)
\* with a stop argument the stream terminates (the harness gives up far beyond MaxBatches / EpochsNeeded)
X_Terminates(c, ev, l) == ~(ev[l].a \in {"overrun", "diverge"})
\* nothing but StopIteration leaves the generator
X_NoError(c, ev, l) == ~Is(ev, l, "exc")
\* the consumer of an unbounded stream is never turned away
X_CutOnlyUnbounded(c, ev, l) == Is(ev, l, "cut") => c.kind = "n" /\ Cnt(ev, l, "b") = c.budget

ClauseNames == {"X_SetEpochOrder", "X_SetEpochOnce", "X_SetEpochBeforeDraw", "X_IterOrder", "X_BatchesExact",
                "X_BatchIsDrawn", "X_NoMix", "X_BatchSize", "X_Seamless", "X_StopNotEarly", "X_StopNotLate",
                "X_Terminates", "X_NoError", "X_CutOnlyUnbounded", "X_EveryCutDelivered"}
Failed(c, ev, l) ==
  (IF X_SetEpochOrder(c, ev, l) THEN {} ELSE {"X_SetEpochOrder"})
  \cup (IF X_SetEpochOnce(c, ev, l) THEN {} ELSE {"X_SetEpochOnce"})
  \cup (IF X_SetEpochBeforeDraw(c, ev, l) THEN {} ELSE {"X_SetEpochBeforeDraw"})
  \cup (IF X_IterOrder(c, ev, l) THEN {} ELSE {"X_IterOrder"})
  \cup (IF X_BatchesExact(c, ev, l) THEN {} ELSE {"X_BatchesExact"})
  \cup (IF X_BatchIsDrawn(c, ev, l) THEN {} ELSE {"X_BatchIsDrawn"})
  \cup (IF X_NoMix(c, ev, l) THEN {} ELSE {"X_NoMix"})
  \cup (IF X_BatchSize(c, ev, l) THEN {} ELSE {"X_BatchSize"})
  \cup (IF X_Seamless(c, ev, l) THEN {} ELSE {"X_Seamless"})
  \cup (IF X_StopNotEarly(c, ev, l) THEN {} ELSE {"X_StopNotEarly"})
  \cup (IF X_StopNotLate(c, ev, l) THEN {} ELSE {"X_StopNotLate"})
  \cup (IF X_Terminates(c, ev, l) THEN {} ELSE {"X_Terminates"})
  \cup (IF X_NoError(c, ev, l) THEN {} ELSE {"X_NoError"})
  \cup (IF X_CutOnlyUnbounded(c, ev, l) THEN {} ELSE {"X_CutOnlyUnbounded"})
  \cup (IF X_EveryCutDelivered(c, ev, l) THEN {} ELSE {"X_EveryCutDelivered"})
\* a complete observation ends with the generator returning (bounded) or the consumer leaving (unbounded)
X_Complete(c, ev) == ev # <<>> /\ ev[Len(ev)].a = (IF Bounded(c) THEN "stop" ELSE "cut")
\* the named deviation shows on a complete bounded stream: more batches than an exact stop would deliver
Dev_EpochGranularity(c, ev) == Bounded(c) /\ Cnt(ev, Len(ev) + 1, "b") > MinBatches(c)

(* ============================ DESCRIPTIVE PART =========================== *)
K == epochs + 1                                   \* ordinal of the sampler iteration of the current epoch

\* epochs = 0; updates = 0; samples = 0
Begin ==
  /\ pc = "begin"
  /\ epochs' = 0 /\ updates' = 0 /\ samples' = 0
  /\ pc' = "top" /\ emit' = NoEv
  /\ UNCHANGED <<cfg, pos, open>>

\* top of `while True`: if hasattr(self.sampler, "set_epoch"): self.sampler.set_epoch(epochs)
SetEpoch ==
  /\ pc = (IF Variant = "se_late" THEN "late" ELSE "top")
  /\ emit' = IF cfg.se THEN Ev("se", (IF Variant = "se_stale" THEN updates ELSE epochs), -1, <<>>) ELSE NoEv
  /\ pc' = (IF Variant = "se_late" THEN "draw" ELSE IF Variant = "se_twice" /\ cfg.se THEN "top2" ELSE "iter")
  /\ UNCHANGED <<cfg, epochs, updates, samples, pos, open>>
SetEpochAgain ==                                  \* only in the "se_twice" fault
  /\ pc = "top2"
  /\ emit' = Ev("se", epochs, -1, <<>>)
  /\ pc' = "iter"
  /\ UNCHANGED <<cfg, epochs, updates, samples, pos, open>>

\* BatchSampler.__iter__: sampler_iter = iter(self.sampler)
StartIter ==
  /\ pc = (IF Variant = "se_late" THEN "top" ELSE "iter")
  /\ pos' = 0
  /\ open' = (IF Variant = "mix" THEN open ELSE <<>>)
  /\ emit' = Ev("it", -1, K, <<>>)
  /\ pc' = (IF Variant = "se_late" THEN "late" ELSE "draw")
  /\ UNCHANGED <<cfg, epochs, updates, samples>>

\* one next(sampler_iter) inside zip over B references to one iterator / islice(it, B) that yields an index
EmitIndex ==
  /\ pc = "draw" /\ pos < cfg.N
  /\ pos' = pos + 1
  /\ open' = Append(open, Idx(cfg, K, pos + 1))
  /\ emit' = Ev("d", Idx(cfg, K, pos + 1), K, <<>>)
  /\ pc' = (IF Len(open') = cfg.B THEN "close" ELSE "draw")
  /\ UNCHANGED <<cfg, epochs, updates, samples>>

\* next(sampler_iter) raises StopIteration: zip discards the open tuple (drop_last); islice hands out what it has,
\* and an empty list ends `while batch`
Exhaust ==
  /\ pc = "draw" /\ pos = cfg.N
  /\ emit' = Ev("x", -1, K, <<>>)
  /\ IF (~cfg.drop \/ Variant = "nodrop") /\ open # <<>> /\ Variant # "mix"
       THEN pc' = "close" /\ open' = open
       ELSE pc' = "end" /\ open' = (IF Variant = "mix" THEN open ELSE <<>>)
  /\ UNCHANGED <<cfg, epochs, updates, samples, pos>>

\* body of `for batch in super().__iter__()`: updates += 1; samples += len(batch); yield batch
CloseBatch ==
  /\ pc = "close"
  /\ updates' = updates + 1
  /\ samples' = samples + Len(open)
  /\ emit' = Ev("b", -1, -1, open)
  /\ open' = <<>>
  /\ pc' = "yielded"
  /\ UNCHANGED <<cfg, epochs, pos>>

\* the consumer asks for the next batch: the generator resumes after `yield`
Resume ==
  /\ pc = "yielded"
  /\ ~(cfg.kind = "n" /\ updates >= cfg.budget)
  /\ emit' = NoEv
  /\ pc' = (IF Variant = "exact" /\ cfg.kind \in {"u", "s"} /\ Reached(cfg, epochs, updates, samples)
              THEN "stopping" ELSE "draw")
  /\ UNCHANGED <<cfg, epochs, updates, samples, pos, open>>
\* the consumer of an unbounded stream has what it wanted and drops the generator
Abandon ==
  /\ pc = "yielded"
  /\ cfg.kind = "n" /\ updates >= cfg.budget
  /\ emit' = Ev("cut", -1, -1, <<>>)
  /\ pc' = "done"
  /\ UNCHANGED <<cfg, epochs, updates, samples, pos, open>>

\* after the for loop: epochs += 1; the stop test
StopTest(ep) ==
  CASE Variant = "eq"    -> \/ cfg.kind = "e" /\ ep = cfg.budget
                            \/ cfg.kind = "u" /\ updates = cfg.budget
                            \/ cfg.kind = "s" /\ samples >= cfg.budget
    [] Variant = "early" -> Reached(cfg, ep + 1, updates + 1, samples + 1)
    [] Variant = "late"  -> Reached(cfg, ep - 1, updates - UPE(cfg), samples - SPE(cfg))
    [] OTHER             -> \/ cfg.kind = "e" /\ ep = cfg.budget
                            \/ cfg.kind = "u" /\ updates >= cfg.budget
                            \/ cfg.kind = "s" /\ samples >= cfg.budget
EndEpoch ==
  /\ pc = "end"
  /\ epochs' = epochs + 1
  /\ IF Variant = "v0" /\ Bounded(cfg)
       THEN emit' = Ev("exc", -1, -1, <<>>) /\ pc' = "done"          \* NameError: name 'epoch' is not defined
       ELSE emit' = NoEv /\ pc' = (IF Bounded(cfg) /\ StopTest(epochs') THEN "stopping" ELSE "top")
  /\ UNCHANGED <<cfg, updates, samples, pos, open>>

\* `break`: the generator function returns, the consumer sees StopIteration
Stop ==
  /\ pc = "stopping"
  /\ emit' = Ev("stop", -1, -1, <<>>)
  /\ pc' = "done"
  /\ UNCHANGED <<cfg, epochs, updates, samples, pos, open>>

Next == Begin \/ SetEpoch \/ SetEpochAgain \/ StartIter \/ EmitIndex \/ Exhaust \/ CloseBatch \/ Resume \/ Abandon
          \/ EndEpoch \/ Stop

InitWith(c) ==
  /\ cfg = c
  /\ epochs = 0 /\ updates = 0 /\ samples = 0
  /\ pos = 0 /\ open = <<>>
  /\ pc = "begin"
  /\ emit = NoEv
=============================================================================
