----------------------------- MODULE CollateProps -----------------------------
(***************************************************************************)
(* Model-checking harness for Collate.tla: every order of length           *)
(* 1..MaxLen over {None, before, after} x return_ctx x number of items     *)
(* 1..MaxK x entry point is chosen (Init fixes return_ctx / K / entry, a   *)
(* first step `Configure' picks the order), the machine of _call_impl runs *)
(* and the normative clauses are evaluated on the observation it leaves.   *)
(* Proto = "v1" (repaired tree) must satisfy everything; Proto = "v0"      *)
(* (tree as found) is the negative control and must violate.               *)
(***************************************************************************)
EXTENDS Collate

CONSTANTS MaxLen, MaxK

VARIABLE configured
pvars == <<vars, configured>>

RECURSIVE OrdersOf(_)
OrdersOf(n) == IF n = 0 THEN {<<>>} ELSE {Append(s, m) : s \in OrdersOf(n - 1), m \in ModeSet}
Orders == UNION {OrdersOf(n) : n \in 1..MaxLen}

PInit ==
  /\ \E rc \in BOOLEAN, k \in 1..MaxK, e \in {"compose", "single", "wrapper"} :
        InitWith([order |-> <<"n">>, rc |-> rc, K |-> k, entry |-> e])
  /\ configured = FALSE
Configure ==
  /\ ~configured
  /\ configured' = TRUE
  /\ \E o \in Orders :
        /\ cfg.entry # "compose" => Len(o) = 1       \* a single collator / a wrapped single collator
        /\ cfg' = [cfg EXCEPT !.order = o]
  /\ UNCHANGED <<pc, i, batch, ctx, cd, rm, obs, ndc, dcAt, dcBad>>
Keep == UNCHANGED configured
PCheckNone == configured /\ CheckNone /\ Keep
PBefore == configured /\ Before /\ Keep
PSplit == configured /\ Split /\ Keep
PCall == configured /\ Call /\ Keep
PAfter == configured /\ After /\ Keep
PReturn == configured /\ Return /\ Keep
PWrap == configured /\ Wrap /\ Keep
PNext == Configure \/ PCheckNone \/ PBefore \/ PSplit \/ PCall \/ PAfter \/ PReturn \/ PWrap
PSpec == PInit /\ [][PNext]_pvars /\ WF_pvars(PNext)

Done == pc = "done"

(* ---- facts about orders (constant level, evaluated once per state; cheap) ---- *)
\* the position the members ask for is unique, and the "words" definition equals the regular expression
L_PointUnique == \A o \in Orders : Cardinality(Points(o)) <= 1
L_Regex == \A o \in Orders : /\ Acceptable(o) <=> AcceptableRegex(o)
                             /\ (Asks(o) /\ Acceptable(o)) => Point(o) = PointRegex(o)
\* an order without a position cannot be served: whatever layouts the members are shown, some clause fails.
\* (so a refusal is the only admissible answer for it)
LayoutSeqs(n) == [1..n -> {"smp", "fld"}]
L_UnacceptableUnservable ==
  \A o \in Orders : ~Acceptable(o) =>
     \A s \in LayoutSeqs(Len(o)), f \in {"smp", "fld"} :
        LET ob == [out |-> "ret", seen |-> s, final |-> f, pair |-> FALSE, rctx |-> "none"]
            c == [order |-> o, rc |-> FALSE, K |-> 1, entry |-> "compose"]
        IN ~(C18_MemberLayout(c, ob) /\ C18_OnceAtPoint(c, ob))
Lemmas == L_PointUnique /\ L_Regex /\ L_UnacceptableUnservable
ASSUME Lemmas

(* ---- invariants: the normative clauses on the machine's observation ---- *)
TypeOK ==
  /\ pc \in {"top", "before", "split", "call", "after", "done", "wrap"}
  /\ batch \in {"smp", "sctx", "fld", "other", "pair"}
  /\ ctx \in {"empty", "batched", "bad"}
  /\ obs.out \in {"none", "ret", "refuse", "escape"}
  /\ i \in 1..(N + 1)
M_NoEscape == Done => C18_NoEscape(cfg, obs)
\* the repaired design has no named deviation left: every acceptable order is served
M_NoRefusal == Done => (Acceptable(cfg.order) => obs.out # "refuse")
M_NoRefusalDesign == Done => C18_NoRefusal(cfg, obs)
M_RefusesUnacceptable == Done => (~Acceptable(cfg.order) => obs.out = "refuse")
M_AllMembers == Done => C18_AllMembers(cfg, obs)
M_MemberLayout == Done => C18_MemberLayout(cfg, obs)
M_OnceAtPoint == Done => C18_OnceAtPoint(cfg, obs)
M_FinalLayout == Done => C18_FinalLayout(cfg, obs)
M_CtxIff == Done => C18_CtxIff(cfg, obs)
M_CtxMerged == Done => C18_CtxMerged(cfg, obs)
\* the same, counted inside the model: default_collate(batch) runs exactly once iff some member asks, after exactly
\* Point members, and only ever on a list of samples; the ctx is split off at most once
M_CollateCount ==
  (Done /\ obs.out = "ret") =>
     /\ ndc = IF Asks(cfg.order) THEN 1 ELSE 0
     /\ Asks(cfg.order) => dcAt = Point(cfg.order)
M_AtMostOnce == ndc <= 1
M_OnlyOnSamples == ~dcBad
\* members before the collation point never see the ctx inside the samples when return_ctx is configured
M_CtxSplitBeforeMembers == \A j \in 1..Len(obs.seen) : obs.seen[j] # "sctx"
\* every refusal is one of the orders without a position
M_RefusalJustified == (Done /\ obs.out = "refuse") => ~Acceptable(cfg.order)
Terminates == <>Done
=============================================================================
