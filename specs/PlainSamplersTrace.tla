--------------------------- MODULE PlainSamplersTrace ---------------------------
(***************************************************************************)
(* Trace validation for PlainSamplers.tla.  TRACE_FILE holds               *)
(*   {"traces": [{"id": i, "cfg": {kind, n, num, rep, repl, W, r},         *)
(*                "ev": [{a: "pass", len, eff, out, out2, gen} |           *)
(*                       {a: "exc", ...same fields, empty...}]}]}          *)
(* recorded from the REAL kappadata SequentialSampler / RandomSampler /    *)
(* a minimal subclass of SamplerBase (harness/drivers/infinite.py): every  *)
(* event is one complete pass observed at the public API, next to the same *)
(* pass of an identically seeded twin.  One step consumes one event and    *)
(* evaluates the NORMATIVE operators of PlainSamplers.tla on the observed  *)
(* values; the generator outcome is not observable, so the descriptive     *)
(* machine is not replayed (PlainSamplersProps checks it for every         *)
(* outcome).                                                               *)
(***************************************************************************)
EXTENDS PlainSamplers, Json, IOUtils, TLCExt

VARIABLES tid, l, oFail
tvars == <<pvars0, tid, l, oFail>>

Traces == JsonDeserialize(IOEnv.TRACE_FILE).traces
ASSUME TLCSet(1, {}) /\ TLCSet(2, {})

TEv(i) == Traces[tid].ev[i]
NEv == Len(Traces[tid].ev)
C == Traces[tid].cfg

TInit ==
  /\ tid \in 1..Len(Traces)
  /\ l = 1
  /\ oFail = {}
  /\ PSInitWith([kind |-> "none"])

ObsPass ==
  /\ l <= NEv /\ TEv(l).a = "pass"
  /\ oFail' = PSFailed(C, TEv(l))
  /\ l' = l + 1
  /\ UNCHANGED <<pvars0, tid>>
ObsExc ==
  /\ l <= NEv /\ TEv(l).a = "exc"
  /\ oFail' = {"PS_NoError"}
  /\ l' = l + 1
  /\ UNCHANGED <<pvars0, tid>>
TNext == ObsPass \/ ObsExc
TSpec == TInit /\ [][TNext]_tvars

Collect ==
  IF oFail # {} THEN TLCSet(2, TLCGet(2) \cup {<<Traces[tid].id, l - 1, oFail>>})
  ELSE IF l = NEv + 1 THEN TLCSet(1, TLCGet(1) \cup {Traces[tid].id})
  ELSE TRUE
Constraint == Collect /\ oFail = {}
Report == PrintT(<<"ACCEPTED", TLCGet(1)>>) /\ PrintT(<<"REJECTED", TLCGet(2)>>)
=============================================================================
