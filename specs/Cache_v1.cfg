SPECIFICATION Spec
CONSTANTS
  Procs = {p1, p2}
  Idx = {0, 1}
  MaxAcc = 2
  MaxClears = 2
  Proto = "v1"
INVARIANT Transparent
INVARIANT NoError
INVARIANT CacheHoldsBase
INVARIANT LoadBound
CHECK_DEADLOCK FALSE
