---------------------------- MODULE SelectionAlg ----------------------------
(***************************************************************************)
(* DESCRIPTIVE part of C03: how the constructors of                        *)
(* kappadata/wrappers/dataset_wrappers/*.py compute `indices'.  One action *)
(* per loop iteration / decision of the code; vectorised numpy / torch     *)
(* expressions (np.arange, np.isin mask, np.tile) are one action each and  *)
(* are given as closed-form operators (D...) so that the complementary-    *)
(* range clause can be stated over them.                                   *)
(*                                                                         *)
(* Proto = "v0": the tree as found                                         *)
(*    - `x or default' treats an explicit 0 / 0.0 bound like None          *)
(*      (percent_filter_wrapper, subset_wrapper, classwise_subset_wrapper) *)
(*    - OversamplingWrapper(mode="exact") enters `while remaining > 0'     *)
(*      for a class without samples                                        *)
(*    - IntraClassShuffleWrapper(seed=None) uses the class GlobalRng       *)
(* Proto = "v1": the repaired tree (reports/selection-*.patch).            *)
(* v0 is kept as the negative control of the model-checking harness: TLC   *)
(* must find RangeBounds / ClasswiseAmount / Terminates / Constructs       *)
(* violated for it.                                                        *)
(***************************************************************************)
EXTENDS Selection

CONSTANT Proto

VARIABLES ds,      \* dataset + kind (fixed after Configure)
          e,       \* constructor arguments (fixed after Configure)
          pc,      \* control location
          ci,      \* class loop variable `i'
          rem,     \* `remaining_indices' / repetitions left / effective end index
          k,       \* position loop variable / effective start index
          out,     \* `indices' built so far
          perms,   \* cls_to_perm (IntraClassShuffleWrapper)
          cnt,     \* idx_in_cls (IntraClassShuffleWrapper)
          rngsrc   \* which generator a random draw came from: "none" | "seeded" | "global"

vars == <<ds, e, pc, ci, rem, k, out, perms, cnt, rngsrc>>

(* ------------------------------ python idioms -------------------------- *)
\* `x or d' on an int-or-None / float-or-None argument
OrI(x, d) == IF x = NoneI \/ (Proto = "v0" /\ x = 0) THEN d ELSE x
OrP(b, d) == IF ~IsSet(b) \/ (Proto = "v0" /\ b[2] = 0) THEN d ELSE Frac(b)
Zero == <<0, 1>>
One == <<1, 1>>
\* get_class_counts: a dataset with getdim_class() = 1 is counted as two classes
CC(d) == IF d.C = 1 THEN 2 ELSE d.C
CountOf(d, c) == IF c \in Classes(d) THEN Cnt(d, c) ELSE 0
MaxCount(d) == MaxCnt(d)
RECURSIVE Tile(_, _)
Tile(s, r) == IF r <= 0 THEN <<>> ELSE s \o Tile(s, r - 1)
Perms(s) == {[i \in 1..Len(s) |-> s[f[i]]] : f \in Permutations(1..Len(s))}
Src(a) == IF a.seed = NoneI THEN "global" ELSE "seeded"

(* ---------------- closed forms of the one-expression wrappers ---------- *)
DFilter(d, a) == SelectSeq(Ident(d.n), LAMBDA j : Allowed(a, ClassOf(d, j)))     \* all_indices[np.isin(...)]
DPercent(d, a) ==
  LET fp == OrP(a.p1, Zero)
      tp == OrP(a.p2, One)
      fi == IF a.f1 THEN PCeil(fp, d.n) ELSE PFloor(fp, d.n)
      ti == IF a.f2 THEN PCeil(tp, d.n) ELSE PFloor(tp, d.n)
  IN Span(fi, ti)                                                                 \* np.arange(from_index, to_index)
DSubsetIdx(d, a) ==
  LET en == Min(OrI(a.i2, d.n), d.n)
      st == OrI(a.i1, 0)
  IN Span(st, en)
DSubsetPct(d, a) == Span(PFloor(OrP(a.p1, Zero), d.n), PFloor(OrP(a.p2, One), d.n))
DSubsetList(d, a) == [i \in DOMAIN a.cs |-> IF a.cs[i] < 0 THEN a.cs[i] + d.n ELSE a.cs[i]]
\* one iteration of the class loop of ClasswiseSubsetWrapper
CwIdxChunk(d, st, en, c) ==
  IF st >= Cnt(d, c) THEN <<>> ELSE SubSeq(Members(d, c), st + 1, Min(en, Cnt(d, c)))
CwPctChunk(d, a, c) ==
  SubSeq(Members(d, c), PFloor(OrP(a.p1, Zero), Cnt(d, c)) + 1, PFloor(OrP(a.p2, One), Cnt(d, c)))
CwStart(d, a) == OrI(a.i1, 0)
CwEnd(d, a) == Min(OrI(a.i2, d.n), d.n)
DClasswise(d, a) ==
  ConcatAll([c1 \in 1..d.C |->
               IF d.kind = "classwise_idx" THEN CwIdxChunk(d, CwStart(d, a), CwEnd(d, a), c1 - 1)
               ELSE CwPctChunk(d, a, c1 - 1)])
DRange(d, a) ==
  CASE d.kind = "percent" -> DPercent(d, a)
    [] d.kind = "subset_idx" -> DSubsetIdx(d, a)
    [] d.kind = "subset_pct" -> DSubsetPct(d, a)
    [] d.kind \in ClasswiseKinds -> DClasswise(d, a)

(* --------------------------------- actions ----------------------------- *)
Done(o) == out' = o /\ pc' = "done"

FilterStep ==
  /\ pc = "start" /\ ds.kind = "filter"
  /\ Done(DFilter(ds, e))
  /\ UNCHANGED <<ds, e, ci, rem, k, perms, cnt, rngsrc>>
RangeStep ==
  /\ pc = "start" /\ ds.kind \in RangeKinds
  /\ Done(DRange(ds, e))
  /\ UNCHANGED <<ds, e, ci, rem, k, perms, cnt, rngsrc>>
ListStep ==
  /\ pc = "start" /\ ds.kind = "subset_list"
  /\ Done(DSubsetList(ds, e))
  /\ UNCHANGED <<ds, e, ci, rem, k, perms, cnt, rngsrc>>
\* rng.shuffle(np.arange(n))
ShuffleStep ==
  /\ pc = "start" /\ ds.kind = "shuffle"
  /\ \E p \in Perms(Ident(ds.n)) : Done(p)
  /\ rngsrc' = Src(e)
  /\ UNCHANGED <<ds, e, ci, rem, k, perms, cnt>>
\* for i in range(num_classes): indices += (classes == i).nonzero()
SortIter ==
  /\ pc = "start" /\ ds.kind = "sort"
  /\ IF ci >= ds.C THEN pc' = "done" /\ UNCHANGED <<ci, out>>
     ELSE out' = out \o Members(ds, ci) /\ ci' = ci + 1 /\ UNCHANGED pc
  /\ UNCHANGED <<ds, e, rem, k, perms, cnt, rngsrc>>
\* RepeatWrapper: repetitions = ceil(min_size / len); np.tile
RepeatStart ==
  /\ pc = "start" /\ ds.kind = "repeat"
  /\ rem' = IF e.mode = "min" THEN (e.i1 + ds.n - 1) \div ds.n ELSE e.i1
  /\ pc' = "tile"
  /\ UNCHANGED <<ds, e, ci, k, out, perms, cnt, rngsrc>>
RepeatTile ==
  /\ pc = "tile"
  /\ IF rem > 0 THEN out' = out \o Ident(ds.n) /\ rem' = rem - 1 /\ UNCHANGED pc
     ELSE pc' = "done" /\ UNCHANGED <<out, rem>>
  /\ UNCHANGED <<ds, e, ci, k, perms, cnt, rngsrc>>
\* OversamplingWrapper, mode multiply
MulStart ==
  /\ pc = "start" /\ ds.kind = "oversample" /\ e.mode = "multiply"
  /\ out' = Ident(ds.n) /\ pc' = "mul"
  /\ UNCHANGED <<ds, e, ci, rem, k, perms, cnt, rngsrc>>
MulIter ==
  /\ pc = "mul"
  /\ IF ci >= CC(ds) THEN pc' = "done" /\ UNCHANGED <<ci, out>>
     ELSE /\ ci' = ci + 1 /\ UNCHANGED pc
          /\ IF CountOf(ds, ci) = 0 THEN UNCHANGED out                       \* `continue'
             ELSE LET factor == (MaxCount(ds) \div CountOf(ds, ci)) - 1 IN
                    IF factor > 0 THEN out' = out \o Tile(Members(ds, ci), factor) ELSE UNCHANGED out
  /\ UNCHANGED <<ds, e, rem, k, perms, cnt, rngsrc>>
\* OversamplingWrapper, mode exact: outer `for i', inner `while remaining_indices > 0'
ExStart ==
  /\ pc = "start" /\ ds.kind = "oversample" /\ e.mode = "exact"
  /\ pc' = "ex_class"
  /\ UNCHANGED <<ds, e, ci, rem, k, out, perms, cnt, rngsrc>>
ExClass ==
  /\ pc = "ex_class"
  /\ IF ci >= CC(ds) THEN pc' = "done" /\ UNCHANGED <<ci, rem>>
     ELSE IF Proto = "v1" /\ CountOf(ds, ci) = 0 THEN ci' = ci + 1 /\ UNCHANGED <<pc, rem>>   \* repaired: skip
     ELSE rem' = MaxCount(ds) /\ pc' = "ex_while" /\ UNCHANGED ci
  /\ UNCHANGED <<ds, e, k, out, perms, cnt, rngsrc>>
ExWhile ==
  /\ pc = "ex_while"
  /\ IF rem > 0
       THEN LET take == Min(CountOf(ds, ci), rem) IN        \* perm = arange(len(indices_for_cur_class))[:remaining]
              /\ out' = out \o SubSeq(Members(ds, ci), 1, take)
              /\ rem' = rem - take
              /\ UNCHANGED <<pc, ci>>
       ELSE pc' = "ex_class" /\ ci' = ci + 1 /\ UNCHANGED <<out, rem>>
  /\ UNCHANGED <<ds, e, k, perms, cnt, rngsrc>>
\* FewshotWrapper: num_classes = max(classes) + 1; per class rng.permutation(len)[:num_shots]
FewClasses(d) == (CHOOSE m \in ToSet(d.cls) : \A x \in ToSet(d.cls) : x <= m) + 1
FewIter ==
  /\ pc = "start" /\ ds.kind = "fewshot"
  /\ IF ci >= FewClasses(ds) THEN pc' = "done" /\ UNCHANGED <<ci, out, rngsrc>>
     ELSE /\ \E p \in Perms(Members(ds, ci)) : out' = out \o SubSeq(p, 1, Min(e.i1, Len(p)))
          /\ ci' = ci + 1 /\ rngsrc' = Src(e) /\ UNCHANGED pc
  /\ UNCHANGED <<ds, e, rem, k, perms, cnt>>
\* IntraClassShuffleWrapper
IntraStart ==
  /\ pc = "start" /\ ds.kind = "intra"
  /\ pc' = IF Proto = "v0" /\ e.seed = NoneI THEN "error" ELSE "intra_draw"   \* GlobalRng.permutation: AttributeError
  /\ cnt' = [c1 \in 1..ds.C |-> 0]
  /\ UNCHANGED <<ds, e, ci, rem, k, out, perms, rngsrc>>
IntraDraw ==
  /\ pc = "intra_draw"
  /\ IF ci >= ds.C THEN pc' = "intra_compose" /\ UNCHANGED <<ci, perms, rngsrc>>
     ELSE /\ \E p \in Perms(Members(ds, ci)) : perms' = Append(perms, p)
          /\ ci' = ci + 1 /\ rngsrc' = Src(e) /\ UNCHANGED pc
  /\ UNCHANGED <<ds, e, rem, k, out, cnt>>
IntraCompose ==
  /\ pc = "intra_compose"
  /\ IF k >= ds.n THEN pc' = "done" /\ UNCHANGED <<k, out, cnt>>
     ELSE LET c == ds.cls[k + 1] IN
            /\ out' = Append(out, perms[c + 1][cnt[c + 1] + 1])
            /\ cnt' = [cnt EXCEPT ![c + 1] = @ + 1]
            /\ k' = k + 1 /\ UNCHANGED pc
  /\ UNCHANGED <<ds, e, ci, rem, perms, rngsrc>>
\* ClasswiseSubsetWrapper
CwIdxStart ==
  /\ pc = "start" /\ ds.kind = "classwise_idx"
  /\ k' = CwStart(ds, e) /\ rem' = CwEnd(ds, e)
  /\ pc' = "cw_idx"
  /\ UNCHANGED <<ds, e, ci, out, perms, cnt, rngsrc>>
CwIdxIter ==
  /\ pc = "cw_idx"
  /\ IF ci >= ds.C THEN pc' = "done" /\ UNCHANGED <<ci, out>>
     ELSE IF e.f1 /\ Cnt(ds, ci) < rem THEN pc' = "refuse" /\ UNCHANGED <<ci, out>>   \* assert counts[i] >= end_index
     ELSE out' = out \o CwIdxChunk(ds, k, rem, ci) /\ ci' = ci + 1 /\ UNCHANGED pc
  /\ UNCHANGED <<ds, e, rem, k, perms, cnt, rngsrc>>
CwPctIter ==
  /\ pc = "start" /\ ds.kind = "classwise_pct"
  /\ IF ci >= ds.C THEN pc' = "done" /\ UNCHANGED <<ci, out>>
     ELSE out' = out \o CwPctChunk(ds, e, ci) /\ ci' = ci + 1 /\ UNCHANGED pc
  /\ UNCHANGED <<ds, e, rem, k, perms, cnt, rngsrc>>

Next ==
  \/ FilterStep \/ RangeStep \/ ListStep \/ ShuffleStep \/ SortIter \/ RepeatStart \/ RepeatTile
  \/ MulStart \/ MulIter \/ ExStart \/ ExClass \/ ExWhile \/ FewIter
  \/ IntraStart \/ IntraDraw \/ IntraCompose \/ CwIdxStart \/ CwIdxIter \/ CwPctIter

InitWith(d, a) ==
  /\ ds = d /\ e = a
  /\ pc = "start" /\ ci = 0 /\ rem = 0 /\ k = 0
  /\ out = <<>> /\ perms = <<>> /\ cnt = <<>> /\ rngsrc = "none"
=============================================================================
