--------------------------- MODULE InfiniteBatchTrace ---------------------------
(***************************************************************************)
(* Trace validation for InfiniteBatch.tla (X01).  TRACE_FILE holds         *)
(*   {"traces": [{"id": n, "mode": "stream" | "refine" | "ctor",           *)
(*                "cfg": {N, B, drop, kind, budget, se, miter, bad},       *)
(*                "ev": [{a, v, k, b}, ...],                               *)
(*                "ib": [...], "il": [...], "ile": [...],                  *)
(*                "seib": [...], "seil": [...], "seile": [...]}]}          *)
(* recorded from the REAL classes (harness/drivers/infinite.py).           *)
(*                                                                         *)
(* mode "stream": `ev' is the totally ordered log of one run of the real   *)
(*   InfiniteBatchSampler over a probe around a real sampler: set_epoch    *)
(*   calls, iter() calls, every index drawn, every StopIteration of the    *)
(*   sampler, every batch handed to the consumer, the end of the stream.   *)
(*   cfg.miter is the iteration order of an independent twin sampler.      *)
(*   Obs  (ObsSpec, NORMATIVE, the verdict): one step per recorded event,  *)
(*        evaluating every clause X_... of InfiniteBatch.tla at that       *)
(*        position of the OBSERVED sequence.                               *)
(*   Desc (DescSpec, conformance, a NOTE): the recorded log must be the    *)
(*        behaviour of the descriptive machine, event by event.            *)
(* mode "refine": the batch streams / announced epochs of the real         *)
(*   InfiniteBatchSampler (ib), of the real InterleavedSampler without     *)
(*   side configs and with the same stop argument (il), and with           *)
(*   epochs = EpochsNeeded (ile), over identically built samplers.         *)
(* mode "loader": the batches a real torch DataLoader (0 / 2 workers) loads  *)
(*   when driven by the real InfiniteBatchSampler (ib) and the epochs the   *)
(*   sampler was told (seib).                                              *)
(* mode "ctor": the constructor's answer to cfg.bad # "" (invalid stop     *)
(*   arguments) or to valid ones: a refusal is accepted iff MayRefuse.     *)
(***************************************************************************)
EXTENDS InfiniteBatch, SequencesExt, Json, IOUtils, TLCExt

VARIABLES tid, l, oFail, dbad
tvars == <<vars, tid, l, oFail, dbad>>

Traces == JsonDeserialize(IOEnv.TRACE_FILE).traces
ASSUME TLCSet(1, {}) /\ TLCSet(2, {}) /\ TLCSet(3, {})

T == Traces[tid]
C == Traces[tid].cfg
Evs == Traces[tid].ev
NEv == Len(Traces[tid].ev)

TInit ==
  /\ tid \in 1..Len(Traces)
  /\ l = 1
  /\ oFail = {}
  /\ dbad = FALSE
  /\ InitWith(Traces[tid].cfg)

(* ------------------------------- Obs ----------------------------------- *)
\* the constructor may refuse exactly the argument combinations its own assertions name
MayRefuse(c) == c.bad # ""

\* refinement towards InterleavedSampler on real streams
R_SameBatchesEpochs(t) == t.ib = t.ile                          \* IB(stop arg) == IL(epochs = EpochsNeeded)
R_SameAsInterleaved(t) == t.cfg.kind = "e" => t.ib = t.il       \* the statement of the refinement for epochs=E
R_PrefixOfSame(t) ==                                           \* IL(same stop arg) stops exactly, IB finishes the epoch
  /\ IsPrefix(t.il, t.ib)
  /\ Len(t.il) = MinBatches(t.cfg)
  /\ Len(t.ib) - Len(t.il) = Overshoot(t.cfg)
R_SameAnnounce(t) == t.seib = t.seil /\ t.seib = t.seile
R_Whole(t) == t.ib = RefBatches(t.cfg)
RefineFailed(t) ==
  (IF R_SameBatchesEpochs(t) THEN {} ELSE {"R_SameBatchesEpochs"})
  \cup (IF R_SameAsInterleaved(t) THEN {} ELSE {"R_SameAsInterleaved"})
  \cup (IF R_PrefixOfSame(t) THEN {} ELSE {"R_PrefixOfSame"})
  \cup (IF R_SameAnnounce(t) THEN {} ELSE {"R_SameAnnounce"})
  \cup (IF R_Whole(t) THEN {} ELSE {"R_Whole"})

ObsEvent ==
  /\ T.mode = "stream" /\ l <= NEv
  /\ oFail' = Failed(C, Evs, l)
              \cup (IF l = NEv /\ ~X_Complete(C, Evs) THEN {"X_Complete"} ELSE {})
  /\ l' = l + 1
  /\ UNCHANGED <<vars, tid, dbad>>
ObsRefine ==
  /\ T.mode = "refine" /\ l = 1
  /\ oFail' = (IF T.err # "" THEN {"X_NoError"} ELSE RefineFailed(T))
  /\ l' = NEv + 1
  /\ UNCHANGED <<vars, tid, dbad>>
ObsCtor ==
  /\ T.mode = "ctor" /\ l = 1
  /\ oFail' = (CASE Evs[1].a = "refuse" -> (IF MayRefuse(C) THEN {} ELSE {"X_RefusalOnlyInvalid"})
                 [] Evs[1].a = "exc" -> {"X_NoError"}
                 [] OTHER -> {})
  /\ l' = NEv + 1
  /\ UNCHANGED <<vars, tid, dbad>>
\* the purpose of the class: a real DataLoader (0 or 2 worker processes, prefetching across the epoch boundary) driven by
\* the batch sampler delivers exactly the batches of the closed form, in order; the sampler was told 0..K-1
L_Whole(t) == t.ib = RefBatches(t.cfg)
L_Announce(t) == (Bounded(t.cfg) /\ t.cfg.se) => t.seib = [i \in 1..EpochsNeeded(t.cfg) |-> i - 1]
ObsLoader ==
  /\ T.mode = "loader" /\ l = 1
  /\ oFail' = (IF T.err # "" THEN {"X_NoError"}
               ELSE (IF L_Whole(T) THEN {} ELSE {"L_Whole"}) \cup (IF L_Announce(T) THEN {} ELSE {"L_Announce"}))
  /\ l' = NEv + 1
  /\ UNCHANGED <<vars, tid, dbad>>
ObsNext == ObsEvent \/ ObsRefine \/ ObsCtor \/ ObsLoader
ObsSpec == TInit /\ [][ObsNext]_tvars

ObsCollect ==
  IF oFail # {} THEN TLCSet(2, TLCGet(2) \cup {<<T.id, l - 1, oFail>>})
  ELSE IF l = NEv + 1
         THEN /\ TLCSet(1, TLCGet(1) \cup {T.id})
              /\ (IF T.mode = "stream" /\ Dev_EpochGranularity(C, Evs) THEN TLCSet(3, TLCGet(3) \cup {T.id}) ELSE TRUE)
  ELSE TRUE
ObsConstraint == ObsCollect /\ oFail = {}
Report == /\ PrintT(<<"ACCEPTED", TLCGet(1)>>) /\ PrintT(<<"REJECTED", TLCGet(2)>>)
          /\ PrintT(<<"DEVIATION", TLCGet(3)>>)

(* ------------------------------- Desc ---------------------------------- *)
\* every emitting action of the machine consumes exactly one recorded event and must equal it
DescNext ==
  /\ T.mode = "stream"
  /\ ~dbad
  /\ Next
  /\ IF emit' = NoEv
       THEN l' = l /\ dbad' = FALSE
       ELSE IF l <= NEv /\ emit' = Evs[l]
              THEN l' = l + 1 /\ dbad' = FALSE
              ELSE l' = l /\ dbad' = TRUE
  /\ UNCHANGED <<tid, oFail>>
DescSpec == TInit /\ [][DescNext]_tvars
DescAccepted == T.mode # "stream" \/ (~dbad /\ pc = "done" /\ l = NEv + 1)
DescCollect ==
  IF DescAccepted THEN TLCSet(1, TLCGet(1) \cup {T.id})
  ELSE IF dbad THEN TLCSet(2, TLCGet(2) \cup {<<T.id, l - 1, {emit.a}>>})
  ELSE IF pc = "done" THEN TLCSet(2, TLCGet(2) \cup {<<T.id, l - 1, {"end"}>>})
  ELSE TRUE
=============================================================================
