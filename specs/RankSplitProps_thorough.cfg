SPECIFICATION PSpec
CONSTANTS
  MaxN = 5
  MaxW = 6
  MaxRep = 3
  ReplN = 3
  Mutant = "none"
INVARIANT C12_LenFormula
INVARIANT C12_EqualLength
INVARIANT C12_SplitEvenly
INVARIANT C12_SingleDraw
INVARIANT C12_OnDrawAlways
INVARIANT C12_RepeatRuns
INVARIANT C12_NoAssert
PROPERTY Terminates
CHECK_DEADLOCK FALSE
