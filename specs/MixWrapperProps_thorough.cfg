SPECIFICATION PSpec
CONSTANTS
  Variant = "v1"
  Grid <- GridThorough
  MaxCalls = 3
INVARIANT Inv_Convex
INVARIANT Inv_LabelMix
INVARIANT Inv_SamePartnerWeight
INVARIANT Inv_Simplex
INVARIANT Inv_Shape
INVARIANT Inv_ProbOne
INVARIANT Inv_SeedSameDraw
INVARIANT Inv_NoError
INVARIANT Inv_NoAssertFail
INVARIANT Inv_Loop
INVARIANT Inv_TrueDraw
CHECK_DEADLOCK FALSE
