------------------------------- MODULE IndexMaps -------------------------------
(***************************************************************************)
(* Stacked subsets, concats and wrappers as index maps (KDSubset,          *)
(* KDConcatDataset, KDWrapper family, ModeWrapper on top).                 *)
(*                                                                         *)
(* A dataset is a term of a pool (children have smaller pool positions):   *)
(*   [k |-> "root",   r, n]        root dataset r with n samples           *)
(*   [k |-> "subset", d, idxs]     KDSubset(pool[d], idxs)                 *)
(*   [k |-> "concat", ds, bal]     KDConcatDataset(<<pool[ds[1]], ...>>)   *)
(*   [k |-> "wrap",   d]           a KDWrapper around pool[d]              *)
(* (unused fields are present with neutral values so that the pool is a    *)
(*  homogeneous sequence).                                                 *)
(*                                                                         *)
(* Normative: Den(p) - the sequence of underlying samples <<root, i>>.     *)
(* Descriptive: Resolve(p, k) - how the code maps an index, layer by layer *)
(* (list indexing with Python negative indices, cumulative sizes +         *)
(* bisect_right, balanced round-robin arithmetic).                         *)
(***************************************************************************)
EXTENDS KDCommon, FiniteSets, TLC

VARIABLE pool
vars == <<pool>>

Root(r, n)      == [k |-> "root", r |-> r, n |-> n, d |-> 0, idxs |-> <<>>, ds |-> <<>>, bal |-> FALSE]
Subset(d, idxs) == [k |-> "subset", r |-> 0, n |-> 0, d |-> d, idxs |-> idxs, ds |-> <<>>, bal |-> FALSE]
Concat(ds, bal) == [k |-> "concat", r |-> 0, n |-> 0, d |-> 0, idxs |-> <<>>, ds |-> ds, bal |-> bal]
Wrap(d)         == [k |-> "wrap", r |-> 0, n |-> 0, d |-> d, idxs |-> <<>>, ds |-> <<>>, bal |-> FALSE]

(* ------------------------------ normative ------------------------------ *)
RECURSIVE Den(_, _)
RECURSIVE ConcatDen(_, _, _)
ConcatDen(P, ds, j) == IF j > Len(ds) THEN <<>> ELSE Den(P, ds[j]) \o ConcatDen(P, ds, j + 1)
Den(P, p) ==
  LET t == P[p] IN
  CASE t.k = "root"   -> [i \in 1..t.n |-> <<t.r, i - 1>>]
    [] t.k = "subset" -> LET c == Den(P, t.d) IN [j \in 1..Len(t.idxs) |-> c[Norm(Len(c), t.idxs[j]) + 1]]
    [] t.k = "concat" -> ConcatDen(P, t.ds, 1)
    [] t.k = "wrap"   -> Den(P, t.d)
LenOf(P, p) == Len(Den(P, p))
\* item k of the composed dataset (negative k counts from the end)
GetItem(P, p, k) == Den(P, p)[Norm(LenOf(P, p), k) + 1]
\* balanced concat sampling round-robins over the parts (k >= 0; len is refused)
BalancedItem(P, p, k) ==
  LET t == P[p] m == Len(t.ds) part == Den(P, t.ds[(k % m) + 1])
  IN part[((k \div m) % Len(part)) + 1]
\* a term is well formed over the pool built so far
WellFormed(P, t) ==
  CASE t.k = "root"   -> t.n >= 1
    [] t.k = "subset" -> t.d \in 1..Len(P) /\ \A j \in 1..Len(t.idxs) : InRange(LenOf(P, t.d), t.idxs[j])
    [] t.k = "concat" -> Len(t.ds) >= 1 /\ \A j \in 1..Len(t.ds) : t.ds[j] \in 1..Len(P)
    [] t.k = "wrap"   -> t.d \in 1..Len(P)

\* introspection resolves through the linear chain of layers (a concat continues into its first part)
RECURSIVE RootOf(_, _)
RootOf(P, p) == LET t == P[p] IN
  CASE t.k = "root" -> t.r
    [] t.k = "concat" -> RootOf(P, t.ds[1])
    [] OTHER -> RootOf(P, t.d)
RECURSIVE WrappersOf(_, _)
WrappersOf(P, p) == LET t == P[p] IN     \* pool positions of the wrapper layers, outermost first
  CASE t.k = "root" -> <<>>
    [] t.k = "concat" -> WrappersOf(P, t.ds[1])
    [] OTHER -> <<p>> \o WrappersOf(P, t.d)
RECURSIVE RootsOf(_, _)
RootsOf(P, p) == LET t == P[p] IN        \* every root below p (dispose must reach all of them)
  CASE t.k = "root" -> {t.r}
    [] t.k = "concat" -> UNION {RootsOf(P, t.ds[j]) : j \in 1..Len(t.ds)}
    [] OTHER -> RootsOf(P, t.d)

(* ----------------------------- descriptive ----------------------------- *)
\* Python list indexing: lst[k] for -len <= k < len
PyIndex(s, k) == s[Norm(Len(s), k) + 1]
RECURSIVE DLen(_, _)
RECURSIVE CumSizes(_, _, _, _)
CumSizes(P, ds, j, acc) ==   \* ConcatDataset.cumsum
  IF j > Len(ds) THEN <<>> ELSE <<acc + DLen(P, ds[j])>> \o CumSizes(P, ds, j + 1, acc + DLen(P, ds[j]))
DLen(P, p) == LET t == P[p] IN
  CASE t.k = "root" -> t.n
    [] t.k = "subset" -> Len(t.idxs)
    [] t.k = "concat" -> LET cs == CumSizes(P, t.ds, 1, 0) IN cs[Len(cs)]
    [] t.k = "wrap" -> DLen(P, t.d)
BisectRight(cs, v) == Cardinality({j \in 1..Len(cs) : cs[j] <= v})     \* cs is non-decreasing
RECURSIVE Resolve(_, _, _)
Resolve(P, p, k) == LET t == P[p] IN
  CASE t.k = "root" -> <<t.r, Norm(t.n, k)>>                 \* a list-backed root
    [] t.k = "subset" -> Resolve(P, t.d, PyIndex(t.idxs, k))
    [] t.k = "wrap" -> Resolve(P, t.d, k)
    [] t.k = "concat" ->
         IF t.bal
           THEN LET m == Len(t.ds) di == k % m IN Resolve(P, t.ds[di + 1], (k \div m) % DLen(P, t.ds[di + 1]))
           ELSE LET cs == CumSizes(P, t.ds, 1, 0)
                    kk == IF k < 0 THEN cs[Len(cs)] + k ELSE k
                    di == BisectRight(cs, kk)
                IN Resolve(P, t.ds[di + 1], IF di = 0 THEN kk ELSE kk - cs[di])
RECURSIVE DGetAll(_, _)
RECURSIVE ConcatAll(_, _, _)
ConcatAll(P, ds, j) == IF j > Len(ds) THEN <<>> ELSE DGetAll(P, ds[j]) \o ConcatAll(P, ds, j + 1)
DGetAll(P, p) == LET t == P[p] IN
  CASE t.k = "root" -> [i \in 1..t.n |-> <<t.r, i - 1>>]
    [] t.k = "subset" -> LET res == DGetAll(P, t.d) IN [j \in 1..Len(t.idxs) |-> PyIndex(res, t.idxs[j])]
    [] t.k = "concat" -> ConcatAll(P, t.ds, 1)
    [] t.k = "wrap" -> DGetAll(P, t.d)
=============================================================================
