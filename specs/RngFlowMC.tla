------------------------------- MODULE RngFlowMC -------------------------------
EXTENDS RngFlow
NoneForgetful == {}
SchedForgetful == {"sched"}
HolderForgetful == {"holder"}
=============================================================================
