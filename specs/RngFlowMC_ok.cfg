SPECIFICATION Spec
CONSTANTS
  MaxNodes = 3
  Forgetful <- NoneForgetful
INVARIANT SeedDetermines
INVARIANT WorkerStreams
INVARIANT NoReplayWithinCall
PROPERTY GlobalsUntouched
CHECK_DEADLOCK FALSE
