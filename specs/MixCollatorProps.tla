--------------------------- MODULE MixCollatorProps ---------------------------
(***************************************************************************)
(* Model-checking harness for MixCollator.tla: geometry and label kind     *)
(* chosen in Init, modes and probability split chosen by a first           *)
(* `Configure' step.  When the algorithm is done, `Observe' projects the   *)
(* final state to an OBSERVATION (what a caller of the collator can see)   *)
(* and evaluates the clauses of C10 on it - with the same operators that   *)
(* judge traces recorded from the real collator (MixCollatorTrace).        *)
(***************************************************************************)
EXTENDS MixCollator

CONSTANTS Grid         \* set of <<B, H, W, label kind>>, kind in {"onehot", "onehot2", "binary"}

VARIABLES configured, observed, obs, cands, fails
pvars == <<vars, configured, observed, obs, cands, fails>>

Kinds == {"onehot", "onehot2", "binary"}
GridQuick ==
  {<<B, 1, 1, k>> : B \in 1..3, k \in Kinds} \cup {<<2, 2, 2, k>> : k \in Kinds}
    \cup {<<1, 2, 2, "onehot">>}
GridThorough ==
  {<<B, 1, 1, k>> : B \in 1..4, k \in Kinds} \cup {<<B, 2, 2, k>> : B \in 1..2, k \in Kinds}
    \cup {<<3, 2, 2, "onehot">>, <<3, 2, 2, "onehot2">>}
    \cup {<<2, 2, 3, "onehot">>, <<2, 3, 2, "binary">>} \cup {<<B, 3, 3, k>> : B \in 1..2, k \in Kinds}
    \cup {<<2, 4, 4, "onehot">>}

\* input labels: one-hot of the sample id, one-hot over two classes (collisions), binary scalar
Y0(kind, B) ==
  IF kind = "onehot" THEN [k \in 1..B |-> [m \in 1..B |-> IF m = k THEN 1 ELSE 0]]
  ELSE IF kind = "onehot2" THEN [k \in 1..B |-> [m \in 1..2 |-> IF m = ((k - 1) % 2) + 1 THEN 1 ELSE 0]]
  ELSE [k \in 1..B |-> <<(k - 1) % 2>>]
KOf(kind, B) == IF kind = "onehot" THEN B ELSE IF kind = "onehot2" THEN 2 ELSE 1

MkCfg(B, H, W, lm, sm, sp, kind) ==
  [B |-> B, H |-> H, W |-> W, K |-> KOf(kind, B), onehot |-> kind # "binary", lamb |-> lm, shuffle |-> sm,
   split |-> sp, S |-> 4 * H * W, Tol |-> 0, y0 |-> Y0(kind, B)]

PInit ==
  /\ \E g \in Grid : InitWith(MkCfg(g[1], g[2], g[3], "batch", "roll", "mixup", g[4]))
  /\ configured = FALSE /\ observed = FALSE
  /\ obs = <<>> /\ cands = <<>> /\ fails = {}

Configure ==
  /\ ~configured
  /\ configured' = TRUE
  /\ \E lm \in {"batch", "sample"}, sm \in {"roll", "flip", "random"}, sp \in {"mixup", "cutmix", "mixed"} :
        /\ (sm = "flip" => cfg.B = 1 \/ cfg.B % 2 = 0)       \* domain: flip needs an even batch
        /\ cfg' = [cfg EXCEPT !.lamb = lm, !.shuffle = sm, !.split = sp]
  /\ UNCHANGED <<pc, flag, mixLam, box, perm, i, bboxIdx, img, lab, ctxLam, ctxCut, observed, obs, cands, fails>>

Keep == UNCHANGED <<configured, observed, obs, cands, fails>>
PDrawFlags == configured /\ DrawFlags /\ Keep
PDrawLams == configured /\ DrawLams /\ Keep
PDrawBoxes == configured /\ DrawBoxes /\ Keep
PDrawPerm == configured /\ DrawPerm /\ Keep
PXBatch == configured /\ XBatch /\ Keep
PXLoop == configured /\ XLoop /\ Keep
PApplyY == configured /\ ApplyY /\ Keep
PRecordCtx == configured /\ RecordCtx /\ Keep
\* what the caller sees, and what the clauses of C10 say about it
Observe ==
  /\ pc = "done" /\ ~observed
  /\ observed' = TRUE
  /\ obs' = [k \in 1..cfg.B |-> ObsSample(k)]
  /\ cands' = [k \in 1..cfg.B |-> Cand(cfg, obs'[k], k)]
  /\ fails' = UNION {SampleFails(cfg, obs'[k], k, cands'[k]) : k \in 1..cfg.B} \cup BatchFails(cfg, obs', cands')
  /\ UNCHANGED <<vars, configured>>
PNext == Configure \/ PDrawFlags \/ PDrawLams \/ PDrawBoxes \/ PDrawPerm \/ PXBatch \/ PXLoop \/ PApplyY
           \/ PRecordCtx \/ Observe
PSpec == PInit /\ [][PNext]_pvars /\ WF_pvars(PNext)

(* ------------------------------ C10 ------------------------------------ *)
Inv_LabelForm == "C10_LabelForm" \notin fails
Inv_ImageForm == "C10_ImageForm" \notin fails
Inv_SamePartnerWeight == "C10_SamePartnerWeight" \notin fails
Inv_CtxWeight == "C10_CtxWeight" \notin fails
Inv_RowSum == "C10_RowSum" \notin fails
Inv_ShuffleMode == "C10_ShuffleMode" \notin fails
Inv_BatchLambda == "C10_BatchLambda" \notin fails

(* ------------------- descriptive sanity (not C10 clauses) -------------- *)
\* the decode is faithful: the partner the algorithm really used is among the explaining ones
Inv_TruePartner == observed => \A k \in 1..cfg.B : perm[k] \in cands[k]
\* index bookkeeping: the running box counter never leaves the drawn boxes
Inv_BoxIndex == bboxIdx <= cfg.B + 1 /\ (pc = "xloop" => bboxIdx <= i)
\* what the context says about the branch is what the image shows (where it can be seen)
Inv_KindAsReported ==
  observed => \A k \in 1..cfg.B :
            LET cut == IF Len(ctxCut) = 1 THEN ctxCut[1] ELSE ctxCut[k] IN
              /\ (cut => \A q \in obs[k].pcs : \/ VecNear(cfg, q.vec, UnitV(cfg, k))
                                               \/ VecNear(cfg, q.vec, UnitV(cfg, perm[k])))
              /\ (~cut => Cardinality(obs[k].pcs) = 1)
Terminates == <>observed
=============================================================================
