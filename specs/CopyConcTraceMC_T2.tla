---- MODULE CopyConcTraceMC_T2 ----
EXTENDS CopyConcTrace
P3 == {"p1", "p2", "p3"}
MCFiles == {"a", "b"}
MCDirs == {"s"}
MCDirOf == ("a" :> "." @@ "b" :> "s")
MCProgs == [raw |-> <<[k |-> "create", x |-> "a"], [k |-> "fill", x |-> "a"], [k |-> "touch", x |-> "a"], [k |-> "mksub", x |-> "s"], [k |-> "create", x |-> "b"], [k |-> "fill", x |-> "b"], [k |-> "touch", x |-> "b"], [k |-> "touchsub", x |-> "s"]>>, zip |-> <<[k |-> "create", x |-> "a"], [k |-> "fill", x |-> "a"], [k |-> "chksub", x |-> "s"], [k |-> "mksubz", x |-> "s"], [k |-> "create", x |-> "b"], [k |-> "fill", x |-> "b"]>>, zips |-> <<[k |-> "create", x |-> "a"], [k |-> "fill", x |-> "a"], [k |-> "chksub", x |-> "s"], [k |-> "mksubz", x |-> "s"], [k |-> "create", x |-> "b"], [k |-> "fill", x |-> "b"]>>]
MCWipeOrder == <<"a", "end", "start", "junk", "s">>
MCFileOrder == <<"a", "b">>
====
