--------------------------- MODULE ModeWrapperTrace ---------------------------
(***************************************************************************)
(* Trace validation for C01.  Each trace: one real dataset stack wrapped   *)
(* in the real ModeWrapper and a history of accesses.  Loader results are  *)
(* tags [it, s, cid] produced by harness datasets (item name, sample id it *)
(* was loaded for, id of the loader call); the harness only records, all   *)
(* clauses are evaluated here.                                             *)
(*  cfg: mode, decl (fused_operations of the stack), rctx, n (len), map    *)
(*       (underlying sample id per position), refuseok                     *)
(*  ev : {a:"refuse"} | {a:"err"} |                                        *)
(*       {a:"acc", form, k, lo, hi, st, ks, lenres,                        *)
(*        res: [ {n0, n1, out:[{it,s,cid}], bare, hasctx, ctxfresh} ]} |   *)
(*       {a:"helper", hm, hi, has, idx, got, changed, setlen, added, exc}  *)
(***************************************************************************)
EXTENDS ModeWrapper, Json, IOUtils, TLCExt

VARIABLES tid, l, failed
tvars == <<vars, tid, l, failed>>

Traces == JsonDeserialize(IOEnv.TRACE_FILE).traces
ASSUME TLCSet(1, {}) /\ TLCSet(2, {})
Cfg == Traces[tid].cfg
Ev(j) == Traces[tid].ev[j]
NEv == Len(Traces[tid].ev)

\* positions (0-based, normalised) an access asks for, per Python sequence semantics
Expected(e) ==
  CASE e.form = "int"   -> IF InRange(Cfg.n, e.k) THEN <<Norm(Cfg.n, e.k)>> ELSE <<>>
    [] e.form = "slice" -> PySlice(Cfg.n, e.lo, e.hi, e.st)
    [] e.form = "list"  -> [j \in 1..Len(e.ks) |-> Norm(Cfg.n, e.ks[j])]
    [] e.form = "iter"  -> [j \in 1..Cfg.n |-> j - 1]
    [] e.form = "len"   -> <<>>

ToOut(r) == [p \in 1..Len(r.out) |-> [it |-> r.out[p].it, cid |-> r.out[p].cid]]
SampleRight(r, pos) ==
  \A p \in 1..Len(r.out) :
     IF r.out[p].it = "index" THEN r.out[p].s = pos
     ELSE r.out[p].s = Cfg.map[pos + 1]

ResFailed(r, pos) ==
  LET o == ToOut(r) IN
    (IF PositionsRight(Cfg.mode, o) THEN {} ELSE {"PositionsRight"})
    \cup (IF PositionsRight(Cfg.mode, o) /\ ~SampleRight(r, pos) THEN {"SampleRight"} ELSE {})
    \cup (IF PositionsRight(Cfg.mode, o) /\ ~FreshCalls(Cfg.mode, o, r.n0, r.n1) THEN {"FreshCalls"} ELSE {})
    \cup (IF PositionsRight(Cfg.mode, o) /\ ~JointOnce(Cfg.mode, Cfg.decl, o) THEN {"JointOnce"} ELSE {})
    \cup (IF r.bare = (Len(Cfg.mode) = 1) THEN {} ELSE {"BareVsTuple"})
    \cup (IF r.hasctx = Cfg.rctx THEN {} ELSE {"CtxIffRequested"})
    \cup (IF r.ctxfresh THEN {} ELSE {"CtxFresh"})
    \cup (IF \A j \in 1..Len(r.ctxs) : r.ctxs[j] = Cfg.map[pos + 1] THEN {} ELSE {"CtxOtherSample"})

AccFailed(e) ==
  IF e.form = "len" THEN (IF e.lenres = Cfg.n THEN {} ELSE {"Len"})
  ELSE LET exp == Expected(e) IN
         IF Len(e.res) # Len(exp) THEN {"SequenceSemantics"}
         ELSE UNION {ResFailed(e.res[j], exp[j]) : j \in 1..Len(exp)}

\* the static helpers every collator uses to find / replace an item of a batch laid out by a mode string hm
\* (position tags 1..Len(hm)): they must agree with the positions the mode string decides
HelperFailed(e) ==
  LET has == e.hi \in SeqRange(e.hm)
      pos == IF has THEN FirstIndex(e.hm, e.hi) ELSE 0 IN
    IF e.exc # "" THEN {"HelperException"}
    ELSE (IF e.has = has THEN {} ELSE {"HelperHas"})
      \cup (IF e.idx = pos - 1 THEN {} ELSE {"HelperIndex"})
      \cup (IF has /\ e.got # pos THEN {"HelperGet"} ELSE {})
      \cup (IF has /\ (e.changed # <<pos>> \/ e.setlen # Len(e.hm)) THEN {"HelperSet"} ELSE {})
      \cup (IF e.added = (IF has THEN e.hm ELSE Append(e.hm, e.hi)) THEN {} ELSE {"HelperAdd"})

TInit ==
  /\ tid \in 1..Len(Traces)
  /\ l = 1 /\ failed = {}
  /\ Init0(Cfg.mode, Cfg.decl)

TNext ==
  /\ l <= NEv /\ failed = {}
  /\ l' = l + 1
  /\ failed' = CASE Ev(l).a = "acc" -> AccFailed(Ev(l))
                 [] Ev(l).a = "helper" -> HelperFailed(Ev(l))
                 [] Ev(l).a = "refuse" -> (IF Cfg.refuseok THEN {} ELSE {"RefusedInDomain"})
                 [] OTHER -> {"Exception"}
  /\ UNCHANGED <<vars, tid>>
TSpec == TInit /\ [][TNext]_tvars

Constraint ==
  /\ IF failed # {} THEN TLCSet(2, TLCGet(2) \cup {<<Traces[tid].id, l - 1, failed>>})
     ELSE IF l = NEv + 1 THEN TLCSet(1, TLCGet(1) \cup {Traces[tid].id})
     ELSE TRUE
Report == PrintT(<<"ACCEPTED", TLCGet(1)>>) /\ PrintT(<<"REJECTED", TLCGet(2)>>)
=============================================================================
