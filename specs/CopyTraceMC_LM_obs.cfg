CONSTANTS
  Files <- MCFiles
  Dirs <- MCDirs
  DirOf <- MCDirOf
  Proto = "v1"
  MaxCrashes = 1000
SPECIFICATION ObsSpec
CONSTRAINT ObsConstraint
POSTCONDITION Report
CHECK_DEADLOCK FALSE
