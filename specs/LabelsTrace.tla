----------------------------- MODULE LabelsTrace -----------------------------
(***************************************************************************)
(* Trace validation for Labels.tla.  One trace = one configuration of one  *)
(* REAL wrapper (harness/drivers/labels.py), observed at the public API:   *)
(*   {a:"open"}     constructed; dim = getshape_class()[0], len = len(w)   *)
(*   {a:"items"}    [getitem_class(i) for i in range(len)]                 *)
(*   {a:"bulk"}     getall_class()   (refused = explicit NotImplemented)   *)
(*   {a:"again"}    the per-sample sweep repeated on the same object       *)
(*   {a:"rebuild"}  same arguments constructed again under another state   *)
(*                  of the global generators, swept in reverse order       *)
(*   {a:"data"}     xw / xb = equality classes of getitem_x through the    *)
(*                  wrapper / of the wrapped dataset; labs = labels of the *)
(*                  wrapped dataset after all of the above                 *)
(* every event carries the same fields: a, err, dim, len, labs, form, enc, *)
(* refused, xw, xb.  form = "int" (labs holds labels), "vec" (enc holds    *)
(* one fixed-point x10^6 vector per sample), "bin" (enc holds one scalar   *)
(* per sample), anything else = the accessor returned something unusable.  *)
(*                                                                         *)
(* Obs  (normative, carries the verdict): every clause of C16 evaluated on *)
(*      the observed values only.                                          *)
(* Desc (conformance, noted only): the descriptive machine of Labels.tla   *)
(*      is run on the configuration (draw outcomes taken from the public   *)
(*      attributes of the object) and must reproduce dim, items, bulk.     *)
(***************************************************************************)
EXTENDS Labels, Json, IOUtils, TLC, TLCExt

VARIABLES tid, l, oDim, oFirst, oFail
tvars == <<vars, tid, l, oDim, oFirst, oFail>>

Traces == JsonDeserialize(IOEnv.TRACE_FILE).traces
ASSUME TLCSet(1, {}) /\ TLCSet(2, {}) /\ TLCSet(3, {})

Cfg == Traces[tid].cfg
Ev(k) == Traces[tid].ev[k]
NEv == Len(Traces[tid].ev)

Scale == 1000000        \* fixed point of logged encodings
Tol == 100              \* "sum to one" within 1e-4
None == [labs |-> <<>>, form |-> "-", enc |-> <<>>]
Shown(e) == [labs |-> e.labs, form |-> e.form, enc |-> e.enc]

TInit ==
  /\ tid \in 1..Len(Traces)
  /\ l = 1 /\ oDim = 0 - 1 /\ oFirst = None /\ oFail = {}

(* ------------------------------- Obs ----------------------------------- *)
OEnc == Cfg.kind \in {"ls", "oh"}
OStrict == Cfg.sn < Cfg.sd
Fails(name, ok) == IF ok THEN {} ELSE {name}

\* clauses on one sweep of the per-sample accessor
ItemClauses(e) ==
  IF ~OEnc
    THEN Fails("LabelForm", e.form = "int" /\ Len(e.labs) = Cfg.n)
           \cup Fails("ItemInRange", InRange(e.labs, oDim))
    ELSE Fails("EncForm", CASE e.form = "int" -> Cfg.kind = "ls" /\ Cfg.sn = 0 /\ Len(e.labs) = Cfg.n
                            [] e.form = "vec" -> Len(e.enc) = Cfg.n
                            [] e.form = "bin" -> Cfg.kind = "ls" /\ oDim = 1 /\ Len(e.enc) = Cfg.n
                                                   /\ \A j \in 1..Len(e.enc) : Len(e.enc[j]) = 1
                            [] OTHER -> FALSE)
           \cup (IF e.form = "vec"
                   THEN Fails("EncShape", \A j \in 1..Len(e.enc) : Len(e.enc[j]) = oDim)
                          \cup Fails("EncNonNeg", \A j \in 1..Len(e.enc) : EncNonNeg(e.enc[j]))
                          \cup Fails("EncSumOne", \A j \in 1..Len(e.enc) : EncSumOne(e.enc[j], Scale, Tol))
                          \cup Fails("EncArgmax", \A j \in 1..Len(e.enc) :
                                                     j <= Cfg.n => EncArgmax(e.enc[j], Cfg.cls[j], OStrict))
                 ELSE IF e.form = "bin"
                   THEN Fails("EncNonNeg", \A j \in 1..Len(e.enc) : EncNonNeg(e.enc[j]))
                          \cup Fails("EncArgmax", \A j \in 1..Len(e.enc) :
                                  (j <= Cfg.n /\ Len(e.enc[j]) = 1) => EncBinary(e.enc[j][1], Scale, Cfg.cls[j], OStrict))
                 ELSE IF e.form = "int"
                   THEN Fails("EncArgmax", \A j \in 1..Len(e.labs) : j <= Cfg.n => e.labs[j] = Cfg.cls[j])
                 ELSE {})

\* clauses on the answer of the bulk accessor, against the first per-sample sweep
BulkClauses(e) ==
  IF e.refused THEN Fails("RefuseOnlyTopK", MayRefuseBulk(Cfg.kind, Cfg.sub))
  ELSE IF ~OEnc
    THEN Fails("Coherent", Coherent(oFirst.labs, e.labs))
           \cup Fails("BulkInRange", InRange(e.labs, oDim))
    ELSE Fails("EncBulk",
           /\ e.form = "int"
           /\ CASE oFirst.form = "vec" -> /\ Len(e.labs) = Len(oFirst.enc)
                                          /\ \A j \in 1..Len(e.labs) : EncArgmax(oFirst.enc[j], e.labs[j], OStrict)
                [] oFirst.form = "bin" -> /\ Len(e.labs) = Len(oFirst.enc)
                                          /\ \A j \in 1..Len(e.labs) :
                                               EncBinary(oFirst.enc[j][1], Scale, e.labs[j], OStrict)
                [] OTHER -> e.labs = oFirst.labs)

ObsFail(e) ==
  IF e.err # "" THEN {"NoError"}
  ELSE CASE e.a = "open"    -> Fails("LenKept", e.len = Cfg.n)
         [] e.a = "items"   -> ItemClauses(e)
         [] e.a = "bulk"    -> BulkClauses(e)
         [] e.a = "again"   -> Fails("Repeatable", Shown(e) = oFirst)
         [] e.a = "rebuild" -> Fails("Functional", Functional(<<Shown(e), e.dim>>, <<oFirst, oDim>>))
         [] e.a = "data"    -> Fails("Untouched", Untouched(e.xw, e.xb)) \cup Fails("BaseIntact", e.labs = Cfg.cls)
         [] OTHER -> {"UnknownEvent"}

ObsNext ==
  /\ l <= NEv
  /\ LET e == Ev(l) IN
       /\ oFail' = ObsFail(e)
       /\ oDim' = IF e.a = "open" /\ e.err = "" THEN e.dim ELSE oDim
       /\ oFirst' = IF e.a = "items" /\ e.err = "" THEN Shown(e) ELSE oFirst
  /\ l' = l + 1
  /\ UNCHANGED <<vars, tid>>
ObsInit == TInit /\ InitWith("-", 0, 0, <<>>, [z |-> 0])
ObsSpec == ObsInit /\ [][ObsNext]_tvars

\* register 1: accepted ids; register 2: <<id, position of the event, failed clauses>>; a trace stops at its first failure
ObsCollect ==
  IF oFail # {} THEN TLCSet(2, TLCGet(2) \cup {<<Traces[tid].id, l - 1, oFail>>})
  ELSE IF l = NEv + 1 THEN TLCSet(1, TLCGet(1) \cup {Traces[tid].id})
  ELSE TRUE
ObsConstraint == ObsCollect /\ oFail = {}

(* ------------------------------- Desc ---------------------------------- *)
DescInit == TInit /\ InitWith(Cfg.kind, Cfg.n, Cfg.C, Cfg.cls, Cfg.par)
DescNext ==
  /\ pc # "end"
  /\ (Start \/ Build \/ ItemStep \/ BulkStep)
  /\ UNCHANGED <<tid, l, oDim, oFirst, oFail>>
DescSpec == DescInit /\ [][DescNext]_tvars

Abs(x) == IF x < 0 THEN 0 - x ELSE x
\* model value num/den against logged fixed point, 2e-6 apart at most (den <= 2000 keeps this inside 32 bits)
NearEnc(obs, num, den) == Abs(obs * den - num * Scale) <= 2 * den
EncAgree(e) ==
  /\ Len(encs) = Cfg.n
  /\ \A j \in 1..Cfg.n :
       IF encs[j].form = "int" THEN e.form = "int" /\ Len(e.labs) = Cfg.n /\ e.labs[j] = encs[j].v[1]
       ELSE /\ e.form = encs[j].form /\ Len(e.enc) = Cfg.n /\ Len(e.enc[j]) = Len(encs[j].v)
            /\ \A m \in 1..Len(encs[j].v) : NearEnc(e.enc[j][m], encs[j].v[m], encs[j].den)
DescDiff ==
  Fails("D_Dim", Ev(1).dim = dim)
    \cup (IF IsEnc THEN Fails("D_Enc", EncAgree(Ev(2))) ELSE Fails("D_Items", Ev(2).labs = items))
    \cup Fails("D_Bulk", Ev(3).refused = refused /\ (~refused => Ev(3).labs = bulk))
DescCollect ==
  IF pc = "end"
    THEN IF DescDiff = {} THEN TLCSet(1, TLCGet(1) \cup {Traces[tid].id})
         ELSE TLCSet(3, TLCGet(3) \cup {<<Traces[tid].id, DescDiff>>})
  ELSE TRUE

\* only the number of accepted traces is printed (the driver checks accepted + rejected = batch size: verdicts are total);
\* printing tens of thousands of ids costs more than checking them
Report == PrintT(<<"NACCEPTED", Cardinality(TLCGet(1))>>) /\ PrintT(<<"REJECTED", TLCGet(2)>>)
DescReport == PrintT(<<"NACCEPTED", Cardinality(TLCGet(1))>>) /\ PrintT(<<"DEVIATION", TLCGet(3)>>)
=============================================================================
