SPECIFICATION SSpec
CONSTANTS
  MaxW = 2
  MaxBS = 2
  MaxNB = 4
  MaxE = 1
  FullOnly = TRUE
  Variant = "shipped"
  Dispatch = "any"
INVARIANT C15_ScheduleAtBatch
CHECK_DEADLOCK FALSE
