SPECIFICATION PSpec
CONSTANTS
  Proto = "v0"
  Kinds = {"percent", "subset_idx", "subset_pct"}
  MaxN = 3
  MaxC = 2
  Den = 2
  MaxShots = 1
  MaxReps = 1
INVARIANT C03_RangeBounds
CHECK_DEADLOCK FALSE
