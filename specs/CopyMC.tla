------------------------------- MODULE CopyMC -------------------------------
EXTENDS Copy
MCFiles == {"a", "b"}
MCDirs == {"s"}
MCDirOf == [f \in MCFiles |-> IF f = "a" THEN "." ELSE "s"]
MCFiles3 == {"a", "b", "c"}
MCDirs3 == {"s", "t"}
MCDirOf3 == [f \in MCFiles3 |-> IF f = "a" THEN "." ELSE IF f = "b" THEN "s" ELSE "t"]
=============================================================================
