---------------------------- MODULE StrengthProps ----------------------------
(***************************************************************************)
(* Model-checking harness for Strength.tla.  A composition of 1..MaxMembers*)
(* transforms (every parameter family x a grid of constructed ranges) is   *)
(* chosen by the first step; then every sequence of at most MaxScales      *)
(* factors k/D is applied through the forwarding loop of                   *)
(* KDComposeTransform._scale_strength (one action per member).  The        *)
(* clauses of C15 are invariants over the state reached when a             *)
(* scale_strength call has returned.                                       *)
(***************************************************************************)
EXTENDS Strength

CONSTANTS D,           \* factors are k / D, k \in 0..D
          MaxMembers,  \* members of the composition
          MaxScales,   \* length of the factor sequence for a single transform
          MaxScalesComp, \* length of the factor sequence for a composition of several
          Variant,     \* which transcription of the formulas (see Strength.tla)
          Fine,        \* TRUE: the full parameter grid, FALSE: a coarser one
          CompFull     \* TRUE: compositions over the whole grid, FALSE: over one representative per family

VARIABLES members,     \* <<[kind, og]>> the composition (configuration)
          cur,         \* current leaves of every member
          pc,          \* "idle" | "loop" | "refused"
          i,           \* index of the forwarding loop
          fac,         \* factor being applied
          hist,        \* factors applied so far
          seen,        \* factor -> state reached when that factor was given for the first time
          clash,       \* a factor was given again and led to a different state
          configured
pvars == <<members, cur, pc, i, fac, hist, seen, clash, configured>>

\* unit system of the model: 1.0 = 4 D, so that every grid value times k/D is an integer
U == [one |-> 4 * D, half |-> 2 * D, top |-> 256, q |-> 1]

Pairs(los, his) == { p \in los \X his : p[1] <= p[2] }
MemberGrid ==
  LET o == U.one  h == U.half IN
       { [kind |-> "center1", og |-> p] : p \in Pairs(IF Fine THEN {0, h, o, o + D} ELSE {0, h, o}, {o, o + h, 2 * o}) }
  \cup { [kind |-> "hue", og |-> p] : p \in Pairs(IF Fine THEN {-h, -D, 0, D} ELSE {-h, -D, 0}, IF Fine THEN {-D, 0, D, h} ELSE {0, D, h}) }
  \cup { [kind |-> "sigma", og |-> p] : p \in Pairs({D, h}, {D, h, o + h}) }
  \cup { [kind |-> "solarint", og |-> <<t>>] : t \in IF Fine THEN {0, 77, 128, 255, 256} ELSE {0, 77, 256} }
  \cup { [kind |-> "solarfloat", og |-> <<t>>] : t \in {0, D, o} }
  \cup { [kind |-> "prob", og |-> <<t>>] : t \in {0, D, o} }
  \cup { [kind |-> "rot", og |-> p] : p \in Pairs({-h, 0, D}, {0, D, h}) }
  \cup { [kind |-> "mag", og |-> <<m, s, mn, o>>] : m \in {h, o}, s \in {0, D}, mn \in IF Fine THEN {0, D} ELSE {0} }
\* one member per family that exercises every branch of its formula (both bounds move, clamp reachable, int truncation)
Representatives ==
  LET o == U.one  h == U.half IN
  { [kind |-> "center1", og |-> <<h, o + h>>], [kind |-> "hue", og |-> <<-D, h>>], [kind |-> "sigma", og |-> <<D, o + h>>],
    [kind |-> "solarint", og |-> <<77>>], [kind |-> "solarfloat", og |-> <<D>>], [kind |-> "prob", og |-> <<D>>],
    [kind |-> "rot", og |-> <<-h, h>>], [kind |-> "mag", og |-> <<h, D, 0, o>>] }
MemberSeqs ==
  [1..1 -> MemberGrid] \cup UNION { [1..n -> (IF CompFull THEN MemberGrid ELSE Representatives)] : n \in 2..MaxMembers }

PInit ==
  /\ members = <<>> /\ cur = <<>> /\ pc = "idle" /\ i = 0 /\ fac = 0 /\ hist = <<>>
  /\ seen = <<>> /\ clash = FALSE /\ configured = FALSE

Configure ==
  /\ ~configured
  /\ \E ms \in MemberSeqs :
        /\ members' = ms
        /\ cur' = [j \in 1..Len(ms) |-> ms[j].og]
  /\ configured' = TRUE
  /\ UNCHANGED <<pc, i, fac, hist, seen, clash>>

\* KDTransform.scale_strength(factor): assert 0 <= factor <= 1, then the class's _scale_strength
BeginScale(k) ==
  /\ configured /\ pc = "idle"
  /\ Len(hist) < (IF Len(members) = 1 THEN MaxScales ELSE MaxScalesComp)
  /\ fac' = k /\ i' = 1 /\ pc' = "loop"
  /\ UNCHANGED <<members, cur, hist, seen, clash, configured>>

\* one iteration of `for t in self.transforms: t.scale_strength(factor)`
ScaleMember ==
  /\ pc = "loop" /\ i <= Len(members)
  /\ ~Refuses(Variant, members[i].kind, members[i].og)
  /\ cur' = [cur EXCEPT ![i] = IF Variant = "nofwd" /\ i > 1 THEN @
                                ELSE Formula(Variant, U, members[i].kind, members[i].og, @, fac, D)]
  /\ i' = i + 1
  /\ UNCHANGED <<members, pc, fac, hist, seen, clash, configured>>

\* an assertion inside a member's _scale_strength escapes
RefuseMember ==
  /\ pc = "loop" /\ i <= Len(members)
  /\ Refuses(Variant, members[i].kind, members[i].og)
  /\ pc' = "refused"
  /\ UNCHANGED <<members, cur, i, fac, hist, seen, clash, configured>>

EndScale ==
  /\ pc = "loop" /\ i > Len(members)
  /\ pc' = "idle"
  /\ hist' = Append(hist, fac)
  /\ IF fac \in DOMAIN seen
       THEN seen' = seen /\ clash' = (clash \/ seen[fac] # cur)
       ELSE seen' = (seen @@ (fac :> cur)) /\ clash' = clash
  /\ UNCHANGED <<members, cur, i, fac, configured>>

PBeginScale == \E k \in 0..D : BeginScale(k)
PNext == Configure \/ PBeginScale \/ ScaleMember \/ RefuseMember \/ EndScale
PSpec == PInit /\ [][PNext]_pvars

(* ------------------------------- clauses ------------------------------- *)
Done == pc = "idle" /\ hist # <<>>
Last == hist[Len(hist)]
M == 1..Len(members)
W(j) == Weakest(U, members[j].kind, members[j].og)

\* scaling by 1 restores exactly the parameter ranges the transform was constructed with
C15_RestoreAtOne == (Done /\ Last = D) => \A j \in M : RestoresAtOne(members[j].og, cur[j], 0)
\* scaling by 0 collapses every range to its weakest setting
C15_CollapseAtZero ==
  (Done /\ Last = 0) => \A j \in M : /\ Degenerate(RangeOf(members[j].kind, cur[j]), 0)
                                     /\ cur[j] = W(j)
\* intermediate factors keep every bound between the two ...
C15_BetweenEnds == Done => \A j \in M : BetweenEnds(W(j), cur[j], members[j].og, 0)
\* ... and move it monotonically
C15_Monotone ==
  \A k1 \in DOMAIN seen, k2 \in DOMAIN seen :
     k1 <= k2 => \A j \in M : MonotonePair(W(j), seen[k1][j], seen[k2][j], 0)
\* the result depends only on the last factor given (no compounding), also through compositions
C15_LastFactorOnly == ~clash
\* scaling is never refused
C15_NoRefusal == pc # "refused"

TypeOK ==
  /\ pc \in {"idle", "loop", "refused"}
  /\ Len(cur) = Len(members)
  /\ \A j \in M : members[j].kind \in Kinds /\ Len(cur[j]) = Len(members[j].og)
=============================================================================
