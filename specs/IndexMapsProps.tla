---------------------------- MODULE IndexMapsProps ----------------------------
(* Model checking IndexMaps.tla: every pool of at most MaxPool terms over small roots. *)
EXTENDS IndexMaps
CONSTANTS MaxPool, MaxRootLen, MaxIdxLen

IdxLists(n) == UNION { [1..m -> (0 - n)..(n - 1)] : m \in 0..MaxIdxLen }
DsLists(np) == UNION { [1..m -> 1..np] : m \in 1..2 }

Open == IF pool = <<>> THEN TRUE ELSE ~pool[Len(pool)].bal
PInit == pool = <<>>
BuildRoot == /\ Open /\ Len(pool) < MaxPool
             /\ \E n \in 1..MaxRootLen : pool' = Append(pool, Root(Len(pool) + 1, n))
BuildSubset == /\ Open /\ Len(pool) < MaxPool /\ Len(pool) >= 1
               /\ \E d \in 1..Len(pool) : \E I \in IdxLists(LenOf(pool, d)) :
                     pool' = Append(pool, Subset(d, I))
BuildConcat == /\ Open /\ Len(pool) < MaxPool /\ Len(pool) >= 1
               /\ \E ds \in DsLists(Len(pool)), b \in BOOLEAN :
                     \* balanced sampling needs non-empty parts (index arithmetic modulo the part length)
                     /\ (b => \A j \in 1..Len(ds) : LenOf(pool, ds[j]) >= 1)
                     /\ pool' = Append(pool, Concat(ds, b))
BuildWrap == /\ Open /\ Len(pool) < MaxPool /\ Len(pool) >= 1
             /\ \E d \in 1..Len(pool) : pool' = Append(pool, Wrap(d))
\* a balanced concat has no length: nothing is layered on top of it
PNext == BuildRoot \/ BuildSubset \/ BuildConcat \/ BuildWrap
PSpec == PInit /\ [][PNext]_vars

Last == Len(pool)
HasLast == pool # <<>>
\* the code's index arithmetic (Resolve) denotes the composed map (Den) for every valid index incl. negative ones
C02_ItemMap ==
  HasLast /\ ~pool[Last].bal =>
     \A k \in (0 - LenOf(pool, Last))..(LenOf(pool, Last) - 1) : Resolve(pool, Last, k) = GetItem(pool, Last, k)
C02_Balanced ==
  HasLast /\ pool[Last].bal =>
     \A k \in 0..(2 * Len(pool[Last].ds) * MaxRootLen) : Resolve(pool, Last, k) = BalancedItem(pool, Last, k)
C02_Len == HasLast /\ ~pool[Last].bal => DLen(pool, Last) = LenOf(pool, Last)
C02_GetAll == HasLast /\ ~pool[Last].bal => DGetAll(pool, Last) = Den(pool, Last)
C02_WellFormed == \A p \in 1..Len(pool) : WellFormed(SubSeq(pool, 1, p - 1), pool[p])
C02_ChainEndsInRoot == HasLast => RootOf(pool, Last) \in RootsOf(pool, Last)
=============================================================================
