---- MODULE CopyTraceMC_LZ ----
EXTENDS CopyTrace
MCFiles == {"a", "b", "c"}
MCDirs == {}
MCDirOf == "a" :> "." @@ "b" :> "." @@ "c" :> "."
====
