SPECIFICATION PSpec
CONSTANTS
  Variant = "labelswap"
  Grid <- GridQuick
  MaxCalls = 2
INVARIANT Inv_Convex
INVARIANT Inv_LabelMix
INVARIANT Inv_SamePartnerWeight
INVARIANT Inv_Simplex
INVARIANT Inv_Shape
INVARIANT Inv_ProbOne
INVARIANT Inv_SeedSameDraw
INVARIANT Inv_NoError
INVARIANT Inv_NoAssertFail
INVARIANT Inv_Loop
CHECK_DEADLOCK FALSE
