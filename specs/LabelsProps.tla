----------------------------- MODULE LabelsProps -----------------------------
(***************************************************************************)
(* Model-checking harness for Labels.tla.  Init picks wrapper kind, length *)
(* and class count; the first step `Configure' picks the label layout and  *)
(* the constructor arguments (including every outcome of the seeded draws: *)
(* permutations, masks, choices) from a bounded grid.  The machine then    *)
(* constructs the wrapper twice (each time under an arbitrary global       *)
(* generator state) and sweeps both accessors.  The invariants P_* are the *)
(* clauses of C16 over the API-visible variables (items, encs, bulk,       *)
(* refused, dim, first); L_* are lemmas tying the loops to closed forms.   *)
(***************************************************************************)
EXTENDS Labels, TLC

CONSTANTS Kinds,       \* subset of {"cg","rs","swap","ow","ag","pl","rc","semi","ls","oh"}
          MaxN,        \* layouts of length 1..MaxN
          MaxNHeavy,   \* ... for kinds whose argument grid is large (rs, swap, ow, pl, rc, semi)
          MaxAgN,      \* all-gather additionally on identity layouts up to this length
          MaxC,        \* class counts 1..MaxC
          MaxSplits,   \* superclass splits 1..MaxSplits
          CGDomain     \* TRUE: only group sizes dividing the class count (the stated domain)

pvars == vars

Heavy == {"rs", "swap", "ow", "pl", "rc", "semi"}
NMax(k) == IF k = "ag" THEN MaxAgN ELSE IF k \in Heavy THEN MaxNHeavy ELSE MaxN
CRange(k, nn) == IF k = "ag" /\ nn > MaxN THEN {nn} ELSE 1..MaxC

Layouts ==
  IF kind \in {"pl", "rc"} THEN {[j \in 1..n |-> (j - 1) % C]}
  ELSE IF kind = "ag" /\ n > MaxN THEN {Id0(n)}
  ELSE IF kind = "ls" /\ C = 1 THEN [1..n -> 0..1]          \* binary labels, one announced class
  ELSE [1..n -> 0..(C - 1)]

Z == [z |-> 0]
ParSet ==
  CASE kind = "cg" ->
         UNION { {[cpg |-> d, shuffle |-> FALSE, tperm |-> Id0(Ceil(C, d) * d)]}
                   \cup {[cpg |-> d, shuffle |-> TRUE, tperm |-> p] : p \in Perms0(Ceil(C, d) * d)}
                 : d \in {e \in 1..C : CGDomain => C % e = 0} }
    [] kind = "rs" ->
         UNION { {[cps |-> d, splits |-> s, shuffle |-> FALSE, cperm |-> Id0(C), sperm |-> Id0(n)]}
                   \cup {[cps |-> d, splits |-> s, shuffle |-> TRUE, cperm |-> p, sperm |-> q] :
                            p \in Perms0(C), q \in (IF s > 1 THEN Perms0(n) ELSE {Id0(n)})}
                 : d \in 1..C, s \in 1..MaxSplits }
    [] kind = "swap" -> {[apply |-> a, newc |-> w] : a \in [1..n -> BOOLEAN], w \in [1..n -> 0..(C - 1)]}
    [] kind = "ow" -> {[tbl |-> t] : t \in [1..n -> 0..(C - 1)]}
    [] kind = "ag" -> {[W |-> w] : w \in 1..n}
    [] kind = "pl" ->
         {[sub |-> "hard", tbl |-> t] : t \in [1..n -> 0..(C - 1)]}
           \cup {[sub |-> "soft", rows |-> r] : r \in [1..n -> Perms0(C)]}
           \cup {[sub |-> "thr", rows |-> r, conf |-> cf, thr |-> th] :
                    r \in [1..n -> Perms0(C)], cf \in [1..n -> 0..2], th \in 0..1}
           \cup UNION { {[sub |-> "topk", rows |-> r, k |-> kk, choice |-> ch] :
                           r \in [1..n -> Perms0(C)], ch \in [1..n -> 0..(kk - 1)]} : kk \in 1..C }
    [] kind = "rc" ->
         UNION { {[sub |-> "random", nc |-> m, draw |-> d] : d \in [1..n -> 0..(m - 1)]}
                   \cup {[sub |-> "randperm", nc |-> m, perm |-> p] : p \in Perms0(m)}
                   \cup {[sub |-> "gatherbug", nc |-> m, W |-> w] : w \in 1..n}
                 : m \in 1..MaxC }
    [] kind = "semi" -> {[num |-> a, den |-> 4, sperm |-> p] : a \in 0..4, p \in Perms0(n)}
    [] kind = "ls" -> {[sn |-> a, sd |-> 10] : a \in {0, 1, 5, 10}}
    [] OTHER -> {Z}

PInit ==
  /\ kind \in Kinds
  /\ \E nn \in 1..NMax(kind) : n = nn /\ C \in CRange(kind, nn)
  /\ cls = <<>> /\ par = Z
  /\ glob = 0 /\ round = 1 /\ first = <<>>
  /\ pc = "cfg" /\ i = 1
  /\ counter = <<>> /\ within = <<>> /\ table = <<>> /\ idxs = <<>>
  /\ items = <<>> /\ encs = <<>> /\ bulk = <<>> /\ refused = FALSE /\ dim = 0

Configure ==
  /\ pc = "cfg"
  /\ cls' \in Layouts
  /\ par' \in ParSet
  /\ pc' = "start"
  /\ UNCHANGED <<kind, n, C, glob, round, first, i, work, obsv>>

\* both constructions are over; with deadlock checking on, every other state must have a successor
Finished == pc = "done" /\ UNCHANGED pvars
PNext == Configure \/ Start \/ BuildTable \/ CountStep \/ Invert \/ WhereStep \/ GatherBase \/ PadStep \/ PlaceStep
           \/ CutStep \/ FillStep \/ PickStep \/ ItemStep \/ BulkStep \/ EndRound \/ Finished
PSpec == PInit /\ [][PNext]_pvars /\ WF_pvars(PNext)

(* ------------------------------- clauses ------------------------------- *)
Swept == pc \in {"end", "done"}                 \* both accessors have answered
Built == pc \in {"items", "bulk", "end", "done"}

\* bulk accessor = per-sample accessor, element-wise; a refusal only for sampled pseudo-labels
P_Coherent == (Swept /\ ~IsEnc) => IF refused THEN MayRefuseBulk(kind, SubOf) ELSE Coherent(items, bulk)
P_RefuseOnlyTopK == refused => MayRefuseBulk(kind, SubOf)
\* every produced label (either accessor, at any time) is in the announced range or -1
P_ItemInRange == ~IsEnc => InRange(items, dim)
P_BulkInRange == ~IsEnc => InRange(bulk, dim)   \* (the encoding wrappers pass the wrapped ids through: P_EncBulk)
\* the second construction with the same arguments shows the same labels, whatever the global generator did
P_Functional == (round = 2 /\ pc \in {"bulk", "end", "done"}) => Functional(<<items, encs, dim>>, first)
\* the wrapped dataset (layout, class count) is never written
P_Frame == [][pc # "cfg" => UNCHANGED cfgv]_pvars
\* encodings
Strict == IF kind = "ls" THEN par.sn < par.sd ELSE TRUE
P_EncShape == IsEnc => \A j \in 1..Len(encs) : encs[j].form = "vec" => Len(encs[j].v) = dim
P_EncNonNeg == IsEnc => \A j \in 1..Len(encs) : encs[j].form # "int" => EncNonNeg(encs[j].v)
P_EncSumOne == IsEnc => \A j \in 1..Len(encs) : encs[j].form = "vec" => EncSumOne(encs[j].v, encs[j].den, 0)
P_EncArgmax ==
  IsEnc => \A j \in 1..Len(encs) :
     CASE encs[j].form = "vec" -> EncArgmax(encs[j].v, cls[j], Strict)
       [] encs[j].form = "bin" -> EncBinary(encs[j].v[1], encs[j].den, cls[j], Strict)
       [] OTHER -> encs[j].v[1] = cls[j]
\* their bulk accessor passes the original ids through: it must name a maximal entry of the per-sample encoding
P_EncBulk ==
  (IsEnc /\ Swept) => /\ ~refused /\ Len(bulk) = Len(encs)
                      /\ \A j \in 1..Len(encs) :
                           CASE encs[j].form = "vec" -> EncArgmax(encs[j].v, bulk[j], Strict)
                             [] encs[j].form = "bin" -> EncBinary(encs[j].v[1], encs[j].den, bulk[j], Strict)
                             [] OTHER -> encs[j].v[1] = bulk[j]

(* ------------------------------- lemmas -------------------------------- *)
\* the running counter computes "number of earlier samples of the same class"
L_CountCG == (kind = "cg" /\ Built) => within = WithinOf(cls)
PosOf(j) == CHOOSE q \in 1..n : SamplePerm[q] = j - 1
L_CountRS == (Built /\ kind = "rs" /\ par.splits > 1) =>
               \A j \in 1..n : within[j] = Cardinality({q \in 1..n : cls[q] = cls[j] /\ PosOf(q) < PosOf(j)})
\* pad / rearrange / cut = concatenation of the rank shares of a padded round-robin split, cut to N; in bounds
L_Gathered ==
  /\ (Built /\ kind = "ag") => idxs = AGGathered(Id0(n), par.W) /\ Range(idxs) \subseteq 0..(n - 1)
  /\ (Built /\ kind = "rc" /\ SubOf = "gatherbug") => idxs = AGGathered([j \in 1..n |-> (j - 1) \div Ceil(n, par.nc)], par.W)
\* semi: exactly floor(N*p) samples lose their label, the others keep it
L_Semi == (kind = "semi" /\ Swept) =>
            /\ Cardinality({j \in 1..n : items[j] = Unlabeled}) = (n * par.num) \div par.den
            /\ \A j \in 1..n : items[j] \in {Unlabeled, cls[j]}
\* class groups: samples of one original class are spread over the members of its group only
L_GroupMembers == (kind = "cg" /\ Swept) => \A j \in 1..n : items[j] \div par.cpg = table[cls[j] + 1]
\* termination = deadlock freedom (checked: only `Finished' stutters) + a bounded measure that every step increases
PcRank(p) == CASE p = "cfg" -> 0 [] p = "start" -> 1 [] p = "table" -> 2 [] p = "count" -> 3 [] p = "invert" -> 4
               [] p = "where" -> 5 [] p = "gbase" -> 6 [] p = "pad" -> 7 [] p = "place" -> 8 [] p = "cut" -> 9
               [] p = "fill" -> 10 [] p = "pick" -> 11 [] p = "items" -> 12 [] p = "bulk" -> 13 [] p = "end" -> 14
               [] OTHER -> 15
Measure(r, p, k) == r * 10000 + PcRank(p) * 100 + k
P_Progress == [][Measure(round', pc', i') > Measure(round, pc, i) /\ i' < 100]_pvars
Terminates == <>(pc = "done")
=============================================================================
