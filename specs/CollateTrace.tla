----------------------------- MODULE CollateTrace -----------------------------
(***************************************************************************)
(* Trace validation for Collate.tla (the collator pipeline).  TRACE_FILE   *)
(* holds traces recorded from the REAL KDComposeCollator / KDSingleCollator*)
(* / KDSingleCollatorWrapper (harness/drivers/collate.py): the members are *)
(* probe collators (harness code) with a configurable                      *)
(* default_collate_mode; the batch is [ModeWrapper(ds, mode, rc)[i] ...].  *)
(*   cfg: order, rc, K, entry, mode = item names, idxs, B,                 *)
(*        skeys[b] / svals[b] = keys / values of sample b's ctx            *)
(*   ev:  {a:"m", j, lay, cells, ...}  one per member call: the layout the *)
(*        member received and the B x K matrix of cell values it found     *)
(*        {a:"ret", pair, lay, cells, ckind, rkeys, rvals}  the answer     *)
(*        {a:"refuse"} an assert / raise of kappadata's own making         *)
(*        {a:"escape"} any other exception, {a:"diverge"} deadline passed  *)
(* A cell is the (uniform) value of one item of one sample: tensor items   *)
(* hold (code * 100 + dataset index) * 256 + stamp mask, where member j     *)
(* adds 2^(j-1) to every tensor item it is given; int items hold the class *)
(* ((7 idx + 3) mod 5) or the index.  -1 = not uniform / unreadable.       *)
(*                                                                         *)
(* Obs  (normative, the verdict): the events are consumed one per step and *)
(*      the clauses of Collate.tla are evaluated on the observation, plus  *)
(*      the clauses that need recorded values (content, ctx keys/values).  *)
(* Desc (conformance, informative): the trace is a behaviour of the        *)
(*      machine of _call_impl (Proto).                                     *)
(***************************************************************************)
EXTENDS Collate, Json, IOUtils, TLCExt

VARIABLES tid, l, oFail
tvars == <<vars, tid, l, oFail>>

Traces == JsonDeserialize(IOEnv.TRACE_FILE).traces
ASSUME TLCSet(1, {}) /\ TLCSet(2, {})

Ev(k) == Traces[tid].ev[k]
NEv == Len(Traces[tid].ev)
C == Traces[tid].cfg
Terminal(a) == a \in {"ret", "refuse", "escape", "diverge"}

TInit ==
  /\ tid \in 1..Len(Traces)
  /\ l = 1
  /\ oFail = {}
  /\ InitWith([order |-> C.order, rc |-> C.rc, K |-> C.K, entry |-> C.entry])
  /\ TLCSet(100 + tid, 0)

(* ------------------------------- Obs ----------------------------------- *)
Pow2(n) == IF n <= 0 THEN 1 ELSE 2 ^ n
IsTensorItem(it) == it \in {"x", "z", "m"}
Code(it) == IF it = "x" THEN 1 ELSE IF it = "z" THEN 2 ELSE 3
Expect(it, idx, mask) ==
  IF IsTensorItem(it) THEN (Code(it) * 100 + idx) * 256 + mask
  ELSE IF it = "class" THEN (idx * 7 + 3) % 5 ELSE idx
\* the B x K matrix holds item k of sample b (batch order, mode order), stamped by exactly the members in `mask'
CellsOK(cells, mask) ==
  /\ Len(cells) = C.B
  /\ \A b \in 1..C.B :
       /\ Len(cells[b]) = C.K
       /\ \A k \in 1..C.K : cells[b][k] = Expect(C.mode[k], C.idxs[b], mask)

\* the observation in the vocabulary of Collate.tla, built from the events consumed so far
MemberEvs == {k \in 1..NEv : Ev(k).a = "m"}
ObsOfTrace ==
  LET last == Ev(NEv) IN
    [out |-> last.a,
     seen |-> [k \in 1..(NEv - 1) |-> Ev(k).lay],
     final |-> IF last.a = "ret" THEN last.lay ELSE "other",
     pair |-> IF last.a = "ret" THEN last.pair ELSE FALSE,
     rctx |-> IF last.a = "ret" /\ last.pair /\ last.ckind = "dict" THEN "batched"
              ELSE IF last.a = "ret" /\ last.pair THEN "bad" ELSE "none"]
\* well-formed recording: member events first, exactly one terminal event at the end
WellFormed == /\ NEv >= 1 /\ Terminal(Ev(NEv).a)
              /\ \A k \in 1..(NEv - 1) : Ev(k).a = "m"

\* member j is the j-th call, receives what members 1..j-1 produced (all their stamps, nothing else) with the
\* samples in batch order and the items in mode order
C18_MembersInOrder ==
  Ev(NEv).a = "ret" =>
    \A k \in 1..(NEv - 1) : Ev(k).j = k /\ (Ev(k).lay # "other" => CellsOK(Ev(k).cells, Pow2(k - 1) - 1))
\* the returned batch: field k = item k of the mode for every sample, in batch order, every member applied once
C18_FinalContent ==
  Ev(NEv).a = "ret" => (Ev(NEv).lay # "other" /\ CellsOK(Ev(NEv).cells, Pow2(Len(C.order)) - 1))
\* merged context: no key lost, none invented
SeqToSet(s) == {s[q] : q \in 1..Len(s)}
C18_CtxKeys ==
  (Ev(NEv).a = "ret" /\ C.rc /\ Ev(NEv).pair) =>
     /\ Ev(NEv).ckind = "dict"
     /\ \A b \in 1..C.B : SeqToSet(Ev(NEv).rkeys) = SeqToSet(C.skeys[b])
     /\ Len(Ev(NEv).rkeys) = Cardinality(SeqToSet(Ev(NEv).rkeys))
\* every value is the stack of the per-sample values, in batch order
C18_CtxValues ==
  (Ev(NEv).a = "ret" /\ C.rc /\ Ev(NEv).pair /\ Ev(NEv).ckind = "dict") =>
     /\ Len(Ev(NEv).rvals) = Len(Ev(NEv).rkeys)
     /\ \A q \in 1..Len(Ev(NEv).rkeys) :
          /\ Len(Ev(NEv).rvals[q]) = C.B
          /\ \A b \in 1..C.B : \A r \in 1..Len(C.skeys[b]) :
               C.skeys[b][r] = Ev(NEv).rkeys[q] => Ev(NEv).rvals[q][b] = C.svals[b][r]

Failed ==
  IF ~WellFormed THEN {"WellFormed"}
  ELSE LET c == cfg o == ObsOfTrace IN
    (IF C18_NoEscape(c, o) THEN {} ELSE {"C18_NoEscape"})
    \cup (IF C18_NoRefusal(c, o) THEN {} ELSE {"C18_NoRefusal"})
    \cup (IF C18_AllMembers(c, o) THEN {} ELSE {"C18_AllMembers"})
    \cup (IF C18_MemberLayout(c, o) THEN {} ELSE {"C18_MemberLayout"})
    \cup (IF C18_OnceAtPoint(c, o) THEN {} ELSE {"C18_OnceAtPoint"})
    \cup (IF C18_FinalLayout(c, o) THEN {} ELSE {"C18_FinalLayout"})
    \cup (IF C18_CtxIff(c, o) THEN {} ELSE {"C18_CtxIff"})
    \cup (IF C18_CtxMerged(c, o) THEN {} ELSE {"C18_CtxMerged"})
    \cup (IF C18_MembersInOrder THEN {} ELSE {"C18_MembersInOrder"})
    \cup (IF C18_FinalContent THEN {} ELSE {"C18_FinalContent"})
    \cup (IF C18_CtxKeys THEN {} ELSE {"C18_CtxKeys"})
    \cup (IF C18_CtxValues THEN {} ELSE {"C18_CtxValues"})

\* one recorded event per step; the clauses are evaluated when the terminal event is consumed
ObsNext ==
  /\ l <= NEv
  /\ l' = l + 1
  /\ oFail' = IF l = NEv \/ ~WellFormed THEN Failed ELSE {}
  /\ UNCHANGED <<vars, tid>>
TSpec == TInit /\ [][ObsNext]_tvars

ObsCollect ==
  IF oFail # {} THEN TLCSet(2, TLCGet(2) \cup {<<Traces[tid].id, l - 1, oFail>>})
  ELSE IF l = NEv + 1 /\ NEv >= 1 THEN TLCSet(1, TLCGet(1) \cup {Traces[tid].id})
  ELSE TRUE
Constraint == ObsCollect /\ oFail = {}

(* ------------------------------- Desc ---------------------------------- *)
\* the machine of _call_impl explains the trace: every member call shows the layout the machine has at that
\* point, and the machine ends the way the real call ended
DescNext ==
  /\ Next
  /\ UNCHANGED <<tid, oFail>>
  /\ IF Len(obs'.seen) > Len(obs.seen) /\ pc' # "done"
       THEN l <= NEv /\ Ev(l).a = "m" /\ Ev(l).lay = obs'.seen[Len(obs'.seen)] /\ l' = l + 1
     ELSE IF pc' = "done"
       THEN LET skip == Len(obs'.seen) - Len(obs.seen)   \* v0 wrapper: member call and end in one step
                e == Ev(l + skip)
            IN /\ l + skip = NEv
               /\ skip = 1 => (Ev(l).a = "m" /\ Ev(l).lay = obs'.seen[Len(obs'.seen)])
               /\ e.a = obs'.out
               /\ e.a = "ret" => (e.lay = obs'.final /\ e.pair = obs'.pair)
               /\ l' = NEv + 1
     ELSE l' = l
DescSpec == TInit /\ [][DescNext]_tvars
DescCollect ==
  /\ IF l = NEv + 1 /\ pc = "done" THEN TLCSet(1, TLCGet(1) \cup {Traces[tid].id}) ELSE TRUE
  /\ IF TLCGet(100 + tid) < l - 1 THEN TLCSet(100 + tid, l - 1) ELSE TRUE

Report == PrintT(<<"ACCEPTED", TLCGet(1)>>) /\ PrintT(<<"REJECTED", TLCGet(2)>>)
DescReport == /\ PrintT(<<"ACCEPTED", TLCGet(1)>>) /\ PrintT(<<"REJECTED", {}>>)
=============================================================================
