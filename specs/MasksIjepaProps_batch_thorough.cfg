SPECIFICATION PSpec
CONSTANTS
  Mutant = "none"
  MaxH = 3
  MaxW = 3
  MaxCells = 9
  MaxP = 2
  MaxE = 2
  MaxB = 2
  MaxKeep = 2
  MaxT = 2
  MaxCalls = 1
INVARIANT C17_J_Layout
INVARIANT C17_J_InRange
INVARIANT C17_J_SortedDupFree
INVARIANT C17_J_PredRect
INVARIANT C17_J_PredCommonSize
INVARIANT C17_J_Disjoint
INVARIANT C17_J_EncCommonLen
INVARIANT C17_J_StepSizes
INVARIANT C17_J_SizesObservable
INVARIANT C17_TriesBound
INVARIANT C17_NoRelaxInDomain
INVARIANT C17_KeepsEnough
PROPERTY Terminates
CHECK_DEADLOCK FALSE
