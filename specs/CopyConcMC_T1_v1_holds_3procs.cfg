SPECIFICATION Spec
CONSTANTS
  Procs <- P3
  Files <- T1Files
  Dirs <- T1Dirs
  DirOf <- T1DirOf
  Progs <- T1Progs
  WipeOrder <- T1WipeOrder
  FileOrder <- T1FileOrder
  Inits <- AllInits
  Proto = "v1"
  MaxCrashes = 1
  MaxRounds = 1
  Serial = FALSE
  SerialFirst = "p1"
  KeepHist = FALSE
INVARIANT TypeOK
INVARIANT Truthful
INVARIANT AllReturnedComplete
INVARIANT NoLeftovers
INVARIANT OwnWritesOK
PROPERTY NoUserDamage
PROPERTY CompletedKept
PROPERTY Terminates
CHECK_DEADLOCK FALSE
