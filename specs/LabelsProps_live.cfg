\* liveness on a tiny grid: every behaviour reaches pc = "done" (the large grids use deadlock freedom + P_Progress)
SPECIFICATION PSpec
CONSTANTS
  Proto = "v1"
  Seeded = TRUE
  Kinds = {"cg", "rs", "swap", "ow", "ag", "pl", "rc", "semi", "ls", "oh"}
  MaxN = 2
  MaxNHeavy = 2
  MaxAgN = 3
  MaxC = 2
  MaxSplits = 2
  CGDomain = TRUE
PROPERTY Terminates
CHECK_DEADLOCK TRUE
