-------------------------------- MODULE Cache --------------------------------
(***************************************************************************)
(* SharedDictDataset (kappadata/caching/shared_dict_dataset.py) on top of  *)
(* CachedDataset: several reader processes share one Manager dict.  Every  *)
(* dict operation is one atomic action (the Manager process serialises     *)
(* them); loading from the wrapped dataset and applying the post-cache     *)
(* transform are process-local.                                            *)
(*                                                                         *)
(* Proto = "v1" (current tree):  try: sample = dict[idx]                   *)
(*                               except KeyError: sample = base[idx];      *)
(*                                                dict[idx] = sample       *)
(* Proto = "v0" (original tree): if idx not in dict: load, store           *)
(*                               else: sample = dict[idx]   <- KeyError if *)
(*                               another process cleared in between        *)
(***************************************************************************)
EXTENDS Naturals, FiniteSets, TLC

CONSTANTS Procs, Idx, MaxAcc, MaxClears, Proto

VARIABLES dict,        \* [Idx -> value | None]
          loadsSince,  \* [Idx -> Nat]  loads of the wrapped dataset since the last clear
          pc, req, local, ret, nacc, nclr, err

vars == <<dict, loadsSince, pc, req, local, ret, nacc, nclr, err>>

None == <<"none">>
Base(i) == <<"b", i>>          \* what the wrapped dataset returns for i (opaque)
T(v) == <<"T", v>>             \* the post-cache transform (opaque, not idempotent)

Init ==
  /\ dict = [i \in Idx |-> None]
  /\ loadsSince = [i \in Idx |-> 0]
  /\ pc = [p \in Procs |-> "idle"]
  /\ req = [p \in Procs |-> CHOOSE i \in Idx : TRUE]
  /\ local = [p \in Procs |-> None]
  /\ ret = [p \in Procs |-> None]
  /\ nacc = [p \in Procs |-> 0]
  /\ nclr = 0
  /\ err = FALSE

Idle(p) == pc[p] \in {"idle", "ret"}

Begin(p, i) ==
  /\ Idle(p) /\ nacc[p] < MaxAcc
  /\ pc' = [pc EXCEPT ![p] = IF Proto = "v0" THEN "check" ELSE "read"]
  /\ req' = [req EXCEPT ![p] = i]
  /\ nacc' = [nacc EXCEPT ![p] = @ + 1]
  /\ UNCHANGED <<dict, loadsSince, local, ret, nclr, err>>

\* v0: `idx not in self.shared_dict`
Contains(p) ==
  /\ pc[p] = "check"
  /\ pc' = [pc EXCEPT ![p] = IF dict[req[p]] # None THEN "readhit" ELSE "load"]
  /\ UNCHANGED <<dict, loadsSince, req, local, ret, nacc, nclr, err>>
\* v0: `self.shared_dict[idx]` after a positive membership test; KeyError escapes if the entry is gone
ReadHit(p) ==
  /\ pc[p] = "readhit"
  /\ IF dict[req[p]] # None
       THEN /\ local' = [local EXCEPT ![p] = dict[req[p]]]
            /\ pc' = [pc EXCEPT ![p] = "have"]
            /\ err' = err
       ELSE /\ err' = TRUE
            /\ pc' = [pc EXCEPT ![p] = "idle"]
            /\ local' = local
  /\ UNCHANGED <<dict, loadsSince, req, ret, nacc, nclr>>
\* v1: `self.shared_dict[idx]`, KeyError handled by loading
Read(p) ==
  /\ pc[p] = "read"
  /\ IF dict[req[p]] # None
       THEN /\ local' = [local EXCEPT ![p] = dict[req[p]]]
            /\ pc' = [pc EXCEPT ![p] = "have"]
       ELSE /\ pc' = [pc EXCEPT ![p] = "load"]
            /\ local' = local
  /\ UNCHANGED <<dict, loadsSince, req, ret, nacc, nclr, err>>
Load(p) ==
  /\ pc[p] = "load"
  /\ local' = [local EXCEPT ![p] = Base(req[p])]
  /\ loadsSince' = [loadsSince EXCEPT ![req[p]] = @ + 1]
  /\ pc' = [pc EXCEPT ![p] = "store"]
  /\ UNCHANGED <<dict, req, ret, nacc, nclr, err>>
Store(p) ==
  /\ pc[p] = "store"
  /\ dict' = [dict EXCEPT ![req[p]] = local[p]]
  /\ pc' = [pc EXCEPT ![p] = "have"]
  /\ UNCHANGED <<loadsSince, req, local, ret, nacc, nclr, err>>
\* CachedDataset.__getitem__: the transform is applied on every access, after the cache
Return(p) ==
  /\ pc[p] = "have"
  /\ ret' = [ret EXCEPT ![p] = T(local[p])]
  /\ pc' = [pc EXCEPT ![p] = "ret"]
  /\ UNCHANGED <<dict, loadsSince, req, local, nacc, nclr, err>>
\* dispose(): shared_dict.clear()
BeginClear(p) ==
  /\ Idle(p) /\ nclr < MaxClears
  /\ pc' = [pc EXCEPT ![p] = "clear"]
  /\ nclr' = nclr + 1
  /\ UNCHANGED <<dict, loadsSince, req, local, ret, nacc, err>>
Clear(p) ==
  /\ pc[p] = "clear"
  /\ dict' = [i \in Idx |-> None]
  /\ loadsSince' = [i \in Idx |-> 0]
  /\ pc' = [pc EXCEPT ![p] = "idle"]
  /\ UNCHANGED <<req, local, ret, nacc, nclr, err>>

Next == \E p \in Procs :
          \/ \E i \in Idx : Begin(p, i)
          \/ Contains(p) \/ ReadHit(p) \/ Read(p) \/ Load(p) \/ Store(p) \/ Return(p)
          \/ BeginClear(p) \/ Clear(p)
Spec == Init /\ [][Next]_vars

(* ------------------------------ normative ------------------------------ *)
\* observationally equal to the wrapped dataset, transform applied (once) on every access
Transparent == \A p \in Procs : pc[p] = "ret" => ret[p] = T(Base(req[p]))
NoError == ~err
CacheHoldsBase == \A i \in Idx : dict[i] # None => dict[i] = Base(i)
\* per clear-segment every process loads a sample at most once; a single process at most once
LoadBound == \A i \in Idx : loadsSince[i] <= Cardinality(Procs)
=============================================================================
