SPECIFICATION PSpec
CONSTANTS
  Proto = "v0"
  MaxK = 2
  MaxB = 2
  MinL = 1
  MaxL = 2
INVARIANT M_Answers
INVARIANT M_Layout
INVARIANT M_PadToMax
INVARIANT M_Prefix
INVARIANT M_Zeros
INVARIANT M_OthersDefault
INVARIANT M_CtxIff
INVARIANT M_CtxKeys
INVARIANT M_CtxValues
INVARIANT M_Shaped
INVARIANT M_Depth
INVARIANT M_Counter
PROPERTY Terminates
CHECK_DEADLOCK FALSE
