SPECIFICATION PSpec
CONSTANTS
  D = 4
  MaxMembers = 3
  MaxScales = 5
  MaxScalesComp = 3
  Variant = "fixed"
  Fine = TRUE
  CompFull = FALSE
INVARIANT TypeOK
INVARIANT C15_RestoreAtOne
INVARIANT C15_CollapseAtZero
INVARIANT C15_BetweenEnds
INVARIANT C15_Monotone
INVARIANT C15_LastFactorOnly
INVARIANT C15_NoRefusal
CHECK_DEADLOCK FALSE
