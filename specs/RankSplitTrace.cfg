SPECIFICATION TSpec
CONSTANTS
  Mutant = "none"
CONSTRAINT Constraint
POSTCONDITION Report
CHECK_DEADLOCK FALSE
