SPECIFICATION PSpec
CONSTANTS
  MaxTry = 2
  Mutant = "noguard"
  MaxH = 3
  MaxW = 3
  MaxCells = 9
  MaxN = 1
  MaxV = 1
  Den = 2
INVARIANT TypeOK
INVARIANT Accounting
INVARIANT C17_D_OnePerViewSample
INVARIANT C17_D_Boolean
INVARIANT C17_D_Budget
INVARIANT C17_D_UpperRatio
INVARIANT C17_D_UpperRatioAlways
INVARIANT C17_D_BudgetAlways

CHECK_DEADLOCK FALSE
