---------------------------- MODULE EpochSamplers ----------------------------
(***************************************************************************)
(* C13 - how one epoch is composed by                                      *)
(*   ClassBalancedSampler  (kappadata/samplers/class_balanced_sampler.py)  *)
(*   SemiSampler           (kappadata/samplers/semi_sampler.py)            *)
(*   WeightedSampler       (kappadata/samplers/weighted_sampler.py)        *)
(*                                                                         *)
(* Dataset indices are 0..n-1; cls[i+1] is the class of index i (-1 =      *)
(* unlabeled, only for the semi-supervised sampler).                       *)
(*                                                                         *)
(* NORMATIVE PART: operators over observed values (class list, reported    *)
(* lengths, the rank streams of one epoch).  Used on the machine's output  *)
(* by EpochSamplersProps.tla and on values recorded from the real samplers *)
(* by EpochSamplersTrace.tla.                                              *)
(* DESCRIPTIVE PART: the three draw algorithms, one action per loop        *)
(* iteration / generator refill / decision.  The generator is modelled as  *)
(* nondeterministic choice of a permutation (randperm) or of a not yet     *)
(* drawn positive-weight index (multinomial without replacement).          *)
(* Mutant # "none" switches on one realistic fault (negative controls).    *)
(***************************************************************************)
EXTENDS Integers, Sequences, FiniteSets, TLC

CONSTANT Mutant    \* "none" | "cb_nocut" | "semi_replace" | "w_replace"

Min(a, b) == IF a < b THEN a ELSE b
Abs(a) == IF a < 0 THEN 0 - a ELSE a
CeilDiv(a, b) == (a + b - 1) \div b
Range(s) == {s[i] : i \in 1..Len(s)}
RECURSIVE CatAll(_)
CatAll(ss) == IF ss = <<>> THEN <<>> ELSE Head(ss) \o CatAll(Tail(ss))
CountIn(s, x) == Cardinality({i \in 1..Len(s) : s[i] = x})
NoDup(s) == Cardinality(Range(s)) = Len(s)
\* indices (ascending) whose class satisfies P
PoolOf(cls, P(_)) == SelectSeq([i \in 1..Len(cls) |-> i - 1], LAMBDA x : P(cls[x + 1]))

(* ============================ NORMATIVE PART ============================ *)
\* all emitted indices are valid for the dataset
ValidIdx(ss, n) == \A r \in 1..Len(ss) : \A k \in 1..Len(ss[r]) : ss[r][k] \in 0..(n - 1)
\* every rank reports the documented length and yields exactly that many entries
LengthIs(ss, lens, W, len) ==
  /\ Len(ss) = W /\ Len(lens) = W
  /\ \A r \in 1..W : lens[r] = len /\ Len(ss[r]) = len

(* ---- class-balanced ---- *)
ClassCount(cls, c) == Cardinality({i \in 1..Len(cls) : cls[i] = c})
\* samples_per_class: the given value, by default the size of the largest class
SpcOf(cls, C, spc) ==
  IF spc # 0 THEN spc ELSE CHOOSE m \in 0..Len(cls) : /\ \E c \in 0..(C - 1) : ClassCount(cls, c) = m
                                                     /\ \A c \in 0..(C - 1) : ClassCount(cls, c) <= m
CB_Len(C, s, W) == (C * s) \div W
\* over all ranks together: exactly s indices of every class; if W does not divide C*s only a tail (< W entries)
\* of the epoch is missing, so no class exceeds s
CB_PerClass(ss, cls, C, s, W) ==
  LET all == CatAll(ss)
      n(c) == Cardinality({i \in 1..Len(all) : cls[all[i] + 1] = c})
  IN /\ \A c \in 0..(C - 1) : n(c) <= s /\ ((C * s) % W = 0 => n(c) = s)
     /\ C * s - Len(all) \in 0..(W - 1)
\* a class's samples are reused as evenly as possible (complete epochs: W divides C*s): the multiplicities of
\* two samples of one class differ by at most one ...
EvenPairwise(all, cls) ==
  \A i, j \in 0..(Len(cls) - 1) : cls[i + 1] = cls[j + 1] => Abs(CountIn(all, i) - CountIn(all, j)) <= 1
\* ... which is the same as: every sample of a class occurs floor or ceil of (the class's entries / the class's
\* size) times.  This linear form is the one evaluated on traces; EpochSamplersProps checks that the two agree.
Even(all, cls) ==
  \A c \in Range(cls) :
     LET members == {i \in 0..(Len(cls) - 1) : cls[i + 1] = c}
         total == Cardinality({k \in 1..Len(all) : all[k] \in members})
         P == Cardinality(members)
     IN \A i \in members : CountIn(all, i) \in {total \div P, CeilDiv(total, P)}
CB_Even(ss, cls, C, s, W) == (C * s) % W = 0 => Even(CatAll(ss), cls)

(* ---- semi-supervised ---- *)
IsLab(x) == x # -1
IsUnl(x) == x = -1
NLab(cls) == Cardinality({i \in 1..Len(cls) : cls[i] # -1})
NUnl(cls) == Cardinality({i \in 1..Len(cls) : cls[i] = -1})
\* the three documented length modes
Semi_Eff(cls, nl, nu, mode) ==
  (CASE mode = "labeled"   -> NLab(cls) \div nl
     [] mode = "unlabeled" -> NUnl(cls) \div nu
     [] mode = "all"       -> (NLab(cls) + NUnl(cls)) \div (nl + nu)) * (nl + nu)
Semi_Len(cls, nl, nu, mode, W) == Semi_Eff(cls, nl, nu, mode) \div W
\* num_labeled labeled, then num_unlabeled unlabeled indices, in strict alternation from the start of the stream
Semi_Alternation(s, cls, nl, nu) ==
  \A k \in 1..Len(s) : IsLab(cls[s[k] + 1]) <=> ((k - 1) % (nl + nu) < nl)
\* a pool is gone through completely before any of its elements repeats: the part of the stream that comes from
\* one pool is a concatenation of permutations of that pool (the last one possibly incomplete)
CycleOK(sub, P) ==
  \A b \in 0..((Len(sub) - 1) \div P) :
     LET blk == {i \in 1..Len(sub) : (i - 1) \div P = b} IN Cardinality({sub[i] : i \in blk}) = Cardinality(blk)
Semi_PoolCycle(s, cls) ==
  /\ CycleOK(SelectSeq(s, LAMBDA x : IsLab(cls[x + 1])), NLab(cls))
  /\ CycleOK(SelectSeq(s, LAMBDA x : IsUnl(cls[x + 1])), NUnl(cls))
\* "differently seeded": two ranks' streams differ.  Decided only where a coincidence of two independently
\* shuffled streams has probability < 2^-60: at least 20 draws are made while >= 8 elements of the pool's current
\* permutation are still to come (8^20 = 2^60)
Strong(P, k) == Cardinality({j \in 0..(k - 1) : P - (j % P) >= 8})
Semi_DiffDomain(s, cls) ==
  Strong(NLab(cls), Len(SelectSeq(s, LAMBDA x : IsLab(cls[x + 1]))))
    + Strong(NUnl(cls), Len(SelectSeq(s, LAMBDA x : IsUnl(cls[x + 1])))) >= 20
Semi_RanksDiffer(ss, cls) ==
  \A r \in 1..Len(ss) : Semi_DiffDomain(ss[r], cls) => \A q \in 1..Len(ss) : q # r => ss[r] # ss[q]

(* ---- weighted ---- *)
W_Size(n, size) == IF size = 0 THEN n ELSE size
W_Len(n, size, W) == W_Size(n, size) \div W
\* no index twice within an epoch (over all ranks together)
W_NoRepeat(ss) == NoDup(CatAll(ss))

(* =========================== DESCRIPTIVE PART =========================== *)
VARIABLES cfg,   \* [kind, cls, C, spc, W, shuffle, nl, nu, mode, size, wpos]
          pc,    \* "cb_for" | "cb_while" | "semi" | "w_draw" | "split" | "done"
          ci,    \* class-balanced: index of the class the for loop is at
          rem,   \* class-balanced: remaining_indices of the while loop
          acc,   \* class-balanced / weighted: the global list `indices' built so far
          pL, kL, pU, kU,   \* semi: current permutation of each pool and how many of its entries are consumed
          pos,   \* semi: loop variable i
          out    \* the rank streams (semi: the stream of one generic rank)
vars == <<cfg, pc, ci, rem, acc, pL, kL, pU, kU, pos, out>>

Perms(n) == { p \in [1..n -> 1..n] : \A i, j \in 1..n : i # j => p[i] # p[j] }
Ident(n) == [i \in 1..n |-> i]
\* a family of 2m rearrangements standing for the final randperm of the class-balanced epoch
Shuffles(m) == { [i \in 1..m |-> ((i - 1 + k) % m) + 1] : k \in 0..(m - 1) }
                 \cup { [i \in 1..m |-> ((m - i + k) % m) + 1] : k \in 0..(m - 1) }

N == Len(cfg.cls)
Spc == SpcOf(cfg.cls, cfg.C, cfg.spc)
Pool(c) == PoolOf(cfg.cls, LAMBDA x : x = c)          \* (classes == c).nonzero()
Lab == PoolOf(cfg.cls, IsLab)
Unl == PoolOf(cfg.cls, IsUnl)
EffLen == CASE cfg.kind = "cb" -> cfg.C * Spc
            [] cfg.kind = "semi" -> Semi_Eff(cfg.cls, cfg.nl, cfg.nu, cfg.mode)
            [] cfg.kind = "w" -> W_Size(N, cfg.size)
LenCode == EffLen \div cfg.W                           \* __len__ of all three samplers
\* indices[rank:effective_length:world_size][:len(self)]
Stride(s, r, stop, W) ==
  LET hi == Min(stop, Len(s))
      cnt == IF r - 1 < hi THEN CeilDiv(hi - (r - 1), W) ELSE 0
  IN [k \in 1..cnt |-> s[(r - 1) + (k - 1) * W + 1]]
RankSlice(s, r) == LET t == Stride(s, r, EffLen, cfg.W) IN SubSeq(t, 1, Min(Len(t), LenCode))

InitWith(c) ==
  /\ cfg = c
  /\ pc = (CASE c.kind = "cb" -> "cb_for" [] c.kind = "semi" -> "semi" [] c.kind = "w" -> "w_draw")
  /\ ci = 0 /\ rem = 0 /\ acc = <<>>
  /\ pL = <<>> /\ kL = 0 /\ pU = <<>> /\ kU = 0 /\ pos = 0
  /\ out = [r \in 1..(IF c.kind = "semi" THEN 1 ELSE c.W) |-> <<>>]
Load(c) ==
  /\ cfg' = c
  /\ pc' = (CASE c.kind = "cb" -> "cb_for" [] c.kind = "semi" -> "semi" [] c.kind = "w" -> "w_draw")
  /\ ci' = 0 /\ rem' = 0 /\ acc' = <<>>
  /\ pL' = <<>> /\ kL' = 0 /\ pU' = <<>> /\ kU' = 0 /\ pos' = 0
  /\ out' = [r \in 1..(IF c.kind = "semi" THEN 1 ELSE c.W) |-> <<>>]

(* ---- ClassBalancedSampler.__iter__ ---- *)
\* for indices_per_class in self.indices_per_class: remaining_indices = self.samples_per_class
CBNextClass ==
  /\ pc = "cb_for" /\ ci < cfg.C
  /\ rem' = Spc
  /\ pc' = "cb_while"
  /\ UNCHANGED <<cfg, ci, acc, pL, kL, pU, kU, pos, out>>
\* one iteration of `while remaining_indices > 0`: perm = randperm(len(pool)) (arange without shuffle);
\* perm = perm[:remaining]; indices.append(pool[perm]); remaining -= len(perm)
CBRound ==
  /\ pc = "cb_while" /\ rem > 0
  /\ LET pool == Pool(ci)
         P == Len(pool)
         take == IF Mutant = "cb_nocut" THEN P ELSE Min(rem, P)
     IN \E p \in (IF cfg.shuffle THEN Perms(P) ELSE {Ident(P)}) :
          /\ acc' = acc \o [j \in 1..take |-> pool[p[j]]]
          /\ rem' = rem - take
  /\ UNCHANGED <<cfg, pc, ci, pL, kL, pU, kU, pos, out>>
CBClassDone ==
  /\ pc = "cb_while" /\ rem <= 0
  /\ ci' = ci + 1
  /\ pc' = "cb_for"
  /\ UNCHANGED <<cfg, rem, acc, pL, kL, pU, kU, pos, out>>
\* indices = concat(indices); if shuffle: indices = indices[randperm(len(indices))]
CBShuffle ==
  /\ pc = "cb_for" /\ ci = cfg.C
  /\ \E s \in (IF cfg.shuffle THEN Shuffles(Len(acc)) ELSE {Ident(Len(acc))}) :
        acc' = [i \in 1..Len(acc) |-> acc[s[i]]]
  /\ pc' = "split"
  /\ UNCHANGED <<cfg, ci, rem, pL, kL, pU, kU, pos, out>>

(* ---- WeightedSampler.__iter__ ---- *)
\* torch.multinomial(weights, effective_length, replacement=False): one draw per step among the not yet drawn
\* indices of positive weight
WDraw ==
  /\ pc = "w_draw" /\ Len(acc) < EffLen
  /\ \E x \in (IF Mutant = "w_replace" THEN cfg.wpos ELSE cfg.wpos \ Range(acc)) : acc' = Append(acc, x)
  /\ UNCHANGED <<cfg, pc, ci, rem, pL, kL, pU, kU, pos, out>>
WDrawn ==
  /\ pc = "w_draw" /\ Len(acc) = EffLen
  /\ pc' = "split"
  /\ UNCHANGED <<cfg, ci, rem, acc, pL, kL, pU, kU, pos, out>>

\* distribute among ranks, drop last (every rank does this on its own copy of the same list)
Split ==
  /\ pc = "split"
  /\ out' = [r \in 1..cfg.W |-> RankSlice(acc, r)]
  /\ pc' = "done"
  /\ UNCHANGED <<cfg, ci, rem, acc, pL, kL, pU, kU, pos>>

(* ---- SemiSampler.__iter__ (one rank; every rank runs the same loop with its own generator) ---- *)
LabTurn == pos % (cfg.nl + cfg.nu) < cfg.nl
\* _iterator: `while True: yield from randperm(len(idxs))` - a new permutation when the old one is used up
SemiRefillL ==
  /\ pc = "semi" /\ pos < LenCode /\ LabTurn /\ kL = Len(pL)
  /\ \E p \in Perms(Len(Lab)) : pL' = p
  /\ kL' = 0
  /\ UNCHANGED <<cfg, pc, ci, rem, acc, pU, kU, pos, out>>
SemiRefillU ==
  /\ pc = "semi" /\ pos < LenCode /\ ~LabTurn /\ kU = Len(pU)
  /\ \E p \in Perms(Len(Unl)) : pU' = p
  /\ kU' = 0
  /\ UNCHANGED <<cfg, pc, ci, rem, acc, pL, kL, pos, out>>
\* yield self.labeled_idxs[next(labeled_iterator)]
SemiEmitL ==
  /\ pc = "semi" /\ pos < LenCode /\ LabTurn /\ kL < Len(pL)
  /\ out' = [out EXCEPT ![1] = Append(@, IF Mutant = "semi_replace" THEN Lab[pL[1]] ELSE Lab[pL[kL + 1]])]
  /\ kL' = kL + 1
  /\ pos' = pos + 1
  /\ UNCHANGED <<cfg, pc, ci, rem, acc, pL, pU, kU>>
SemiEmitU ==
  /\ pc = "semi" /\ pos < LenCode /\ ~LabTurn /\ kU < Len(pU)
  /\ out' = [out EXCEPT ![1] = Append(@, Unl[pU[kU + 1]])]
  /\ kU' = kU + 1
  /\ pos' = pos + 1
  /\ UNCHANGED <<cfg, pc, ci, rem, acc, pL, kL, pU>>
SemiDone ==
  /\ pc = "semi" /\ pos = LenCode
  /\ pc' = "done"
  /\ UNCHANGED <<cfg, ci, rem, acc, pL, kL, pU, kU, pos, out>>

Next == CBNextClass \/ CBRound \/ CBClassDone \/ CBShuffle \/ WDraw \/ WDrawn \/ Split
          \/ SemiRefillL \/ SemiRefillU \/ SemiEmitL \/ SemiEmitU \/ SemiDone
=============================================================================
