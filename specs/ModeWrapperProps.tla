--------------------------- MODULE ModeWrapperProps ---------------------------
(* Model checking ModeWrapper.tla: every mode string up to MaxLen over the item alphabet, every declared-group set. *)
EXTENDS ModeWrapper

CONSTANT MaxLen
Items == {"x", "class", "y", "z", "index", "ctx.k"}
Decls == { <<>>,
           << <<"x", "class">> >>,
           << <<"class", "x">> >>,
           << <<"x", "y", "z">> >>,
           << <<"x", "class">>, <<"y", "z">> >>,
           << <<"y", "z">>, <<"class", "x">> >> }
Modes == UNION { [1..n -> Items] : n \in 1..MaxLen }

PInit == \E m \in {mm \in Modes : InDomain(mm)}, d \in Decls : Init0(m, d)
PCtorIter == CtorIter
PCtorDone == CtorDone
PCall == Call
PUnfuse == Unfuse
PNext == PCtorIter \/ PCtorDone \/ PCall \/ PUnfuse
PSpec == PInit /\ [][PNext]_vars /\ WF_vars(PNext)

Done == pc = "done"
C01_PositionsRight == Done => PositionsRight(mode, out)
C01_FreshCalls == Done => FreshCalls(mode, out, 0, cid)
C01_JointOnce == Done => JointOnce(mode, decl, out)
C01_NoError == err = "none"
\* bookkeeping invariants of the constructor
C01_TableCoversAll ==
  (pc # "ctor") => /\ Len(fItems) = Len(fIdxs)
                   /\ UNION {SeqRange(fIdxs[n]) : n \in 1..Len(fIdxs)} = 1..Len(mode)
C01_Terminates == <>Done
=============================================================================
