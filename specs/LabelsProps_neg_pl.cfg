\* negative control: the pseudo-label bulk accessor ignoring the threshold must violate P_Coherent
SPECIFICATION PSpec
CONSTANTS
  Proto = "v0"
  Seeded = TRUE
  Kinds = {"pl"}
  MaxN = 2
  MaxNHeavy = 2
  MaxAgN = 7
  MaxC = 2
  MaxSplits = 2
  CGDomain = TRUE
INVARIANT P_Coherent
INVARIANT P_RefuseOnlyTopK
INVARIANT P_ItemInRange
INVARIANT P_BulkInRange
INVARIANT P_Functional
INVARIANT P_EncShape
INVARIANT P_EncNonNeg
INVARIANT P_EncSumOne
INVARIANT P_EncArgmax
INVARIANT P_EncBulk
INVARIANT L_CountCG
INVARIANT L_CountRS
INVARIANT L_Gathered
INVARIANT L_Semi
INVARIANT L_GroupMembers
PROPERTY P_Frame
CHECK_DEADLOCK FALSE
