SPECIFICATION PSpec
CONSTANTS
  PMaxN = 3
  PMaxRep = 3
  PMaxW = 3
  PVariant = "v0"
INVARIANT Q_NoError
INVARIANT Q_Length
INVARIANT Q_Valid
INVARIANT Q_SeqOrder
INVARIANT Q_Runs
INVARIANT Q_Distinct
INVARIANT Q_RankSlice
INVARIANT Q_AllClauses
PROPERTY PTerminates
CHECK_DEADLOCK FALSE
