SPECIFICATION TSpec
CONSTANTS
  Tol = 2
CONSTRAINT Constraint
POSTCONDITION Report
CHECK_DEADLOCK FALSE
