SPECIFICATION PSpec
CONSTANTS
  MaxTry = 2
  Mutant = "none"
  MaxH = 3
  MaxW = 3
  MaxCells = 6
  MaxN = 2
  MaxV = 2
  Den = 2
INVARIANT TypeOK
INVARIANT Accounting
INVARIANT C17_D_OnePerViewSample
INVARIANT C17_D_Boolean
INVARIANT C17_D_Budget
INVARIANT C17_D_UpperRatio
INVARIANT C17_D_UpperRatioAlways
INVARIANT C17_D_BudgetAlways
PROPERTY Terminates
CHECK_DEADLOCK FALSE
