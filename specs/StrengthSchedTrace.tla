-------------------------- MODULE StrengthSchedTrace --------------------------
(***************************************************************************)
(* Trace validation for C15 (scheduled transform).  IOEnv.TRACE_FILE holds *)
(*   {"traces": [{"id": n, "cfg": {...}, "ev": [...]}]}                    *)
(* recorded by harness/drivers/strength.py from REAL KDScheduledTransform  *)
(* objects: W worker copies driven by a simulated loader (random           *)
(* interleaving of the workers) or W real DataLoader worker processes.     *)
(*   cfg.W, cfg.BS, cfg.NB   workers, batch size, number of global batches *)
(*   cfg.sched[b + 1]        the shipped schedule object's value at b of   *)
(*                           NB (fixed point 10^-6) - the definition of    *)
(*                           "the schedule's value at b"                   *)
(* one event per transformed sample, in the order the samples were         *)
(* produced:                                                               *)
(*   a    "s" | "raise"                                                    *)
(*   b    global batch the sample belongs to (position of its batch in the *)
(*        loader's batch sequence), j its position inside the batch        *)
(*   r    worker that produced it                                          *)
(*   app  strength that reached the wrapped transform for this sample      *)
(*        (a harness transform inside the wrapped composition reports the  *)
(*        factor it was last scaled with)                                  *)
(*   ctx  ctx["<prefix>.strength"] of the sample (-1000000: key missing)   *)
(*   ilv / wlv  parameter leaves of the wrapped real transforms after the  *)
(*        call / of fresh twins scaled by the schedule's value at b        *)
(* Normative clauses only; the round-robin assignment r = b mod W that the *)
(* model StrengthSched.tla assumes of the loader is checked separately     *)
(* (register 3) and reported, it is not part of the verdict.               *)
(***************************************************************************)
EXTENDS Strength, Json, IOUtils, TLCExt

CONSTANTS Tol

VARIABLES tid, l, fail, got, rr
tvars == <<tid, l, fail, got, rr>>

Traces == JsonDeserialize(IOEnv.TRACE_FILE).traces
ASSUME TLCSet(1, {}) /\ TLCSet(2, {}) /\ TLCSet(3, {})

Cfg == Traces[tid].cfg
Ev(i) == Traces[tid].ev[i]
NEv == Len(Traces[tid].ev)
Batches == 0..(Cfg.NB - 1)

Clauses(i, g) ==
  LET e == Ev(i) IN
  IF e.a = "raise" THEN {"NoRefusal"} ELSE
  IF e.b \notin Batches THEN {"InSchedule"} ELSE
     \* every sample of global batch b is transformed with the schedule's value at b ...
     (IF ~Near(e.app, Cfg.sched[e.b + 1], Tol) THEN {"ScheduleAtBatch"} ELSE {})
     \* ... which is what the real wrapped transforms were scaled to
     \cup (IF ~NearSeq(e.ilv, e.wlv, Tol) THEN {"InnerFollows"} ELSE {})
     \* ... and reports that value in the context
     \cup (IF ~Near(e.ctx, Cfg.sched[e.b + 1], Tol) THEN {"CtxReports"} ELSE {})
     \* full batches: every batch is transformed completely, nothing twice
     \cup (IF g[e.b] > Cfg.BS THEN {"AllSamples"} ELSE {})
     \cup (IF i = NEv /\ \E b \in Batches : g[b] # Cfg.BS THEN {"AllSamples"} ELSE {})

TInit ==
  /\ tid \in 1..Len(Traces)
  /\ l = 1
  /\ fail = {}
  /\ got = [b \in 0..(Traces[tid].cfg.NB - 1) |-> 0]
  /\ rr = TRUE

TNext ==
  /\ l <= NEv /\ fail = {}
  /\ got' = IF Ev(l).a = "s" /\ Ev(l).b \in Batches THEN [got EXCEPT ![Ev(l).b] = @ + 1] ELSE got
  /\ fail' = Clauses(l, got')
  /\ rr' = (rr /\ (Ev(l).a = "s" => Ev(l).r = Ev(l).b % Cfg.W))
  /\ l' = l + 1
  /\ UNCHANGED tid

TSpec == TInit /\ [][TNext]_tvars

Collect ==
  /\ IF fail # {} THEN TLCSet(2, TLCGet(2) \cup {<<Traces[tid].id, l - 1, fail>>})
     ELSE IF l = NEv + 1 THEN TLCSet(1, TLCGet(1) \cup {Traces[tid].id})
     ELSE TRUE
  /\ IF (l = NEv + 1 \/ fail # {}) /\ rr THEN TLCSet(3, TLCGet(3) \cup {Traces[tid].id}) ELSE TRUE
Constraint == Collect /\ fail = {}

\* sets are printed as one-line JSON
Report == /\ PrintT(<<"ACCEPTED", ToJson(TLCGet(1))>>) /\ PrintT(<<"REJECTED", ToJson(TLCGet(2))>>)
          /\ PrintT(<<"ROUNDROBIN", ToJson(TLCGet(3))>>)
=============================================================================
