------------------------------ MODULE MasksTrace ------------------------------
(***************************************************************************)
(* C17 - trace validation.  TRACE_FILE holds                               *)
(*   {"traces": [{"id": n, "kind": "dino" | "ijepa" | "dinoblk",           *)
(*                "cfg": {...}, "ev": [...]}]}                             *)
(* recorded from the REAL collators (harness/drivers/masks.py) at the      *)
(* public API: collator(samples) -> (batch, ctx).  One trace = one         *)
(* configuration, several calls (on one or more collator instances).       *)
(*                                                                         *)
(* dino    cfg {H, W, V, p:[num,den], rmax:[num,den]}                      *)
(*         ev  {a:"call", B, shape, isbool, m:[[True patches]...],         *)
(*              bin, bout}                                                 *)
(* ijepa   cfg {H, W, P, E, minKeep, encMinArea, predMaxArea}              *)
(*         ev  {a:"call", inst, step, B, enc:[[..]..], pred:[[..]..],      *)
(*              bin, bout, esz:[eh,ew], wit:[[top,left,bits]..]}              *)
(*         step = number of earlier calls on the same instance;            *)
(*         esz / wit = encoder block size and, per encoder row, block      *)
(*         position and the set of applied predictor masks (bit mask)      *)
(*         proposed by the recorder (a WITNESS: the clause is evaluated    *)
(*         here)                                                           *)
(* both    {a:"exc", ...} the call raised; {a:"diverge", ...} the call     *)
(*         did not return within its deadline                              *)
(*         bin / bout = equality classes of the expected (default_collate  *)
(*         of the samples) and the returned batch data                     *)
(* dinoblk cfg {H, W}; ev {a:"blk", before, remaining, delta, after}:      *)
(*         calls of the private _mask_block, checked for CONFORMANCE with  *)
(*         MasksDino.tla (TryPlace / give-up); never verdict-bearing       *)
(*                                                                         *)
(* Every event is judged by the normative clauses of Masks.tla evaluated   *)
(* on the OBSERVED values; the names of the failed clauses are collected.  *)
(***************************************************************************)
EXTENDS Masks, Json, IOUtils, TLC, TLCExt

VARIABLES tid, l, fail, seen
tvars == <<tid, l, fail, seen>>

Traces == JsonDeserialize(IOEnv.TRACE_FILE).traces
ASSUME TLCSet(1, {}) /\ TLCSet(2, {})

Tr == Traces[tid]
Ev(i) == Tr.ev[i]
NEv == Len(Tr.ev)
Sets(rows) == [i \in 1..Len(rows) |-> Range(rows[i])]
If(cond, name) == IF cond THEN {} ELSE {name}       \* {} when the clause holds

(* ------------------------------- DINO ---------------------------------- *)
DinoCfg(e) == [H |-> Tr.cfg.H, W |-> Tr.cfg.W, B |-> e.B, V |-> Tr.cfg.V, p |-> Tr.cfg.p, rmax |-> Tr.cfg.rmax]
DinoFails(e) ==
  LET c == DinoCfg(e)
      ms == Sets(e.m) IN
    If(D_OnePerViewSample(c, e.shape, ms), "D_OnePerViewSample")
    \cup If(D_Boolean(c, e.isbool, ms), "D_Boolean")
    \cup If(D_Budget(c, ms), "D_Budget")
    \cup If(D_UpperRatio(c, ms), "D_UpperRatio")
    \cup If(e.bin = e.bout, "PassThrough")

(* ------------------------------- I-JEPA -------------------------------- *)
PredSize(c, pred) == IF Len(pred) > 0 /\ IsRect(pred[1], c.W) THEN <<RectH(pred[1], c.W), RectW(pred[1], c.W)>>
                     ELSE <<0, 0>>
SizesOf(c, e) == [step |-> e.step, sz |-> PredSize(c, e.pred) \o e.esz]
EncBlockOK(c, e) ==
  /\ Len(e.wit) = Len(e.enc) /\ Len(e.esz) = 2
  /\ \A r \in 1..Len(e.enc) :
       EncFromBlock(c, e.B, e.enc[r], ((r - 1) % e.B) + 1, e.pred, e.esz[1], e.esz[2],
                    e.wit[r][1], e.wit[r][2], BitsOf(e.wit[r][3], c.P))
IjepaFails(e) ==
  LET c == Tr.cfg
      layout == J_Layout(c, e.B, e.enc, e.pred)
      inrange == J_InRange(c, e.enc) /\ J_InRange(c, e.pred) IN
    If(layout, "J_Layout")
    \cup If(inrange, "J_InRange")
    \cup If(J_SortedDupFree(e.enc) /\ J_SortedDupFree(e.pred), "J_SortedDupFree")
    \cup If(J_PredRect(c, e.pred), "J_PredRect")
    \cup If(J_PredCommonSize(c, e.pred), "J_PredCommonSize")
    \cup If(IF layout THEN J_Disjoint(c, e.B, e.enc, e.pred) ELSE TRUE, "J_Disjoint")
    \cup If(J_EncCommonLen(c, e.enc), "J_EncCommonLen")
    \* block sizes depend only on the step counter: (a) the proposed encoder block size explains every encoder row,
    \* (b) every earlier call with the same step (any instance) had the same predictor and encoder block size
    \cup If(IF layout /\ inrange THEN EncBlockOK(c, e) ELSE TRUE, "J_StepSizes_EncBlock")
    \cup If(\A s \in seen : SameStepSameSizes(s.step, s.sz, e.step, SizesOf(c, e).sz), "J_StepSizes")
    \cup If(e.bin = e.bout, "PassThrough")

(* --------------------- DINO _mask_block conformance -------------------- *)
BlkConforms(e) ==
  LET H == Tr.cfg.H
      W == Tr.cfg.W
      before == Range(e.before)
      after == Range(e.after) IN
    \/ e.delta = 0 /\ after = before                       \* ten rejected attempts
    \/ \E h \in 1..(H - 1), w \in 1..(W - 1) : \E top \in 0..(H - h), left \in 0..(W - w) :
          LET new == Block(top, left, h, w, W) \ before IN
            /\ new # {} /\ Cardinality(new) <= e.remaining
            /\ after = before \cup new /\ e.delta = Cardinality(new)

Fails(e) ==
  IF e.a = "exc" THEN {"NoError"}
  ELSE IF e.a = "diverge" THEN {"Terminates"}
  ELSE IF Tr.kind = "dino" THEN DinoFails(e)
  ELSE IF Tr.kind = "ijepa" THEN IjepaFails(e)
  ELSE If(BlkConforms(e), "Desc_MaskBlock")

TInit == /\ tid \in 1..Len(Traces) /\ l = 1 /\ fail = {} /\ seen = {}
TNext ==
  /\ l <= NEv /\ fail = {}
  /\ fail' = Fails(Ev(l))
  /\ seen' = IF Tr.kind = "ijepa" /\ Ev(l).a = "call" THEN seen \cup {SizesOf(Tr.cfg, Ev(l))} ELSE seen
  /\ l' = l + 1
  /\ UNCHANGED tid
TSpec == TInit /\ [][TNext]_tvars

\* register 1: ids of traces whose every event satisfied every clause; register 2: <<id, event number, failed clauses>>
Collect ==
  IF fail # {} THEN TLCSet(2, TLCGet(2) \cup {<<Tr.id, l - 1, fail>>})
  ELSE IF l = NEv + 1 THEN TLCSet(1, TLCGet(1) \cup {Tr.id})
  ELSE TRUE
Constraint == Collect /\ fail = {}
Report == PrintT(<<"ACCEPTED", TLCGet(1)>>) /\ PrintT(<<"REJECTED", TLCGet(2)>>)
=============================================================================
