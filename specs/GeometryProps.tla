---------------------------- MODULE GeometryProps ----------------------------
(***************************************************************************)
(* Model-checking harness for Geometry.tla: kind and input extent are      *)
(* chosen in Init, the remaining parameters by a first step `Configure'    *)
(* (TLC's workers share the enumeration); the clauses of C14 are stated    *)
(* over the answer `res' of the descriptive machine.                       *)
(***************************************************************************)
EXTENDS Geometry

CONSTANTS MaxHW,      \* input extents 1..MaxHW (crop kinds)
          MaxT,       \* target extents 1..MaxT
          MaxSmall,   \* extents of the kinds with set-valued state (two crops, erasing)
          MaxLong     \* extents of the cheap deterministic kinds (pad, resize, mask axis, multi crop)

VARIABLES configured
pvars == <<vars, configured>>

Kinds == {"rc", "trc", "rrc", "er", "sa", "sc", "sp", "sr", "mc", "pi"}

Pads == {<<0, 0, 0, 0>>, <<1, 1, 1, 1>>, <<1, 0, 1, 0>>, <<0, 2, 0, 2>>, <<1, 0, 0, 2>>}
Overlaps == {<<<<0, 1>>, <<1, 1>>>>, <<<<0, 1>>, <<1, 2>>>>, <<<<1, 4>>, <<1, 2>>>>, <<<<1, 2>>, <<1, 1>>>>,
             <<<<1, 1>>, <<1, 1>>>>, <<<<0, 1>>, <<0, 1>>>>}
Ratios == {<<<<3, 4>>, <<4, 3>>>>, <<<<1, 1>>, <<1, 1>>>>, <<<<1, 2>>, <<2, 1>>>>, <<<<1, 3>>, <<3, 1>>>>,
           <<<<2, 1>>, <<3, 1>>>>, <<<<1, 4>>, <<1, 2>>>>, <<<<3, 1>>, <<4, 1>>>>, <<<<1, 5>>, <<1, 4>>>>}
Bases == {<<4, 2>>, <<8, 4>>, <<3, 3>>, <<2, 6>>}
ResizeRatios == {<<1, 2>>, <<3, 4>>, <<1, 1>>, <<3, 2>>, <<2, 1>>}
Counts == {<<1, 1>>, <<2, 2>>, <<1, 3>>}

Perms(n) == IF n <= 4 THEN {p \in [1..n -> 0..(n - 1)] : {p[q] : q \in 1..n} = 0..(n - 1)}
            ELSE {[q \in 1..n |-> q - 1], [q \in 1..n |-> n - q], [q \in 1..n |-> q % n]}

Limit(k) == IF k \in {"trc", "er"} THEN MaxSmall
            ELSE IF k \in {"sp", "sr", "sa", "mc"} THEN MaxLong ELSE MaxHW

\* the parameters of kind k for an H x W input
Params(k, Hh, Ww) ==
  LET b == [k |-> k, H |-> Hh, W |-> Ww] IN
  CASE k = "rc" ->
         {b @@ [th |-> th, tw |-> tw, pl |-> p[1], pt |-> p[2], pr |-> p[3], pb |-> p[4], pin |-> pin] :
            th \in 1..MaxT, tw \in 1..MaxT, p \in Pads, pin \in BOOLEAN}
    [] k = "trc" ->
         {b @@ [th |-> th, tw |-> tw, pl |-> 0, pt |-> 0, pr |-> 0, pb |-> 0, pin |-> pin,
                omin |-> o[1], omax |-> o[2], tries |-> t] :
            th \in 1..MaxSmall, tw \in 1..MaxSmall, pin \in BOOLEAN, o \in Overlaps, t \in 1..2}
    [] k = "rrc" -> {b @@ [rmin |-> r[1], rmax |-> r[2]] : r \in Ratios}
    [] k = "er" -> {b @@ [cmin |-> c[1], cmax |-> c[2]] : c \in Counts}
    [] k = "sa" -> {[k |-> k, n |-> Hh, mp |-> mp] : mp \in 0..(MaxLong + 2)}
    [] k = "sc" -> {b @@ [th |-> th, tw |-> tw, loop |-> lp] : th \in 1..MaxT, tw \in 1..MaxT, lp \in BOOLEAN}
    [] k = "sp" -> {b @@ [th |-> th, tw |-> tw] : th \in 1..MaxLong, tw \in 1..MaxLong}
    [] k = "sr" -> {b @@ [bh |-> bs[1], bw |-> bs[2], ratio |-> r] : bs \in Bases, r \in ResizeRatios}
    [] k = "mc" -> {b @@ [th |-> th, tw |-> tw] : th \in 1..4, tw \in 1..4}
    [] k = "pi" -> UNION {{b @@ [ph |-> ph, pw |-> pw, perm |-> pm] :
                             pm \in Perms(IF Hh % ph = 0 /\ Ww % pw = 0 THEN (Hh \div ph) * (Ww \div pw) ELSE 1)} :
                          ph \in 1..3, pw \in 1..3}

PInit == /\ \E k \in Kinds : \E Hh \in 1..Limit(k), Ww \in 1..(IF k = "sa" THEN 1 ELSE Limit(k)) :
              InitWith([k |-> k, H |-> Hh, W |-> Ww])
         /\ configured = FALSE
Configure == /\ ~configured /\ configured' = TRUE
             /\ \E c \in Params(cfg.k, cfg.H, cfg.W) : cfg' = c
             /\ UNCHANGED <<pc, loc, res>>
Keep == UNCHANGED configured
PRcStart == configured /\ RcStart /\ Keep
PRcGuard == configured /\ RcGuard /\ Keep
PRcDraw == configured /\ RcDraw /\ Keep
PTrcFirst == configured /\ TrcFirst /\ Keep
PTrcTry == configured /\ TrcTry /\ Keep
PRrcStart == configured /\ RrcStart /\ Keep
PRrcAttempt == configured /\ RrcAttempt /\ Keep
PRrcFallback == configured /\ RrcFallback /\ Keep
PErStart == configured /\ ErStart /\ Keep
PErAttempt == configured /\ ErAttempt /\ Keep
PErSkip == configured /\ ErSkip /\ Keep
PErDone == configured /\ ErDone /\ Keep
PSaMask == configured /\ SaMask /\ Keep
PScDraw == configured /\ ScDraw /\ Keep
PSpPad == configured /\ SpPad /\ Keep
PSrResize == configured /\ SrResize /\ Keep
PMcStart == configured /\ McStart /\ Keep
PMcCrop == configured /\ McCrop /\ Keep
PPiCompute == configured /\ PiCompute /\ Keep
PNext == \/ Configure \/ PRcStart \/ PRcGuard \/ PRcDraw \/ PTrcFirst \/ PTrcTry \/ PRrcStart \/ PRrcAttempt
         \/ PRrcFallback \/ PErStart \/ PErAttempt \/ PErSkip \/ PErDone \/ PSaMask \/ PScDraw \/ PSpPad \/ PSrResize
         \/ PMcStart \/ PMcCrop \/ PPiCompute
PSpec == PInit /\ [][PNext]_pvars /\ WF_pvars(PNext)

(* ------------------------------ the clauses ----------------------------- *)
IsDone == pc = "done"
Ok == IsDone /\ res.st = "ok"
K(k) == configured /\ cfg.k = k

\* a refusal is an answer only where the input is outside what the transform can serve: a crop larger than the
\* (padded) input; extents that the multi-crop grid / the patch size does not divide
MayRefuse ==
  CASE cfg.k \in {"rc", "trc"} -> (LET g == Geom(cfg) IN g.h2 < cfg.th \/ g.w2 < cfg.tw)
    [] cfg.k = "mc" -> cfg.H % cfg.th # 0 \/ cfg.W % cfg.tw # 0 \/ cfg.th % 2 # 0 \/ cfg.tw % 2 # 0
    [] cfg.k = "pi" -> cfg.H % cfg.ph # 0 \/ cfg.W % cfg.pw # 0
    [] OTHER -> FALSE
\* every call returns, or refuses where it may - and only there
C14_Answers == IsDone => (res.st = "ok" \/ (res.st = "refuse" /\ MayRefuse))
C14_ServesDomain == (IsDone /\ ~MayRefuse) => res.st = "ok"

\* crop windows stay inside the (padded) input
C14_InBounds ==
  Ok => CASE cfg.k = "rc" -> (LET g == Geom(cfg) IN InBounds(res.box[1], res.box[2], res.box[3], res.box[4], g.h2, g.w2))
          [] cfg.k = "trc" -> (LET g == Geom(cfg) IN
                                 /\ InBounds(res.box[1], res.box[2], res.box[3], res.box[4], g.h2, g.w2)
                                 /\ InBounds(res.box1[1], res.box1[2], res.box1[3], res.box1[4], g.h2, g.w2))
          [] cfg.k \in {"rrc", "sc"} -> InBounds(res.box[1], res.box[2], res.box[3], res.box[4], cfg.H, cfg.W)
          [] cfg.k = "mc" -> \A q \in 1..Len(res.crops) :
                               InBounds(res.crops[q][1], res.crops[q][2], res.crops[q][3], res.crops[q][4], cfg.H, cfg.W)
          [] cfg.k = "er" -> ~res.oob /\ res.erased \subseteq ((0..(cfg.H - 1)) \X (0..(cfg.W - 1)))
          [] cfg.k = "sa" -> res.mask \subseteq 0..(cfg.n - 1)
          [] cfg.k = "pi" -> \A q \in 1..Len(res.seq) : res.seq[q] \in 1..(cfg.H * cfg.W)
          [] OTHER -> TRUE

\* the output has the requested extent
C14_Size ==
  Ok => CASE cfg.k = "rc" -> res.box[3] = cfg.th /\ res.box[4] = cfg.tw /\ res.oh = cfg.th /\ res.ow = cfg.tw
          [] cfg.k = "trc" -> res.box[3] = cfg.th /\ res.box[4] = cfg.tw /\ res.box1[3] = cfg.th /\ res.box1[4] = cfg.tw
          [] cfg.k = "sc" -> res.box[3] = Min(cfg.H, cfg.th) /\ res.box[4] = Min(cfg.W, cfg.tw)
          [] cfg.k = "sp" -> res.oh = Max(cfg.H, cfg.th) /\ res.ow = Max(cfg.W, cfg.tw)
          [] cfg.k = "mc" -> \A q \in 1..Len(res.crops) : res.crops[q][3] = cfg.th /\ res.crops[q][4] = cfg.tw
          [] cfg.k = "sr" -> res.oh >= 1 /\ res.ow >= 1
          [] OTHER -> TRUE

\* two crops: the reported flag tells the truth about the overlap constraint
C14_TwoCrop ==
  (Ok /\ cfg.k = "trc") =>
     /\ ~res.oot => OverlapOK(cfg, res.box, res.box1)
     /\ res.oot => (res.t = cfg.tries /\ ~OverlapOK(cfg, res.box, res.box1))

\* a single erased rectangle leaves at least one row and one column; a mask band is contiguous and no wider than asked
C14_Erase == (Ok /\ cfg.k = "er" /\ res.n = 1) =>
                /\ IsRect(res.erased)
                /\ res.erased # {} => /\ Cardinality({p[1] : p \in res.erased}) < cfg.H
                                      /\ Cardinality({p[2] : p \in res.erased}) < cfg.W
C14_Mask == (Ok /\ cfg.k = "sa") => /\ IsInterval(res.mask) /\ Cardinality(res.mask) <= res.vl
                                    /\ (cfg.mp >= 1 => res.vl < cfg.mp)

\* padding keeps the input whole, centred (the odd pixel goes to the bottom / right)
C14_Pad == (Ok /\ cfg.k = "sp") =>
              LET bot == res.oh - cfg.H - res.top
                  right == res.ow - cfg.W - res.left
              IN /\ res.top >= 0 /\ res.left >= 0 /\ bot >= 0 /\ right >= 0
                 /\ bot - res.top \in {0, 1} /\ right - res.left \in {0, 1}

\* random resize: aspect ratio kept, scale inside the requested range
C14_Resize == (Ok /\ cfg.k = "sr") =>
                 /\ AspectKept(res.oh, res.ow, cfg.H, cfg.W)
                 /\ ScaleWithin(res.oh, res.ow, cfg.H, cfg.W, SrScale(cfg), SrScale(cfg))

\* multi crop: the grid of half-overlapping crops covers the image, rows x columns crops
C14_Cover == (Ok /\ cfg.k = "mc") =>
                /\ Len(res.crops) = (2 * (cfg.H \div cfg.th) - 1) * (2 * (cfg.W \div cfg.tw) - 1)
                /\ UNION {(res.crops[q][1]..(res.crops[q][1] + cfg.th - 1)) \X (res.crops[q][2]..(res.crops[q][2] + cfg.tw - 1)) :
                            q \in 1..Len(res.crops)} = (0..(cfg.H - 1)) \X (0..(cfg.W - 1))

\* patchify is a bijection onto the pixels; unpatchify inverts it, also around a shuffle undone with the recorded permutation
C14_Inverse == (Ok /\ cfg.k = "pi") =>
                  /\ {res.seq[q] : q \in 1..Len(res.seq)} = 1..(cfg.H * cfg.W)
                  /\ UnpatchSeq(res.seq, cfg.H, cfg.W, cfg.ph, cfg.pw) = Identity(cfg.H * cfg.W)
                  /\ res.back = Identity(cfg.H * cfg.W)
                  /\ {res.shuf[q] : q \in 1..Len(res.shuf)} = 1..(cfg.H * cfg.W)
\* patches are what the name says: patch l covers rows (l div lw)*ph.. and columns (l mod lw)*pw..
C14_PatchTiles == (Ok /\ cfg.k = "pi") =>
                     \A t \in 0..(cfg.H * cfg.W - 1) :
                        LET l == t \div (cfg.ph * cfg.pw)
                            lw == cfg.W \div cfg.pw
                            v == res.seq[t + 1] - 1
                        IN /\ (v \div cfg.W) \div cfg.ph = l \div lw
                           /\ (v % cfg.W) \div cfg.pw = l % lw

Terminates == <>(pc = "done")
=============================================================================
