------------------------------ MODULE CollatePad ------------------------------
(***************************************************************************)
(* C18, part 2: the padding collator                                       *)
(*   kappadata/collators/pad_sequences_collator.py  PadSequencesCollator   *)
(* called through KDComposeCollator / directly / through                   *)
(* KDSingleCollatorWrapper (its default_collate_mode is None, so           *)
(* _call_impl only splits the ctx off and calls collate()).                *)
(*                                                                         *)
(* Configuration (same record shape in the model and in recorded traces):  *)
(*   c.fields  = <<[t, tail]>>   one per item of the dataset mode          *)
(*               t = "seq": tensor with ndim > 0, first axis = length      *)
(*                   (tail = <<>> for shape [L], <<w>> for shape [L, w])   *)
(*               t = "sc" : python scalar,  t = "t0": 0-d tensor           *)
(*   c.B, c.len[b][k] (1 for scalars), c.vals[b][k] = flattened original   *)
(*   values (non-zero), c.style = "plain" (no ctx) | "ctx" (ModeWrapper    *)
(*   and collator both return_ctx) | "raw" (samples carry a ctx, collator  *)
(*   return_ctx = False: the padding collator merges the contexts itself,  *)
(*   as in tests_unit/collators/test_pad_sequences_collator.py),           *)
(*   c.skeys[b], c.svals[b] = keys / values of the per-sample ctx,         *)
(*   c.entry = compose | single | wrapper                                  *)
(* Observation: o = [out, pair, bare, nf, f = <<[dims, rows]>>, rkeys,     *)
(*   rvals]   rows[b] = flattened slice of sample b in the returned field. *)
(*                                                                         *)
(* NORMATIVE: clauses P_* over (c, o).  DESCRIPTIVE: collate() with its    *)
(* recursion (explicit frame stack), the per-field loop with its counter   *)
(* and the type decision table; Proto "v0" = as found (a bare non-sequence *)
(* item goes to pad_sequence; the wrapper passes dataset_mode= by keyword  *)
(* and unpacks), "v1" = repaired.                                          *)
(***************************************************************************)
EXTENDS Naturals, Sequences, FiniteSets, TLC

CONSTANT Proto

VARIABLES cfg, pc, stack, retv, ctxv, obs
vars == <<cfg, pc, stack, retv, ctxv, obs>>

(* ------------------------------ normative ------------------------------ *)
K(c) == Len(c.fields)
\* number of scalars per sequence element (trailing shape of up to two dims)
W(f) == IF f.tail = <<>> THEN 1 ELSE IF Len(f.tail) = 1 THEN f.tail[1] ELSE f.tail[1] * f.tail[2]
Max(S) == CHOOSE x \in S : \A y \in S : y <= x
MaxLenOf(c, k) == Max({c.len[b][k] : b \in 1..c.B})
HasCtx(c) == c.style # "plain"
SeqToSet(s) == {s[j] : j \in 1..Len(s)}

\* an answer: the padding collator asks for no default collation, there is nothing to refuse
P_Answers(c, o) == o.out = "ret"
\* layout given by the dataset mode: one field per item, bare for a single item
P_Layout(c, o) == o.out = "ret" => (o.nf = K(c) /\ Len(o.f) = K(c) /\ (o.bare <=> K(c) = 1))
Shaped(c, o) == o.out = "ret" /\ o.nf = K(c) /\ Len(o.f) = K(c)
RowsOK(c, o, k) == Len(o.f[k].rows) = c.B
\* every variable-length tensor field is padded to the batch maximum
P_PadToMax(c, o) ==
  Shaped(c, o) => \A k \in 1..K(c) : c.fields[k].t = "seq" =>
     /\ o.f[k].dims = <<c.B, MaxLenOf(c, k)>> \o c.fields[k].tail
     /\ RowsOK(c, o, k)
     /\ \A b \in 1..c.B : Len(o.f[k].rows[b]) = MaxLenOf(c, k) * W(c.fields[k])
\* the original content is intact (prefix of the padded row)
P_Prefix(c, o) ==
  Shaped(c, o) => \A k \in 1..K(c) : c.fields[k].t = "seq" =>
     /\ RowsOK(c, o, k)
     /\ \A b \in 1..c.B :
          LET n == c.len[b][k] * W(c.fields[k]) IN
            /\ Len(o.f[k].rows[b]) >= n
            /\ \A j \in 1..n : o.f[k].rows[b][j] = c.vals[b][k][j]
\* with zeros
P_Zeros(c, o) ==
  Shaped(c, o) => \A k \in 1..K(c) : c.fields[k].t = "seq" =>
     /\ RowsOK(c, o, k)
     /\ \A b \in 1..c.B : \A j \in 1..Len(o.f[k].rows[b]) :
          j > c.len[b][k] * W(c.fields[k]) => o.f[k].rows[b][j] = 0
\* all other fields as default collation would: stacked along a new first axis, values unchanged
P_OthersDefault(c, o) ==
  Shaped(c, o) => \A k \in 1..K(c) : c.fields[k].t # "seq" =>
     /\ o.f[k].dims = <<c.B>>
     /\ RowsOK(c, o, k)
     /\ \A b \in 1..c.B : o.f[k].rows[b] = c.vals[b][k]
\* with per-sample contexts the merged context comes back next to the batch, without them the batch alone
P_CtxIff(c, o) == o.out = "ret" => (o.pair <=> HasCtx(c))
\* no key lost, none invented; every value is the stack of the per-sample values
P_CtxKeys(c, o) ==
  (o.out = "ret" /\ o.pair /\ HasCtx(c)) =>
     /\ \A b \in 1..c.B : SeqToSet(o.rkeys) = SeqToSet(c.skeys[b])
     /\ Len(o.rkeys) = Cardinality(SeqToSet(o.rkeys))
P_CtxValues(c, o) ==
  (o.out = "ret" /\ o.pair /\ HasCtx(c)) =>
     /\ Len(o.rvals) = Len(o.rkeys)
     /\ \A q \in 1..Len(o.rkeys) :
          /\ Len(o.rvals[q]) = c.B
          /\ \A b \in 1..c.B : \A r \in 1..Len(c.skeys[b]) :
               c.skeys[b][r] = o.rkeys[q] => o.rvals[q][b] = c.svals[b][r]
PadClauseNames == {"P_Answers", "P_Layout", "P_PadToMax", "P_Prefix", "P_Zeros", "P_OthersDefault", "P_CtxIff",
                   "P_CtxKeys", "P_CtxValues"}
PadFailed(c, o) ==
  (IF P_Answers(c, o) THEN {} ELSE {"P_Answers"}) \cup (IF P_Layout(c, o) THEN {} ELSE {"P_Layout"})
  \cup (IF P_PadToMax(c, o) THEN {} ELSE {"P_PadToMax"}) \cup (IF P_Prefix(c, o) THEN {} ELSE {"P_Prefix"})
  \cup (IF P_Zeros(c, o) THEN {} ELSE {"P_Zeros"}) \cup (IF P_OthersDefault(c, o) THEN {} ELSE {"P_OthersDefault"})
  \cup (IF P_CtxIff(c, o) THEN {} ELSE {"P_CtxIff"}) \cup (IF P_CtxKeys(c, o) THEN {} ELSE {"P_CtxKeys"})
  \cup (IF P_CtxValues(c, o) THEN {} ELSE {"P_CtxValues"})

(* ----------------------------- descriptive ----------------------------- *)
\* abstract python values: leaves (seq / sc / t0 / dict), tuples, and collated results (col / cdict / ctup)
Val(t, v, tail, items, rows, dims) == [t |-> t, v |-> v, tail |-> tail, items |-> items, rows |-> rows, dims |-> dims]
Leaf(t, v, tail) == Val(t, v, tail, <<>>, <<>>, <<>>)
Tup(items) == Val("tup", <<>>, <<>>, items, <<>>, <<>>)
Col(rows, dims) == Val("col", <<>>, <<>>, <<>>, rows, dims)
CDict(rows) == Val("cdict", <<>>, <<>>, <<>>, rows, <<>>)
CTup(items) == Val("ctup", <<>>, <<>>, items, <<>>, <<>>)
None == Val("none", <<>>, <<>>, <<>>, <<>>, <<>>)
Raise == Val("raise", <<>>, <<>>, <<>>, <<>>, <<>>)

Item(c, b, k) == Leaf(c.fields[k].t, c.vals[b][k], c.fields[k].tail)
Items(c, b) == IF K(c) = 1 THEN Item(c, b, 1) ELSE Tup([k \in 1..K(c) |-> Item(c, b, k)])
SampleCtx(c, b) == Leaf("dict", c.svals[b], <<>>)
RawSample(c, b) == IF HasCtx(c) THEN Tup(<<Items(c, b), SampleCtx(c, b)>>) ELSE Items(c, b)

\* torch.nn.utils.rnn.pad_sequence(col, batch_first=True): needs tensors with ndim > 0
PadSequence(col) ==
  IF \A b \in 1..Len(col) : col[b].t = "seq"
    THEN LET w == W(col[1])
             m == Max({Len(col[b].v) : b \in 1..Len(col)})
         IN Col([b \in 1..Len(col) |-> [j \in 1..m |-> IF j <= Len(col[b].v) THEN col[b].v[j] ELSE 0]],
                <<Len(col), m \div w>> \o col[1].tail)
    ELSE Raise
\* torch default_collate on a column of equal-typed leaves (tuples never reach it in this collator)
DefaultCollate(col) ==
  IF \A b \in 1..Len(col) : col[b].t \in {"sc", "t0"} THEN Col([b \in 1..Len(col) |-> col[b].v], <<Len(col)>>)
  ELSE IF \A b \in 1..Len(col) : col[b].t = "dict" THEN CDict([b \in 1..Len(col) |-> col[b].v])
  ELSE IF (\A b \in 1..Len(col) : col[b].t = "seq") /\ (\A b \in 1..Len(col) : Len(col[b].v) = Len(col[1].v))
    THEN Col([b \in 1..Len(col) |-> col[b].v], <<Len(col), Len(col[1].v) \div W(col[1])>> \o col[1].tail)
  ELSE Raise
IsTensorNdimPos(x) == x.t = "seq"

Frame(b) == [b |-> b, pc |-> "enter", fi |-> 1, acc |-> <<>>]
Top == stack[Len(stack)]
SetTop(f) == [stack EXCEPT ![Len(stack)] = f]
Pop == SubSeq(stack, 1, Len(stack) - 1)
NoObs == [out |-> "none", pair |-> FALSE, bare |-> FALSE, nf |-> 0, f |-> <<>>, rkeys |-> <<>>, rvals |-> <<>>]

InitWith(c) ==
  /\ cfg = c
  /\ pc = "entry"
  /\ stack = <<>> /\ retv = None /\ ctxv = None
  /\ obs = NoObs

Escape == pc' = "done" /\ obs' = [obs EXCEPT !.out = "escape"] /\ UNCHANGED <<cfg, stack, retv, ctxv>>
ReturnVal(v) == IF v = Raise THEN Escape
                ELSE stack' = Pop /\ retv' = v /\ UNCHANGED <<cfg, pc, ctxv, obs>>

\* KDComposeCollator.__call__ / KDSingleCollator.__call__ -> _call_impl(order = <<None>>):
\*   return_ctx: batch, ctx = zip(*batch); ctx = default_collate(ctx)
\* KDSingleCollatorWrapper (v0): collate(batch=..., dataset_mode=..., ctx={}) - PadSequencesCollator.collate has no
\*   parameter of that name: TypeError
Entry ==
  /\ pc = "entry"
  /\ IF cfg.entry = "wrapper" /\ Proto = "v0" THEN Escape
     ELSE /\ pc' = "collate"
          /\ IF cfg.style = "ctx"
               THEN /\ stack' = <<Frame([b \in 1..cfg.B |-> Items(cfg, b)])>>
                    /\ ctxv' = DefaultCollate([b \in 1..cfg.B |-> SampleCtx(cfg, b)])
               ELSE /\ stack' = <<Frame([b \in 1..cfg.B |-> RawSample(cfg, b)])>>
                    /\ ctxv' = None
          /\ UNCHANGED <<cfg, retv, obs>>

\* def collate(self, batch, _, ctx=None): decision on batch[0]
Enter ==
  /\ pc = "collate" /\ stack # <<>> /\ Top.pc = "enter"
  /\ LET first == Top.b[1] IN
       IF first.t = "tup"
         THEN IF first.items[1].t = "tup" /\ first.items[2].t = "dict"
                \* return_ctx=True samples: data = [b[0]..], contexts = [b[1]..]; collate(data), collate(contexts)
                THEN /\ stack' = Append(SetTop([Top EXCEPT !.pc = "pairdata"]),
                                        Frame([b \in 1..Len(Top.b) |-> Top.b[b].items[1]]))
                     /\ UNCHANGED <<cfg, pc, retv, ctxv, obs>>
                ELSE /\ stack' = SetTop([Top EXCEPT !.pc = "fields", !.fi = 1, !.acc = <<>>])
                     /\ UNCHANGED <<cfg, pc, retv, ctxv, obs>>
       ELSE IF first.t = "dict" THEN ReturnVal(DefaultCollate(Top.b))
       ELSE IF Proto = "v0" \/ IsTensorNdimPos(first) THEN ReturnVal(PadSequence(Top.b))
       ELSE ReturnVal(DefaultCollate(Top.b))

\* for i in range(len(batch[0])): pad tensors with ndim > 0, default_collate everything else
Field ==
  /\ pc = "collate" /\ stack # <<>> /\ Top.pc = "fields" /\ Top.fi <= Len(Top.b[1].items)
  /\ LET col == [b \in 1..Len(Top.b) |-> Top.b[b].items[Top.fi]]
         r == IF IsTensorNdimPos(col[1]) THEN PadSequence(col) ELSE DefaultCollate(col)
     IN IF r = Raise THEN Escape
        ELSE /\ stack' = SetTop([Top EXCEPT !.fi = @ + 1, !.acc = Append(@, r)])
             /\ UNCHANGED <<cfg, pc, retv, ctxv, obs>>
\* return tuple(result)
FieldsDone ==
  /\ pc = "collate" /\ stack # <<>> /\ Top.pc = "fields" /\ Top.fi > Len(Top.b[1].items)
  /\ ReturnVal(CTup(Top.acc))
\* data collated -> collate the contexts
PairData ==
  /\ pc = "collate" /\ stack # <<>> /\ Top.pc = "pairdata" /\ retv # None
  /\ stack' = Append(SetTop([Top EXCEPT !.pc = "pairctx", !.acc = <<retv>>]),
                     Frame([b \in 1..Len(Top.b) |-> Top.b[b].items[2]]))
  /\ retv' = None
  /\ UNCHANGED <<cfg, pc, ctxv, obs>>
\* return self.collate(data), self.collate(contexts)
PairCtx ==
  /\ pc = "collate" /\ stack # <<>> /\ Top.pc = "pairctx" /\ retv # None
  /\ stack' = Pop /\ retv' = CTup(<<Top.acc[1], retv>>)
  /\ UNCHANGED <<cfg, pc, ctxv, obs>>

\* projection of a returned python value onto the observation (the same one the driver applies to real results)
FieldObs(x) == [dims |-> x.dims, rows |-> x.rows]
DataObs(d) == IF d.t = "ctup" THEN [bare |-> FALSE, nf |-> Len(d.items), f |-> [k \in 1..Len(d.items) |-> FieldObs(d.items[k])]]
              ELSE [bare |-> TRUE, nf |-> 1, f |-> <<FieldObs(d)>>]
IsPair(r) == r.t = "ctup" /\ Len(r.items) = 2 /\ r.items[2].t = "cdict"
Transpose(rows, nk) == [q \in 1..nk |-> [b \in 1..Len(rows) |-> rows[b][q]]]
ObsOf(c, r) ==
  LET d == IF IsPair(r) THEN r.items[1] ELSE r
      x == DataObs(d)
  IN [out |-> "ret", pair |-> IsPair(r), bare |-> x.bare, nf |-> x.nf, f |-> x.f,
      rkeys |-> IF IsPair(r) THEN c.skeys[1] ELSE <<>>,
      rvals |-> IF IsPair(r) THEN Transpose(r.items[2].rows, Len(c.skeys[1])) ELSE <<>>]

\* _call_impl: if return_ctx: return batch, ctx
Finish ==
  /\ pc = "collate" /\ stack = <<>> /\ retv # None
  /\ pc' = "done"
  /\ obs' = ObsOf(cfg, IF cfg.style = "ctx" THEN CTup(<<retv, ctxv>>) ELSE retv)
  /\ UNCHANGED <<cfg, stack, retv, ctxv>>

Next == Entry \/ Enter \/ Field \/ FieldsDone \/ PairData \/ PairCtx \/ Finish
=============================================================================
