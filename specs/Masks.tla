-------------------------------- MODULE Masks --------------------------------
(***************************************************************************)
(* C17 - NORMATIVE part.  The clauses of the property statement, written   *)
(* as predicates over what a caller of the two mask collators can observe: *)
(*                                                                         *)
(*   DINO    collator(batch) -> ctx["mask"]            (n x H x W, bool)   *)
(*   I-JEPA  collator(batch) -> ctx["encoder_masks"]   (E*B rows of patch  *)
(*                              ctx["predictor_masks"]  P*B rows  indices) *)
(*                                                                         *)
(* Nothing in this module says HOW the masks are computed; the algorithms  *)
(* of the code are MasksDino.tla / MasksIjepa.tla (descriptive part) and   *)
(* are model-checked against these clauses (MasksDinoProps / MasksIjepa-   *)
(* Props).  MasksTrace.tla evaluates the same operators on outputs         *)
(* recorded from the real collators.                                       *)
(*                                                                         *)
(* Encoding.  A patch (r, c) of an H x W grid is the integer r*W + c (the  *)
(* code's row-major flattening).  A DINO mask is the SET of its True       *)
(* patches; an I-JEPA mask is the SEQUENCE of patch indices in the order   *)
(* the collator returns them.  Rationals are pairs <<num, den>>.           *)
(***************************************************************************)
EXTENDS Integers, Sequences, FiniteSets

Range(s) == { s[i] : i \in 1..Len(s) }
Patches(H, W) == 0..(H * W - 1)
Min2(a, b) == IF a <= b THEN a ELSE b
Max2(a, b) == IF a >= b THEN a ELSE b

(* ======================================================================= *)
(*                                 DINO                                    *)
(* configuration c: [H, W    grid ("mask_size")                            *)
(*                   B, V    batch size, num_views                         *)
(*                   p       mask_prob  as <<num, den>>                    *)
(*                   rmax    upper mask ratio as <<num, den>>]             *)
(* observation:  shape   the tensor's shape as a sequence                  *)
(*               isbool  its dtype is torch.bool                           *)
(*               ms      sequence of masks (sets of True patches)          *)
(* ======================================================================= *)
DinoViewSamples(c) == c.B * c.V
\* floor(batch * views * mask_prob)
DinoBudget(c) == (c.B * c.V * c.p[1]) \div c.p[2]
\* floor(upper ratio * number of patches): a mask with more True patches exceeds the upper mask ratio
DinoCap(c) == (c.H * c.W * c.rmax[1]) \div c.rmax[2]

\* "one boolean mask of the configured grid size per view-sample"
D_OnePerViewSample(c, shape, ms) == /\ Len(ms) = DinoViewSamples(c)
                                    /\ shape = <<DinoViewSamples(c), c.H, c.W>>
D_Boolean(c, isbool, ms) == /\ isbool
                            /\ \A i \in 1..Len(ms) : ms[i] \subseteq Patches(c.H, c.W)
\* "at most floor(batch*views*mask_prob) non-empty masks"
D_Budget(c, ms) == Cardinality({ i \in 1..Len(ms) : ms[i] # {} }) <= DinoBudget(c)
\* "none exceeding the upper mask ratio"
D_UpperRatio(c, ms) == \A i \in 1..Len(ms) : Cardinality(ms[i]) <= DinoCap(c)

(* ======================================================================= *)
(*                                I-JEPA                                   *)
(* configuration c: [H, W      patch grid (input_size // patch_size)       *)
(*                   P, E      num_pred_masks, num_enc_masks               *)
(*                   minKeep                                               *)
(*                   encMinArea   smallest encoder block area  } over the  *)
(*                   predMaxArea  largest predictor block area } configured*)
(*                                                               scales]   *)
(* observation of one call with batch size B:                              *)
(*    pred  P*B rows, row p*B + b = p-th predictor mask of sample b        *)
(*    enc   E*B rows, row e*B + b = e-th encoder mask of sample b          *)
(*    (b = 1..B, p = 0..P-1: the mask-major layout the unit test reads)    *)
(* ======================================================================= *)
\* the stated domain of the disjointness / common-length claim: "(smallest encoder block area) - (number of
\* predictor masks x largest predictor block area) > min_keep", i.e. the constraint relaxation cannot trigger
InDomain(c) == c.encMinArea > c.P * c.predMaxArea + c.minKeep

J_Layout(c, B, enc, pred) == Len(pred) = c.P * B /\ Len(enc) = c.E * B
\* "index tensors that are in range, sorted and duplicate-free"
J_InRange(c, rows) == \A r \in 1..Len(rows) : \A j \in 1..Len(rows[r]) : rows[r][j] \in Patches(c.H, c.W)
J_SortedDupFree(rows) == \A r \in 1..Len(rows) : \A j \in 1..(Len(rows[r]) - 1) : rows[r][j] < rows[r][j + 1]

\* the rectangle spanned by the first and last index of a non-empty row
RectOf(row, W) == [top  |-> row[1] \div W, left |-> row[1] % W,
                   bot  |-> row[Len(row)] \div W, right |-> row[Len(row)] % W]
RectH(row, W) == RectOf(row, W).bot + 1 - RectOf(row, W).top
RectW(row, W) == RectOf(row, W).right + 1 - RectOf(row, W).left
\* row lists exactly the patches of a full h x w rectangle, row-major
IsRect(row, W) ==
  /\ row # <<>>
  /\ LET q == RectOf(row, W) IN
       /\ q.bot >= q.top /\ q.right >= q.left /\ q.right < W
       /\ LET h == q.bot + 1 - q.top
              w == q.right + 1 - q.left IN
            /\ Len(row) = h * w
            /\ \A j \in 1..Len(row) : row[j] = (q.top + (j - 1) \div w) * W + q.left + ((j - 1) % w)
\* "predictor masks that are rectangles ..."
J_PredRect(c, pred) == \A r \in 1..Len(pred) : IsRect(pred[r], c.W)
\* "... of one common size per batch"
J_PredCommonSize(c, pred) ==
  \A r \in 1..Len(pred) : IsRect(pred[r], c.W) /\ IsRect(pred[1], c.W) =>
      RectH(pred[r], c.W) = RectH(pred[1], c.W) /\ RectW(pred[r], c.W) = RectW(pred[1], c.W)
\* "encoder masks that - whenever the configured sizes leave more than min_keep admissible patches - never
\*  intersect the same sample's predictor masks ..."
J_Disjoint(c, B, enc, pred) ==
  InDomain(c) =>
    \A b \in 1..B : \A e \in 0..(c.E - 1) : \A p \in 0..(c.P - 1) :
        Range(enc[e * B + b]) \cap Range(pred[p * B + b]) = {}
\* "... and have one common length"
J_EncCommonLen(c, enc) == InDomain(c) => \A r \in 1..Len(enc) : Len(enc[r]) = Len(enc[1])

(* "with block sizes depending only on the collator's step counter".                                       *)
(* The predictor block size of a call is directly visible (the common rectangle size).  The encoder block  *)
(* is visible through what is left of it: an encoder mask is (an eh x ew block) minus (some of the          *)
(* predictor masks of its sample: all of them unless the constraint was relaxed), cut to the common length. *)
(* EncFromBlock says that <<eh, ew>> with block position <<top, left>> and the set `sub' of applied         *)
(* predictor masks (indices 0..P-1) explains a row exactly.  Which masks a relaxation drops is not fixed.   *)
Block(top, left, h, w, W) == { (top + i) * W + left + j : i \in 0..(h - 1), j \in 0..(w - 1) }
EncFromBlock(c, B, row, b, pred, eh, ew, top, left, sub) ==
  /\ eh >= 1 /\ ew >= 1 /\ top + eh <= c.H /\ left + ew <= c.W /\ sub \subseteq 0..(c.P - 1)
  /\ LET forb == UNION { Range(pred[p * B + b]) : p \in sub }
         adm == Block(top, left, eh, ew, c.W) \ forb IN
       /\ Range(row) \subseteq adm
       \* the row is the row-major prefix of the admissible patches: nothing admissible precedes a kept patch
       /\ \A x \in adm \ Range(row) : \A j \in 1..Len(row) : x > row[j]
\* a set of mask indices written as a bit mask (bit p set <=> p in the set)
BitsOf(m, P) == { p \in 0..(P - 1) : (m \div (2 ^ p)) % 2 = 1 }
\* sizes = [ph, pw, eh, ew] of two calls: equal step => equal sizes
SameStepSameSizes(step1, sizes1, step2, sizes2) == step1 = step2 => sizes1 = sizes2
=============================================================================
