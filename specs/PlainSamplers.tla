------------------------------ MODULE PlainSamplers ------------------------------
(***************************************************************************)
(* X01 - the plain epoch samplers an InfiniteBatchSampler is fed with:     *)
(*   SequentialSampler  kappadata/samplers/sequential_sampler.py           *)
(*   RandomSampler      kappadata/samplers/random_sampler.py ("torch's     *)
(*                      RandomSampler but with support for                 *)
(*                      RepeatedAugmentation": num_repeats)                *)
(*   SamplerBase        kappadata/samplers/base/sampler_base.py (the       *)
(*                      rank-slicing skeleton: subclasses provide          *)
(*                      effective_length and _generate_indices)            *)
(* One PASS = one complete iteration of the sampler.                       *)
(*                                                                         *)
(* cfg: kind "seq" | "rand" | "base"; n = len(data source);                *)
(*      num = num_samples (n if not given); rep = num_repeats >= 1;        *)
(*      repl = replacement; W = world size, r = rank (base only, else 1,0) *)
(*                                                                         *)
(* NORMATIVE PART: operators over one observed pass                        *)
(*   o = [len, eff, out, out2, gen]   len(sampler), sampler.effective_     *)
(*   length, the pass, the same-ordinal pass of an identically seeded      *)
(*   twin, and (base) what _generate_indices returned.                     *)
(* DESCRIPTIVE PART: the draw / repeat_interleave / cut steps of           *)
(*   RandomSampler.__iter__ (both paths) and the generate / rank slice /   *)
(*   cut steps of SamplerBase.__iter__; the generator is a                 *)
(*   nondeterministic choice.                                              *)
(* Variant "v0" = as found: the num_repeats path sizes everything with     *)
(*   len(data_source) and ignores num_samples; SamplerBase slices up to    *)
(*   the undefined attribute total_size (AttributeError).                  *)
(***************************************************************************)
EXTENDS Integers, Sequences, FiniteSets, TLC

CONSTANT PVariant      \* "v1" | "v0"

VARIABLES pcfg, ppc, drawn, rept, pout, perr
pvars0 == <<pcfg, ppc, drawn, rept, pout, perr>>

PMin(a, b) == IF a < b THEN a ELSE b
PMax(a, b) == IF a > b THEN a ELSE b
PCeil(a, b) == (a + b - 1) \div b
RangeOf(s) == {s[i] : i \in 1..Len(s)}
Perms(n) == { f \in [1..n -> 0..(n - 1)] : \A i, j \in 1..n : f[i] = f[j] => i = j }

(* ============================ NORMATIVE PART ============================ *)
\* the promised length of a pass
LenOf(c) == IF c.kind = "base" THEN c.num \div c.W ELSE IF c.kind = "seq" THEN c.n ELSE c.num
\* a pass has exactly len(sampler) entries, and that is the documented length
PS_Length(c, o) == o.len = LenOf(c) /\ Len(o.out) = o.len
PS_EffectiveLength(c, o) == o.eff = (IF c.kind = "seq" THEN c.n ELSE c.num)
PS_Valid(c, o) == \A i \in 1..Len(o.out) : o.out[i] \in 0..(c.n - 1)
PS_SeqOrder(c, o) == c.kind = "seq" => o.out = [i \in 1..c.n |-> i - 1]
\* repeated augmentation: every drawn index occurs num_repeats times in a row (the pass may end inside a run)
Head0(c, o, j) == o.out[(j - 1) * c.rep + 1]
NRuns(c, o) == PCeil(Len(o.out), c.rep)
PS_Runs(c, o) == c.kind = "rand" => \A i \in 1..Len(o.out) : o.out[i] = Head0(c, o, (i - 1) \div c.rep + 1)
\* without replacement no index is drawn twice within one permutation (n consecutive draws)
PS_Distinct(c, o) ==
  (c.kind = "rand" /\ ~c.repl) =>
     \A i, j \in 1..NRuns(c, o) : (i # j /\ (i - 1) \div c.n = (j - 1) \div c.n) => Head0(c, o, i) # Head0(c, o, j)
\* a seeded generator makes the sequence of passes reproducible
PS_Reproducible(c, o) == o.out = o.out2
\* rank r of W gets entries r, r+W, r+2W, ... of the generated epoch, cut to the common length
PS_RankSlice(c, o) ==
  c.kind = "base" => o.out = [i \in 1..(c.num \div c.W) |-> o.gen[c.r + (i - 1) * c.W + 1]]

PSFailed(c, o) ==
  (IF PS_Length(c, o) THEN {} ELSE {"PS_Length"})
  \cup (IF PS_EffectiveLength(c, o) THEN {} ELSE {"PS_EffectiveLength"})
  \cup (IF PS_Valid(c, o) THEN {} ELSE {"PS_Valid"})
  \cup (IF PS_SeqOrder(c, o) THEN {} ELSE {"PS_SeqOrder"})
  \cup (IF Len(o.out) = 0 \/ PS_Runs(c, o) THEN {} ELSE {"PS_Runs"})
  \cup (IF Len(o.out) = 0 \/ PS_Distinct(c, o) THEN {} ELSE {"PS_Distinct"})
  \cup (IF PS_Reproducible(c, o) THEN {} ELSE {"PS_Reproducible"})
  \cup (IF c.kind # "base" \/ Len(o.gen) # c.num \/ PS_RankSlice(c, o) THEN {} ELSE {"PS_RankSlice"})

(* ============================ DESCRIPTIVE PART ========================== *)
RECURSIVE Repeat(_, _)
Repeat(s, r) == IF s = <<>> THEN <<>> ELSE [i \in 1..r |-> Head(s)] \o Repeat(Tail(s), r)
Take(s, m) == SubSeq(s, 1, PMin(m, Len(s)))
V0 == PVariant = "v0"
\* how many permutations / draws the repeats path needs
BlocksWanted == IF V0 THEN 1 ELSE PCeil(pcfg.num, pcfg.n)
DrawsWanted == IF V0 THEN pcfg.n ELSE PMax(pcfg.n, pcfg.num)

\* SequentialSampler: iter(range(len(data_source)))
SeqEmit ==
  /\ ppc = "start" /\ pcfg.kind = "seq"
  /\ pout' = [i \in 1..pcfg.n |-> i - 1]
  /\ ppc' = "done"
  /\ UNCHANGED <<pcfg, drawn, rept, perr>>

\* torch path (num_repeats == 1): num // n whole permutations, then the first num % n entries of another one
TorchPerm ==
  /\ ppc = "start" /\ pcfg.kind = "rand" /\ pcfg.rep = 1 /\ ~pcfg.repl
  /\ \E p \in Perms(pcfg.n) :
        IF Len(drawn) + pcfg.n <= pcfg.num
          THEN drawn' = drawn \o p /\ ppc' = "start"
          ELSE drawn' = drawn \o Take(p, pcfg.num % pcfg.n) /\ ppc' = "emit"
  /\ UNCHANGED <<pcfg, rept, pout, perr>>
TorchInt ==
  /\ ppc = "start" /\ pcfg.kind = "rand" /\ pcfg.rep = 1 /\ pcfg.repl
  /\ \E f \in [1..pcfg.num -> 0..(pcfg.n - 1)] : drawn' = f
  /\ ppc' = "emit"
  /\ UNCHANGED <<pcfg, rept, pout, perr>>
TorchEmit ==
  /\ ppc = "emit"
  /\ pout' = drawn /\ ppc' = "done"
  /\ UNCHANGED <<pcfg, drawn, rept, perr>>

\* repeats path: draw, repeat_interleave, cut
RepPerm ==
  /\ ppc = "start" /\ pcfg.kind = "rand" /\ pcfg.rep > 1 /\ ~pcfg.repl
  /\ \E p \in Perms(pcfg.n) : drawn' = drawn \o p
  /\ ppc' = (IF Len(drawn') \div pcfg.n >= BlocksWanted THEN "repeat" ELSE "start")
  /\ UNCHANGED <<pcfg, rept, pout, perr>>
RepInt ==
  /\ ppc = "start" /\ pcfg.kind = "rand" /\ pcfg.rep > 1 /\ pcfg.repl
  /\ \E f \in [1..DrawsWanted -> 0..(pcfg.n - 1)] : drawn' = f
  /\ ppc' = "repeat"
  /\ UNCHANGED <<pcfg, rept, pout, perr>>
RepInterleave ==
  /\ ppc = "repeat"
  /\ rept' = Repeat(drawn, pcfg.rep)
  /\ ppc' = "cut"
  /\ UNCHANGED <<pcfg, drawn, pout, perr>>
RepCut ==
  /\ ppc = "cut"
  /\ pout' = Take(rept, IF V0 THEN pcfg.n ELSE pcfg.num)
  /\ ppc' = "done"
  /\ UNCHANGED <<pcfg, drawn, rept, perr>>

\* SamplerBase.__iter__: indices = self._generate_indices(); indices[rank:effective_length:world_size][:len(self)]
BaseGenerate ==
  /\ ppc = "start" /\ pcfg.kind = "base"
  /\ \E p \in Perms(pcfg.num) : drawn' = p
  /\ ppc' = "slice"
  /\ UNCHANGED <<pcfg, rept, pout, perr>>
BaseSlice ==
  /\ ppc = "slice"
  /\ IF V0 THEN perr' = TRUE /\ ppc' = "done" /\ rept' = rept            \* AttributeError: total_size
     ELSE /\ rept' = [i \in 1..PCeil(pcfg.num - pcfg.r, pcfg.W) |-> drawn[pcfg.r + (i - 1) * pcfg.W + 1]]
          /\ ppc' = "basecut" /\ perr' = perr
  /\ UNCHANGED <<pcfg, drawn, pout>>
BaseCut ==
  /\ ppc = "basecut"
  /\ pout' = Take(rept, pcfg.num \div pcfg.W)
  /\ ppc' = "done"
  /\ UNCHANGED <<pcfg, drawn, rept, perr>>

PSNext == SeqEmit \/ TorchPerm \/ TorchInt \/ TorchEmit \/ RepPerm \/ RepInt \/ RepInterleave \/ RepCut
            \/ BaseGenerate \/ BaseSlice \/ BaseCut
PSInitWith(c) == pcfg = c /\ ppc = "start" /\ drawn = <<>> /\ rept = <<>> /\ pout = <<>> /\ perr = FALSE
=============================================================================
