------------------------------ MODULE Selection ------------------------------
(***************************************************************************)
(* C03 - each dataset-manipulation wrapper selects exactly the promised    *)
(* samples.  NORMATIVE part: the clauses of the property statement,        *)
(* written over                                                            *)
(*   ds  = [kind, n, C, cls]   the wrapped dataset: n samples, cls[j+1] =  *)
(*         class of underlying position j (0-based; -1 = unlabeled),       *)
(*         C = dataset.getdim_class()                                      *)
(*   e   = the constructor arguments of ONE construction                   *)
(*         [mode, cs, i1, i2, p1, p2, f1, f2, seed]                        *)
(*   sel = what the wrapper exposes: sel[i] = underlying position of the   *)
(*         sample returned by getitem_x(i-1), i = 1..len(wrapper)          *)
(* independent of how the code computes the selection.  Nothing here       *)
(* refers to the descriptive machine (SelectionAlg.tla); the trace module  *)
(* (SelectionTrace.tla) evaluates exactly these operators on values        *)
(* observed at the public API of the real wrappers.                        *)
(*                                                                         *)
(* kinds and their arguments (i = -1 means None; a percent bound is        *)
(* <<set, num, den>>, set = 0 means None, value = num/den exactly):        *)
(*   filter        mode valid|invalid, cs = class ids                      *)
(*   percent       p1 = from, p2 = to, f1 = ceil_from, f2 = ceil_to        *)
(*   subset_idx    i1 = start_index, i2 = end_index                        *)
(*   subset_pct    p1 = start_percent, p2 = end_percent                    *)
(*   subset_list   cs = indices, each in -n..n-1                           *)
(*   shuffle       seed                                                    *)
(*   sort                                                                  *)
(*   intra         seed                                                    *)
(*   repeat        mode reps|min, i1 = repetitions | min_size              *)
(*   oversample    mode multiply|exact                                     *)
(*   fewshot       i1 = num_shots, seed                                    *)
(*   classwise_idx i1 = start_index, i2 = end_index, f1 = check_enough     *)
(*   classwise_pct p1 = start_percent, p2 = end_percent                    *)
(***************************************************************************)
EXTENDS Integers, Sequences, FiniteSets, TLC

Min(a, b) == IF a < b THEN a ELSE b
Max(a, b) == IF a > b THEN a ELSE b
ToSet(s) == {s[i] : i \in DOMAIN s}
Ident(n) == [i \in 1..n |-> i - 1]                           \* <<0, 1, ..., n-1>>
Span(lo, hi) == [i \in 1..Max(0, hi - lo) |-> lo + i - 1]    \* <<lo, ..., hi-1>>, empty when hi <= lo
Chk(name, ok) == IF ok THEN {} ELSE {name}
NoneI == -1

(* ------------------------------ the dataset ---------------------------- *)
ClassOf(ds, j) == ds.cls[j + 1]
Classes(ds) == 0..(ds.C - 1)
Members(ds, c) == SelectSeq(Ident(ds.n), LAMBDA j : ClassOf(ds, j) = c)   \* positions of class c, original order
Cnt(ds, c) == Cardinality({j \in 1..ds.n : ds.cls[j] = c})
MaxCnt(ds) == LET cs == {Cnt(ds, c) : c \in Classes(ds)} IN CHOOSE m \in cs : \A x \in cs : x <= m
SelCnt(ds, sel, c) == Cardinality({i \in DOMAIN sel : ClassOf(ds, sel[i]) = c})   \* exposed samples of class c
Proj(ds, sel, c) == SelectSeq(sel, LAMBDA j : ClassOf(ds, j) = c)
Occ(sel, j) == Cardinality({i \in DOMAIN sel : sel[i] = j})                         \* how often sample j is exposed

(* exact rationals: floor / ceil of (num/den) * m *)
PFloor(p, m) == (p[1] * m) \div p[2]
PCeil(p, m) == (p[1] * m + p[2] - 1) \div p[2]
Frac(b) == <<b[2], b[3]>>
IsSet(b) == b[1] # 0

RangeKinds == {"percent", "subset_idx", "subset_pct"}
ClasswiseKinds == {"classwise_idx", "classwise_pct"}
RngKinds == {"shuffle", "intra", "fewshot"}

(* ------------------- every exposed sample is an underlying one --------- *)
UnderlyingOnly(ds, sel) == \A i \in DOMAIN sel : sel[i] \in 0..(ds.n - 1)

(* ------------------------------ class filter --------------------------- *)
Allowed(e, c) == IF e.mode = "valid" THEN c \in ToSet(e.cs) ELSE c \notin ToSet(e.cs)
FilterOnlyAllowed(ds, e, sel) == \A i \in DOMAIN sel : Allowed(e, ClassOf(ds, sel[i]))
FilterAllAllowed(ds, e, sel) ==
  LET got == ToSet(sel) IN \A j \in 0..(ds.n - 1) : Allowed(e, ClassOf(ds, j)) => j \in got
OriginalOrder(sel) == \A i \in 1..(Len(sel) - 1) : sel[i] < sel[i + 1]

(* ------------------------- index / percent ranges ---------------------- *)
\* the promised bounds, as indices into the dataset
Lo(ds, e) ==
  CASE ds.kind = "percent" -> IF ~IsSet(e.p1) THEN 0
                              ELSE IF e.f1 THEN PCeil(Frac(e.p1), ds.n) ELSE PFloor(Frac(e.p1), ds.n)
    [] ds.kind = "subset_pct" -> IF ~IsSet(e.p1) THEN 0 ELSE PFloor(Frac(e.p1), ds.n)
    [] ds.kind = "subset_idx" -> IF e.i1 = NoneI THEN 0 ELSE e.i1
Hi(ds, e) ==
  CASE ds.kind = "percent" -> IF ~IsSet(e.p2) THEN ds.n
                              ELSE IF e.f2 THEN PCeil(Frac(e.p2), ds.n) ELSE PFloor(Frac(e.p2), ds.n)
    [] ds.kind = "subset_pct" -> IF ~IsSet(e.p2) THEN ds.n ELSE PFloor(Frac(e.p2), ds.n)
    [] ds.kind = "subset_idx" -> IF e.i2 = NoneI THEN ds.n ELSE Min(e.i2, ds.n)
Contiguous(sel) == \A i \in 1..(Len(sel) - 1) : sel[i + 1] = sel[i] + 1
RangeBounds(ds, e, sel) ==
  /\ Len(sel) = Max(0, Hi(ds, e) - Lo(ds, e))
  /\ sel # <<>> => sel[1] = Lo(ds, e)
\* explicit index list: python indexing, negative indices count from the end
IndicesExact(ds, e, sel) ==
  /\ Len(sel) = Len(e.cs)
  /\ \A i \in DOMAIN sel : sel[i] = IF e.cs[i] < 0 THEN e.cs[i] + ds.n ELSE e.cs[i]

(* ------------------------------ permutations --------------------------- *)
IsPerm(ds, sel) == Len(sel) = ds.n /\ ToSet(sel) = 0..(ds.n - 1)
NonDecreasing(ds, sel) == \A i \in 1..(Len(sel) - 1) : ClassOf(ds, sel[i]) <= ClassOf(ds, sel[i + 1])
\* equal classes keep their original relative order (checked on ALL pairs, not only neighbours)
StableTies(ds, sel) ==
  \A c \in Classes(ds) : OriginalOrder(Proj(ds, sel, c))
\* position i of the wrapper shows a sample of the class that position i of the dataset has
SameClassSeq(ds, sel) == \A i \in DOMAIN sel : i <= ds.n /\ ClassOf(ds, sel[i]) = ds.cls[i]

(* --------------------------------- repeat ------------------------------ *)
RoundRobin(ds, sel) == \A i \in DOMAIN sel : sel[i] = (i - 1) % ds.n
WholeCopies(ds, sel) == Len(sel) % ds.n = 0
RepeatSize(ds, e, sel) ==
  IF e.mode = "reps" THEN Len(sel) = e.i1 * ds.n
  ELSE Len(sel) >= e.i1 /\ Len(sel) - ds.n < e.i1         \* reaches min_size, and stops once it is reached

(* ------------------------------- oversampling -------------------------- *)
KeepsAll(ds, sel) == LET got == ToSet(sel) IN \A j \in 0..(ds.n - 1) : j \in got
\* documented balance: multiply = as many whole copies of a class as fit into the majority count;
\* exact = every class that occurs reaches the majority count; a class without samples stays absent;
\* unlabeled samples are neither dropped nor multiplied
BalanceTarget(ds, e, c) ==
  LET k == Cnt(ds, c) IN
    IF k = 0 THEN 0 ELSE IF e.mode = "multiply" THEN k * (MaxCnt(ds) \div k) ELSE MaxCnt(ds)
Balance(ds, e, sel) ==
  /\ \A c \in Classes(ds) : SelCnt(ds, sel, c) = BalanceTarget(ds, e, c)
  /\ SelCnt(ds, sel, -1) = Cnt(ds, -1)
\* reuse within a class is as even as possible (multiply: every sample of a class equally often)
Even(ds, e, sel) ==
  \A j \in 0..(ds.n - 1) :
     LET c == ClassOf(ds, j)
         q == IF c = -1 THEN 1 ELSE BalanceTarget(ds, e, c) \div Cnt(ds, c)
         r == IF c = -1 THEN 0 ELSE BalanceTarget(ds, e, c) % Cnt(ds, c)
         o == Occ(sel, j)
     IN o = q \/ (r # 0 /\ o = q + 1)

(* --------------------------- few-shot / class-wise --------------------- *)
Distinct(sel) == Cardinality(ToSet(sel)) = Len(sel)
FewshotAmount(ds, e, sel) == \A c \in Classes(ds) : SelCnt(ds, sel, c) = Min(e.i1, Cnt(ds, c))
\* per-class slice [CwLo, CwHi) of the class's members (original order)
CwLo(ds, e, c) ==
  IF ds.kind = "classwise_idx" THEN Min(IF e.i1 = NoneI THEN 0 ELSE e.i1, Cnt(ds, c))
  ELSE IF ~IsSet(e.p1) THEN 0 ELSE PFloor(Frac(e.p1), Cnt(ds, c))
CwHi(ds, e, c) ==
  IF ds.kind = "classwise_idx" THEN Min(IF e.i2 = NoneI THEN ds.n ELSE Min(e.i2, ds.n), Cnt(ds, c))
  ELSE IF ~IsSet(e.p2) THEN Cnt(ds, c) ELSE PFloor(Frac(e.p2), Cnt(ds, c))
ClasswiseAmount(ds, e, sel) ==
  /\ \A c \in Classes(ds) : SelCnt(ds, sel, c) = Max(0, CwHi(ds, e, c) - CwLo(ds, e, c))
  /\ SelCnt(ds, sel, -1) = 0
ClasswiseRange(ds, e, sel) ==
  \A c \in Classes(ds) : Proj(ds, sel, c) = SubSeq(Members(ds, c), CwLo(ds, e, c) + 1, CwHi(ds, e, c))

(* ----------------- all per-construction clauses of one kind ------------ *)
\* ds.inexact (trace configurations only): the percent bounds are not exactly representable (0.29, 1/3, ...), so
\* the exact position of a bound is whatever the float product rounds to - nothing is demanded of ONE construction
\* beyond contiguity / order; the partition clause over the whole chain still holds exactly
Inexact(ds) == "inexact" \in DOMAIN ds /\ ds.inexact
Failed(ds, e, sel) ==
  IF ~UnderlyingOnly(ds, sel) THEN {"UnderlyingOnly"}
  ELSE CASE ds.kind = "filter" ->
              Chk("FilterOnlyAllowed", FilterOnlyAllowed(ds, e, sel))
                \cup Chk("FilterAllAllowed", FilterAllAllowed(ds, e, sel))
                \cup Chk("FilterOriginalOrder", OriginalOrder(sel))
         [] ds.kind \in RangeKinds ->
              Chk("RangeContiguous", Contiguous(sel))
                \cup (IF Inexact(ds) THEN {} ELSE Chk("RangeBounds", RangeBounds(ds, e, sel)))
         [] ds.kind = "subset_list" -> Chk("IndicesExact", IndicesExact(ds, e, sel))
         [] ds.kind = "shuffle" -> Chk("ShufflePerm", IsPerm(ds, sel))
         [] ds.kind = "sort" ->
              Chk("SortPerm", IsPerm(ds, sel)) \cup Chk("SortNonDecreasing", NonDecreasing(ds, sel))
                \cup Chk("SortStable", StableTies(ds, sel))
         [] ds.kind = "intra" ->
              Chk("IntraPerm", IsPerm(ds, sel)) \cup Chk("IntraClassSeq", SameClassSeq(ds, sel))
         [] ds.kind = "repeat" ->
              Chk("RepeatRoundRobin", RoundRobin(ds, sel)) \cup Chk("RepeatWhole", WholeCopies(ds, sel))
                \cup Chk("RepeatSize", RepeatSize(ds, e, sel))
         [] ds.kind = "oversample" ->
              Chk("OversampleKeepsAll", KeepsAll(ds, sel)) \cup Chk("OversampleBalance", Balance(ds, e, sel))
                \cup Chk("OversampleEven", Even(ds, e, sel))
         [] ds.kind = "fewshot" ->
              Chk("FewshotAmount", FewshotAmount(ds, e, sel)) \cup Chk("FewshotDistinct", Distinct(sel))
         [] ds.kind \in ClasswiseKinds ->
              (IF Inexact(ds) THEN {}
               ELSE Chk("ClasswiseAmount", ClasswiseAmount(ds, e, sel))
                      \cup Chk("ClasswiseRange", ClasswiseRange(ds, e, sel)))
                \cup Chk("ClasswiseOrder", NonDecreasing(ds, sel))
         [] OTHER -> {"UnknownKind"}

(* ------------------------------- the domain ---------------------------- *)
\* inputs the statement quantifies over, per kind (generators produce only these; the trace module counts and skips
\* anything else)
PctLeq(a, b) == a[2] * b[3] <= b[2] * a[3]
InDomain(ds, e) ==
  /\ ds.n = Len(ds.cls) /\ ds.C >= 1
  /\ \A j \in 1..ds.n : ds.cls[j] \in -1..(ds.C - 1)
  /\ CASE ds.kind = "percent" -> (IsSet(e.p1) /\ IsSet(e.p2)) => PctLeq(e.p1, e.p2)
       [] ds.kind = "subset_pct" -> (IsSet(e.p1) \/ IsSet(e.p2)) /\ ((IsSet(e.p1) /\ IsSet(e.p2)) => PctLeq(e.p1, e.p2))
       [] ds.kind = "subset_idx" -> (e.i1 # NoneI \/ e.i2 # NoneI) /\ Lo(ds, e) >= 0 /\ Lo(ds, e) <= Hi(ds, e)
       [] ds.kind = "subset_list" -> \A i \in DOMAIN e.cs : e.cs[i] \in (0 - ds.n)..(ds.n - 1)
       [] ds.kind = "repeat" -> ds.n >= 1 /\ e.i1 >= 1
       \* balancing / per-class amounts are about labeled datasets; the majority count needs a sample
       [] ds.kind = "oversample" -> ds.n >= 1 /\ (e.mode = "exact" => \A j \in 1..ds.n : ds.cls[j] # -1)
       [] ds.kind = "fewshot" -> ds.n >= 1 /\ e.i1 >= 0 /\ e.seed # NoneI /\ \A j \in 1..ds.n : ds.cls[j] # -1
       [] ds.kind \in {"sort", "intra"} -> \A j \in 1..ds.n : ds.cls[j] # -1
       [] ds.kind = "classwise_idx" ->
            /\ \A j \in 1..ds.n : ds.cls[j] # -1
            /\ (e.i1 # NoneI \/ e.i2 # NoneI)
            /\ (IF e.i1 = NoneI THEN 0 ELSE e.i1) >= 0
            /\ (IF e.i1 = NoneI THEN 0 ELSE e.i1) <= (IF e.i2 = NoneI THEN ds.n ELSE Min(e.i2, ds.n))
       [] ds.kind = "classwise_pct" ->
            /\ \A j \in 1..ds.n : ds.cls[j] # -1
            /\ (IsSet(e.p1) \/ IsSet(e.p2))
            /\ (IsSet(e.p1) /\ IsSet(e.p2)) => PctLeq(e.p1, e.p2)
       [] OTHER -> TRUE
\* the only documented refusal: ClasswiseSubsetWrapper(check_enough_samples=True) when a class has fewer samples
\* than the requested end index
MayRefuse(ds, e) ==
  /\ ds.kind = "classwise_idx" /\ e.f1
  /\ \E c \in Classes(ds) : Cnt(ds, c) < (IF e.i2 = NoneI THEN ds.n ELSE Min(e.i2, ds.n))

(* -------------- clauses over several constructions (histories) --------- *)
RECURSIVE ConcatAll(_)
ConcatAll(ss) == IF ss = <<>> THEN <<>> ELSE Head(ss) \o ConcatAll(Tail(ss))
\* complementary ranges partition the dataset (class-wise: every class's members)
Partition(ds, sels) ==
  LET cat == ConcatAll(sels) IN
    IF ds.kind \in RangeKinds THEN cat = Ident(ds.n)
    ELSE /\ UnderlyingOnly(ds, cat)
         /\ \A c \in Classes(ds) : Proj(ds, cat, c) = Members(ds, c)
         /\ Len(cat) = ds.n - Cnt(ds, -1)
=============================================================================
