SPECIFICATION PSpec
CONSTANTS
  MaxN = 4
  MaxEpochs = 2
  MaxSides = 1
  MaxSideLen = 2
  MaxIv = 2
  MaxStart = 1
INVARIANT RefPrefix
INVARIANT RefFinal
INVARIANT C04_MainExact
INVARIANT C04_Announced
INVARIANT C04_AnnouncedOnce
INVARIANT C04_BatchExact
INVARIANT C04_DropUnits
INVARIANT C04_StopExact
INVARIANT C04_BatchBoundary
INVARIANT C05_Unmixed
INVARIANT C05_Resolves
INVARIANT C05_SideExact
INVARIANT C05_Eval
INVARIANT C06_Checkpoint
INVARIANT C06_SuffixOfFull
PROPERTY Terminates
CHECK_DEADLOCK FALSE
