SPECIFICATION Spec
CONSTANTS
  Procs <- P2
  Files <- T1Files
  Dirs <- T1Dirs
  DirOf <- T1DirOf
  Progs <- T1Progs
  WipeOrder <- T1WipeOrder
  FileOrder <- T1FileOrder
  Inits <- AllInits
  Proto = "v1"
  MaxCrashes = 0
  MaxRounds = 0
  Serial = FALSE
  SerialFirst = "p1"
  KeepHist = TRUE
PROPERTY StaysComplete
CHECK_DEADLOCK FALSE
