-------------------------------- MODULE Copy --------------------------------
(***************************************************************************)
(* copy_folder_from_global_to_local (kappadata/copying/folder.py) and its  *)
(* image-folder twin: the marker protocol, one action per file-system      *)
(* operation, with process death (Crash) possible between any two of them. *)
(*                                                                         *)
(* Proto = "v1": the protocol of the current tree                          *)
(*    fresh: mkdir <dst>.autocopy_tmp ; write start marker into it ;       *)
(*           rename tmp -> dst (atomic) ; copy ; write end marker          *)
(*    redo : delete every entry of dst EXCEPT the start marker ; copy ;    *)
(*           write end marker                                              *)
(* Proto = "v0": the protocol of the original tree (kept as the negative   *)
(*    control of the invariants and as the record of the repaired defect)  *)
(*    fresh: mkdir dst ; write start marker ; copy ; write end marker      *)
(*    redo : rmtree dst (any order, markers included) ; mkdir ; write      *)
(*           start marker ; copy ; write end marker                        *)
(*                                                                         *)
(* Abstract disk: dst present?, the two markers, per data file none /      *)
(* partial / full (full = byte-identical to the source), sub-directories,  *)
(* user files (a folder the user provided), the temporary sibling folder.  *)
(***************************************************************************)
EXTENDS Naturals, FiniteSets, TLC

CONSTANTS Files,       \* data files of the source
          Dirs,        \* sub-directories of the source
          DirOf,       \* [Files -> Dirs \cup {"."}]
          Proto,       \* "v0" | "v1"
          MaxCrashes

VARIABLES dst, start, end, file, sub, junk, tmp, \* the disk
          user,                                   \* ghost: dst existed, unmarked, before any automatic copy
          fmt,                                    \* source format of this behaviour
          pc, wiped, res, crashes, copiedNow

disk == <<dst, start, end, file, sub, junk, tmp>>
vars == <<disk, user, fmt, pc, wiped, res, crashes, copiedNow>>

Formats == {"raw", "zip", "zips"}
NoRes == [copied |-> FALSE, deleted |-> FALSE, fmt |-> "none"]

TypeOK ==
  /\ dst \in {"absent", "present"}
  /\ start \in BOOLEAN /\ end \in BOOLEAN /\ junk \in BOOLEAN
  /\ file \in [Files -> {"none", "partial", "full"}]
  /\ sub \in [Dirs -> BOOLEAN]
  /\ tmp \in {"absent", "empty", "marked"}
  /\ pc \in {"idle", "check", "wipe", "rmdir", "mkdir", "wstart", "mktmp", "wtmp", "rename", "copy", "ret"}

Init ==
  /\ \/ /\ dst = "absent" /\ user = FALSE /\ junk = FALSE
        /\ file = [f \in Files |-> "none"] /\ sub = [d \in Dirs |-> FALSE]
     \/ \* a folder the user put there: arbitrary content, no markers
        /\ dst = "present" /\ user = TRUE /\ junk \in BOOLEAN
        /\ file \in [Files -> {"none", "partial", "full"}]
        /\ sub = [d \in Dirs |-> \E f \in Files : DirOf[f] = d /\ file[f] # "none"]
  /\ start = FALSE /\ end = FALSE /\ tmp = "absent"
  /\ fmt \in Formats
  /\ pc = "idle" /\ wiped = FALSE /\ res = NoRes /\ crashes = 0 /\ copiedNow = FALSE

DirExists(f) == IF DirOf[f] = "." THEN TRUE ELSE sub[DirOf[f]]
DirEmpty(d) == \A f \in Files : DirOf[f] = d => file[f] = "none"
AllFull == \A f \in Files : file[f] = "full"
\* entries of dst other than the start marker
Clean == /\ ~end /\ ~junk /\ \A f \in Files : file[f] = "none" /\ \A d \in Dirs : ~sub[d]

Invoke ==
  /\ pc \in {"idle", "ret"}
  /\ pc' = "check" /\ wiped' = FALSE /\ res' = NoRes /\ copiedNow' = FALSE
  /\ UNCHANGED <<disk, user, fmt, crashes>>

Return(r) == pc' = "ret" /\ res' = r

\* the existence tests at the top of the function (reads only; one process)
Check ==
  /\ pc = "check"
  /\ UNCHANGED <<disk, user, fmt, crashes, copiedNow>>
  /\ IF dst = "present"
       THEN IF start
              THEN IF end THEN Return(NoRes) /\ UNCHANGED wiped
                   ELSE /\ wiped' = TRUE /\ pc' = "wipe" /\ UNCHANGED res
              ELSE Return(NoRes) /\ UNCHANGED wiped             \* "manually copied dataset"
       ELSE /\ pc' = (IF Proto = "v0" THEN "mkdir" ELSE "mktmp")
            /\ UNCHANGED <<wiped, res>>

(* ------------------------------- wiping -------------------------------- *)
RmFile(f) ==
  /\ pc = "wipe" /\ file[f] # "none"
  /\ file' = [file EXCEPT ![f] = "none"]
  /\ UNCHANGED <<dst, start, end, sub, junk, tmp, user, fmt, pc, wiped, res, crashes, copiedNow>>
RmSub(d) ==
  /\ pc = "wipe" /\ sub[d] /\ DirEmpty(d)
  /\ sub' = [sub EXCEPT ![d] = FALSE]
  /\ UNCHANGED <<dst, start, end, file, junk, tmp, user, fmt, pc, wiped, res, crashes, copiedNow>>
RmJunk ==
  /\ pc = "wipe" /\ junk
  /\ junk' = FALSE
  /\ UNCHANGED <<dst, start, end, file, sub, tmp, user, fmt, pc, wiped, res, crashes, copiedNow>>
RmEnd ==
  /\ pc = "wipe" /\ end
  /\ end' = FALSE
  /\ UNCHANGED <<dst, start, file, sub, junk, tmp, user, fmt, pc, wiped, res, crashes, copiedNow>>
\* v0 only: rmtree also unlinks the start marker, in directory order (any order)
RmStart ==
  /\ Proto = "v0" /\ pc = "wipe" /\ start
  /\ start' = FALSE
  /\ UNCHANGED <<dst, end, file, sub, junk, tmp, user, fmt, pc, wiped, res, crashes, copiedNow>>
\* v1: everything but the start marker is gone -> copy again.  v0: everything is gone -> rmdir
WipeDone ==
  /\ pc = "wipe" /\ Clean
  /\ IF Proto = "v0" THEN ~start /\ pc' = "rmdir" ELSE pc' = "copy"
  /\ UNCHANGED <<disk, user, fmt, wiped, res, crashes, copiedNow>>
RmDir ==
  /\ pc = "rmdir"
  /\ dst' = "absent" /\ pc' = "mkdir"
  /\ UNCHANGED <<start, end, file, sub, junk, tmp, user, fmt, wiped, res, crashes, copiedNow>>

(* ------------------------ creating the folder -------------------------- *)
MkDir ==     \* v0
  /\ pc = "mkdir"
  /\ dst' = "present" /\ pc' = "wstart"
  /\ UNCHANGED <<start, end, file, sub, junk, tmp, user, fmt, wiped, res, crashes, copiedNow>>
WriteStart ==  \* v0
  /\ pc = "wstart"
  /\ start' = TRUE /\ pc' = "copy"
  /\ UNCHANGED <<dst, end, file, sub, junk, tmp, user, fmt, wiped, res, crashes, copiedNow>>
\* v1: a stale temporary folder of a killed attempt is removed first (marker, then the folder)
RmTmpStart ==
  /\ pc = "mktmp" /\ tmp = "marked"
  /\ tmp' = "empty"
  /\ UNCHANGED <<dst, start, end, file, sub, junk, user, fmt, pc, wiped, res, crashes, copiedNow>>
RmTmpDir ==
  /\ pc = "mktmp" /\ tmp = "empty"
  /\ tmp' = "absent"
  /\ UNCHANGED <<dst, start, end, file, sub, junk, user, fmt, pc, wiped, res, crashes, copiedNow>>
MkTmp ==
  /\ pc = "mktmp" /\ tmp = "absent"
  /\ tmp' = "empty" /\ pc' = "wtmp"
  /\ UNCHANGED <<dst, start, end, file, sub, junk, user, fmt, wiped, res, crashes, copiedNow>>
WriteTmpStart ==
  /\ pc = "wtmp"
  /\ tmp' = "marked" /\ pc' = "rename"
  /\ UNCHANGED <<dst, start, end, file, sub, junk, user, fmt, wiped, res, crashes, copiedNow>>
Rename ==    \* atomic: folder and start marker appear together
  /\ pc = "rename"
  /\ dst' = "present" /\ start' = TRUE /\ tmp' = "absent" /\ pc' = "copy"
  /\ UNCHANGED <<end, file, sub, junk, user, fmt, wiped, res, crashes, copiedNow>>

(* ------------------------------ copying -------------------------------- *)
MkSub(d) ==
  /\ pc = "copy" /\ ~sub[d]
  /\ sub' = [sub EXCEPT ![d] = TRUE]
  /\ UNCHANGED <<dst, start, end, file, junk, tmp, user, fmt, pc, wiped, res, crashes, copiedNow>>
CreateFile(f) ==   \* open(..., "wb"): the file exists, content not yet there
  /\ pc = "copy" /\ DirExists(f) /\ file[f] = "none"
  /\ file' = [file EXCEPT ![f] = "partial"]
  /\ UNCHANGED <<dst, start, end, sub, junk, tmp, user, fmt, pc, wiped, res, crashes, copiedNow>>
FillFile(f) ==     \* the data is written (no separate observable operation)
  /\ pc = "copy" /\ file[f] = "partial"
  /\ file' = [file EXCEPT ![f] = "full"]
  /\ UNCHANGED <<dst, start, end, sub, junk, tmp, user, fmt, pc, wiped, res, crashes, copiedNow>>
WriteEnd ==
  /\ pc = "copy" /\ AllFull
  /\ end' = TRUE /\ copiedNow' = TRUE
  /\ Return([copied |-> TRUE, deleted |-> wiped, fmt |-> fmt])
  /\ UNCHANGED <<dst, start, file, sub, junk, tmp, user, fmt, wiped, crashes>>

Crash ==
  /\ pc \notin {"idle", "ret"} /\ crashes < MaxCrashes
  /\ pc' = "idle" /\ crashes' = crashes + 1
  /\ UNCHANGED <<disk, user, fmt, wiped, res, copiedNow>>       \* the disk keeps what was done

Step ==
  \/ Check \/ WipeDone \/ RmDir \/ MkDir \/ WriteStart \/ RmTmpStart \/ RmTmpDir \/ MkTmp \/ WriteTmpStart
  \/ Rename \/ WriteEnd \/ RmJunk \/ RmEnd \/ RmStart
  \/ \E f \in Files : RmFile(f) \/ CreateFile(f) \/ FillFile(f)
  \/ \E d \in Dirs : RmSub(d) \/ MkSub(d)
Next == Invoke \/ Step \/ Crash

Spec == Init /\ [][Next]_vars /\ WF_vars(Step) /\ WF_vars(Invoke)

(* ------------------------------ normative ------------------------------ *)
\* whenever the function returns normally the local folder is a complete copy - unless the user provided it
ReturnOK == pc = "ret" => (user \/ (dst = "present" /\ AllFull))
\* an interrupted copy is never reported as usable: "nothing to do" only for a user folder or a completed copy
NotUsable == (pc = "ret" /\ ~res.copied) => (user \/ (dst = "present" /\ start /\ end))
\* the result says what was done
Truthful == pc = "ret" =>
  /\ res.copied = copiedNow
  /\ res.deleted = (wiped /\ copiedNow)
  /\ (res.copied => res.fmt = fmt) /\ (~res.copied => res.fmt = "none")
\* a completed automatic copy is never deleted or redone
Completed == dst = "present" /\ start /\ end
NeverRedo == [][Completed => (Completed' /\ file' = file /\ sub' = sub /\ junk' = junk)]_vars
\* a user-provided folder is left untouched
UserKept == [][user => (disk' = disk)]_vars
\* the end marker is only ever present on a complete copy
EndMeansComplete == (dst = "present" /\ end /\ ~user) => AllFull
\* an uninterrupted invocation returns
Terminates == (crashes = MaxCrashes /\ pc = "check") ~> (pc = "ret")
=============================================================================
