--------------------------- MODULE InfiniteBatchRefine ---------------------------
(***************************************************************************)
(* X01 - refinement of InfiniteBatch.tla towards Interleaved.tla (C04):    *)
(* with no side configs, the main stream of                                *)
(*     InterleavedSampler(main_sampler, batch_size, drop_last, epochs=E)   *)
(* consists of the same batches as                                         *)
(*     InfiniteBatchSampler(main_sampler, batch_size, drop_last, epochs=E) *)
(* Both DESCRIPTIVE machines run side by side (the step machine of         *)
(* Interleaved.tla is instantiated with its own variables); a scheduler    *)
(* lets the one that has delivered fewer batches move.  Checked:           *)
(*   - the two batch streams and the two set_epoch streams never disagree  *)
(*     on their common prefix and are equal when both machines are done    *)
(*     (ilmode "epochs": Interleaved runs with epochs = EpochsNeeded(c),   *)
(*     which for kind "e" is the same stop argument);                      *)
(*   - ilmode "same" (Interleaved gets the same updates= / samples=        *)
(*     argument): Interleaved's stream is a prefix of InfiniteBatch's and  *)
(*     the difference is exactly Overshoot(c) < one epoch of batches -     *)
(*     the named deviation Dev_EpochGranularity as a refinement statement; *)
(*   - at common epoch boundaries the three counters agree.                *)
(* Domain: B <= N (InterleavedSampler's constructor asserts it).           *)
(***************************************************************************)
EXTENDS InfiniteBatch, SequencesExt

CONSTANTS MaxN, MaxEpochs

VARIABLES hist,                                       \* events of InfiniteBatch so far
          ilmode,                                     \* "epochs" | "same"
          icfg, iepoch, iupdate, isample, isInUpd, isInEp, isAtLast, ipc, ipending, ik, iemit,
          iout                                        \* events of Interleaved so far
ivars == <<icfg, iepoch, iupdate, isample, isInUpd, isInEp, isAtLast, ipc, ipending, ik, iemit>>
rvars == <<vars, hist, ilmode, ivars, iout>>

IL == INSTANCE Interleaved WITH cfg <- icfg, epoch <- iepoch, update <- iupdate, sample <- isample,
                                sInUpd <- isInUpd, sInEp <- isInEp, sAtLast <- isAtLast, pc <- ipc,
                                pending <- ipending, k <- ik, emit <- iemit

Cfgs ==
  { [N |-> n, B |-> b, drop |-> d, kind |-> kb[1], budget |-> kb[2], se |-> TRUE, miter |-> <<>>] :
      n \in 1..MaxN, b \in 1..MaxN, d \in BOOLEAN,
      kb \in ({"e"} \X (1..MaxEpochs)) \cup ({"u", "s"} \X (1..(MaxEpochs * MaxN))) }
InGrid(c) == /\ c.B <= c.N
             /\ c.kind = "u" => c.budget <= MaxEpochs * UPE(c)
             /\ c.kind = "s" => c.budget <= MaxEpochs * SPE(c)
ILCfg(c, m) ==
  [N |-> c.N, md |-> c.N, B |-> c.B, drop |-> c.drop, dl |-> 0,
   kind |-> (IF m = "epochs" THEN "e" ELSE c.kind),
   budget |-> (IF m = "epochs" THEN EpochsNeeded(c) ELSE c.budget),
   start |-> 0, se |-> c.se, miter |-> c.miter, sides |-> <<>>]

RInit ==
  /\ \E c \in Cfgs, m \in {"epochs", "same"} :
        /\ InGrid(c)
        /\ InitWith(c)
        /\ ilmode = m
        /\ IL!InitWith(ILCfg(c, m))
  /\ hist = <<>>
  /\ iout = <<>>

IBBatches == SelectSeq(hist, LAMBDA e : e.a = "b")
ILClosed  == Cardinality({i \in 1..Len(iout) : iout[i].a = "y" /\ iout[i].full})
ILTurn == ipc # "done" /\ (pc = "done" \/ ILClosed <= Len(IBBatches))
IBTurn == pc # "done" /\ ~ILTurn

ILHist == /\ iout' = IF iemit' = IL!NoEv THEN iout ELSE Append(iout, iemit')
          /\ UNCHANGED <<vars, hist, ilmode>>
IBHist == /\ hist' = IF emit' = NoEv THEN hist ELSE Append(hist, emit')
          /\ UNCHANGED <<ivars, iout, ilmode>>
\* one named disjunct per action of either machine (coverage / vacuity)
RILStart       == ILTurn /\ IL!Start /\ ILHist
RILAnnounce    == ILTurn /\ IL!Announce /\ ILHist
RILEmitMain    == ILTurn /\ IL!EmitMain /\ ILHist
RILCloseUpdate == ILTurn /\ IL!CloseUpdate /\ ILHist
RILAfterUpdate == ILTurn /\ IL!AfterUpdate /\ ILHist
RIBBegin       == IBTurn /\ Begin /\ IBHist
RIBSetEpoch    == IBTurn /\ SetEpoch /\ IBHist
RIBStartIter   == IBTurn /\ StartIter /\ IBHist
RIBEmitIndex   == IBTurn /\ EmitIndex /\ IBHist
RIBExhaust     == IBTurn /\ Exhaust /\ IBHist
RIBCloseBatch  == IBTurn /\ CloseBatch /\ IBHist
RIBResume      == IBTurn /\ Resume /\ IBHist
RIBEndEpoch    == IBTurn /\ EndEpoch /\ IBHist
RIBStop        == IBTurn /\ Stop /\ IBHist
RNext == RILStart \/ RILAnnounce \/ RILEmitMain \/ RILCloseUpdate \/ RILAfterUpdate
           \/ RIBBegin \/ RIBSetEpoch \/ RIBStartIter \/ RIBEmitIndex \/ RIBExhaust \/ RIBCloseBatch \/ RIBResume
           \/ RIBEndEpoch \/ RIBStop
RSpec == RInit /\ [][RNext]_rvars /\ WF_rvars(RNext)

(* ------------------------------ observables ---------------------------- *)
\* batches of Interleaved's main stream: the yielded indices cut at the `full' flags (closed batches only)
RECURSIVE CutAtFull(_, _)
CutAtFull(ys, cur) ==
  IF ys = <<>> THEN <<>>
  ELSE IF Head(ys).full THEN <<Append(cur, Head(ys).idx)>> \o CutAtFull(Tail(ys), <<>>)
  ELSE CutAtFull(Tail(ys), Append(cur, Head(ys).idx))
ILB == CutAtFull(SelectSeq(iout, LAMBDA e : e.a = "y"), <<>>)
IBB == [i \in 1..Len(IBBatches) |-> IBBatches[i].b]
ILSe == [i \in 1..Len(SelectSeq(iout, LAMBDA e : e.a = "se")) |-> SelectSeq(iout, LAMBDA e : e.a = "se")[i].idx]
IBSe == [i \in 1..Len(SelectSeq(hist, LAMBDA e : e.a = "se")) |-> SelectSeq(hist, LAMBDA e : e.a = "se")[i].v]
BothDone == pc = "done" /\ ipc = "done"
Compatible(s, t) == IsPrefix(s, t) \/ IsPrefix(t, s)

R_BatchesCompatible == Compatible(ILB, IBB)
R_AnnounceCompatible == Compatible(ILSe, IBSe)
\* the refinement statement proper
R_SameAsInterleaved == (BothDone /\ (ilmode = "epochs" \/ cfg.kind = "e")) => ILB = IBB /\ ILSe = IBSe
\* the named deviation: Interleaved stops at the update, InfiniteBatch at the end of that epoch
R_PrefixOfSame ==
  (BothDone /\ ilmode = "same") =>
     /\ IsPrefix(ILB, IBB)
     /\ Len(ILB) = MinBatches(cfg)
     /\ Len(IBB) - Len(ILB) = Overshoot(cfg)
     /\ Overshoot(cfg) < UPE(cfg)
     /\ ILSe = IBSe
\* counters of the two classes at a common epoch boundary
R_Counters ==
  (ipc = "announce" /\ pc = "top" /\ ILClosed = Len(IBBatches)) =>
     iepoch = epochs /\ iupdate = updates /\ isample = samples
\* Interleaved never runs ahead by more than the one batch it is allowed to, InfiniteBatch only after Interleaved ended
R_Lockstep == \/ ILClosed - Len(IBBatches) \in 0..1
              \/ ipc = "done" /\ ILClosed <= Len(IBBatches)
Terminates == <>BothDone
=============================================================================
