---- MODULE CopyTraceMC_LH ----
EXTENDS CopyTrace
MCFiles == {"a", "b", "c"}
MCDirs == {"m"}
MCDirOf == "a" :> "." @@ "b" :> "m" @@ "c" :> "."
====
