------------------------------ MODULE MasksIjepa ------------------------------
(***************************************************************************)
(* C17 - DESCRIPTIVE part, I-JEPA: the algorithm of                        *)
(* kappadata/collators/kd_ijepa_mask_collator.py.                          *)
(*                                                                         *)
(*  step():    the shared counter (multiprocessing.Value('i', -1)) is      *)
(*             incremented under its lock; its new value seeds a fresh     *)
(*             torch.Generator from which _sample_block_size draws the     *)
(*             predictor and the encoder block size.  The model keeps the  *)
(*             function "seed -> sizes" in sizeAt: what a seed yields is   *)
(*             chosen once (first use) and is the same ever after, also    *)
(*             for a NEW collator instance whose counter restarts at -1.   *)
(*  _sample_block_size clamps to h <= H - 1, w <= W - 1.                   *)
(*  per sample: P predictor blocks at positions drawn from                 *)
(*             rng.integers(0, H - h) x rng.integers(0, W - w) (upper end  *)
(*             exclusive); then E encoder masks by                         *)
(*  _sample_block_mask_constrained: draw a position, multiply the block    *)
(*             with the complements of the first k = max(P - tries // T,   *)
(*             0) predictor blocks, accept when more than min_keep         *)
(*             patches are left, else tries += 1 (every T failures one     *)
(*             more predictor complement is dropped: the RELAXATION).      *)
(*  collate:   every mask is cut to the shortest mask of its kind in the   *)
(*             batch and the lists are stacked mask-major.                 *)
(*                                                                         *)
(* Mutant (negative control): "none" = the code; "relaxearly" starts with  *)
(* k = P - 1 (one predictor complement is never applied).                  *)
(***************************************************************************)
EXTENDS Masks

CONSTANTS Mutant

VARIABLES jcfg,     \* [H, W, P, E, B, minKeep, T]
          ctr,      \* the collator instance's iteration counter
          sizeAt,   \* set of [step, ph, pw, eh, ew]: what seed `step' yields (grows on first use of a seed)
          phase,    \* "idle" | "pred" | "enc" | "collate" | "done"
          smp,      \* sample being generated, 1..B
          preds,    \* per sample: sequence of predictor blocks (sets of patches)
          encs,     \* per sample: sequence of encoder masks (sets of patches), before the cut
          tries,    \* `tries' of the current _sample_block_mask_constrained call
          relaxed,  \* history: some encoder mask of this call was accepted or rejected with k < P
          out,      \* result of the call: [enc, pred] rows (sequences of indices), mask-major
          calls,    \* history: set of [step, ph, pw, eh, ew] of the calls made so far (all instances)
          ncalls    \* history: number of calls begun so far (all instances)
jvars == <<jcfg, ctr, sizeAt, phase, smp, preds, encs, tries, relaxed, out, calls, ncalls>>

NoOut == [enc |-> <<>>, pred |-> <<>>]
Sz == CHOOSE s \in sizeAt : s.step = ctr          \* sizes of the current call
SizesOK(c, s) == /\ s.ph \in 1..(c.H - 1) /\ s.pw \in 1..(c.W - 1)
                 /\ s.eh \in 1..(c.H - 1) /\ s.ew \in 1..(c.W - 1)
                 /\ s.eh * s.ew > c.minKeep       \* otherwise no block can ever keep more than min_keep patches
\* the disjointness domain, for the sizes of one call (a configuration whose scale ranges are degenerate at these sizes)
CallCfg(s) == [H |-> jcfg.H, W |-> jcfg.W, P |-> jcfg.P, E |-> jcfg.E, minKeep |-> jcfg.minKeep,
               encMinArea |-> s.eh * s.ew, predMaxArea |-> s.ph * s.pw]

JInitWith(c) ==
  /\ jcfg = c /\ ctr = -1 /\ sizeAt = {} /\ phase = "idle" /\ smp = 1
  /\ preds = <<>> /\ encs = <<>> /\ tries = 0 /\ relaxed = FALSE /\ out = NoOut /\ calls = {} /\ ncalls = 0

\* a second collator object with the same configuration: the counter starts again
NewInstance ==
  /\ phase \in {"idle", "done"} /\ ctr >= 0
  /\ ctr' = -1 /\ phase' = "idle" /\ out' = NoOut
  /\ smp' = 1 /\ preds' = <<>> /\ encs' = <<>> /\ tries' = 0 /\ relaxed' = FALSE
  /\ UNCHANGED <<jcfg, sizeAt, calls, ncalls>>
\* collate(): seed = self.step(); sizes = f(seed)
BeginCall ==
  /\ phase \in {"idle", "done"}
  /\ ctr' = ctr + 1
  /\ IF \E s \in sizeAt : s.step = ctr + 1
       THEN sizeAt' = sizeAt
       ELSE \E ph, eh \in 1..(jcfg.H - 1), pw, ew \in 1..(jcfg.W - 1) :
              LET s == [step |-> ctr + 1, ph |-> ph, pw |-> pw, eh |-> eh, ew |-> ew] IN
                SizesOK(jcfg, s) /\ sizeAt' = sizeAt \cup {s}
  /\ phase' = "pred" /\ smp' = 1 /\ preds' = <<<<>>>> /\ encs' = <<<<>>>> /\ tries' = 0 /\ relaxed' = FALSE
  /\ out' = NoOut /\ ncalls' = ncalls + 1
  /\ UNCHANGED <<jcfg, calls>>
\* _sample_block_mask(predictor_size)
SamplePred ==
  /\ phase = "pred" /\ Len(preds[smp]) < jcfg.P
  /\ \E top \in 0..(jcfg.H - Sz.ph - 1), left \in 0..(jcfg.W - Sz.pw - 1) :
        preds' = [preds EXCEPT ![smp] = Append(@, Block(top, left, Sz.ph, Sz.pw, jcfg.W))]
  /\ IF Len(preds[smp]) + 1 = jcfg.P THEN phase' = "enc" /\ tries' = 0 ELSE UNCHANGED <<phase, tries>>
  /\ UNCHANGED <<jcfg, ctr, sizeAt, smp, encs, relaxed, out, calls, ncalls>>
\* one iteration of the `while True' loop of _sample_block_mask_constrained
KOf(t) == LET k0 == IF Mutant = "relaxearly" THEN jcfg.P - 1 ELSE jcfg.P
              d == t \div jcfg.T IN
            IF k0 > d THEN k0 - d ELSE 0
Forbidden(k) == UNION { preds[smp][p] : p \in 1..k }
EncCandidate(top, left) == Block(top, left, Sz.eh, Sz.ew, jcfg.W) \ Forbidden(KOf(tries))
EncReject ==
  /\ phase = "enc"
  /\ (\E top \in 0..(jcfg.H - Sz.eh - 1), left \in 0..(jcfg.W - Sz.ew - 1) :
         Cardinality(EncCandidate(top, left)) <= jcfg.minKeep) = TRUE
  /\ tries' = tries + 1
  /\ relaxed' = (relaxed \/ KOf(tries) < jcfg.P)
  /\ UNCHANGED <<jcfg, ctr, sizeAt, phase, smp, preds, encs, out, calls, ncalls>>
EncAccept ==
  /\ phase = "enc"
  /\ \E top \in 0..(jcfg.H - Sz.eh - 1), left \in 0..(jcfg.W - Sz.ew - 1) :
        /\ Cardinality(EncCandidate(top, left)) > jcfg.minKeep
        /\ LET e2 == [encs EXCEPT ![smp] = Append(@, EncCandidate(top, left))] IN
             encs' = IF Len(encs[smp]) + 1 = jcfg.E /\ smp < jcfg.B THEN Append(e2, <<>>) ELSE e2
  /\ relaxed' = (relaxed \/ KOf(tries) < jcfg.P)
  /\ tries' = 0
  /\ IF Len(encs[smp]) + 1 < jcfg.E THEN UNCHANGED <<phase, smp, preds>>
     ELSE IF smp < jcfg.B
            THEN phase' = "pred" /\ smp' = smp + 1 /\ preds' = Append(preds, <<>>)
            ELSE phase' = "collate" /\ UNCHANGED <<smp, preds>>
  /\ UNCHANGED <<jcfg, ctr, sizeAt, out, calls, ncalls>>

\* ascending enumeration of a finite set of naturals (flatten().nonzero())
RECURSIVE Sorted(_)
Sorted(S) == IF S = {} THEN <<>> ELSE LET m == CHOOSE x \in S : \A y \in S : x <= y IN <<m>> \o Sorted(S \ {m})
Take(s, n) == SubSeq(s, 1, Min2(n, Len(s)))
MinOf(S) == CHOOSE x \in S : \A y \in S : x <= y
\* mask[:min_keep]; default_collate transposes sample-major lists into mask-major tensors; torch.concat stacks them
Collate ==
  /\ phase = "collate"
  /\ LET B == jcfg.B
         lp == MinOf({ Cardinality(preds[b][p]) : b \in 1..B, p \in 1..jcfg.P } \cup {jcfg.H * jcfg.W})
         le == MinOf({ Cardinality(encs[b][e]) : b \in 1..B, e \in 1..jcfg.E } \cup {jcfg.H * jcfg.W}) IN
       out' = [pred |-> [r \in 1..(jcfg.P * B) |-> Take(Sorted(preds[((r - 1) % B) + 1][((r - 1) \div B) + 1]), lp)],
               enc  |-> [r \in 1..(jcfg.E * B) |-> Take(Sorted(encs[((r - 1) % B) + 1][((r - 1) \div B) + 1]), le)]]
  /\ calls' = calls \cup {Sz}
  /\ phase' = "done"
  /\ UNCHANGED <<jcfg, ctr, sizeAt, smp, preds, encs, tries, relaxed, ncalls>>

JNext == NewInstance \/ BeginCall \/ SamplePred \/ EncReject \/ EncAccept \/ Collate

(* -------- invariants of the algorithm (descriptive) -------- *)
\* the while-loop is bounded: after P*T failures nothing is forbidden any more and the block itself is large enough
TriesBound == tries <= jcfg.P * jcfg.T
\* "i.e. where the collator's documented constraint relaxation cannot trigger"
NoRelaxInDomain == (phase # "idle" /\ InDomain(CallCfg(Sz))) => ~relaxed /\ tries = 0
\* every encoder mask keeps more than min_keep patches (before and after the cut)
KeepsEnough == phase = "done" => \A r \in 1..Len(out.enc) : Len(out.enc[r]) > jcfg.minKeep
=============================================================================
