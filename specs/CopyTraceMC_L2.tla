---- MODULE CopyTraceMC_L2 ----
EXTENDS CopyTrace
MCFiles == {"a", "b"}
MCDirs == {"c", "s"}
MCDirOf == "a" :> "c" @@ "b" :> "s"
====
