CONSTANTS
  Files <- MCFiles
  Dirs <- MCDirs
  DirOf <- MCDirOf
  Proto = "v1"
  MaxCrashes = 1000
SPECIFICATION DescSpec
CONSTRAINT DescCollect
POSTCONDITION DescReport
CHECK_DEADLOCK FALSE
