SPECIFICATION TSpec
CONSTANTS
  PVariant = "v1"
CONSTRAINT Constraint
POSTCONDITION Report
CHECK_DEADLOCK FALSE
