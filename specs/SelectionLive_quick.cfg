SPECIFICATION PSpec
CONSTANTS
  Proto = "v1"
  Kinds = {"sort", "intra", "repeat", "oversample", "fewshot", "classwise_idx", "classwise_pct"}
  MaxN = 4
  MaxC = 3
  Den = 4
  MaxShots = 3
  MaxReps = 3
INVARIANT C03_ExactLoopProgress
INVARIANT C03_RepeatWhole
PROPERTY C03_Terminates
CHECK_DEADLOCK FALSE
