---- MODULE CopyTraceMC_L1 ----
EXTENDS CopyTrace
MCFiles == {"a", "b"}
MCDirs == {"s"}
MCDirOf == "a" :> "." @@ "b" :> "s"
====
