---------------------------- MODULE CollatePadProps ----------------------------
(***************************************************************************)
(* Model-checking harness for CollatePad.tla.  Init picks style, entry,    *)
(* batch size 1..MaxB and the field kinds of a mode of 1..MaxK items; a    *)
(* first step `Configure' picks the length profile (MinL..MaxL per sample  *)
(* and sequence field).  The machine of PadSequencesCollator.collate runs  *)
(* and the normative clauses P_* are evaluated on the projected result.    *)
(* Proto "v1" must satisfy all of them, Proto "v0" is the negative control.*)
(***************************************************************************)
EXTENDS CollatePad

CONSTANTS MaxK, MaxB, MinL, MaxL

VARIABLE configured
pvars == <<vars, configured>>

FieldKinds == {[t |-> "seq", tail |-> <<>>], [t |-> "seq", tail |-> <<2>>], [t |-> "sc", tail |-> <<>>],
               [t |-> "t0", tail |-> <<>>]}
FieldSeqs == UNION {[1..n -> FieldKinds] : n \in 1..MaxK}
Profiles(fs, B) == {l \in [1..B -> [1..Len(fs) -> (MinL..MaxL) \cup {1}]] :
                       \A b \in 1..B, k \in 1..Len(fs) : fs[k].t # "seq" => l[b][k] = 1}
ValsOf(fs, B, l) ==
  [b \in 1..B |-> [k \in 1..Len(fs) |->
      IF fs[k].t = "seq" THEN [j \in 1..(l[b][k] * W(fs[k])) |-> 100 * b + 10 * k + ((j - 1) % 9) + 1]
      ELSE <<100 * b + 10 * k>>]]
MkCfg(fs, B, l, style, entry) ==
  [fields |-> fs, B |-> B, len |-> l, vals |-> ValsOf(fs, B, l), style |-> style, entry |-> entry,
   skeys |-> [b \in 1..B |-> IF style = "plain" THEN <<>> ELSE <<"c1">>],
   svals |-> [b \in 1..B |-> IF style = "plain" THEN <<>> ELSE <<900 + b>>]]

PInit ==
  /\ \E fs \in FieldSeqs, B \in 1..MaxB, style \in {"plain", "ctx", "raw"}, entry \in {"compose", "single", "wrapper"} :
        \* the collator's own return_ctx cannot be left unset when it is called directly
        InitWith(MkCfg(fs, B, [b \in 1..B |-> [k \in 1..Len(fs) |-> 1]], style, entry))
  /\ configured = FALSE
Configure ==
  /\ ~configured
  /\ configured' = TRUE
  /\ \E l \in Profiles(cfg.fields, cfg.B) :
        cfg' = MkCfg(cfg.fields, cfg.B, l, cfg.style, cfg.entry)
  /\ UNCHANGED <<pc, stack, retv, ctxv, obs>>
Keep == UNCHANGED configured
PEntry == configured /\ Entry /\ Keep
PEnter == configured /\ Enter /\ Keep
PField == configured /\ Field /\ Keep
PFieldsDone == configured /\ FieldsDone /\ Keep
PPairData == configured /\ PairData /\ Keep
PPairCtx == configured /\ PairCtx /\ Keep
PFinish == configured /\ Finish /\ Keep
PNext == Configure \/ PEntry \/ PEnter \/ PField \/ PFieldsDone \/ PPairData \/ PPairCtx \/ PFinish
PSpec == PInit /\ [][PNext]_pvars /\ WF_pvars(PNext)

Done == pc = "done"
M_Answers == Done => P_Answers(cfg, obs)
M_Layout == Done => P_Layout(cfg, obs)
M_PadToMax == Done => P_PadToMax(cfg, obs)
M_Prefix == Done => P_Prefix(cfg, obs)
M_Zeros == Done => P_Zeros(cfg, obs)
M_OthersDefault == Done => P_OthersDefault(cfg, obs)
M_CtxIff == Done => P_CtxIff(cfg, obs)
M_CtxKeys == Done => P_CtxKeys(cfg, obs)
M_CtxValues == Done => P_CtxValues(cfg, obs)
\* antecedents are not vacuous: a finished run that answered is fully shaped
M_Shaped == (Done /\ obs.out = "ret") => Shaped(cfg, obs)
\* recursion depth of collate() is bounded by 2 (pair -> data / contexts); the field counter stays in range
M_Depth == Len(stack) <= 2
M_Counter == \A s \in 1..Len(stack) : stack[s].pc = "fields" => stack[s].fi \in 1..(Len(stack[s].b[1].items) + 1)
Terminates == <>Done
=============================================================================
