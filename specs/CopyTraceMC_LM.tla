---- MODULE CopyTraceMC_LM ----
EXTENDS CopyTrace
MCFiles == {"a", "b", "c", "e"}
MCDirs == {}
MCDirOf == "a" :> "." @@ "b" :> "." @@ "c" :> "." @@ "e" :> "."
====
