SPECIFICATION PSpec
CONSTANTS
  Mutant = "padodd"
  Tries = 2
  Q = 4
  MaxHW = 3
  MaxT = 3
  MaxSmall = 2
  MaxLong = 4
INVARIANT C14_Answers
INVARIANT C14_ServesDomain
INVARIANT C14_InBounds
INVARIANT C14_Size
INVARIANT C14_TwoCrop
INVARIANT C14_Erase
INVARIANT C14_Mask
INVARIANT C14_Pad
INVARIANT C14_Resize
INVARIANT C14_Cover
INVARIANT C14_Inverse
INVARIANT C14_PatchTiles
CHECK_DEADLOCK FALSE
