SPECIFICATION PSpec
CONSTANTS
  MaxN = 3
  MaxB = 4
  MaxEpochs = 3
  Variant = "early"
INVARIANT P_SetEpochOrder
INVARIANT P_SetEpochOnce
INVARIANT P_SetEpochBeforeDraw
INVARIANT P_IterOrder
INVARIANT P_BatchesExact
INVARIANT P_BatchIsDrawn
INVARIANT P_NoMix
INVARIANT P_BatchSize
INVARIANT P_Seamless
INVARIANT P_StopNotEarly
INVARIANT P_StopNotLate
INVARIANT P_NoError
INVARIANT P_CutOnlyUnbounded
INVARIANT P_EveryCutDelivered
INVARIANT P_Complete
PROPERTY Terminates
CHECK_DEADLOCK FALSE
