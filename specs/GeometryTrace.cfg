SPECIFICATION TSpec
CONSTANTS
  Mutant = "none"
  Tries = 10
  Q = 8
CONSTRAINT Constraint
POSTCONDITION Report
CHECK_DEADLOCK FALSE
