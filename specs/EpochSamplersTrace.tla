-------------------------- MODULE EpochSamplersTrace --------------------------
(***************************************************************************)
(* Trace validation for EpochSamplers.tla (C13).  TRACE_FILE holds         *)
(*   {"traces": [{"id": n, "cfg": {sampler, kind, cls, C, spc, W, shuffle, *)
(*                                 nl, nu, mode, size}, "ev": [...]}]}     *)
(* recorded from the REAL ClassBalancedSampler / SemiSampler /             *)
(* WeightedSampler (harness/drivers/samplers.py): one sampler object per   *)
(* rank; every event is one epoch observed at the public API               *)
(*   {a:"epoch", e, lens: [len(S_r)], streams: [list(S_r)]}                *)
(* after set_epoch(e); {a:"exc", what} is an exception that escaped.       *)
(*   cls   class of every dataset index as the harness dataset defines it  *)
(*         (-1 = unlabeled; all 0 for the weighted sampler)                *)
(*   spc   requested samples_per_class, 0 = not given                      *)
(*   size  requested size of the weighted sampler, 0 = not given           *)
(*                                                                         *)
(* One step consumes one event and evaluates the NORMATIVE operators of    *)
(* EpochSamplers.tla on the observed values.  The generator outcomes are   *)
(* not observable, so the descriptive machine is not replayed here (its    *)
(* variables stutter); that the machine implies the same operators for     *)
(* every generator outcome is what EpochSamplersProps checks.              *)
(***************************************************************************)
EXTENDS EpochSamplers, Json, IOUtils, TLCExt

VARIABLES tid, l, oFail
tvars == <<vars, tid, l, oFail>>

Traces == JsonDeserialize(IOEnv.TRACE_FILE).traces
ASSUME TLCSet(1, {}) /\ TLCSet(2, {})

Ev(i) == Traces[tid].ev[i]
NEv == Len(Traces[tid].ev)
C == Traces[tid].cfg

TInit ==
  /\ tid \in 1..Len(Traces)
  /\ l = 1
  /\ oFail = {}
  /\ cfg = [kind |-> "none"]
  /\ pc = "idle"
  /\ ci = 0 /\ rem = 0 /\ acc = <<>>
  /\ pL = <<>> /\ kL = 0 /\ pU = <<>> /\ kU = 0 /\ pos = 0
  /\ out = <<>>

Clause(name, holds) == IF holds THEN {} ELSE {name}

CBClauses(e) ==
  LET s == SpcOf(C.cls, C.C, C.spc)
      valid == ValidIdx(e.streams, Len(C.cls))
  IN Clause("C13_CB_Length", LengthIs(e.streams, e.lens, C.W, CB_Len(C.C, s, C.W)))
     \cup Clause("C13_ValidIndices", valid)
     \cup (IF ~valid THEN {} ELSE
           Clause("C13_CB_PerClass", CB_PerClass(e.streams, C.cls, C.C, s, C.W))
           \cup Clause("C13_CB_Even", CB_Even(e.streams, C.cls, C.C, s, C.W)))

SemiClauses(e) ==
  LET valid == ValidIdx(e.streams, Len(C.cls))
  IN Clause("C13_Semi_Length", LengthIs(e.streams, e.lens, C.W, Semi_Len(C.cls, C.nl, C.nu, C.mode, C.W)))
     \cup Clause("C13_ValidIndices", valid)
     \cup (IF ~valid THEN {} ELSE
           Clause("C13_Semi_Alternation",
                  \A r \in 1..Len(e.streams) : Semi_Alternation(e.streams[r], C.cls, C.nl, C.nu))
           \cup Clause("C13_Semi_PoolCycle", \A r \in 1..Len(e.streams) : Semi_PoolCycle(e.streams[r], C.cls))
           \cup Clause("C13_Semi_RanksDiffer", Semi_RanksDiffer(e.streams, C.cls)))

WClauses(e) ==
  Clause("C13_W_Length", LengthIs(e.streams, e.lens, C.W, W_Len(Len(C.cls), C.size, C.W)))
  \cup Clause("C13_ValidIndices", ValidIdx(e.streams, Len(C.cls)))
  \cup Clause("C13_W_NoRepeat", W_NoRepeat(e.streams))

ObsEpoch ==
  /\ l <= NEv /\ Ev(l).a = "epoch"
  /\ oFail' = (CASE C.kind = "cb" -> CBClauses(Ev(l))
                 [] C.kind = "semi" -> SemiClauses(Ev(l))
                 [] C.kind = "w" -> WClauses(Ev(l)))
  /\ l' = l + 1
  /\ UNCHANGED <<vars, tid>>
ObsExc ==
  /\ l <= NEv /\ Ev(l).a = "exc"
  /\ oFail' = {"C13_NoError"}
  /\ l' = l + 1
  /\ UNCHANGED <<vars, tid>>
TNext == ObsEpoch \/ ObsExc
TSpec == TInit /\ [][TNext]_tvars

Collect ==
  IF oFail # {} THEN TLCSet(2, TLCGet(2) \cup {<<Traces[tid].id, l - 1, oFail>>})
  ELSE IF l = NEv + 1 THEN TLCSet(1, TLCGet(1) \cup {Traces[tid].id})
  ELSE TRUE
Constraint == Collect /\ oFail = {}
Report == PrintT(<<"ACCEPTED", TLCGet(1)>>) /\ PrintT(<<"REJECTED", TLCGet(2)>>)
=============================================================================
