--------------------------- MODULE MixCollatorTrace ---------------------------
(***************************************************************************)
(* Trace validation for C10.  TRACE_FILE holds                             *)
(*   {"traces": [{"id": n, "cfg": {B, H, W, K, onehot, lamb, shuffle, S,   *)
(*                                 Tol, y0, ...}, "ev": [...]}]}           *)
(* recorded by harness/drivers/mixing.py from the REAL KDMixCollator /     *)
(* MAEFinetuneMixCollator called on id-encoded batches.  One trace = one   *)
(* collator instance called on several successive batches; per batch       *)
(*   {a:"sample", k, lab, pc, lam, cut}   one per output sample, in order  *)
(*   {a:"batch", pin, pout, nin, nout, xs, ys}                             *)
(* or {a:"exc", type} if the call raised.  Every step consumes one event   *)
(* and evaluates the normative clauses of MixCollatorNorm on the observed  *)
(* values; a trace stops at its first failed clause.                       *)
(***************************************************************************)
EXTENDS MixCollatorNorm, Json, IOUtils, TLCExt

VARIABLES tid, l, cand, smp, fail
tvars == <<tid, l, cand, smp, fail>>

Traces == JsonDeserialize(IOEnv.TRACE_FILE).traces
ASSUME TLCSet(1, {}) /\ TLCSet(2, {})

C == Traces[tid].cfg
Ev(n) == Traces[tid].ev[n]
NEv == Len(Traces[tid].ev)
IsEv(a) == l <= NEv /\ Ev(l).a = a
Range(q) == {q[n] : n \in 1..Len(q)}

TInit ==
  /\ tid \in 1..Len(Traces)
  /\ l = 1
  /\ cand = <<>> /\ smp = <<>>
  /\ fail = {}

TSample ==
  /\ IsEv("sample")
  /\ LET e == Ev(l)
         s == [lab |-> e.lab, pcs |-> Range(e.pc), lam |-> e.lam]
         cd == Cand(C, s, e.k)
     IN /\ cand' = Append(cand, cd)
        /\ smp' = Append(smp, s)
        /\ fail' = SampleFails(C, s, e.k, cd) \cup (IF e.k = Len(cand) + 1 /\ e.k <= C.B THEN {} ELSE {"Malformed"})
  /\ l' = l + 1 /\ UNCHANGED tid

TBatch ==
  /\ IsEv("batch")
  /\ fail' = (IF Len(cand) = C.B THEN BatchFails(C, smp, cand) ELSE {"Malformed"})
               \cup (IF C10_PassThrough(Ev(l)) THEN {} ELSE {"C10_PassThrough"})
               \cup (IF C10_Layout(C, Ev(l)) THEN {} ELSE {"C10_Layout"})
  /\ cand' = <<>> /\ smp' = <<>>
  /\ l' = l + 1 /\ UNCHANGED tid

\* the collator raised on an in-domain batch
TExc ==
  /\ IsEv("exc")
  /\ fail' = {"C10_NoError"}
  /\ cand' = <<>> /\ smp' = <<>>
  /\ l' = l + 1 /\ UNCHANGED tid

TNext == TSample \/ TBatch \/ TExc
TSpec == TInit /\ [][TNext]_tvars

Collect ==
  IF fail # {} THEN TLCSet(2, TLCGet(2) \cup {<<Traces[tid].id, l - 1, fail>>})
  ELSE IF l = NEv + 1 THEN TLCSet(1, TLCGet(1) \cup {Traces[tid].id})
  ELSE TRUE
Constraint == Collect /\ fail = {}
Report == PrintT(<<"ACCEPTED", TLCGet(1)>>) /\ PrintT(<<"REJECTED", TLCGet(2)>>)
=============================================================================
