---------------------------- MODULE RankSplitProps ----------------------------
(***************************************************************************)
(* Model-checking harness for RankSplit.tla (C12).  The configuration is   *)
(* chosen from a bounded grid (geometry in Init, draw / repeats /          *)
(* drop_last in a first Configure step), the ranks run their slices in any *)
(* interleaving, and the clauses of C12 are stated over the history of     *)
(* what each rank yielded (`out'), the reported length and the global draw *)
(* - never over the machine's cursors.                                     *)
(***************************************************************************)
EXTENDS RankSplit

CONSTANTS MaxN,     \* draw lengths 1..MaxN
          MaxW,     \* world sizes 1..MaxW  (W > N included)
          MaxRep,   \* num_repeats 1..MaxRep
          ReplN     \* with-replacement draws (RandomSampler) are enumerated for N <= ReplN

VARIABLE configured
pvars == <<vars, configured>>

Perms(n) == { p \in [1..n -> 0..(n - 1)] : \A i, j \in 1..n : i # j => p[i] # p[j] }
Draws(kind, n) == IF kind = "rand" /\ n <= ReplN THEN [1..n -> 0..(n - 1)] ELSE Perms(n)
IsPerm(p) == \A i, j \in 1..Len(p) : i # j => p[i] # p[j]

Geoms == { [kind |-> k, N |-> n, W |-> w] : k \in {"dist", "cut", "rand"}, n \in 1..MaxN, w \in 1..MaxW }

PInit ==
  /\ \E g \in Geoms :
       /\ (g.kind = "rand" => g.W = 1)
       /\ InitWith([kind |-> g.kind, N |-> g.N, W |-> g.W, drop |-> FALSE, rep |-> 1, pi |-> [i \in 1..g.N |-> i - 1]])
  /\ configured = FALSE
Configure ==
  /\ ~configured
  /\ configured' = TRUE
  /\ \E rp \in 1..MaxRep, d \in BOOLEAN, p \in Draws(cfg.kind, cfg.N) :
       /\ (cfg.kind # "dist" => ~d)
       /\ (cfg.kind = "cut" => rp = 1)            \* class-balanced / weighted have no repeated augmentation
       /\ cfg' = [cfg EXCEPT !.rep = rp, !.drop = d, !.pi = p]
  /\ UNCHANGED <<G, padded, tmp, pc, cur, out, fin, err>>

PDrawSlot   == configured /\ DrawSlot /\ UNCHANGED configured
PDrawDone   == configured /\ DrawDone /\ UNCHANGED configured
PDecide     == configured /\ Decide /\ UNCHANGED configured
PPadHead    == configured /\ PadHead /\ UNCHANGED configured
PPadMulCopy == configured /\ PadMulCopy /\ UNCHANGED configured
PPadMulDone == configured /\ PadMulDone /\ UNCHANGED configured
PPadCat     == configured /\ PadCat /\ UNCHANGED configured
PCutList    == configured /\ CutList /\ UNCHANGED configured
PEmit       == configured /\ (\E r \in Ranks : Emit(r)) /\ UNCHANGED configured
PFinish     == configured /\ (\E r \in Ranks : Finish(r)) /\ UNCHANGED configured
PAllDone    == configured /\ AllDone /\ UNCHANGED configured
PNext == Configure \/ PDrawSlot \/ PDrawDone \/ PDecide \/ PPadHead \/ PPadMulCopy \/ PPadMulDone \/ PPadCat
           \/ PCutList \/ PEmit \/ PFinish \/ PAllDone
PSpec == PInit /\ [][PNext]_pvars /\ WF_pvars(PNext)

(* ------------------------------- clauses -------------------------------- *)
IsDone == pc = "done"
L == LenOf(cfg)                                    \* the documented len(sampler)
Lens == [r \in 1..cfg.W |-> NumSamples(cfg)]       \* what every rank's sampler reports as its len
\* the global draw as the statement understands it: a function of (seed, epoch) alone
Draw == [i \in 1..cfg.N |-> cfg.pi[((i - 1) \div cfg.rep) + 1]]

\* the arithmetic the code uses for its length is the documented one
C12_LenFormula == NumSamples(cfg) = LenOf(cfg)
\* every rank yields exactly len(sampler) entries
C12_EqualLength == IsDone => EqualLength(out, Lens, cfg.W)
\* ranks are equalised by dropping / wrapping fewer than W trailing entries
C12_SplitEvenly == SplitEvenly(Pads(cfg), cfg.N, cfg.W, NumSamples(cfg))
\* the streams interleave back into the single global draw (tail dropped or head wrapped around)
C12_SingleDraw == IsDone => SingleDraw(out, cfg.W, NumSamples(cfg), Draw)
\* ... and never leave it while they are produced (entry k of rank r is position (k-1)W + r of the padded draw)
C12_OnDrawAlways ==
  \A r \in Ranks : \A k \in 1..Len(out[r]) :
     out[r][k] = Draw[(((k - 1) * cfg.W + r - 1) % cfg.N) + 1]
\* repeated augmentation: runs of num_repeats, distinct runs when drawn without replacement
C12_RepeatRuns == (pc # "draw") => /\ G = Draw
                                   /\ RepeatRuns(G, cfg.rep, IsPerm(cfg.pi))
\* no assert of the code trips
C12_NoAssert == ~err
Terminates == <>IsDone
=============================================================================
