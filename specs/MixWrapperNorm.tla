----------------------------- MODULE MixWrapperNorm -----------------------------
(***************************************************************************)
(* NORMATIVE PART of property C11 (sample-level mix returns a convex       *)
(* combination with matching label weights).  No variables: the clauses    *)
(* are operators over OBSERVATIONS of KDMixWrapper accesses through        *)
(* ModeWrapper.                                                            *)
(*                                                                         *)
(* The wrapped dataset is ID-ENCODED: along an id axis sample i carries the *)
(* unit vector e_i (N entries, the same at every position of its own       *)
(* spatial shape c.shp[i]) followed by one COORDINATE entry per spatial     *)
(* dimension (the position's own coordinate); its class is c.cls[i].       *)
(* Every output position therefore decodes to a vector `vec' = coefficients *)
(* over the dataset's samples, followed by one DISPLACEMENT per spatial     *)
(* dimension (coordinate entry minus own coordinate times the coefficient   *)
(* sum: 0 iff every contribution to a position comes from the SAME          *)
(* position of its source, i.e. the partner is aligned at the origin).      *)
(* Reals are integers over the scale c.S with tolerance c.Tol               *)
(* (model: S = 4, Tol = 0; traces: S = 10^6, Tol = 100).                    *)
(*   c = [N, K, cls, shp, fshp, p1, seeded, cutmix, S, Tol]                *)
(*   e = [a |-> "get", i, form, hasx, hasc,                                *)
(*        lab  : Seq(Int)      label vector (<<>> if not requested)        *)
(*        pc   : Seq of position classes [vec, n, lo, hi] (distinct        *)
(*               decoded vectors, count, bounding box per spatial dim)     *)
(*        xs   : full shape of the returned x                              *)
(*        nx, nc : how many x / class loads the wrapped dataset served]    *)
(***************************************************************************)
EXTENDS Integers, Sequences, FiniteSets, TLC

Abs(x) == IF x < 0 THEN -x ELSE x
Min2(a, b) == IF a < b THEN a ELSE b
Near(c, a, b) == Abs(a - b) <= c.Tol
Range(q) == {q[n] : n \in 1..Len(q)}
RECURSIVE Prod(_)
Prod(q) == IF q = <<>> THEN 1 ELSE Head(q) * Prod(Tail(q))
RECURSIVE SumSeq(_)
SumSeq(q) == IF q = <<>> THEN 0 ELSE Head(q) + SumSeq(Tail(q))
VecNear(c, u, v) == Len(u) = Len(v) /\ \A k \in 1..Len(u) : Near(c, u[k], v[k])
Samples(c) == 1..c.N

\* w * e_i + (1 - w) * e_j   /   w * e_i (where the partner has no data: padded with zeros)
\* (coefficients over the samples, then displacement 0 in every spatial dimension)
VLen(c, i) == c.N + Len(c.shp[i])
InV(c, i, j, w) == [k \in 1..VLen(c, i) |-> (IF k = i THEN w ELSE 0) + (IF k = j THEN c.S - w ELSE 0)]
OutV(c, i, w) == [k \in 1..VLen(c, i) |-> IF k = i THEN w ELSE 0]
\* the part of sample i's extent that sample j covers (pad_or_cut_end: both anchored at the origin)
Ext(c, i, j) == [d \in 1..Len(c.shp[i]) |-> Min2(c.shp[i][d], c.shp[j][d])]
Zeros(c, i) == [d \in 1..Len(c.shp[i]) |-> 0]

\* x = w * x_i + (1 - w) * pad_or_cut(x_j)
ImageOK(c, e, i, j, w) ==
  LET tot == Prod(c.shp[i])
      nin == Prod(Ext(c, i, j))
      pcs == Range(e.pc)
  IN \/ \E q \in pcs : /\ pcs = {q} /\ q.n = tot
                       /\ VecNear(c, q.vec, InV(c, i, j, w))
                       /\ (nin = tot \/ VecNear(c, q.vec, OutV(c, i, w)))
     \/ /\ nin < tot
        /\ \E qi \in pcs, qo \in pcs :
             /\ pcs = {qi, qo} /\ qi # qo
             /\ VecNear(c, qi.vec, InV(c, i, j, w)) /\ qi.n = nin /\ qi.lo = Zeros(c, i) /\ qi.hi = Ext(c, i, j)
             /\ VecNear(c, qo.vec, OutV(c, i, w)) /\ qo.n = tot - nin
\* label = w * onehot_i + (1 - w) * onehot_j
LabelOK(c, e, i, j, w) ==
  /\ Len(e.lab) = c.K
  /\ \A k \in 1..c.K : Near(c, e.lab[k], (IF k = c.cls[i] THEN w ELSE 0) + (IF k = c.cls[j] THEN c.S - w ELSE 0))

\* weights an observation can witness; convexity: only weights in [0, 1]
WC(c, e, i) ==
  {w \in ({c.S} \cup (IF e.hasc /\ Len(e.lab) = c.K THEN {e.lab[c.cls[i]]} ELSE {})
               \cup (IF e.hasx THEN {q.vec[i] : q \in {r \in Range(e.pc) : Len(r.vec) = VLen(c, i)}} ELSE {})) : w \in 0..c.S}
Explained(c, e, i, j, w) == (e.hasx => ImageOK(c, e, i, j, w)) /\ (e.hasc => LabelOK(c, e, i, j, w))
\* can this request tell the weight if the partner is j ?
Observable(c, e, i, j) == (e.hasx /\ j # i) \/ (e.hasc /\ c.cls[j] # c.cls[i])
\* all draws <<partner, weight>> that explain the observation; weight -1 = any weight
Expl(c, e, i) ==
  UNION {IF Observable(c, e, i, j) THEN {<<j, w>> : w \in {v \in WC(c, e, i) : Explained(c, e, i, j, v)}}
         ELSE IF Explained(c, e, i, j, c.S) THEN {<<j, -1>>} ELSE {} : j \in Samples(c)}
Refused == {<<0, -2>>}
Meet(c, E1, E2) ==
  {<<ab[1][1], IF ab[1][2] = -1 THEN ab[2][2] ELSE ab[1][2]>> :
      ab \in {p \in E1 \X E2 : /\ p[1][1] = p[2][1]
                                /\ (p[1][2] = p[2][2] \/ p[1][2] = -1 \/ p[2][2] = -1
                                      \/ (p[1][2] >= 0 /\ p[2][2] >= 0 /\ Near(c, p[1][2], p[2][2])))}}

(* ------------------------ the clauses of C11 --------------------------- *)
\* untouched, or a convex combination of sample i and ONE sample of the dataset (shapes unified as configured)
C11_Convex(c, e, i) == e.hasx => \E j \in Samples(c), w \in WC(c, e, i) : ImageOK(c, e, i, j, w)
\* one-hot of the sample, or mixed with ONE sample's one-hot
C11_LabelMix(c, e, i) == e.hasc => \E j \in Samples(c), w \in WC(c, e, i) : LabelOK(c, e, i, j, w)
\* label mixed with the same partner and weight as the data
C11_SamePartnerWeight(c, e, i) == Expl(c, e, i) # {}
\* label vectors are non-negative and sum to one
C11_Simplex(c, e) == e.hasc => (\A k \in 1..Len(e.lab) : e.lab[k] >= 0) /\ Near(c, SumSeq(e.lab), c.S)
\* output has the shape of sample i
C11_Shape(c, e, i) == e.hasx => e.xs = c.fshp[i]
\* a probability-one configuration mixes every sample: a partner was drawn and loaded for every access
C11_ProbOne(c, e) == c.p1 => (e.hasx => e.nx >= 2) /\ (e.hasc => e.nc >= 2)

GetFails(c, e, ex) ==
  (IF ex # {} THEN {}
   ELSE (IF C11_Convex(c, e, e.i) THEN {} ELSE {"C11_Convex"}) \cup
        (IF C11_LabelMix(c, e, e.i) THEN {} ELSE {"C11_LabelMix"}) \cup {"C11_SamePartnerWeight"}) \cup
  (IF C11_Simplex(c, e) THEN {} ELSE {"C11_Simplex"}) \cup
  (IF C11_Shape(c, e, e.i) THEN {} ELSE {"C11_Shape"}) \cup
  (IF C11_ProbOne(c, e) THEN {} ELSE {"C11_ProbOne"})

\* with a seed set, image-only, label-only and joint requests of one index describe the same draw:
\* known = what earlier requests of this index left possible ({} = nothing asked yet is encoded by the caller)
C11_SeedSameDraw(c, known, ex) == Meet(c, known, ex) # {}
\* an explicit refusal is an answer only for a configuration with cutmix probability (not implemented)
C11_NoError(c) == c.cutmix

(* ---- one judged request: shared by the design model and the trace validation ---- *)
\* ex = what this request leaves possible; wasAsked / kn = whether / what earlier requests of the same index left
StepEx(c, e) == IF e.a = "refuse" THEN Refused ELSE Expl(c, e, e.i)
StepFails(c, e, ex, wasAsked, kn) ==
  (IF e.a = "refuse" THEN (IF C11_NoError(c) THEN {} ELSE {"C11_NoError"}) ELSE GetFails(c, e, ex)) \cup
  (IF c.seeded /\ wasAsked /\ ex # {} /\ kn # {} /\ ~C11_SeedSameDraw(c, kn, ex) THEN {"C11_SeedSameDraw"} ELSE {})
StepKnown(c, ex, wasAsked, kn) == IF wasAsked THEN Meet(c, kn, ex) ELSE ex
=============================================================================
