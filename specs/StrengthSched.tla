----------------------------- MODULE StrengthSched -----------------------------
(***************************************************************************)
(* C15, second half: KDScheduledTransform under a multi-worker DataLoader. *)
(*                                                                         *)
(* Environment (torch DataLoader, in-order): the main process cuts the     *)
(* index stream into global batches 0, 1, 2, ... and hands batch b to      *)
(* worker b mod W; every worker owns a private copy of the transform and   *)
(* processes its batches in the order received, sample by sample; workers  *)
(* run at arbitrary relative speed (every interleaving is a behaviour).    *)
(* A run consists of E epochs of BPE batches each (one loader pass, as the *)
(* interleaved sampler produces); all batches have BS samples except,      *)
(* outside the stated domain, the last batch of an epoch (LastSize < BS).  *)
(*                                                                         *)
(* Descriptive part (kd_scheduled_transform.py, __call__):                 *)
(*   batch_idx = sample_counter // batch_size * num_workers + rank         *)
(*   strength  = schedule.get_value(batch_idx, n_batches)  (asserts        *)
(*               0 <= batch_idx < n_batches)                               *)
(*   sample_counter += 1; transform.scale_strength(strength);              *)
(*   ctx[key] = strength                                                   *)
(* Variant = "shipped" is that formula; "stride" (.. // batch_size + rank),*)
(* "norank" (no + rank), "global" (// batch_size only) and "offbyone"      *)
(* ((.. + 1) * num_workers + rank) are negative controls.                  *)
(* Dispatch = "roundrobin" | "any" (any: a loader that does not assign     *)
(* batches round-robin - shows that the environment assumption matters).   *)
(*                                                                         *)
(* Normative part: every sample of global batch b is transformed with the  *)
(* schedule's value AT b (the schedule is an uninterpreted injective       *)
(* function of b here, so "value at b" is "index b"), the schedule is      *)
(* never asked outside 0..NB-1, whatever W is.                             *)
(***************************************************************************)
EXTENDS Integers, Sequences, FiniteSets, TLC

CONSTANTS MaxW, MaxBS, MaxNB, MaxE,
          FullOnly,    \* TRUE: the stated domain (full batches only)
          Variant, Dispatch

VARIABLES W, BS, E, BPE, LastSize,   \* configuration (chosen by the first step)
          configured,
          next,      \* next global batch the loader hands out
          queue,     \* queue[r]: batches handed to worker r and not started yet
          curb,      \* curb[r]: the batch worker r is working on (-1: none)
          left,      \* left[r]: samples of curb[r] still to do
          counter,   \* counter[r]: sample_counter of worker r's copy of the transform
          got,       \* got[b]: samples of batch b transformed so far
          wrong,     \* {<<b, idx>>}: a sample of batch b was given the schedule's value at idx # b
          refused    \* the schedule was asked for an index outside 0..NB-1 (its assertion fails)
svars == <<W, BS, E, BPE, LastSize, configured, next, queue, curb, left, counter, got, wrong, refused>>

NB == E * BPE
Workers == 0..(W - 1)
SizeOf(b) == IF (b + 1) % BPE = 0 THEN LastSize ELSE BS

\* the transform's own idea of the global batch of its next sample
BatchIdx(c, r) ==
  CASE Variant = "shipped" -> (c \div BS) * W + r
    [] Variant = "stride" -> (c \div BS) + r
    [] Variant = "norank" -> (c \div BS) * W
    [] Variant = "global" -> c \div BS
    [] Variant = "offbyone" -> ((c \div BS) + 1) * W + r

SInit ==
  /\ W = 1 /\ BS = 1 /\ E = 1 /\ BPE = 1 /\ LastSize = 1 /\ configured = FALSE
  /\ next = 0 /\ queue = <<>> /\ curb = <<>> /\ left = <<>> /\ counter = <<>> /\ got = <<>>
  /\ wrong = {} /\ refused = FALSE

Configure ==
  /\ ~configured
  /\ \E w \in 1..MaxW, bs \in 1..MaxBS, e \in 1..MaxE, bpe \in 1..MaxNB, ls \in 1..MaxBS :
        /\ e * bpe <= MaxNB
        /\ ls <= bs
        /\ FullOnly => ls = bs
        /\ W' = w /\ BS' = bs /\ E' = e /\ BPE' = bpe /\ LastSize' = ls
        /\ queue' = [r \in 0..(w - 1) |-> <<>>]
        /\ curb' = [r \in 0..(w - 1) |-> -1]
        /\ left' = [r \in 0..(w - 1) |-> 0]
        /\ counter' = [r \in 0..(w - 1) |-> 0]     \* every worker starts from a copy of the unused transform
        /\ got' = [b \in 0..(e * bpe - 1) |-> 0]
  /\ configured' = TRUE
  /\ UNCHANGED <<next, wrong, refused>>

\* the loader hands the next global batch to a worker
Hand ==
  /\ configured /\ next < NB
  /\ \E r \in Workers :
        /\ Dispatch = "roundrobin" => r = next % W
        /\ queue' = [queue EXCEPT ![r] = Append(@, next)]
  /\ next' = next + 1
  /\ UNCHANGED <<W, BS, E, BPE, LastSize, configured, curb, left, counter, got, wrong, refused>>

\* a worker starts its next batch
Take(r) ==
  /\ configured /\ left[r] = 0 /\ queue[r] # <<>>
  /\ curb' = [curb EXCEPT ![r] = Head(queue[r])]
  /\ left' = [left EXCEPT ![r] = SizeOf(Head(queue[r]))]
  /\ queue' = [queue EXCEPT ![r] = Tail(@)]
  /\ UNCHANGED <<W, BS, E, BPE, LastSize, configured, next, counter, got, wrong, refused>>

\* KDScheduledTransform.__call__ on one sample
Apply(r) ==
  /\ configured /\ left[r] > 0 /\ ~refused
  /\ LET idx == BatchIdx(counter[r], r)  b == curb[r] IN
       IF idx \notin 0..(NB - 1)
         THEN /\ refused' = TRUE
              /\ UNCHANGED <<counter, left, got, wrong>>
         ELSE /\ counter' = [counter EXCEPT ![r] = @ + 1]
              /\ left' = [left EXCEPT ![r] = @ - 1]
              /\ got' = [got EXCEPT ![b] = @ + 1]
              /\ wrong' = IF idx = b THEN wrong ELSE wrong \cup {<<b, idx>>}
              /\ UNCHANGED refused
  /\ UNCHANGED <<W, BS, E, BPE, LastSize, configured, next, queue, curb>>

PTake == \E r \in Workers : Take(r)
PApply == \E r \in Workers : Apply(r)
SNext == Configure \/ Hand \/ PTake \/ PApply
SSpec == SInit /\ [][SNext]_svars /\ WF_svars(SNext)

(* ------------------------------- clauses ------------------------------- *)
\* every sample of global batch b is transformed with the schedule's value at b, for every number of workers
C15_ScheduleAtBatch == wrong = {}
\* the schedule is only ever asked inside its length
C15_InSchedule == ~refused
\* nothing is lost: when the run is over every batch was transformed completely
Finished == configured /\ next = NB /\ \A r \in Workers : queue[r] = <<>> /\ left[r] = 0
C15_AllSamples == Finished => \A b \in 0..(NB - 1) : got[b] = SizeOf(b)
C15_Terminates == <>(Finished \/ refused)
=============================================================================
