------------------------------ MODULE CacheTrace ------------------------------
(***************************************************************************)
(* Trace validation for Cache.tla.  Traces are recorded from the real      *)
(* SharedDictDataset driven by a step scheduler (harness/drivers/          *)
(* caching.py): K forked reader processes share the Manager dict; every    *)
(* dict operation and every load of the wrapped dataset blocks on a pipe   *)
(* until the scheduler grants it, so the recorded order IS the execution   *)
(* order (no wall-clock merging).  Events:                                 *)
(*   {a:"begin", p, i} {a:"beginclear", p}                                 *)
(*   {a:"op", p, op: contains|getitem|setitem|clear|load|other, key,       *)
(*    hit, keys}      keys = keys of the shared dict right after the op    *)
(*   {a:"ret", p, i, val, vi, tcalls}   val = decoded payload class        *)
(*   {a:"exc", p}                                                          *)
(*                                                                         *)
(* Obs  (normative, the verdict): only begin / load / clear / ret / exc    *)
(*   are interpreted - nothing about which dict methods the code uses.     *)
(* Desc (conformance): every operation is an enabled action of Cache.tla   *)
(*   (Proto) and the dict's key set equals the specification's.            *)
(***************************************************************************)
EXTENDS Cache, Sequences, Json, IOUtils, TLCExt

VARIABLES tid, l, oLoads, oAcc, oFail, oClr
tvars == <<vars, tid, l, oLoads, oAcc, oFail, oClr>>

Traces == JsonDeserialize(IOEnv.TRACE_FILE).traces
ASSUME TLCSet(1, {}) /\ TLCSet(2, {})

Ev(i) == Traces[tid].ev[i]
NEv == Len(Traces[tid].ev)
NProcs == Traces[tid].cfg.nprocs      \* processes taking part in this trace

NoAcc == [active |-> FALSE, i |-> 0, clearSeen |-> FALSE, loaded |-> FALSE]

TInit ==
  /\ tid \in 1..Len(Traces)
  /\ l = 1
  /\ Init
  /\ oLoads = [i \in Idx |-> 0]
  /\ oAcc = [p \in Procs |-> NoAcc]
  /\ oFail = {}
  /\ oClr = [p \in Procs |-> FALSE]
  /\ TLCSet(100 + tid, 0)

(* ------------------------------- Obs ----------------------------------- *)
IsEv(a) == l <= NEv /\ Ev(l).a = a
ObsStep(fail) == /\ l' = l + 1 /\ oFail' = fail /\ UNCHANGED <<vars, tid>>
\* is a post-cache transform configured? (cfg.tr; without one the cached dataset returns the wrapped value as it is)
Tr == Traces[tid].cfg.tr
Want == IF Tr THEN "Tb" ELSE "b"

ObsBegin ==
  /\ IsEv("begin")
  /\ oAcc' = [oAcc EXCEPT ![Ev(l).p] = [active |-> TRUE, i |-> Ev(l).i, clearSeen |-> FALSE, loaded |-> FALSE]]
  /\ UNCHANGED <<oLoads, oClr>> /\ ObsStep({})
ObsLoad ==
  /\ IsEv("op") /\ Ev(l).op = "load"
  /\ oLoads' = [oLoads EXCEPT ![Ev(l).key] = @ + 1]
  /\ oAcc' = [oAcc EXCEPT ![Ev(l).p].loaded = TRUE]
  /\ UNCHANGED oClr
  \* per clear-segment a process loads a sample at most once (a single process: at most one load between clears)
  /\ ObsStep(IF oLoads'[Ev(l).key] > NProcs THEN {"LoadBound"} ELSE {})
ObsClear ==
  /\ IsEv("op") /\ Ev(l).op = "clear"
  \* a load made by an access that is still in flight may be stored after the clear: it stays valid for this segment
  /\ oLoads' = [i \in Idx |-> Cardinality({p \in Procs : oAcc[p].active /\ oAcc[p].i = i /\ oAcc[p].loaded})]
  /\ oAcc' = [p \in Procs |-> IF oAcc[p].active THEN [oAcc[p] EXCEPT !.clearSeen = TRUE] ELSE oAcc[p]]
  /\ oClr' = [oClr EXCEPT ![Ev(l).p] = FALSE]
  \* the cache is only ever cleared by dispose()
  /\ ObsStep(IF oClr[Ev(l).p] THEN {} ELSE {"UnrequestedClear"})
ObsOther ==
  /\ \/ IsEv("op") /\ Ev(l).op \notin {"load", "clear"}
     \/ IsEv("begincopy")
  /\ UNCHANGED <<oLoads, oAcc, oClr>> /\ ObsStep({})
ObsBeginClear ==
  /\ IsEv("beginclear")
  /\ oClr' = [oClr EXCEPT ![Ev(l).p] = TRUE]
  /\ UNCHANGED <<oLoads, oAcc>> /\ ObsStep({})
\* a value delivered through a DataLoader (no operation log): observational equality only
ObsPlain ==
  /\ IsEv("plain")
  /\ UNCHANGED <<oLoads, oAcc, oClr>>
  /\ ObsStep(IF Ev(l).val = Want /\ Ev(l).vi = Ev(l).i THEN {} ELSE {"Transparent"})
ObsRet ==
  /\ IsEv("ret")
  /\ LET e == Ev(l) a == oAcc[e.p] IN
       /\ oAcc' = [oAcc EXCEPT ![e.p] = NoAcc]
       /\ UNCHANGED <<oLoads, oClr>>
       /\ ObsStep(
            \* observationally equal to the wrapped dataset, transform applied exactly once per access
            (IF a.active /\ e.val = Want /\ e.vi = a.i /\ e.i = a.i THEN {} ELSE {"Transparent"})
            \cup (IF e.tcalls = (IF Tr THEN 1 ELSE 0) THEN {} ELSE {"TransformEveryAccess"})
            \* after a clear samples are loaded again: a value can only come from a load of this clear-segment,
            \* unless a clear happened while this access was in flight
            \cup (IF oLoads[e.i] >= 1 \/ a.clearSeen THEN {} ELSE {"ReloadAfterClear"}))
\* an index outside the wrapped dataset: observational equality includes the refusal (same exception type)
ObsOob ==
  /\ IsEv("oob")
  /\ UNCHANGED <<oLoads, oAcc, oClr>>
  /\ ObsStep(IF Ev(l).same THEN {} ELSE {"Transparent"})
ObsExc == IsEv("exc") /\ UNCHANGED <<oLoads, oAcc, oClr>> /\ ObsStep({"NoError"})
ObsNext == ObsBegin \/ ObsLoad \/ ObsClear \/ ObsOther \/ ObsBeginClear \/ ObsPlain \/ ObsOob \/ ObsRet \/ ObsExc
ObsSpec == TInit /\ [][ObsNext]_tvars

ObsCollect ==
  IF oFail # {} THEN TLCSet(2, TLCGet(2) \cup {<<Traces[tid].id, l - 1, oFail>>})
  ELSE IF l = NEv + 1 THEN TLCSet(1, TLCGet(1) \cup {Traces[tid].id})
  ELSE TRUE
ObsConstraint == ObsCollect /\ oFail = {}

(* ------------------------------- Desc ---------------------------------- *)
Keys == {i \in Idx : dict[i] # None}
SeqToSet(s) == {s[j] : j \in 1..Len(s)}
Consume == l' = l + 1 /\ UNCHANGED <<tid, oLoads, oAcc, oFail, oClr>>
IsOp(o) == IsEv("op") /\ Ev(l).op = o
KeysAgree == Keys' = SeqToSet(Ev(l).keys)

DescNext ==
  \/ IsEv("begin") /\ Begin(Ev(l).p, Ev(l).i) /\ Consume
  \/ IsEv("beginclear") /\ BeginClear(Ev(l).p) /\ Consume
  \/ IsOp("contains") /\ Contains(Ev(l).p) /\ KeysAgree /\ Consume
         /\ Ev(l).hit = (dict[req[Ev(l).p]] # None)
  \/ IsOp("getitem") /\ (Read(Ev(l).p) \/ ReadHit(Ev(l).p)) /\ KeysAgree /\ Consume
         /\ Ev(l).hit = (dict[req[Ev(l).p]] # None)
  \/ IsOp("load") /\ Load(Ev(l).p) /\ Ev(l).key = req[Ev(l).p] /\ KeysAgree /\ Consume
  \/ IsOp("setitem") /\ Store(Ev(l).p) /\ Ev(l).key = req[Ev(l).p] /\ KeysAgree /\ Consume
  \/ IsOp("clear") /\ Clear(Ev(l).p) /\ KeysAgree /\ Consume
  \/ IsEv("ret") /\ Return(Ev(l).p) /\ Consume
         /\ Ev(l).i = req[Ev(l).p] /\ (Ev(l).val = Want /\ Ev(l).vi = Ev(l).i) = (ret'[Ev(l).p] = T(Base(Ev(l).i)))
  \/ (IsEv("begincopy") \/ IsEv("plain") \/ IsEv("oob")) /\ UNCHANGED vars /\ Consume
  \/ IsEv("exc") /\ pc[Ev(l).p] = "idle" /\ err /\ UNCHANGED vars /\ Consume
DescSpec == TInit /\ [][DescNext]_tvars
DescCollect ==
  /\ IF l = NEv + 1 THEN TLCSet(1, TLCGet(1) \cup {Traces[tid].id}) ELSE TRUE
  /\ IF TLCGet(100 + tid) < l - 1 THEN TLCSet(100 + tid, l - 1) ELSE TRUE

Report == PrintT(<<"ACCEPTED", TLCGet(1)>>) /\ PrintT(<<"REJECTED", TLCGet(2)>>)
DescReport == /\ PrintT(<<"ACCEPTED", TLCGet(1)>>)
              /\ PrintT(<<"PROGRESS", [t \in 1..Len(Traces) |-> <<Traces[t].id, TLCGet(100 + t)>>]>>)
=============================================================================
