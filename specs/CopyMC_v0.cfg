SPECIFICATION Spec
CONSTANTS
  Files <- MCFiles
  Dirs <- MCDirs
  DirOf <- MCDirOf
  Proto = "v0"
  MaxCrashes = 3
INVARIANT TypeOK
INVARIANT ReturnOK
INVARIANT NotUsable
INVARIANT Truthful
INVARIANT EndMeansComplete
PROPERTY NeverRedo
PROPERTY UserKept
PROPERTY Terminates
CHECK_DEADLOCK FALSE
