--------------------------- MODULE CopyConcTrace ---------------------------
(***************************************************************************)
(* Trace validation for CopyConc.tla.  TRACE_FILE holds schedules recorded *)
(* from REAL processes running copy_folder_from_global_to_local /          *)
(* copy_imagefolder_from_global_to_local on one destination under the      *)
(* step scheduler of harness/drivers/copyconc.py.  One event per granted   *)
(* file-system operation, in execution order, each with the abstract disk  *)
(* observed after it:                                                      *)
(*   {a:"op", p, op: stat|list|mkdir|wopen|fill|touch|remove|rmdir|rename, *)
(*           t: dst|tmp|start|end|tmpstart|file|sub|junk|parent|other|gone,*)
(*           n: name, had / gone: the operation's path existed before /    *)
(*           does not exist after it, disk}                                *)
(*   {a:"ret", p, res, disk}  {a:"exc", p, type, disk}  {a:"crash", p,..}  *)
(*   {a:"reinvoke", p, disk}   the next job, after everything has ended    *)
(*                                                                         *)
(* Obs  (normative, carries the verdict): the variables of CopyConc.tla    *)
(*      are bound to the OBSERVED disk / results and CopyConc's own clause *)
(*      definitions are evaluated on them.                                 *)
(*        STRONG clauses - those TLC proves for the protocol under         *)
(*          concurrency (NoUserDamage, CompletedKept, Truthful,            *)
(*          AllReturnedComplete, NoLeftovers, no hang) and, as long as the *)
(*          invocations                                                    *)
(*          of the schedule did not overlap, ALL clauses (that is C20).    *)
(*          A failure rejects the trace.                                   *)
(*        FINDING clauses - those TLC refutes for the protocol under       *)
(*          concurrency.  A failure in an overlapping schedule is recorded *)
(*          (register 3) and does not reject the trace.                    *)
(* Desc (conformance): every recorded operation must be an enabled action  *)
(*      of CopyConc.tla and the observed disk must equal the model's disk  *)
(*      after every operation.                                             *)
(***************************************************************************)
EXTENDS CopyConc, Json, IOUtils, TLCExt

VARIABLES tid, l, prevd, overlap, bad
tvars == <<vars, tid, l, prevd, overlap, bad>>

Traces == JsonDeserialize(IOEnv.TRACE_FILE).traces
ASSUME TLCSet(1, {}) /\ TLCSet(2, {}) /\ TLCSet(3, {})

Ev(i) == Traces[tid].ev[i]
NEv == Len(Traces[tid].ev)
Cfg == Traces[tid].cfg

DiskOf(x) == [dst |-> x.dst, start |-> x.start, end |-> x.end, file |-> [f \in Files |-> x.file[f]],
              sub |-> [y \in Dirs |-> x.sub[y]], junk |-> x.junk, tmp |-> x.tmp]
ResOf(r) == [copied |-> r.copied, deleted |-> r.deleted, fmt |-> r.fmt]
DiskTypeOK(x) == /\ x.dst \in {"absent", "present"} /\ x.tmp \in {"absent", "empty", "marked"}
                 /\ \A f \in Files : x.file[f] \in {"none", "partial", "full"}

(* ----------------------- Obs: observed states only --------------------- *)
\* what an observer knows of a process
ObsProc == [pc |-> "idle", res |-> NoRes, copied |-> FALSE, wiped |-> TRUE, round |-> 0, exc |-> "none", errs |-> FALSE]

ObsInit ==
  /\ tid \in 1..Len(Traces)
  /\ l = 1
  /\ init = Cfg.init /\ d = DiskOfInit(Cfg.init) /\ prevd = d
  /\ user = (Cfg.init \in {"user", "userempty"})
  /\ fmt = Cfg.fmt
  /\ ps = [p \in Procs |-> ObsProc]
  /\ lock = "none" /\ crashes = 0 /\ rounds = 0 /\ claimed = FALSE /\ faulted = FALSE /\ hist = <<>>
  /\ overlap = FALSE /\ bad = (DiskOfInit(Cfg.init) # DiskOf(Cfg.disk0))
  /\ TLCSet(100 + tid, 0)

Running(q) == ps[q].pc = "run"
ObsStep ==
  /\ l <= NEv
  /\ LET e == Ev(l)
         p == e.p
         me == ps[p]
         \* "was_deleted" = this invocation found dst (and wiped it) as opposed to having created it itself
         \* (the rename of its temporary folder onto dst took the temporary folder away: it succeeded)
         creates == e.a = "op" /\ e.op = "rename" /\ e.t = "tmp" /\ e.had /\ e.gone
         started == [me EXCEPT !.pc = "run", !.wiped = (me.wiped /\ ~creates)]
     IN
     /\ prevd' = d
     /\ d' = DiskOf(e.disk)
     /\ bad' = (bad \/ ~DiskTypeOK(e.disk))
     /\ overlap' = (overlap \/ \E q \in Procs \ {p} : Running(q))
     /\ ps' = [ps EXCEPT ![p] =
                 CASE e.a = "op" -> [started EXCEPT !.copied = (started.copied \/ (e.op = "wopen" /\ e.t = "end")),
                                                    \* a create / copystat of a data file that left no file behind failed
                                                    !.errs = (started.errs \/ (e.op \in {"wopen", "touch"} /\ e.t = "file"
                                                                                /\ e.disk.file[e.n] = "none"))]
                   [] e.a = "ret" -> [started EXCEPT !.pc = "ret", !.res = ResOf(e.res)]
                   [] e.a = "exc" -> [started EXCEPT !.pc = "exc", !.exc = e.type]
                   [] e.a = "crash" -> [started EXCEPT !.pc = "dead"]
                   [] e.a = "reinvoke" -> [ObsProc EXCEPT !.pc = "run", !.round = rounds + 1]]
     /\ crashes' = crashes + (IF e.a = "crash" THEN 1 ELSE 0)
     /\ rounds' = rounds + (IF e.a = "reinvoke" THEN 1 ELSE 0)
     /\ claimed' = (claimed \/ e.a = "ret")
     /\ faulted' = (faulted \/ e.a \in {"exc", "crash"})
     /\ hist' = <<p, e.a>>
  /\ l' = l + 1
  /\ UNCHANGED <<tid, user, fmt, init, lock>>
ObsSpec == ObsInit /\ [][ObsStep]_tvars

\* the process of the event just consumed
LastP == hist[1]
JustReturned == l > 1 /\ hist[2] = "ret"
\* Quiescent of CopyConc speaks about started processes only here
ObsQuiescent == \A q \in Procs : ps[q].pc \in Ended \cup {"idle"}
Hung == \E q \in Procs : ps[q].pc = "exc" /\ ps[q].exc \in {"Diverge", "Died"}

\* clauses that hold for the protocol under concurrency: a failure rejects the trace
StrongFailed ==
  (IF bad THEN {"TypeOK"} ELSE {})
  \cup (IF user /\ d # prevd THEN {"NoUserDamage"} ELSE {})
  \cup (IF init = "complete" /\ d # prevd THEN {"CompletedKept"} ELSE {})
  \cup (IF ~bad /\ ~Truthful THEN {"Truthful"} ELSE {})
  \cup (IF ~bad /\ ObsQuiescent /\ claimed /\ ~faulted /\ ~user /\ ~Complete THEN {"AllReturnedComplete"} ELSE {})
  \cup (IF ~bad /\ ~NoLeftovers THEN {"NoLeftovers"} ELSE {})
  \cup (IF ~bad /\ ~OwnWritesOK THEN {"OwnWritesOK"} ELSE {})
  \cup (IF Hung THEN {"Terminates"} ELSE {})
\* clauses refuted for the protocol under concurrency (they are all demanded of non-overlapping invocations)
WeakFailed ==
  IF bad THEN {} ELSE
  (IF ~NoFalseComplete THEN {"NoFalseComplete"} ELSE {})
  \cup (IF JustReturned /\ ~user /\ ~Complete THEN {"RetMoment"} ELSE {})
  \cup (IF claimed /\ ~user /\ d # prevd /\ (prevd.dst = "present" /\ \A f \in Files : prevd.file[f] = "full") /\ ~Complete
          THEN {"StaysComplete"} ELSE {})
  \cup (IF ~EndMarkerTruth THEN {"EndMarkerTruth"} ELSE {})
  \cup (IF ~StartMarkerKept THEN {"StartMarkerKept"} ELSE {})
  \cup (IF ~NoRaceError THEN {"NoRaceError"} ELSE {})
  \cup (IF JustReturned /\ ~ps[LastP].res.copied /\ ~(user \/ (d.dst = "present" /\ d.start /\ d.end))
          THEN {"NotUsable"} ELSE {})
  \cup (IF ObsQuiescent /\ crashes = 0 /\ claimed /\ ~user /\ ~Complete THEN {"QuiescentComplete"} ELSE {})
  \cup (IF ObsQuiescent /\ claimed /\ ~user /\ ~Complete THEN {"QuiescentCompleteCrash"} ELSE {})
  \cup (IF ~RecoverOK THEN {"RecoverOK"} ELSE {})
ObsFailed == StrongFailed \cup (IF overlap THEN {} ELSE WeakFailed)
ObsFindings == IF overlap THEN WeakFailed ELSE {}

ObsCollect ==
  /\ IF ObsFindings # {} THEN TLCSet(3, TLCGet(3) \cup {<<Traces[tid].id, c, l - 1>> : c \in ObsFindings}) ELSE TRUE
  /\ IF ObsFailed # {} THEN TLCSet(2, TLCGet(2) \cup {<<Traces[tid].id, l - 1, ObsFailed>>})
     ELSE IF l = NEv + 1 THEN TLCSet(1, TLCGet(1) \cup {Traces[tid].id})
     ELSE TRUE
\* stop a trace at its first failed strong clause
ObsConstraint == ObsCollect /\ ObsFailed = {}

(* ----------------------- Desc: protocol conformance -------------------- *)
DescInit ==
  /\ tid \in 1..Len(Traces)
  /\ l = 1
  /\ init = Cfg.init /\ d = DiskOfInit(Cfg.init) /\ prevd = d
  /\ user = (Cfg.init \in {"user", "userempty"})
  /\ fmt = Cfg.fmt
  \* processes that do not take part in this schedule never run
  /\ ps = [p \in Procs |-> IF \E i \in 1..Len(Cfg.procs) : Cfg.procs[i] = p THEN FreshProc
                            ELSE [FreshProc EXCEPT !.pc = "dead"]]
  /\ lock = "none" /\ crashes = 0 /\ rounds = 0 /\ claimed = FALSE /\ faulted = FALSE /\ hist = <<>>
  /\ overlap = FALSE /\ bad = FALSE
  /\ TLCSet(100 + tid, 0)

E == Ev(l)
IsOp(o, t) == l <= NEv /\ E.a = "op" /\ E.op = o /\ E.t = t
Consume == l' = l + 1 /\ UNCHANGED <<tid, prevd, overlap, bad>>
Silent == UNCHANGED <<tid, l, prevd, overlap, bad>>
\* a recorded operation the model has no action for (a read / no-op of the library's helpers): nothing changes
Nop(p) == UNCHANGED vars
\* the model's action, and the model's disk afterwards is the observed one
Does(A, p) == A /\ d' = DiskOf(E.disk)
P == E.p

DescOp ==
  \/ IsOp("stat", "dst") /\ (IF ps[P].pc = "chkdst" THEN Does(AChkDst(P), P) ELSE Nop(P)) /\ Consume
  \/ IsOp("stat", "start") /\ (IF ps[P].pc = "chkstart" THEN Does(AChkStart(P), P) ELSE Nop(P)) /\ Consume
  \/ IsOp("stat", "end") /\ (IF ps[P].pc = "chkend" THEN Does(AChkEnd(P), P)
                             ELSE IF ps[P].pc = "lockchk" THEN Does(ALockChk(P), P) ELSE Nop(P)) /\ Consume
  \/ IsOp("stat", "tmp") /\ (IF ps[P].pc = "chktmp" THEN Does(AChkTmp(P), P) ELSE Nop(P)) /\ Consume
  \/ IsOp("stat", "sub") /\ (IF StepIs(P, "chksub") THEN Does(AChkSub(P), P) /\ Tgt(P) = E.n
                             ELSE IF ps[P].pc = "wipe" THEN Does(AEnterSub(P), P) /\ NextEntry(P) = E.n
                             ELSE Nop(P)) /\ Consume    \* makedirs(exist_ok) looks at an existing directory
  \/ l <= NEv /\ E.a = "op" /\ E.op = "stat" /\ E.t \in {"file", "parent", "other", "junk"} /\ Nop(P) /\ Consume
  \/ IsOp("list", "dst") /\ (IF ps[P].pc = "list" THEN Does(AListDst(P), P) ELSE Does(ATmpList(P), P) /\ ps[P].h = "dst") /\ Consume
  \/ IsOp("list", "tmp") /\ (IF ps[P].pc = "lostrace" THEN Nop(P) ELSE Does(ATmpList(P), P) /\ ps[P].h = "tmp") /\ Consume
  \/ IsOp("list", "gone") /\ (Does(ATmpList(P), P) \/ Does(ASubList(P), P)) /\ Consume
  \/ IsOp("list", "sub") /\ Does(ASubList(P), P) /\ ps[P].cur = E.n /\ Consume
  \/ l <= NEv /\ E.a = "op" /\ E.op = "remove" /\ E.t \in {"start", "end", "junk", "tmpstart"}
       /\ (IF ps[P].pc = "lostrace" THEN Nop(P) ELSE Does(ARmMarker(P), P)) /\ Consume
  \* an unlink relative to the descriptor of a directory that somebody else has removed meanwhile
  \/ IsOp("remove", "gone") /\ (Does(ARmMarker(P), P) \/ Does(ARmFile(P), P) \/ Does(ARmSubFile(P), P)) /\ Consume
  \/ IsOp("remove", "file") /\ ((Does(ARmFile(P), P) /\ NextEntry(P) = E.n) \/ (Does(ARmSubFile(P), P) /\ Head(ps[P].sl) = E.n))
       /\ Consume
  \/ IsOp("remove", "sub") /\ Does(ARmGone(P), P) /\ Consume
  \/ IsOp("rmdir", "sub") /\ Does(ARmSubDir(P), P) /\ ps[P].cur = E.n /\ Consume
  \/ IsOp("rmdir", "tmp") /\ (IF ps[P].pc = "lostrace" THEN Does(ALostRace(P), P) ELSE Does(ARmTmpDir(P), P)) /\ Consume
  \* repaired protocols: attempts to take the advisory lock (n = "ok": it was free), waiting in a poll loop
  \/ IsOp("flock", "start") /\ (IF E.n = "ok" THEN Does(ATryLock(P), P) ELSE Nop(P)) /\ Consume
  \/ l <= NEv /\ E.a = "op" /\ E.op \in {"sleep", "funlock"} /\ Nop(P) /\ Consume
  \/ IsOp("mkdir", "tmp") /\ Does(AMkTmp(P), P) /\ Consume
  \/ l <= NEv /\ E.a = "op" /\ E.op = "mkdir" /\ E.t \in {"dst", "parent"} /\ Nop(P) /\ Consume
  \/ IsOp("mkdir", "sub") /\ (Does(AMkSub(P), P) \/ Does(AMkSubZ(P), P)) /\ Tgt(P) = E.n /\ Consume
  \/ IsOp("wopen", "tmpstart") /\ Does(AWriteTmpStart(P), P) /\ Consume
  \/ IsOp("wopen", "file") /\ Does(ACreateFile(P), P) /\ Tgt(P) = E.n /\ Consume
  \/ IsOp("wopen", "end") /\ Does(AWriteEnd(P), P) /\ Consume
  \/ IsOp("fill", "file") /\ Does(AFillFile(P), P) /\ Tgt(P) = E.n /\ Consume
  \/ IsOp("touch", "file") /\ Does(ATouch(P), P) /\ Tgt(P) = E.n /\ Consume
  \/ IsOp("touch", "sub") /\ Does(ATouchSub(P), P) /\ Tgt(P) = E.n /\ Consume
  \/ IsOp("touch", "dst") /\ Nop(P) /\ Consume
  \/ IsOp("rename", "tmp") /\ Does(ARename(P), P) /\ Consume
DescRet == /\ l <= NEv /\ E.a = "ret" /\ ps[P].pc = "ret" /\ ps[P].res = ResOf(E.res)
           /\ d = DiskOf(E.disk) /\ UNCHANGED vars /\ Consume
DescExc == /\ l <= NEv /\ E.a = "exc" /\ ps[P].pc = "exc" /\ ps[P].exc = E.type
           /\ d = DiskOf(E.disk) /\ UNCHANGED vars /\ Consume
DescCrash == l <= NEv /\ E.a = "crash" /\ ACrash(P) /\ Consume
DescReinvoke == l <= NEv /\ E.a = "reinvoke" /\ AReinvoke(P) /\ Consume
\* steps of the code that are no operation of their own
DescSilent == /\ \E p \in Procs : AWipeDone(p) \/ ARaiseErrors(p) \/ (ps[p].mode = "tmpclean" /\ AEnterSub(p))
              /\ Silent
DescNext == DescOp \/ DescRet \/ DescExc \/ DescCrash \/ DescReinvoke \/ DescSilent
DescSpec == DescInit /\ [][DescNext]_tvars

DescCollect ==
  /\ IF l = NEv + 1 THEN TLCSet(1, TLCGet(1) \cup {Traces[tid].id}) ELSE TRUE
  /\ IF TLCGet(100 + tid) < l - 1 THEN TLCSet(100 + tid, l - 1) ELSE TRUE

Report == /\ PrintT(<<"ACCEPTED", TLCGet(1)>>) /\ PrintT(<<"REJECTED", TLCGet(2)>>)
          /\ PrintT(<<"FINDINGS", TLCGet(3)>>)
DescReport == /\ PrintT(<<"ACCEPTED", TLCGet(1)>>)
              /\ PrintT(<<"PROGRESS", [t \in 1..Len(Traces) |-> <<Traces[t].id, TLCGet(100 + t)>>]>>)
=============================================================================
