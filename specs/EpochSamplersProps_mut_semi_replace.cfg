SPECIFICATION PSpec
CONSTANTS
  MaxN = 3
  MaxC = 2
  MaxSpc = 2
  MaxW = 2
  MaxChunk = 2
  Mutant = "semi_replace"
INVARIANT C13_Valid
INVARIANT C13_CB_Length
INVARIANT C13_Semi_Length
INVARIANT C13_W_Length
INVARIANT C13_CB_PerClass
INVARIANT C13_CB_Even
INVARIANT C13_CB_Loop
INVARIANT C13_EvenForms
INVARIANT C13_CB_WholeEpoch
INVARIANT C13_Semi_Alternation
INVARIANT C13_Semi_PoolCycle
INVARIANT C13_W_NoRepeat
INVARIANT C13_W_Positive
PROPERTY Terminates
CHECK_DEADLOCK FALSE
