--------------------------- MODULE InterleavedProps ---------------------------
(***************************************************************************)
(* Model-checking harness for Interleaved.tla: the configuration is chosen *)
(* in Init from a bounded grid, the emitted events are collected in the    *)
(* history variable `out', and the clauses of C04 / C05 / C06 are stated   *)
(* over `out' (not over the machine's counters).                           *)
(***************************************************************************)
EXTENDS Interleaved, SequencesExt

CONSTANTS MaxN,        \* main sampler length 1..MaxN
          MaxEpochs,   \* budgets worth up to MaxEpochs epochs
          MaxSides,    \* 0..MaxSides side configs
          MaxSideLen,  \* side sampler length 1..MaxSideLen
          MaxIv,       \* interval values 0..MaxIv (0 = kind absent)
          MaxStart     \* start epoch 0..MaxStart

VARIABLES out, configured
pvars == <<vars, out, configured>>

SideCfgs ==
  { s \in { [len |-> ln, dlen |-> ln + xt, bs |-> bs, ee |-> ee, eu |-> eu, es |-> es, iter |-> <<>>] :
              ln \in 1..MaxSideLen, xt \in 0..1, bs \in 0..MaxSideLen, ee \in 0..MaxIv, eu \in 0..MaxIv, es \in 0..MaxIv } :
      s.ee + s.eu + s.es > 0 }

SideSeqs == UNION { [1..n -> SideCfgs] : n \in 0..MaxSides }

Geoms ==
  { g \in { [N |-> n, B |-> b, drop |-> d, dl |-> dl] : n \in 1..MaxN, b \in 1..MaxN, d \in BOOLEAN, dl \in 0..MaxN } :
      /\ g.B <= g.N
      /\ g.dl # 0 => (g.drop /\ g.dl % g.B = 0 /\ g.dl <= g.N) }

\* budgets strictly after the checkpoint (the stated domain), worth at most MaxEpochs epochs; 0 = evaluation pass
Budgets(g, st) ==
  (IF st = 0 THEN {<<"e", 0>>, <<"u", 0>>, <<"s", 0>>} ELSE {})
    \cup { <<"e", b>> : b \in (st + 1)..(st + MaxEpochs) }
    \cup { <<"u", b>> : b \in (st * UPE(g) + 1)..((st + MaxEpochs) * UPE(g)) }
    \cup { <<"s", b>> : b \in (st * SPE(g) + 1)..((st + MaxEpochs) * SPE(g)) }

MkCfg(g, st, kb, ss) ==
  [N |-> g.N, md |-> g.N, B |-> g.B, drop |-> g.drop, dl |-> g.dl, kind |-> kb[1], budget |-> kb[2],
   start |-> st, se |-> TRUE, miter |-> <<>>, sides |-> ss]

\* Init fixes geometry and checkpoint only; budget and side configs are chosen by a first step `Configure'
\* (so that TLC's workers share the enumeration of the configuration grid).
PInit == /\ \E g \in Geoms, st \in 0..MaxStart : InitWith(MkCfg(g, st, <<"e", st + 1>>, <<>>))
         /\ out = <<>>
         /\ configured = FALSE
Configure ==
  /\ ~configured
  /\ configured' = TRUE
  /\ \E kb \in Budgets(cfg, cfg.start), ss \in SideSeqs :
        cfg' = [cfg EXCEPT !.kind = kb[1], !.budget = kb[2], !.sides = ss]
  /\ UNCHANGED <<epoch, update, sample, sInUpd, sInEp, sAtLast, pc, pending, k, emit, out>>
HistUpd == /\ out' = IF emit' = NoEv THEN out ELSE Append(out, emit')
           /\ UNCHANGED configured
PStart == configured /\ Start /\ HistUpd
PAnnounce == configured /\ Announce /\ HistUpd
PEmitMain == configured /\ EmitMain /\ HistUpd
PCloseUpdate == configured /\ CloseUpdate /\ HistUpd
PEmitSide == configured /\ EmitSide /\ HistUpd
PAfterUpdate == configured /\ AfterUpdate /\ HistUpd
PNext == Configure \/ PStart \/ PAnnounce \/ PEmitMain \/ PCloseUpdate \/ PEmitSide \/ PAfterUpdate
PSpec == PInit /\ [][PNext]_pvars /\ WF_pvars(PNext)

(* ------------------------------ whole stream --------------------------- *)
\* The machine never leaves the closed form, and ends exactly on it.
RefPrefix == IsPrefix(out, RefOut(cfg))
RefFinal  == pc = "done" => out = RefOut(cfg)
Terminates == <>(pc = "done")

(* ------------------------------ helpers -------------------------------- *)
Ys      == SelectSeq(out, LAMBDA e : e.a = "y")
Mains   == SelectSeq(out, LAMBDA e : e.a = "y" /\ e.src = 0)
IsDone  == pc = "done"
Train   == cfg.budget # 0
\* position (in out) of the i-th main event
RECURSIVE CountMain(_, _)
CountMain(s, n) == IF n = 0 THEN 0 ELSE CountMain(s, n - 1) + (IF s[n].a = "y" /\ s[n].src = 0 THEN 1 ELSE 0)
\* the set of positions at which a batch ends
FullPos == { i \in 1..Len(out) : out[i].a = "y" /\ out[i].full }
\* the epoch announced most recently before position i
RECURSIVE LastSE(_)
LastSE(i) == IF i = 0 THEN -1 ELSE IF out[i].a = "se" THEN out[i].idx ELSE LastSE(i - 1)
MainPos == { i \in 1..Len(out) : out[i].a = "y" /\ out[i].src = 0 }

(* ------------------------------- C04 ----------------------------------- *)
\* main stream = epoch-by-epoch concatenation of the sampler's own iteration (first SPE entries of each)
C04_MainExact ==
  Train => \A i \in 1..Len(Mains) :
              /\ Mains[i].idx = MainIdx(cfg, cfg.start + (i - 1) \div SPE(cfg), ((i - 1) % SPE(cfg)) + 1)
\* set_epoch(e) precedes the first main index of epoch e; consecutive epochs from the checkpoint; nothing else announced
C04_Announced ==
  Train => \A i \in MainPos :
              LastSE(i) = cfg.start + (CountMain(out, i) - 1) \div SPE(cfg)
C04_AnnouncedOnce ==
  LET ses == SelectSeq(out, LAMBDA e : e.a = "se") IN
    /\ \A j \in 1..Len(ses) : ses[j].idx = cfg.start + j - 1
    /\ (~Train => ses = <<>>)
\* batch cutting of the main stream: size B except possibly an epoch's last batch, which exists only without drop_last
C04_BatchExact ==
  Train => \A i \in 1..Len(Mains) :
              LET p == ((i - 1) % SPE(cfg)) + 1 IN
                Mains[i].full <=> (p % cfg.B = 0 \/ p = SPE(cfg))
C04_DropUnits ==
  /\ SPE(cfg) <= cfg.N
  /\ cfg.drop => SPE(cfg) % DUnit(cfg) = 0 /\ cfg.N - SPE(cfg) < DUnit(cfg)
  /\ ~cfg.drop => SPE(cfg) = cfg.N
\* counters after the m-th main event, recomputed from `out' alone
UpdatesIn(s) == Cardinality({ i \in 1..Len(s) : s[i].a = "y" /\ s[i].src = 0 /\ s[i].full })
SamplesIn(s) == Len(SelectSeq(s, LAMBDA e : e.a = "y" /\ e.src = 0))
EpochsIn(s)  == SamplesIn(s) \div SPE(cfg)
ReachedIn(s) == ReachedAt(cfg, cfg.start + EpochsIn(s), cfg.start * UPE(cfg) + UpdatesIn(s),
                          cfg.start * SPE(cfg) + SamplesIn(s))
\* the stream ends right after the first update at which the budget is reached; never continues past it
C04_StopExact ==
  Train =>
    /\ \A i \in MainPos :
         \* a main event is only ever emitted while no earlier update boundary had reached the budget
         \A j \in 1..(i - 1) : (out[j].a = "y" /\ out[j].src = 0 /\ out[j].full) => ~ReachedIn(SubSeq(out, 1, j))
    /\ IsDone => /\ ReachedIn(out)
                 /\ out # <<>> /\ out[Len(out)].full
C04_BatchBoundary == IsDone /\ Ys # <<>> => Ys[Len(Ys)].full

(* ------------------------------- C05 ----------------------------------- *)
\* no batch mixes sources: within a run of events between two full flags all sources are equal
C05_Unmixed ==
  \A i \in 1..(Len(Ys) - 1) : ~Ys[i].full => Ys[i + 1].src = Ys[i].src
\* every yielded index resolves to the dataset and sample it was drawn for
C05_Resolves ==
  \A i \in 1..Len(Ys) :
     LET e == Ys[i] IN
       IF e.src = 0 THEN e.idx \in 0..(cfg.md - 1) /\ e.pos = e.idx
       ELSE /\ e.idx - Offset(cfg, e.src) = e.pos
            /\ e.pos \in 0..(cfg.sides[e.src].dlen - 1)
\* side events only directly after an update boundary; between two main updates exactly the due passes, in order, whole
SideRun(i) ==   \* maximal run of side events starting right after position i of Ys
  LET RECURSIVE Go(_)
      Go(j) == IF j > Len(Ys) \/ Ys[j].src = 0 THEN <<>> ELSE <<Ys[j]>> \o Go(j + 1)
  IN Go(i + 1)
C05_SideExact ==
  Train =>
    \A i \in 1..Len(Ys) :
       (Ys[i].src = 0) =>
          LET run == SideRun(i)
              u == UpdatesIn(SubSeq(Ys, 1, i))
              complete == IsDone \/ (i + Len(run) < Len(Ys))
          IN IF ~Ys[i].full THEN run = <<>>
             ELSE IF complete THEN run = Passes(cfg, LAMBDA c : DueAt(cfg, c, u))
             ELSE IsPrefix(run, Passes(cfg, LAMBDA c : DueAt(cfg, c, u)))
C05_Eval == (~Train /\ IsDone) => out = Passes(cfg, LAMBDA c : TRUE)

(* ------------------------------- C06 ----------------------------------- *)
\* at every epoch boundary of the run the counters are exactly the checkpoint that boundary denotes
C06_Checkpoint ==
  (pc = "announce") =>
     [epoch |-> epoch, update |-> update, sample |-> sample, sInUpd |-> sInUpd, sAtLast |-> sAtLast]
        = ResumeState(cfg, epoch)
\* the closed form started from checkpoint e is the suffix of the closed form of the uninterrupted run
RECURSIVE SkipTo(_, _)
SkipTo(s, e) == IF s = <<>> THEN <<>> ELSE IF Head(s) = SetEpochEv(e) THEN s ELSE SkipTo(Tail(s), e)
C06_SuffixOfFull ==
  (cfg.start > 0 /\ pc = "start" /\ configured) =>
     LET full == [cfg EXCEPT !.start = 0] IN
       RefOut(cfg) = SkipTo(RefOut(full), cfg.start)
=============================================================================
