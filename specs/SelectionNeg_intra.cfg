SPECIFICATION PSpec
CONSTANTS
  Proto = "v0"
  Kinds = {"intra"}
  MaxN = 3
  MaxC = 2
  Den = 2
  MaxShots = 1
  MaxReps = 1
INVARIANT C03_Constructs
CHECK_DEADLOCK FALSE
