SPECIFICATION PSpec
CONSTANTS
  MaxPool = 4
  MaxRootLen = 2
  MaxIdxLen = 2
INVARIANT C02_ItemMap
INVARIANT C02_Balanced
INVARIANT C02_Len
INVARIANT C02_GetAll
INVARIANT C02_WellFormed
INVARIANT C02_ChainEndsInRoot
CHECK_DEADLOCK FALSE
