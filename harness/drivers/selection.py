"""C03: each dataset-manipulation wrapper selects exactly the promised samples.

(M) TLC checks specs/SelectionProps.tla: the descriptive algorithms of SelectionAlg.tla (Proto v1 = repaired tree)
    satisfy every normative clause of Selection.tla on the whole small grid of class layouts x constructor arguments;
    Proto v0 (the tree as found) is the negative control and must violate RangeBounds / RangePartition /
    ClasswiseAmount / Terminates / ExactLoopProgress / Constructs.
(T) the REAL wrappers are constructed (forked child, per-call deadline) over a harness dataset whose x is a unique
    sample id; one trace = several constructions over one dataset:
      rel "same"      identical arguments under different global NumPy/torch/random seeds (seed-only dependence)
      rel "partition" successive complementary ranges (partition of the dataset)
    every construction is observed at the public API ([w.getitem_x(i) for i in range(len(w))], ids mapped back to
    underlying positions) and TLC evaluates the normative clauses of Selection.tla on the observed selections
    (specs/SelectionTrace.tla).  Corrupted copies of recorded traces must be rejected (binding self-test).
"""
import hashlib
import itertools
import json
import multiprocessing as mp
import os
import random
import re
import signal
import sys
import time
import traceback
from concurrent.futures import ThreadPoolExecutor

from kdverif import core, tlc, tracecheck

PROPS = ("C03",)
NONE = -1
UNSET = [0, 0, 1]
RNG_KINDS = ("shuffle", "intra", "fewshot")
CLASS_AGNOSTIC = ("percent", "subset_idx", "subset_pct", "subset_list", "shuffle", "repeat")
KINDS = ("filter", "percent", "subset_idx", "subset_pct", "subset_list", "shuffle", "sort", "intra", "repeat",
         "oversample", "fewshot", "classwise_idx", "classwise_pct")
MC_ACTIONS = ("ConfigureLayout", "ConfigureArgs", "PFilterStep", "PRangeStep", "PListStep", "PShuffleStep",
              "PSortIter", "PRepeatStart", "PRepeatTile", "PMulStart", "PMulIter", "PExStart", "PExClass", "PExWhile",
              "PFewIter", "PIntraStart", "PIntraDraw", "PIntraCompose", "PCwIdxStart", "PCwIdxIter", "PCwPctIter")
LIVE_ACTIONS = ("ConfigureLayout", "ConfigureArgs", "PSortIter", "PRepeatStart", "PRepeatTile", "PMulStart", "PMulIter",
                "PExStart", "PExClass", "PExWhile", "PFewIter", "PIntraStart", "PIntraDraw", "PIntraCompose",
                "PCwIdxStart", "PCwIdxIter", "PCwPctIter")
# negative controls of the model: cfg -> names of which at least one must be reported violated for Proto = "v0"
NEG = {
    "SelectionNeg_range.cfg": {"C03_RangeBounds"},
    "SelectionNeg_partition.cfg": {"C03_RangePartition"},
    "SelectionNeg_classwise.cfg": {"C03_ClasswiseAmount"},
    "SelectionNeg_exact.cfg": {"C03_Terminates", "temporal"},
    "SelectionNeg_exactvariant.cfg": {"C03_ExactLoopProgress"},
    "SelectionNeg_intra.cfg": {"C03_Constructs"},
}


# ---------------------------------------------------------------- harness dataset (no repository code besides the base)
def make_dataset(cls, C, with_getall, dim1=False):
    from kappadata.datasets.kd_dataset import KDDataset

    class IdDataset(KDDataset):
        """x of sample j is the unique id 1000 + 7 j; class of sample j is cls[j]; python list indexing"""

        def __init__(self):
            super().__init__()
            self._cls = [int(c) for c in cls]
            self._ids = [1000 + 7 * j for j in range(len(cls))]

        def __len__(self):
            return len(self._cls)

        def getitem_x(self, idx, ctx=None):
            return self._ids[int(idx)]

        def getitem_class(self, idx, ctx=None):
            return self._cls[int(idx)]

        def getshape_class(self):
            # binary datasets may announce the class shape (1,) (kappadata.utils.class_counts treats that as 2 classes)
            return (1,) if dim1 else (int(C),)

        @property
        def class_names(self):
            return [f"c{i}" for i in range(C)]

    if with_getall:
        IdDataset.getall_class = lambda self: list(self._cls)
    return IdDataset()


def pct(b, as_int=False):
    if b[0] == 0:
        return None
    v = b[1] / b[2]
    if as_int and b[1] in (0, b[2]):
        return int(v)
    return v


def opt(i):
    return None if i == NONE else int(i)


def construct(kind, ds, a):
    """build the real wrapper of `kind` over ds with the constructor arguments a (an event record)"""
    import kappadata.wrappers.dataset_wrappers as W
    from kappadata.wrappers.dataset_wrappers.classwise_subset_wrapper import ClasswiseSubsetWrapper
    ints = bool(a.get("ints"))
    if kind == "filter":
        if a.get("via") == "names":
            names = [f"c{c}" for c in a["cs"]]
            kw = dict(valid_class_names=names) if a["mode"] == "valid" else dict(invalid_class_names=names)
        else:
            kw = dict(valid_classes=list(a["cs"])) if a["mode"] == "valid" else dict(invalid_classes=list(a["cs"]))
        return W.ClassFilterWrapper(ds, **kw)
    if kind == "percent":
        return W.PercentFilterWrapper(ds, from_percent=pct(a["p1"], ints), to_percent=pct(a["p2"], ints),
                                      ceil_from_index=a["f1"], ceil_to_index=a["f2"])
    if kind == "subset_idx":
        return W.SubsetWrapper(ds, start_index=opt(a["i1"]), end_index=opt(a["i2"]))
    if kind == "subset_pct":
        return W.SubsetWrapper(ds, start_percent=pct(a["p1"], ints), end_percent=pct(a["p2"], ints))
    if kind == "subset_list":
        return W.SubsetWrapper(ds, indices=list(a["cs"]))
    if kind == "shuffle":
        return W.ShuffleWrapper(ds, seed=opt(a["seed"]))
    if kind == "sort":
        return W.SortByClassWrapper(ds)
    if kind == "intra":
        return W.IntraClassShuffleWrapper(ds, seed=opt(a["seed"]))
    if kind == "repeat":
        return W.RepeatWrapper(ds, repetitions=a["i1"]) if a["mode"] == "reps" else W.RepeatWrapper(ds, min_size=a["i1"])
    if kind == "oversample":
        return W.OversamplingWrapper(ds, mode=a["mode"])
    if kind == "fewshot":
        return W.FewshotWrapper(ds, num_shots=a["i1"], seed=opt(a["seed"]))
    if kind == "classwise_idx":
        return ClasswiseSubsetWrapper(ds, start_index=opt(a["i1"]), end_index=opt(a["i2"]),
                                      check_enough_samples=a["f1"])
    if kind == "classwise_pct":
        return ClasswiseSubsetWrapper(ds, start_percent=pct(a["p1"], ints), end_percent=pct(a["p2"], ints))
    raise ValueError(kind)


# ---------------------------------------------------------------- recording in a forked child, per-call deadline
class Deadline(BaseException):
    pass


# The per-construction deadline counts the CPU time of the constructing process (ITIMER_PROF), not wall-clock time: a
# non-terminating constructor burns CPU and is caught, a process that is merely descheduled on a loaded machine is not
# mistaken for one.  A child that stops answering without burning CPU is caught by the parent (wall-clock, generous).
TIMER, TIMER_SIGNAL = signal.ITIMER_PROF, signal.SIGPROF


def _on_alarm(*_):
    raise Deadline()


def own_refusal(exc):
    """an exception raised by an `assert` / `raise` statement of kappadata itself (innermost frame)"""
    if not isinstance(exc, (AssertionError, NotImplementedError, ValueError, RuntimeError)):
        return False
    tb = traceback.extract_tb(exc.__traceback__)
    if not tb:
        return False
    last = tb[-1]
    root = os.path.realpath(os.path.join(core.REPO, "kappadata")) + os.sep
    line = (last.line or "").strip()
    return os.path.realpath(last.filename).startswith(root) and (line.startswith("assert") or line.startswith("raise"))


def _warm_up(case, root, a):
    """an earlier construction over the same root dataset object (other arguments of the same trace): the selection
    is a function of the constructor arguments and seed only, so it must not matter"""
    signal.setitimer(TIMER, 2.0)
    try:
        w = construct(case["kind"], root, a)
        for i in range(min(len(w), 3)):
            w.getitem_x(i)
    except BaseException:  # noqa: whatever the earlier construction did is not the observation
        pass
    finally:
        signal.setitimer(TIMER, 0)


def observe(case, a, deadline):
    """one construction under the global seed a['g']; returns (kind of event, selection, note)"""
    import numpy as np
    import torch
    perm = case.get("perm")
    warm = case.get("warm")
    if perm:
        # the wrapper under test sits on top of a full-length permutation layer: position j of the PRESENTED dataset
        # (class case["cls"][j]) is sample perm[j] of the root dataset
        import kappadata.wrappers.dataset_wrappers as W
        base_cls = [0] * case["n"]
        for j, pj in enumerate(perm):
            base_cls[pj] = case["cls"][j]
        root = make_dataset(base_cls, case["C"], case["getall"], dim1=case.get("dim1", False))
        if warm:
            _warm_up(case, root, warm)
        ds = W.SubsetWrapper(root, indices=list(perm))
        pos_of = {1000 + 7 * pj: j for j, pj in enumerate(perm)}
    else:
        ds = make_dataset(case["cls"], case["C"], case["getall"], dim1=case.get("dim1", False))
        pos_of = {1000 + 7 * j: j for j in range(case["n"])}
        if warm:
            _warm_up(case, ds, warm)
    np.random.seed(a["g"])
    torch.default_generator.manual_seed(a["g"])  # CPU generator only: torch.manual_seed queues lazy device calls
    random.seed(a["g"])
    signal.setitimer(TIMER, deadline)
    try:
        w = construct(case["kind"], ds, a)
        n = len(w)
        if n > 200000:
            return "err", [], f"len {n}"
        sel = [pos_of.get(w.getitem_x(i), -1) for i in range(n)]
        return "build", sel, ""
    except Deadline:
        return "diverge", [], f"no result within {deadline}s of CPU time"
    except BaseException as exc:  # noqa
        signal.setitimer(TIMER, 0)
        note = f"{type(exc).__name__}: {str(exc)[:160]}"
        return ("refuse" if own_refusal(exc) else "err"), [], note
    finally:
        signal.setitimer(TIMER, 0)


def _child(conn, cases, deadline, max_div):
    import torch
    torch.set_num_threads(1)
    signal.signal(TIMER_SIGNAL, _on_alarm)
    diverged = {}
    for case in cases:
        conn.send(("start", case["id"]))
        evs, skipped = [], False
        for a in case["ev"]:
            fam = (case["kind"], a["mode"])
            if diverged.get(fam, 0) >= max_div:
                skipped = True
                break
            kind, sel, note = observe(case, a, deadline)
            if kind == "diverge":
                diverged[fam] = diverged.get(fam, 0) + 1
            evs.append((kind, sel, note))
            if kind != "build":
                break  # the trace ends at the first construction that gives no selection
        conn.send(("res", case["id"], evs, skipped))
    conn.send(("end",))
    conn.close()


def record_all(cases, deadline=2.0, max_div=3, procs=4, after_fork=None):
    """Constructs every case in forked children (round-robin chunks). Returns {case id: ([(event kind, sel, note)],
    skipped)}.  A child that stops answering altogether is killed, the construction in flight is a `diverge`
    observation and a fresh child continues with the remaining cases of its chunk.  `after_fork` runs once all
    first-generation children exist (threads are only started after the forks)."""
    from multiprocessing.connection import wait
    ctx = mp.get_context("fork")
    out = {}
    hard = deadline * 8 + 60

    def spawn(pending):
        parent, childc = ctx.Pipe()
        p = ctx.Process(target=_child, args=(childc, pending, deadline, max_div), daemon=True)
        p.start()
        childc.close()
        return dict(p=p, conn=parent, pending=pending, cur=None, last=time.time())

    live = [spawn(ch) for ch in (cases[i::procs] for i in range(procs)) if ch]
    if after_fork:
        after_fork()
    while live:
        ready = wait([w["conn"] for w in live], timeout=1.0)
        for w in list(live):
            why = None
            if w["conn"] in ready:
                try:
                    msg = w["conn"].recv()
                    w["last"] = time.time()
                    if msg[0] == "start":
                        w["cur"] = msg[1]
                    elif msg[0] == "res":
                        out[msg[1]] = (msg[2], msg[3])
                        w["cur"] = None
                    elif msg[0] == "end":
                        w["p"].join(timeout=5)
                        if w["p"].is_alive():
                            w["p"].kill()
                        live.remove(w)
                except (EOFError, OSError):
                    why = "err"
            elif time.time() - w["last"] > hard:
                why = "diverge"
            if why:
                w["p"].kill()
                live.remove(w)
                if w["cur"] is not None:
                    out[w["cur"]] = ([(why, [], "child process stopped answering / died")], False)
                rest = [c for c in w["pending"] if c["id"] not in out]
                if rest and (w["cur"] is not None or why == "diverge"):
                    live.append(spawn(rest))
                elif rest:
                    raise tlc.TLCError("recorder child died outside a construction")
    return out


# ---------------------------------------------------------------- case generation (seeded; in-domain only)
def E(**kw):
    a = dict(mode="", cs=[], i1=NONE, i2=NONE, p1=list(UNSET), p2=list(UNSET), f1=False, f2=False, seed=NONE)
    a.update(kw)
    return a


def B(num, den):
    return [1, int(num), int(den)]


def bval(b):
    return None if b[0] == 0 else b[1] / b[2]


def layouts(max_n, low=0, min_n=0, dims=(1, 2, 3)):
    """every class layout of every size: (C, cls); class 0..C-1 may be absent / singleton; low=-1 adds unlabeled"""
    for C in dims:
        for n in range(min_n, max_n + 1):
            for cls in itertools.product(range(low, C), repeat=n):
                yield C, list(cls)


def bounds(den):
    return [list(UNSET)] + [B(k, den) for k in range(den + 1)]


def grid(kind, max_n, den):
    """exhaustive small grid of one kind: yields (C, cls, [args of the constructions], rel)"""
    if kind == "filter":
        for C, cls in layouts(max_n, low=-1):
            ids = list(range(-1, C + 1))  # C itself: a class id that no sample has and the dataset does not know
            for m in (0, 1, 2):
                for cs in itertools.combinations(ids, m):
                    for mode in ("valid", "invalid"):
                        yield C, cls, E(mode=mode, cs=list(cs)), "same"
                        if cs and all(c >= 0 for c in cs):      # the same filter given by class names
                            yield C, cls, E(mode=mode, cs=list(cs), via="names"), "same"
    elif kind == "percent":
        for n in range(0, max_n + 3):
            for p1, p2 in itertools.product(bounds(den), repeat=2):
                if p1[0] and p2[0] and bval(p1) > bval(p2):
                    continue
                for f1, f2 in itertools.product((False, True), repeat=2):
                    yield 1, [0] * n, E(p1=p1, p2=p2, f1=f1, f2=f2), "same"
    elif kind == "subset_idx":
        for n in range(0, max_n + 3):
            for i1 in range(-1, n + 1):
                for i2 in range(-1, n + 2):
                    if i1 == NONE and i2 == NONE:
                        continue
                    if max(i1, 0) > (n if i2 == NONE else min(i2, n)):
                        continue
                    yield 1, [0] * n, E(i1=i1, i2=i2), "same"
    elif kind == "subset_pct":
        for n in range(0, max_n + 3):
            for p1, p2 in itertools.product(bounds(den), repeat=2):
                if not (p1[0] or p2[0]) or (p1[0] and p2[0] and bval(p1) > bval(p2)):
                    continue
                yield 1, [0] * n, E(p1=p1, p2=p2), "same"
    elif kind == "subset_list":
        for n in range(0, max_n + 1):
            for m in (0, 1, 2, 3):
                for cs in itertools.product(range(-n, n), repeat=m):
                    yield 1, [0] * n, E(cs=list(cs)), "same"
    elif kind == "shuffle":
        for n in range(0, max_n + 3):
            for seed in (NONE, 0, 1, 2, 3, 5, 12345):
                yield 1, [0] * n, E(seed=seed), "same"
    elif kind == "sort":
        for C, cls in layouts(max_n):
            yield C, cls, E(), "same"
    elif kind == "intra":
        for C, cls in layouts(max_n):
            for seed in (NONE, 0, 7):
                yield C, cls, E(seed=seed), "same"
    elif kind == "repeat":
        for n in range(1, max_n + 3):
            for r in range(1, 5):
                yield 1, [0] * n, E(mode="reps", i1=r), "same"
            for m in range(1, 3 * n + 2):
                yield 1, [0] * n, E(mode="min", i1=m), "same"
    elif kind == "oversample":
        for C, cls in layouts(max_n, low=-1, min_n=1):
            yield C, cls, E(mode="multiply"), "same"
            if all(c >= 0 for c in cls):
                yield C, cls, E(mode="exact"), "same"
        # uneven refills of mode exact (majority count not a multiple of a class count) need at least five samples
        for C, cls in layouts(max_n + 2, min_n=max_n + 1, dims=(2, 3)):
            yield C, cls, E(mode="exact"), "same"
            yield C, cls, E(mode="multiply"), "same"
    elif kind == "fewshot":
        for C, cls in layouts(max_n, min_n=1):
            for shots in range(0, 4):
                for seed in (0, 3):
                    yield C, cls, E(i1=shots, seed=seed), "same"
    elif kind == "classwise_idx":
        for C, cls in layouts(max_n):
            n = len(cls)
            for i1 in range(-1, 3):
                for i2 in range(-1, n + 2):
                    if i1 == NONE and i2 == NONE:
                        continue
                    if max(i1, 0) > (n if i2 == NONE else min(i2, n)):
                        continue
                    for chk in (False, True):
                        yield C, cls, E(i1=i1, i2=i2, f1=chk), "same"
    elif kind == "classwise_pct":
        for C, cls in layouts(max_n):
            for p1, p2 in itertools.product(bounds(den), repeat=2):
                if not (p1[0] or p2[0]) or (p1[0] and p2[0] and bval(p1) > bval(p2)):
                    continue
                yield C, cls, E(p1=p1, p2=p2), "same"
    else:
        raise ValueError(kind)


def chain_events(kind, n, cuts, flag, first_none, last_none, den):
    """constructions of the complementary ranges 0..c1, c1..c2, ..., ck..end"""
    idx = kind in ("subset_idx", "classwise_idx")
    pts = [None] + list(cuts) + [None]
    evs = []
    for lo, hi in zip(pts[:-1], pts[1:]):
        if idx:
            i1 = (NONE if first_none else 0) if lo is None else lo
            i2 = (NONE if last_none else n) if hi is None else hi
            if i1 == NONE and i2 == NONE:
                i1 = 0
            evs.append(E(i1=i1, i2=i2))
        else:
            p1 = (list(UNSET) if first_none else B(0, den)) if lo is None else B(lo, den)
            p2 = (list(UNSET) if last_none else B(den, den)) if hi is None else B(hi, den)
            if kind != "percent" and not (p1[0] or p2[0]):
                p1 = B(0, den)
            evs.append(E(p1=p1, p2=p2, f1=flag and kind == "percent", f2=flag and kind == "percent"))
    return evs


def partition_grid(kind, max_n, den):
    """yields (C, cls, [events]) for every chain with one or two interior cuts"""
    idx = kind in ("subset_idx", "classwise_idx")
    if kind in ("classwise_idx", "classwise_pct"):
        lays = list(layouts(max_n, dims=(2, 3)))
    else:
        lays = [(1, [0] * n) for n in range(0, max_n + 3)]
    for C, cls in lays:
        n = len(cls)
        pts = list(range(0, n + 1)) if idx else list(range(0, den + 1))
        chains = [(a,) for a in pts] + [(a, b) for a in pts for b in pts if a <= b]
        for cuts in chains:
            for flag in ((False, True) if kind == "percent" else (False,)):
                for fn, ln in ((True, True), (False, False)):
                    yield C, cls, chain_events(kind, n, cuts, flag, fn, ln, den)


def float_hard_points(max_n=400, dens=(100, 10, 1000, 3, 7, 12, 25)):
    """(n, k, den) with k/den * n mathematically an integer or close to one but int() of the float product off the
    exact floor: the split points where roundings of the same bound can disagree"""
    out = []
    for den in dens:
        for n in range(1, max_n + 1):
            for k in range(1, den):
                if int(k / den * n) != (k * n) // den:
                    out.append((n, k, den))
    return out


_HARD = None


def inexact_chain(r, kind):
    """a chain of complementary percent ranges with non-dyadic split points (C, cls, events)"""
    global _HARD
    if _HARD is None:
        _HARD = float_hard_points()
    if r.random() < 0.6 and _HARD:
        n, k, den = r.choice(_HARD)
        more = [c for (m, c, d) in _HARD if m == n and d == den]
        cuts = sorted({k} | set(r.sample(more, min(len(more), r.randint(0, 2)))) | set(
            r.randint(0, den) for _ in range(r.randint(0, 1))))
    else:
        den = r.choice([100, 10, 1000, 3, 7, 12, 25, 9])
        n = r.randint(1, 300)
        cuts = sorted(r.randint(0, den) for _ in range(r.choice([1, 2, 3])))
    if kind == "classwise_pct":
        # the hard size is one class's count; other classes get other sizes
        C = r.randint(1, 3)
        cnt = [n] + [r.randint(0, 120) for _ in range(C - 1)]
        r.shuffle(cnt)
        cls = [c for c in range(C) for _ in range(cnt[c])]
        r.shuffle(cls)
    else:
        C, cls = 1, [0] * n
    fn, ln = r.random() < 0.5, r.random() < 0.5
    return C, cls, chain_events(kind, len(cls), cuts, r.random() < 0.5, fn, ln, den)


def rand_layout(r, big):
    n = r.randint(2, 300 if big else 40)
    C = r.randint(1, 10)
    style = r.choice(["uniform", "skewed", "blocks", "absent"])
    if style == "uniform":
        cls = [r.randrange(C) for _ in range(n)]
    elif style == "skewed":
        w = [1.0 / (i + 1) ** 2 for i in range(C)]
        cls = r.choices(range(C), weights=w, k=n)
    elif style == "blocks":
        cls = sorted(r.randrange(C) for _ in range(n))
    else:
        present = [c for c in range(C) if r.random() < 0.5] or [r.randrange(C)]
        cls = [r.choice(present) for _ in range(n)]
    return C, cls


def rand_bound(r, den, allow_none=True):
    if allow_none and r.random() < 0.15:
        return list(UNSET)
    x = r.random()
    if x < 0.1:
        return B(0, den)
    if x < 0.2:
        return B(den, den)
    return B(r.randint(0, den), den)


def rand_case(r, kind, big):
    """one random larger configuration: (C, cls, args or [chain], rel)"""
    C, cls = rand_layout(r, big)
    n = len(cls)
    den = r.choice([8, 16, 64])
    if kind == "filter" and r.random() < 0.3:
        # a small dataset in a large, sparsely used label space with a long class list
        C = r.randint(300, 4000)
        n = r.randint(4, 60)
        pool = r.sample(range(C), max(2, n // 3))
        cls = [r.choice(pool) for _ in range(n)]
        k = r.randint(12, 80)
        cs = list(set(r.sample(pool, r.randint(0, len(pool))) + r.sample(range(C), k)))
        r.shuffle(cs)
        return C, cls, E(mode=r.choice(["valid", "invalid"]), cs=cs, via="ids"), "same"
    if kind == "filter":
        if r.random() < 0.3:
            cls = [c if r.random() > 0.1 else -1 for c in cls]
        via = r.choice(["ids", "ids", "names"])
        pool = list(range(0 if via == "names" else -1, C + 2))
        cs = r.sample(pool, r.randint(0, min(len(pool), 5)))
        if via == "ids" and cs and r.random() < 0.3:
            cs.append(cs[0])  # duplicates are allowed
        return C, cls, E(mode=r.choice(["valid", "invalid"]), cs=cs, via=via), "same"
    if kind in ("percent", "subset_pct", "classwise_pct"):
        if r.random() < 0.35:
            k = r.choice([1, 2, 3])
            cuts = sorted(r.randint(0, den) for _ in range(k))
            fn = r.random() < 0.5
            return C, cls, chain_events(kind, n, cuts, r.random() < 0.5, fn, r.random() < 0.5, den), "partition"
        while True:
            p1, p2 = rand_bound(r, den), rand_bound(r, den)
            if kind != "percent" and not (p1[0] or p2[0]):
                continue
            if p1[0] and p2[0] and bval(p1) > bval(p2):
                p1, p2 = p2, p1
            break
        a = E(p1=p1, p2=p2, ints=(kind != "percent" and r.random() < 0.3))
        if kind == "percent":
            a.update(f1=r.random() < 0.5, f2=r.random() < 0.5)
        return C, cls, a, "same"
    if kind in ("subset_idx", "classwise_idx"):
        if r.random() < 0.35:
            k = r.choice([1, 2, 3])
            cuts = sorted(r.randint(0, n) for _ in range(k))
            return C, cls, chain_events(kind, n, cuts, False, r.random() < 0.5, r.random() < 0.5, den), "partition"
        hi_max = n if kind == "subset_idx" else max(1, n // max(1, C))
        i2 = r.choice([NONE, 0, r.randint(0, hi_max + 2), r.randint(0, hi_max + 2)])
        top = n if i2 == NONE else min(i2, n)
        i1 = r.choice([NONE, 0, r.randint(0, top)])
        if i1 == NONE and i2 == NONE:
            i1 = 0
        a = E(i1=i1, i2=i2)
        if kind == "classwise_idx":
            a["f1"] = r.random() < 0.3
        return C, cls, a, "same"
    if kind == "subset_list":
        m = r.randint(0, 2 * n)
        return C, cls, E(cs=[r.randint(-n, n - 1) for _ in range(m)]), "same"
    if kind in ("shuffle", "intra"):
        return C, cls, E(seed=r.choice([NONE, r.randint(0, 2 ** 31 - 2), r.randint(0, 100)])), "same"
    if kind == "sort":
        return C, cls, E(), "same"
    if kind == "repeat":
        if r.random() < 0.5:
            return C, cls, E(mode="reps", i1=r.randint(1, 6)), "same"
        return C, cls, E(mode="min", i1=r.choice([1, n - 1, n, n + 1, 2 * n, r.randint(1, 5 * n)])), "same"
    if kind == "oversample":
        mode = r.choice(["multiply", "exact"])
        if mode == "multiply" and r.random() < 0.3:
            cls = [c if r.random() > 0.1 else -1 for c in cls]
        return C, cls, E(mode=mode), "same"
    if kind == "fewshot":
        return C, cls, E(i1=r.choice([0, 1, 2, 5, 10, n]), seed=r.randint(0, 2 ** 31 - 2)), "same"
    raise ValueError(kind)


def make_case(cid, kind, C, cls, args, rel, r, gseeds, inexact=False, stack=0.0):
    if rel == "same":
        gs = [gseeds[0], gseeds[1]]
        evs = [dict(args, g=g) for g in gs]
    else:
        evs = [dict(a, g=gseeds[i % 2]) for i, a in enumerate(args)]
    for a in evs:
        a.setdefault("via", "ids")
        a.setdefault("ints", False)
    # every third binary layout is presented as a dataset that announces the class shape (1,)
    dim1 = bool(C == 2 and kind != "filter" and r.random() < 0.34)
    if C == 1:
        # a dataset announcing the class shape (1,) IS a binary dataset for the library (class 1 may be absent)
        C, dim1 = 2, True
    perm = None
    if len(cls) >= 2 and r.random() < stack:
        perm = list(range(len(cls)))
        while perm == sorted(perm):
            r.shuffle(perm)
    warm = None
    if r.random() < (0.5 if perm else 0.15):
        warm = dict(r.choice(evs))
    return dict(id=cid, kind=kind, rel=rel, n=len(cls), C=C, cls=list(cls), getall=bool(r.random() < 0.5), dim1=dim1,
                ev=evs, inexact=bool(inexact), perm=perm, warm=warm)


def build_cases(tier, r):
    quick = tier == "quick"
    max_n, den = (4, 4) if quick else (5, 8)
    cap = 450 if quick else 10000           # per kind, sampled from the exhaustive grid when it is larger
    pcap = 160 if quick else 4000
    n_rand = 16 if quick else 160           # per kind
    n_inexact = 30 if quick else 400        # per percent kind: non-dyadic split points (float-rounded bounds)
    cases = []
    stats = dict(grid_total={}, grid_used={}, partition_used={}, random={}, inexact_partition={})

    def gseeds():
        a = r.randint(1, 10 ** 6)
        return a, a + r.randint(1, 10 ** 6)

    for kind in KINDS:
        g = list(grid(kind, max_n, den))
        stats["grid_total"][kind] = len(g)
        if len(g) > cap:
            r.shuffle(g)
            g = g[:cap]
        stats["grid_used"][kind] = len(g)
        for C, cls, a, rel in g:
            cases.append(make_case(len(cases) + 1, kind, C, cls, a, rel, r, gseeds(), stack=0.15))
        if kind in ("percent", "subset_idx", "subset_pct", "classwise_idx", "classwise_pct"):
            pg = list(partition_grid(kind, max_n if kind.startswith("classwise") else max_n + 1, den))
            if len(pg) > pcap:
                r.shuffle(pg)
                pg = pg[:pcap]
            stats["partition_used"][kind] = len(pg)
            for C, cls, evs in pg:
                cases.append(make_case(len(cases) + 1, kind, C, cls, evs, "partition", r, gseeds()))
        for i in range(n_rand):
            C, cls, a, rel = rand_case(r, kind, big=(i % 4 == 0))
            cases.append(make_case(len(cases) + 1, kind, C, cls, a, rel, r, gseeds(), stack=0.4))
        stats["random"][kind] = n_rand
        if kind in ("percent", "subset_pct", "classwise_pct"):
            for i in range(n_inexact):
                C, cls, evs = inexact_chain(r, kind)
                cases.append(make_case(len(cases) + 1, kind, C, cls, evs, "partition", r, gseeds(), inexact=True,
                                       stack=0.2))
            stats["inexact_partition"][kind] = n_inexact
    return cases, stats


# ---------------------------------------------------------------- traces
EV_FIELDS = ("mode", "cs", "i1", "i2", "p1", "p2", "f1", "f2", "seed", "g")


def to_trace(case, obs):
    evs = []
    for a, (what, sel, note) in zip(case["ev"], obs):
        ev = {k: a[k] for k in EV_FIELDS}
        ev.update(a=what, sel=[int(x) for x in sel])
        evs.append(ev)
    return dict(id=case["id"], cfg=dict(kind=case["kind"], rel=case["rel"], n=case["n"], C=case["C"], cls=case["cls"],
                         inexact=bool(case.get("inexact"))),
                ev=evs)


def arg_str(kind, a):
    if kind == "filter":
        return f"{a['mode']}{'_names' if a.get('via') == 'names' else ''}={a['cs']}"
    if kind == "percent":
        return f"from={bval(a['p1'])},to={bval(a['p2'])},ceil_from={int(a['f1'])},ceil_to={int(a['f2'])}"
    if kind in ("subset_idx", "classwise_idx"):
        s = f"start={opt(a['i1'])},end={opt(a['i2'])}"
        return s + (f",check={int(a['f1'])}" if kind == "classwise_idx" else "")
    if kind in ("subset_pct", "classwise_pct"):
        return f"start={bval(a['p1'])},end={bval(a['p2'])}"
    if kind == "subset_list":
        cs = a["cs"]
        return f"indices={cs}" if len(cs) <= 8 else f"indices#{hashlib.sha1(json.dumps(cs).encode()).hexdigest()[:8]}"
    if kind in ("shuffle", "intra"):
        return f"seed={opt(a['seed'])}"
    if kind == "repeat":
        return f"{'repetitions' if a['mode'] == 'reps' else 'min_size'}={a['i1']}"
    if kind == "oversample":
        return f"mode={a['mode']}"
    if kind == "fewshot":
        return f"shots={a['i1']},seed={a['seed']}"
    return ""


def ds_str(case):
    cls = case["cls"]
    c = str(cls).replace(" ", "") if len(cls) <= 12 else "#" + hashlib.sha1(json.dumps(cls).encode()).hexdigest()[:8]
    return f"n={case['n']},C={case['C']}{',dim1' if case.get('dim1') else ''},cls={c}"


def case_key(case, pos=None):
    if case["rel"] == "partition":
        args = "|".join(arg_str(case["kind"], a) for a in case["ev"])
        return f"{case['kind']}:partition:{args}:{ds_str(case)}"
    return f"{case['kind']}:{arg_str(case['kind'], case['ev'][0])}:{ds_str(case)}"


def corrupt(trace, how):
    """copies of a recorded trace that MUST be rejected (self-test of the binding)"""
    t = json.loads(json.dumps(trace))
    ev = t["ev"]
    if how == "drop_last":          # one exposed sample fewer: every kind fixes the length
        if not ev or ev[0]["a"] != "build" or not ev[0]["sel"]:
            return None
        ev[0]["sel"] = ev[0]["sel"][:-1]
    elif how == "reseed":           # same arguments and seed, different selection: SeedOnly (or a per-build clause)
        if t["cfg"]["rel"] != "same" or len(ev) < 2 or ev[-1]["a"] != "build" or len(set(ev[-1]["sel"])) < 2:
            return None
        if t["cfg"]["kind"] in RNG_KINDS and ev[0]["seed"] == NONE:
            return None             # seed=None: nothing is promised across constructions
        s = ev[-1]["sel"]
        k = next(i for i in range(1, len(s)) if s[i] != s[0])
        ev[-1]["sel"] = s[k:] + s[:k]
    elif how == "diverge":
        if not ev:
            return None
        ev[-1] = dict(ev[-1], a="diverge", sel=[])
    elif how == "foreign":          # a sample that is not one of the underlying samples
        if not ev or ev[0]["a"] != "build" or not ev[0]["sel"]:
            return None
        ev[0]["sel"] = ev[0]["sel"][:-1] + [t["cfg"]["n"]]
    return t


def nontrivial(trace):
    """rule: at least two underlying samples and some construction exposes something else than the identity"""
    n = trace["cfg"]["n"]
    ident = list(range(n))
    return n >= 2 and any(e["a"] == "build" and e["sel"] != ident for e in trace["ev"])


# ---------------------------------------------------------------- run
def run_tlc(spec, cfg, **kw):
    """tlc.run_tlc, but a violated temporal property is a result, not a machinery failure (this TLC prints
    'Temporal property X was violated' + 'The following behavior constitutes a counter-example', which the shared
    runner does not classify; the counter-example can push the first line out of the quoted output tail)"""
    try:
        return tlc.run_tlc(spec, cfg, **kw)
    except tlc.TLCError as exc:
        msg = str(exc)
        m = re.search(r"Temporal property (\S+) was violated", msg)
        if not m and "The following behavior constitutes a counter-example" not in msg:
            raise
        props = re.findall(r"^PROPERTY\s+(\S+)", open(os.path.join(tlc.SPECS, cfg)).read(), re.M)
        res = tlc.TLCResult()
        res.violated = [m.group(1)] if m else (props[:1] or ["temporal"])
        res.cex = msg[-8000:]
        c = re.findall(r"(\d+) states generated, (\d+) distinct states found", msg)
        if c:
            res.states_generated, res.distinct_states = int(c[-1][0]), int(c[-1][1])
        return res


def model_check(tier, workers):
    runs = []
    with ThreadPoolExecutor(max_workers=4) as ex:
        futs = []
        for label, cfg, name, full in (
                (f"SelectionProps {tier} grid, all kinds (safety clauses)", f"SelectionProps_{tier}.cfg", "C03mc", True),
                (f"SelectionProps {tier} grid, kinds with loops (termination)", f"SelectionLive_{tier}.cfg", "C03live",
                 False)):
            futs.append((label, full, ex.submit(run_tlc, "SelectionProps", cfg, name=name, workers=workers,
                                                coverage=True, timeout=7200)))
        for cfg in sorted(NEG):
            futs.append((f"negative control {cfg} (Proto v0 must violate {sorted(NEG[cfg])})", cfg, ex.submit(
                run_tlc, "SelectionProps", cfg, name="C03" + cfg[13:-4], workers=2, timeout=1200)))
        for label, kindof, f in futs:
            runs.append((label, kindof, f.result()))
    return runs


def run(prop, tier, seed):
    assert prop in PROPS
    core.use_repo()
    v = core.Verdict(prop, tier, seed)
    r = random.Random(seed * 7919 + 3)
    quick = tier == "quick"

    # ---- (T) record the real wrappers (forked children); (M) design model + negative controls run in the background
    t0 = time.time()
    cases, gstats = build_cases(tier, r)
    signal.signal(TIMER_SIGNAL, _on_alarm)
    for k, a in (("oversample", E(mode="multiply")), ("oversample", E(mode="exact")), ("sort", E()),
                 ("intra", E(seed=0)), ("fewshot", E(i1=1, seed=0)), ("classwise_pct", E(p2=B(1, 2))),
                 ("filter", E(mode="valid", cs=[0])), ("shuffle", E(seed=0))):
        # warm-up (lazy initialisation inside torch / numpy must not eat the deadline of the first real case)
        observe(make_case(0, k, 2, [0, 1, 0, 1], a, "same", random.Random(0), (1, 2)), dict(a, g=1), 120.0)
    bg = ThreadPoolExecutor(max_workers=1)
    mc = {}
    obs = record_all(cases, deadline=2.0 if quick else 4.0, procs=4 if quick else 8,
                     after_fork=lambda: mc.update(f=bg.submit(model_check, tier, 4 if quick else 8)))
    mc_future = mc["f"]
    t_rec = time.time() - t0
    traces, by_id, skipped = [], {}, 0
    for c in cases:
        o, sk = obs.get(c["id"], ([], True))
        if sk or not o:
            skipped += 1
            continue
        t = to_trace(c, o)
        traces.append(t)
        by_id[c["id"]] = (c, o)

    # ---- self-test of the binding: corrupted copies must be rejected
    bad, seen_kind = [], {}
    for t in traces:
        for how in ("drop_last", "reseed", "diverge", "foreign"):
            kk = (t["cfg"]["kind"], t["cfg"]["rel"], how)
            if seen_kind.get(kk, 0) >= (1 if quick else 3):
                continue
            ct = corrupt(t, how)
            if ct is None:
                continue
            ct["id"] = 10 ** 7 + len(bad)
            ct["how"] = how
            bad.append(ct)
            seen_kind[kk] = seen_kind.get(kk, 0) + 1

    t0 = time.time()
    # batches of at most 8 x 1500 traces per validate() call: the verdict sets printed by one JVM stay small (the shared
    # PrintT parser is quadratic in the size of one printed value)
    allt = traces + bad
    acc, rej, st = set(), {}, dict(states=0, transitions=0)
    per_call = 8 * 1500
    for b0 in range(0, len(allt), per_call):
        a1, r1, s1 = tracecheck.validate("SelectionTrace", "SelectionTrace.cfg", allt[b0:b0 + per_call],
                                         f"{prop}tv{b0 // per_call}", jobs=8,
                                         weight=lambda t: sum(len(e["sel"]) + 8 for e in t["ev"]))
        acc |= a1
        rej.update(r1)
        st["states"] += s1["states"]
        st["transitions"] += s1["transitions"]
    t_val = time.time() - t0
    not_rejected = [b for b in bad if b["id"] not in rej]
    if not_rejected:
        b = not_rejected[0]
        raise tlc.TLCError(f"self-test: corrupted trace ({b['how']}, kind {b['cfg']['kind']}) was accepted: "
                           f"{json.dumps(b)[:600]}")
    for i, (pos, clauses) in rej.items():
        if "OutOfDomain" in clauses or "BadChain" in clauses or "UnknownKind" in clauses or "UnknownEvent" in clauses:
            if i < 10 ** 7:
                raise tlc.TLCError(f"generator produced an out-of-domain / ill-formed trace: {clauses} "
                                   f"{json.dumps(to_trace(*by_id[i]))[:600]}")

    v.coverage["states"] += st["states"]
    v.coverage["transitions"] += st["transitions"]
    v.coverage["traces_validated_against_impl"] = len(traces)
    v.coverage["evaluations"] = sum(len(t["ev"]) for t in traces)
    keys = set()
    per_kind = {}
    for t in traces:
        c = by_id[t["id"]][0]
        per_kind[c["kind"]] = per_kind.get(c["kind"], 0) + 1
        if nontrivial(t):
            keys.add(case_key(c))
    v.coverage["distinct_nontrivial"] = len(keys)
    v.coverage["rule"] = ("cases = per wrapper kind a seeded sample (quick) or all (thorough) of the exhaustive grid "
                          "{class layouts of size <= N over C <= 3 classes incl. absent/singleton/unlabeled} x "
                          "{constructor arguments incl. None, 0, 1 and k/Den bounds}, chains of complementary ranges, "
                          "and seeded random larger layouts (n <= 300, C <= 10); every case = 2-4 constructions of the "
                          "real wrapper; evaluations = constructions; non-trivial = at least two underlying samples "
                          "and some construction exposes something else than the identity; distinct by "
                          "(kind, arguments, class layout)")
    v.coverage["traces_per_kind"] = per_kind
    v.coverage["grid"] = gstats
    v.coverage["corrupted_traces_rejected"] = len(bad)
    v.coverage["skipped_after_divergence"] = skipped
    v.coverage["rejected_traces"] = sum(1 for i in rej if i < 10 ** 7)
    v.coverage["record_s"] = round(t_rec, 2)
    v.coverage["validate_s"] = round(t_val, 2)
    for kind in ("percent", "oversample", "classwise_idx", "intra"):
        for t in traces:
            if t["cfg"]["kind"] == kind and nontrivial(t) and t["cfg"]["n"] <= 8:
                v.sample(dict(cfg=t["cfg"], ev=[{k: e[k] for k in e if k != "g"} for e in t["ev"][:3]]))
                break
    # report one representative of every (kind, relation, failed clauses, event) family first
    fams = {}
    for i in sorted(k for k in rej if k < 10 ** 7):
        c, o = by_id[i]
        pos, clauses = rej[i]
        fams.setdefault((c["kind"], c["rel"], tuple(clauses), o[pos - 1][0] if 0 < pos <= len(o) else "?"), []).append(i)
    order = [i for rank in range(max([len(x) for x in fams.values()] + [0])) for x in fams.values() if rank < len(x)
             for i in [x[rank]]]
    v.coverage["rejected_families"] = {"/".join([k[0], k[1], "+".join(k[2]), k[3]]): len(x) for k, x in fams.items()}
    for i in order:
        c, o = by_id[i]
        pos, clauses = rej[i]
        a = c["ev"][pos - 1] if 0 < pos <= len(c["ev"]) else {}
        what_ev, sel, note = o[pos - 1] if 0 < pos <= len(o) else ("?", [], "")
        what = (f"{c['kind']} wrapper violates {clauses} at construction {pos} ({arg_str(c['kind'], a)}) over "
                f"{ds_str(c)}: observed {what_ev} {note} selection={sel[:40]}")
        v.violation(case_key(c), what, dict(case=c, observed=[dict(a=x[0], sel=x[1], note=x[2]) for x in o],
                                            position=pos, clauses=clauses))

    # ---- (M) results
    for label, kindof, res in mc_future.result():
        v.add_tlc(res, label)
        if isinstance(kindof, str):
            if not (set(res.violated) & NEG[kindof]):
                raise tlc.TLCError(f"negative control failed: {kindof} (Proto v0) should violate {sorted(NEG[kindof])}, "
                                   f"TLC reported {res.violated}")
            continue
        for nm in res.violated:
            v.violation(f"model:{nm}", f"design model (SelectionAlg.tla, Proto v1) violates {nm}",
                        dict(cex=str(res.cex)[:6000]))
        if not res.violated:
            for act in (MC_ACTIONS if kindof else LIVE_ACTIONS):
                if res.coverage.get(act, (0, 0))[1] == 0:
                    raise tlc.TLCError(f"vacuity: action {act} never taken in {label}")
    v.assumptions += [
        "percent bounds are dyadic rationals k/2^m, so the code's float product bound*len is exact and floor/ceil in the "
        "specification is unambiguous (stated domain of DESIGN.md section 4, C03)",
        "domain per kind = Selection.tla InDomain: start <= end; repeat / oversampling / few-shot need >= 1 sample; "
        "sort / intra / few-shot / class-wise / oversampling-exact on fully labeled datasets; integer seeds for few-shot",
        "harness dataset returns python ints; getall_class (when present) returns a fresh list",
        "seed=None of ShuffleWrapper / IntraClassShuffleWrapper: only the per-construction clauses are required, nothing "
        "across constructions (the statement's 'seed' is an integer seed)",
        "per-construction deadline 2 s (quick) / 4 s (thorough) for datasets of at most 300 samples",
        "TLC 1.8 and CommunityModules Json are trusted",
    ]
    v.coverage["exhaustive"] = all(gstats["grid_used"][k] == gstats["grid_total"][k] for k in KINDS)
    return v.finish()
