"""C04 / C05 / C06: drive the real InterleavedSampler, record traces, validate them with TLC against
specs/InterleavedTrace.tla; model-check specs/InterleavedProps.tla.

A trace is what the real object did, at the public API:
  mode "it": list(sampler)                  -> y(full, idx) + se(e) events
  mode "bs": list(sampler.batch_sampler)    -> batches flattened to y events, full = last of its batch
  mode "dl": sampler.get_data_loader(w)     -> collated batches flattened; idx unknown (-9), col = collator stamp
Every yielded index is resolved through the sampler's own concat dataset to (src, pos).
"""
import itertools
import json
import os
import random
import sys
import time

from kdverif import core, tlc

PROPS = ("C04", "C05", "C06")

# which normative invariants of InterleavedProps.tla belong to which property
OWN = {
    "C04": ["C04_MainExact", "C04_Announced", "C04_AnnouncedOnce", "C04_BatchExact", "C04_DropUnits", "C04_StopExact",
            "C04_BatchBoundary", "RefPrefix", "RefFinal", "Terminates"],
    "C05": ["C05_Unmixed", "C05_Resolves", "C05_SideExact", "C05_Eval", "RefPrefix", "RefFinal"],
    "C06": ["C06_Checkpoint", "C06_SuffixOfFull", "RefPrefix", "RefFinal"],
}


# ---------------------------------------------------------------- harness objects (no repo code)
class TagDataset:
    """item i = (tag, i); tag identifies the source dataset"""

    def __init__(self, tag, n):
        self.tag, self.n = tag, n

    def __len__(self):
        return self.n

    def __getitem__(self, i):
        if not 0 <= i < self.n:
            raise IndexError(i)
        return (self.tag, int(i))

    def worker_init_fn(self, rank, **kwargs):
        pass


def perm(seed, epoch, n_src, n):
    r = random.Random(seed * 1000003 + epoch * 7919 + 17)
    p = list(range(n_src))
    r.shuffle(p)
    return p[:n]


class MainSamplerNoEpoch:
    """main sampler without set_epoch: the same iteration every epoch"""

    def __init__(self, data_source, n, seed, log):
        self.data_source, self.n, self.seed, self.log = data_source, n, seed, log
        self.epoch = 0
        self.yielded = 0

    def iteration(self, e):
        return perm(self.seed, 0, len(self.data_source), self.n)

    def __len__(self):
        return self.n

    def __iter__(self):
        for i in self.iteration(self.epoch):
            self.yielded += 1
            yield i


class MainSampler(MainSamplerNoEpoch):
    """yields an epoch-dependent selection of the data source; logs set_epoch with its own yield count"""

    def set_epoch(self, e):
        self.epoch = e
        self.log.append(("se", int(e), self.yielded))

    def iteration(self, e):
        return perm(self.seed, e, len(self.data_source), self.n)


class MainSamplerEager(MainSampler):
    """fixes its order inside iter() (torch's DistributedSampler does): the epoch has to be announced BEFORE iter()"""

    def __iter__(self):
        order = list(self.iteration(self.epoch))

        def gen():
            for i in order:
                self.yielded += 1
                yield i
        return gen()


class MainSamplerStateful(MainSamplerNoEpoch):
    """no set_epoch, but every iteration differs (a shuffler drawing from its own generator, like RandomSampler):
    the k-th iter() gives the k-th order"""

    def __init__(self, data_source, n, seed, log):
        super().__init__(data_source, n, seed, log)
        self.k = 0

    def iteration(self, e):
        return perm(self.seed, e, len(self.data_source), self.n)

    def __iter__(self):
        order = list(self.iteration(self.k))
        self.k += 1
        for i in order:
            self.yielded += 1
            yield i


def main_class(c):
    mk = c.get("mk", "lazy")
    if not c["se"]:
        return MainSamplerStateful if mk == "stateful" else MainSamplerNoEpoch
    return MainSamplerEager if mk == "eager" else MainSampler


class SideSampler:
    def __init__(self, data_source, it):
        self.data_source, self.it = data_source, list(it)

    def __len__(self):
        return len(self.it)

    def __iter__(self):
        return iter(self.it)


class SideSamplerEpoch(SideSampler):
    """a side sampler that would reshuffle (here: rotate) when told an epoch.  The scheduler as specified never tells
    interleaved samplers an epoch, so the order stays `it`; whatever a scheduler does with it has to be part of the
    checkpoint (used for C06 only: the resumed stream is compared with the uninterrupted one)"""

    def __init__(self, data_source, it):
        super().__init__(data_source, it)
        self.epoch = 0

    def set_epoch(self, e):
        self.epoch = int(e)

    def __iter__(self):
        k = self.epoch % max(len(self.it), 1)
        return iter(self.it[k:] + self.it[:k])


class StampCollator:
    def __init__(self, c):
        self.c = c

    def __call__(self, data):
        return ("col", self.c, list(data))


# ---------------------------------------------------------------- python mirror of the geometry (cfg bookkeeping only)
def D(c):
    return c["dl"] if c["dl"] else c["B"]


def SPE(c):
    return (c["N"] // D(c)) * D(c) if c["drop"] else c["N"]


def UPE(c):
    return (SPE(c) + c["B"] - 1) // c["B"]


def ubound(c):
    if c["budget"] == 0:
        return 0
    if c["kind"] == "e":
        return (c["budget"] - c["start"]) * UPE(c)
    if c["kind"] == "u":
        return c["budget"] - c["start"] * UPE(c)
    return c["budget"] - c["start"] * SPE(c)


def epochs_needed(c):
    return (ubound(c) + UPE(c) - 1) // UPE(c) + 1


def max_events(c):
    ub = ubound(c)
    side = sum(s["len"] for s in c["sides"])
    if c["budget"] == 0:
        return side + 2
    return ub * (c["B"] + side + 1) + 4


# ---------------------------------------------------------------- building and running the real object
def build(c, resume, log, seed):
    """c: spec cfg (dict). resume: none|epoch|update|sample. Returns (sampler, twin_main)"""
    from kappadata.samplers.interleaved_sampler import InterleavedSampler, InterleavedSamplerConfig
    main_ds = TagDataset(0, c["md"])
    cls = main_class(c)
    main = cls(main_ds, c["N"], seed, log)
    configs = []
    for i, s in enumerate(c["sides"], start=1):
        ds = TagDataset(i, s["dlen"])
        it = s["iter"] if s["iter"] else range(s["len"])
        configs.append(InterleavedSamplerConfig(
            sampler=(SideSamplerEpoch if c.get("react") else SideSampler)(ds, it),
            every_n_epochs=s["ee"] or None, every_n_updates=s["eu"] or None, every_n_samples=s["es"] or None,
            collator=StampCollator(i), batch_size=s["bs"] or None,
        ))
    kw = {}
    kw[{"e": "epochs", "u": "updates", "s": "samples"}[c["kind"]]] = c["budget"]
    if resume == "epoch":
        kw["start_epoch"] = c["start"]
    elif resume == "update":
        kw["start_update"] = c["start"] * UPE(c)
    elif resume == "sample":
        kw["start_sample"] = c["start"] * SPE(c)
    else:
        assert c["start"] == 0
    sampler = InterleavedSampler(
        main_sampler=main, batch_size=c["B"], configs=configs, drop_last=c["drop"],
        main_collator=StampCollator(0), drop_last_batch_size=c["dl"] or None, **kw)
    return sampler


def resolve(sampler, idx):
    try:
        src, item = sampler.dataset[idx]
        tag, pos = item
        if tag != src:
            return -2, int(pos)
        return int(src), int(pos)
    except Exception:
        return -1, -1


def ev_y(full, idx, src, pos, col=-9):
    return dict(a="y", full=bool(full), idx=int(idx), src=int(src), pos=int(pos), col=int(col))


def ev_se(e):
    return dict(a="se", full=False, idx=int(e), src=-1, pos=-1, col=-9)


class Diverge(BaseException):
    pass


DIVERGED = [0]


def _on_timer(signum, frame):
    raise Diverge()


def record(c, resume, mode, seed, workers=0):
    """record_() under a CPU-time deadline: a scheduler that spins without yielding is an observation, not a hang"""
    import signal
    old = signal.signal(signal.SIGVTALRM, _on_timer)
    if DIVERGED[0] >= 5:
        # enough non-terminating runs were observed (each one is a violation): do not spend the deadline on more
        return [dict(a="err:DivergeSkipped", full=False, idx=-1, src=-1, pos=-1, col=-9)]
    signal.setitimer(signal.ITIMER_VIRTUAL, 4.0 if mode != "dl" else 60.0)
    try:
        return record_(c, resume, mode, seed, workers)
    except Diverge:
        DIVERGED[0] += 1
        return [dict(a="err:Diverge", full=False, idx=-1, src=-1, pos=-1, col=-9)]
    finally:
        signal.setitimer(signal.ITIMER_VIRTUAL, 0)
        signal.signal(signal.SIGVTALRM, old)


def record_(c, resume, mode, seed, workers=0):
    """Run the real sampler for cfg c and return the event list (never raises for repo-side failures)."""
    log = []
    try:
        sampler = build(c, resume, log, seed)
    except (NotImplementedError, AssertionError) as e:
        # an explicit refusal by the constructor itself (raise / assert in interleaved_sampler.py)
        import traceback
        last = traceback.extract_tb(e.__traceback__)[-1]
        if last.filename.endswith("interleaved_sampler.py"):  # raised by the sampler itself while constructing
            return [dict(a="refuse", full=False, idx=-1, src=-1, pos=-1, col=-9)]
        return [dict(a="err:" + type(e).__name__, full=False, idx=-1, src=-1, pos=-1, col=-9)]
    except Exception as e:  # any other constructor failure is not an allowed answer
        return [dict(a="err:" + type(e).__name__, full=False, idx=-1, src=-1, pos=-1, col=-9)]
    limit = max_events(c) * 2 + 50
    ev = []
    try:
        if mode == "it":
            n = 0
            for full, idx in sampler:
                while log:
                    ev.append(ev_se(log.pop(0)[1]))
                src, pos = resolve(sampler, idx)
                ev.append(ev_y(full, idx, src, pos))
                n += 1
                if n > limit:
                    ev.append(dict(a="overrun", full=False, idx=-1, src=-1, pos=-1, col=-9))
                    break
            while log:
                ev.append(ev_se(log.pop(0)[1]))
        elif mode == "bs":
            n = 0
            for batch in sampler.batch_sampler:
                while log:
                    e = log.pop(0)
                    # set_epoch happened when the sampler had yielded e[2] main indices; the batch sampler has
                    # consumed everything up to the end of this batch, so the announcement belongs before the
                    # first main index after e[2]
                    ev.append(("se_at", e[1], e[2]))
                for j, idx in enumerate(batch):
                    src, pos = resolve(sampler, idx)
                    ev.append(ev_y(j == len(batch) - 1, idx, src, pos))
                n += len(batch)
                if n > limit:
                    ev.append(dict(a="overrun", full=False, idx=-1, src=-1, pos=-1, col=-9))
                    break
            while log:
                e = log.pop(0)
                ev.append(("se_at", e[1], e[2]))
            ev = place_se(ev)
        elif mode == "dl":
            n = 0
            loader = sampler.get_data_loader(num_workers=workers)
            for batch in loader:
                tag, col, items = batch
                for j, (t, pos) in enumerate(items):
                    ev.append(ev_y(j == len(items) - 1, -9, int(t), int(pos), col=col))
                n += len(items)
                if n > limit:
                    ev.append(dict(a="overrun", full=False, idx=-1, src=-1, pos=-1, col=-9))
                    break
            ev = [("se_at", e[1], e[2]) for e in log] + ev
            ev = place_se(ev)
        else:
            raise ValueError(mode)
    except Exception as e:
        ev = [x for x in ev if isinstance(x, dict)]
        ev.append(dict(a="err:" + type(e).__name__, full=False, idx=-1, src=-1, pos=-1, col=-9))
    return ev


def place_se(ev):
    """Insert each recorded set_epoch(e) (known to have happened after the main sampler's m-th yield) directly before
    the (m+1)-th main event. Uses only the sampler's own yield count, no timing."""
    ses = sorted([x for x in ev if isinstance(x, tuple)], key=lambda t: t[2])
    ys = [x for x in ev if isinstance(x, dict)]
    out, m = [], 0
    for y in ys:
        if y["a"] == "y" and y["src"] == 0:
            while ses and ses[0][2] <= m:
                out.append(ev_se(ses.pop(0)[1]))
            m += 1
        out.append(y)
    for s in ses:
        out.append(ev_se(s[1]))
    return out


def full_cfg(c, seed):
    """add the sampler's own iteration per epoch (independent twin) so that the spec can predict raw indices"""
    c = dict(c)
    tw_log = []
    cls = main_class(c)
    twin = cls(TagDataset(0, c["md"]), c["N"], seed, tw_log)
    c["miter"] = [twin.iteration(c["start"] + r) for r in range(epochs_needed(c))]
    return c


# ---------------------------------------------------------------- configuration generators
def grid_sides(max_len, max_iv):
    res = []
    for ln in range(1, max_len + 1):
        for xt in (0, 1):
            for bs in range(0, max_len + 1):
                for ee, eu, es in itertools.product(range(max_iv + 1), repeat=3):
                    if ee + eu + es == 0:
                        continue
                    res.append(dict(len=ln, dlen=ln + xt, bs=bs, ee=ee, eu=eu, es=es, iter=[]))
    return res


def grid(max_n, max_epochs, max_sides, max_side_len, max_iv, max_start):
    """same grid as InterleavedProps.tla (Geoms x start x Budgets x SideSeqs)"""
    sides1 = grid_sides(max_side_len, max_iv)
    side_seqs = [[]]
    cur = [[]]
    for _ in range(max_sides):
        cur = [a + [s] for a in cur for s in sides1]
        side_seqs += cur
    for n in range(1, max_n + 1):
        for b in range(1, n + 1):
            for drop in (False, True):
                for dl in range(0, n + 1):
                    if dl and not (drop and dl % b == 0):
                        continue
                    g = dict(N=n, md=n, B=b, drop=drop, dl=dl)
                    for st in range(0, max_start + 1):
                        buds = []
                        if st == 0:
                            buds += [("e", 0), ("u", 0), ("s", 0)]
                        buds += [("e", x) for x in range(st + 1, st + max_epochs + 1)]
                        buds += [("u", x) for x in range(st * UPE(g) + 1, (st + max_epochs) * UPE(g) + 1)]
                        buds += [("s", x) for x in range(st * SPE(g) + 1, (st + max_epochs) * SPE(g) + 1)]
                        for kind, bud in buds:
                            for ss in side_seqs:
                                yield dict(g, kind=kind, budget=bud, start=st, se=True, miter=[],
                                           sides=[dict(s) for s in ss])


def random_cfg(r, big=True):
    n = r.randint(1, 40 if big else 9)
    md = n + r.choice([0, 0, 1, 5])
    b = r.randint(1, min(n, 12))
    drop = r.random() < 0.5
    dl = 0
    if drop and r.random() < 0.4:
        mult = [m for m in range(b, n + 1, b)]
        dl = r.choice(mult)
    g = dict(N=n, md=md, B=b, drop=drop, dl=dl)
    st = r.choice([0, 0, 0, 1, 2, 3])
    max_ep = r.randint(1, 4)
    kind = r.choice("eus")
    if st == 0 and r.random() < 0.05:
        bud = 0
    elif kind == "e":
        bud = st + r.randint(1, max_ep)
    elif kind == "u":
        bud = st * UPE(g) + r.randint(1, max_ep * UPE(g))
    else:
        bud = st * SPE(g) + r.randint(1, max_ep * SPE(g))
    sides = []
    for _ in range(r.choice([0, 1, 1, 2, 2, 3, 5])):
        ln = r.randint(1, 7)
        dlen = ln + r.choice([0, 0, 2])
        it = list(range(dlen))
        r.shuffle(it)
        it = it[:ln]
        kinds = r.choice([(1, 0, 0), (0, 1, 0), (0, 0, 1), (1, 1, 0), (1, 0, 1), (0, 1, 1), (1, 1, 1)])
        ee = r.randint(1, 3) if kinds[0] else 0
        eu = r.randint(1, 2 * UPE(g) + 1) if kinds[1] else 0
        es = r.randint(1, 2 * SPE(g) + 1) if kinds[2] else 0
        sides.append(dict(len=ln, dlen=dlen, bs=r.choice([0, 0, 1, 2, 3, 10]), ee=ee, eu=eu, es=es, iter=it))
    se = r.random() < 0.85
    # main sampler flavours: lazy generator / order fixed inside iter() / no set_epoch but a new order per iteration
    # (the last one only without checkpoint: a resumed process cannot know how often it was iterated before)
    mk = r.choice(["lazy", "eager"]) if se else (r.choice(["lazy", "stateful"]) if st == 0 else "lazy")
    return dict(g, kind=kind, budget=bud, start=st, se=se, mk=mk, miter=[], sides=sides)


# ---------------------------------------------------------------- TLC side
def validate(traces, name, jobs=8):
    """Validate traces in parallel JVMs (one worker each, verdicts via TLC registers).
    Returns (accepted ids, {rejected id: (matched events, expected event)}, stats)."""
    os.makedirs(tlc.WORK, exist_ok=True)
    if not traces:
        return set(), {}, dict(states=0, transitions=0)
    # balance chunks by event count
    order = sorted(traces, key=lambda t: -len(t["ev"]))
    chunks = [order[i::jobs] for i in range(jobs)]
    chunks = [ch for ch in chunks if ch]
    from concurrent.futures import ThreadPoolExecutor

    def one(i_ch):
        i, ch = i_ch
        path = os.path.join(tlc.WORK, f"{name}-{os.getpid()}-{i}.json")
        with open(path, "w") as f:
            json.dump(dict(traces=ch), f)
        try:
            r = tlc.run_tlc("InterleavedTrace", "InterleavedTrace.cfg", name=f"{name}{i}", workers=1,
                            env=dict(TRACE_FILE=path), timeout=3000)
        finally:
            os.remove(path)
        acc = tlc.tagged(r.prints, "ACCEPTED")
        rej = tlc.tagged(r.prints, "REJECTED")
        assert len(acc) == 1 and len(rej) == 1, r.stdout[-2000:]
        return set(acc[0]), {x[0]: (x[1], x[2]) for x in rej[0]}, r

    acc, rej, states, trans = set(), {}, 0, 0
    with ThreadPoolExecutor(max_workers=jobs) as ex:
        for a, rj, r in ex.map(one, list(enumerate(chunks))):
            acc |= a
            rej.update(rj)
            states += r.distinct_states
            trans += r.states_generated
    ids = {t["id"] for t in traces}
    if acc | set(rej) != ids or acc & set(rej):
        raise tlc.TLCError(f"trace verdicts not total: {len(ids)} traces, {len(acc)} accepted, {len(rej)} rejected")
    return acc, rej, dict(states=states, transitions=trans)


def cfg_key(c, resume, mode):
    sides = ";".join(f"len{s['len']}/{s['dlen']},bs{s['bs']},ee{s['ee']},eu{s['eu']},es{s['es']}" for s in c["sides"])
    return (f"N={c['N']},B={c['B']},drop={int(c['drop'])},dl={c['dl']},{c['kind']}={c['budget']},start={c['start']},"
            f"resume={resume},mode={mode},sides=[{sides}]" + (f",main={c['mk']}" if c.get("mk", "lazy") != "lazy" else "") + (",epoch-reactive-sides" if c.get("react") else ""))


def nontrivial(c):
    """rule: has side configs and (zero budget or more than one epoch or N not divisible by B)"""
    if not c["sides"]:
        return False
    return c["budget"] == 0 or ubound(c) > UPE(c) or c["N"] % c["B"] != 0


def blame(trace, rej_info):
    """Which of C04 / C05 a rejected uninterrupted trace belongs to: C05 iff the first disagreement involves a side
    event (the specification expected one, or the code produced one), else C04."""
    matched, expected = rej_info
    ev = trace["ev"]
    got = ev[matched] if matched < len(ev) else None
    if expected.get("a") == "y" and expected.get("src", 0) > 0:
        return "C05"
    if got is not None and got.get("a") == "y" and got.get("src", 0) != 0:
        return "C05"
    return "C04"



# ---------------------------------------------------------------- unbounded argument (Apalache, extra - never the verdict)
def apalache_inductive(v):
    """IndInv of specs/InterleavedInd.tla is inductive for EVERY geometry (N, B, drop unit in Nat with GeomOK) and any
    number of epochs, and implies the C06 checkpoint equations and the C04 counter relations; a mutated AfterUpdate
    (sample_at_last_update restarting at 0) must break inductiveness."""
    import shutil
    import subprocess
    import tempfile
    out = tempfile.mkdtemp(prefix="apa", dir=tlc.WORK)
    obligations = [
        ("base: Init => IndInv", ["--init=IndInit", "--inv=IndInv", "--length=0"], True),
        ("step: IndInv /\\ Next => IndInv'", ["--init=IndStart", "--inv=IndInv", "--length=1"], True),
        ("IndInv => Checkpoint (C06)", ["--init=IndStart", "--inv=Checkpoint", "--length=0"], True),
        ("IndInv => Relations (C04)", ["--init=IndStart", "--inv=Relations", "--length=0"], True),
        ("negative control: step with sAtLast' = 0 must fail", ["--init=IndStart", "--inv=IndInv", "--length=1",
                                                                 "--next=NextMut"], False),
    ]
    from concurrent.futures import ThreadPoolExecutor

    def one(ob):
        name, args, expect_ok = ob
        sub = tempfile.mkdtemp(prefix="o", dir=out)
        try:
            p = subprocess.run(["apalache-mc", "check", "--cinit=ConstInit", *args, f"--out-dir={sub}",
                                "InterleavedIndMC.tla"], cwd=tlc.SPECS, stdout=subprocess.PIPE,
                               stderr=subprocess.STDOUT, text=True, timeout=600)
        except subprocess.TimeoutExpired:
            return dict(obligation=name, outcome="timeout")
        ok = "EXITCODE: OK" in p.stdout
        err = "The outcome is: Error" in p.stdout
        if not ok and not err:
            raise tlc.TLCError(f"apalache failed on '{name}':\n{p.stdout[-1500:]}")
        if ok != expect_ok:
            raise tlc.TLCError(f"apalache: obligation '{name}' gave {'NoError' if ok else 'Error'} - the inductive "
                               f"invariant of InterleavedInd.tla no longer does what the evidence claims")
        return dict(obligation=name, outcome="NoError" if ok else "Error")

    try:
        with ThreadPoolExecutor(max_workers=5) as ex:
            res = list(ex.map(one, obligations))
    finally:
        shutil.rmtree(out, ignore_errors=True)
    v.coverage["apalache_inductive"] = dict(module="InterleavedInd.tla", geometry="N, B, drop unit in Nat (GeomOK)",
                                            epochs="unbounded", results=res)
    v.notes.append("Apalache 0.58 (extra, not the verdict): IndInv inductive for every geometry and any number of epochs; "
                   "implies Checkpoint (C06) and Relations (C04); mutated AfterUpdate rejected")


def run(prop, tier, seed):
    core.use_repo()
    v = core.Verdict(prop, tier, seed)
    r = random.Random(seed * 31 + 5)
    quick = tier == "quick"

    # ---- (M) model checking the design: invariants owned by this property
    # this property's own clauses only (the full cfg files InterleavedProps_{quick,thorough}.cfg list all of them)
    base_cfg = open(os.path.join(tlc.SPECS, "InterleavedProps_quick.cfg" if quick else "InterleavedProps_thorough.cfg")).read()
    lines = [ln for ln in base_cfg.splitlines() if not ln.startswith(("INVARIANT", "PROPERTY"))]
    lines += [f"INVARIANT {nm}" for nm in OWN[prop] if nm != "Terminates"]
    if "Terminates" in OWN[prop]:
        lines.append("PROPERTY Terminates")
    mc_cfg = f"InterleavedProps_{prop}_{tier}.cfg"
    with open(os.path.join(tlc.SPECS, mc_cfg), "w") as f:
        f.write("\n".join(lines) + "\n")
    res = tlc.run_tlc("InterleavedProps", mc_cfg, name=f"{prop}mc", workers=16, timeout=7200, coverage=True)
    v.add_tlc(res, "InterleavedProps exhaustive")
    for nm in res.violated:
        if nm in OWN[prop] or nm in ("temporal", "Deadlock"):
            v.violation(f"model:{nm}", f"design model violates {nm}", dict(cex=str(res.cex)[:6000]))
    for act in ("PStart", "PAnnounce", "PEmitMain", "PCloseUpdate", "PEmitSide", "PAfterUpdate", "Configure"):
        if res.coverage.get(act, (0, 0))[1] == 0:
            raise tlc.TLCError(f"vacuity: action {act} never taken in {mc_cfg}")

    if prop in ("C04", "C06") and not quick:
        apalache_inductive(v)

    # ---- (T) traces from the real code
    traces, meta, twin_of = [], {}, {}
    tid = 0

    def add(c, resume, mode, workers=0, sseed=None):
        nonlocal tid
        tid += 1
        sseed = tid if sseed is None else sseed
        cf = full_cfg(c, seed=sseed)
        ev = record(cf, resume, mode, seed=sseed, workers=workers)
        traces.append(dict(id=tid, cfg=cf, resume=resume, mode=mode, ev=ev))
        meta[tid] = (c, resume, mode)
        return tid

    def add_with_twin(c, resume, mode):
        t = add(c, resume, mode)
        if c["start"] > 0:
            # the uninterrupted twin: same configuration and same main sampler, no checkpoint
            twin_of[t] = add(dict(c, start=0), "none", mode, sseed=t)

    if quick:
        g = list(grid(3, 2, 1, 1, 2, 1))
        r.shuffle(g)
        g = g[:2500]
        n_rand, n_dl = 500, 6
    else:
        g = list(grid(3, 2, 1, 2, 2, 1))
        r.shuffle(g)
        g = g[:12000]
        n_rand, n_dl = 4000, 40
    for c in g:
        add_with_twin(c, "none" if c["start"] == 0 else "epoch", "it")
    for i in range(n_rand):
        c = random_cfg(r, big=(i % 3 != 0))
        if c["budget"] == 0:
            c["start"] = 0
        resume = "none" if c["start"] == 0 else r.choice(["epoch", "epoch", "update", "sample"])
        add_with_twin(c, resume, r.choice(["it", "it", "bs"]))
    for i in range(n_dl):
        c = random_cfg(r, big=False)
        c["start"] = 0
        add(c, "none", "dl", workers=(0 if i % 2 == 0 else 2))
    react_ids = set()
    if prop == "C06":
        # interleaved samplers that react to set_epoch: only the comparison resumed stream vs uninterrupted stream counts
        n_react = 0
        while n_react < (60 if quick else 400):
            c = random_cfg(r, big=True)
            if c["budget"] == 0 or c["start"] == 0 or not any(s["len"] >= 2 for s in c["sides"]):
                continue
            c["react"] = True
            n_react += 1
            before = tid
            add_with_twin(c, "epoch", "it")
            react_ids |= set(range(before + 1, tid + 1))

    by_id = {t["id"]: t for t in traces}
    if prop == "C06":
        # resumed runs and their uninterrupted twins
        ids = set(twin_of) | set(twin_of.values())
        sel = [t for t in traces if t["id"] in ids]
    else:
        sel = traces
    acc, rej, st = validate(sel, prop + "tv", jobs=12)
    v.coverage["states"] += st["states"]
    v.coverage["transitions"] += st["transitions"]
    v.coverage["traces_validated_against_impl"] = len(sel)
    v.coverage["evaluations"] = len(sel)
    keys = set()
    for t in sel:
        c, resume, mode = meta[t["id"]]
        if nontrivial(c) and (prop != "C06" or resume != "none"):
            keys.add(cfg_key(c, resume, mode))
    v.coverage["distinct_nontrivial"] = len(keys)
    v.coverage["rule"] = ("cases = sample of the exhaustive TLC grid + random large configurations, each as "
                          "(configuration, resume kind, observation mode); non-trivial = has side configs and (zero "
                          "budget or more than one epoch or N not divisible by B)"
                          + ("; for C06 only resumed runs count" if prop == "C06" else "")
                          + "; distinct by full configuration key")
    for t in sel[:2] + [t for t in sel if t["resume"] != "none"][:1] + [t for t in sel if t["mode"] == "dl"][:1]:
        v.sample(dict(cfg={k: t["cfg"][k] for k in t["cfg"] if k != "miter"}, resume=t["resume"], mode=t["mode"],
                      ev=t["ev"][:12]))
    v.coverage["refused_by_constructor"] = sum(1 for t in sel if t["ev"] and t["ev"][0]["a"] == "refuse")
    v.coverage["rejected_traces"] = len(rej)
    for i in sorted(rej):
        t = by_id[i]
        c, resume, mode = meta[i]
        matched, expected = rej[i]
        got = t["ev"][matched] if matched < len(t["ev"]) else None
        if t["ev"] and t["ev"][0]["a"] == "err:DivergeSkipped":
            continue    # not run at all (see record): five observed non-terminating runs are reported already
        if i in react_ids and resume == "none":
            continue    # how a scheduler treats an epoch-reactive interleaved sampler is not specified; C06 compares streams
        if resume != "none":
            twin = by_id[twin_of[i]]
            if twin["id"] in acc or twin["id"] not in rej:
                own = "C06"  # the plain run is fine, only the resumed one deviates
            else:
                # both deviate from the specification: C06 is about the two real streams
                sfx = twin["ev"][len(twin["ev"]) - len(t["ev"]):] if len(t["ev"]) <= len(twin["ev"]) else None
                own = "C06" if sfx != t["ev"] else blame(t, rej[i])
        else:
            own = blame(t, rej[i])
        if own != prop:
            continue
        key = cfg_key(c, resume, mode)
        what = (f"real InterleavedSampler stream is not a behaviour of Interleaved.tla: {matched} of {len(t['ev'])} "
                f"events matched, specification expected {expected}, code produced {got}")
        v.violation(key, what, dict(cfg=t["cfg"], resume=resume, mode=mode, ev=t["ev"], matched=matched,
                                    expected=expected, got=got))
    v.assumptions += ["main/side samplers yield len(sampler) indices per iteration (stated domain)",
                      "checkpoints lie on epoch boundaries strictly before the budget (stated domain)",
                      "TLC 1.8 and CommunityModules Json are trusted"]
    v.coverage["exhaustive"] = False
    return v.finish()
