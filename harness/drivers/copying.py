"""C20: crash-safety and idempotence of copy_folder_from_global_to_local (and the image-folder twin).

(M) TLC checks the marker protocol of specs/Copy.tla (Proto = "v1", the protocol of the current tree) against the
    normative clauses for every interleaving of crashes; Proto = "v0" (the original protocol) is the negative control
    and must violate ReturnOK.
(R/T) The real function runs in forked children that are killed before their k-th mutating file-system operation
    (audit hook, os._exit); every kill point the real run exposes is enumerated, recursively for up to `depth`
    successive killed attempts, followed by a clean run and a second clean call. The observed abstract disk after
    every death / return is validated by TLC: CopyTrace.tla Obs (normative clauses on observed states, the verdict)
    and Desc (conformance of every recorded operation to the protocol).
"""
import json
import os
import shutil
import sys
import time
import zipfile
from concurrent.futures import ThreadPoolExecutor

from kdverif import core, tlc, fsaudit

START, END = "autocopy_start.txt", "autocopy_end.txt"
TMP_SUFFIX = ".autocopy_tmp"

CONTENT = {"a": b"A" * 37 + b"\n" + bytes(range(256)) * 3, "b": b"B" * 1501, "c": b"C" * 64, "d": b"", "e": b"E" * 7}

# layouts: abstract file -> relative path below dst; abstract dir -> relative path
LAYOUTS = {
    "L1": dict(files={"a": "a.txt", "b": "s/b.txt"}, dirs={"s": "s"}, dirof={"a": ".", "b": "s"}),
    "L2": dict(files={"a": "c/a.txt", "b": "s/b.txt"}, dirs={"c": "c", "s": "s"}, dirof={"a": "c", "b": "s"}),
    # five files, one zip each (folder of zips with several unzip workers)
    # a raw folder whose data files happen to be called *.ZIP (upper case): a plain folder for the library
    "LZ": dict(files={"a": "a.ZIP", "b": "b.ZIP", "c": "c.ZIP"}, dirs={}, dirof={"a": ".", "b": ".", "c": "."}),
    # hidden entries (dot-file, dot-folder): part of the source like everything else
    "LH": dict(files={"a": ".version", "b": ".meta/index.json", "c": "c.txt"}, dirs={"m": ".meta"},
               dirof={"a": ".", "b": "m", "c": "."}),
    # a plain folder in which a MINORITY of the entries are zips (annotations.zip next to the samples): copied verbatim
    "LM": dict(files={"a": "a.txt", "b": "b.txt", "c": "ann.zip", "e": "e.txt"}, dirs={},
               dirof={"a": ".", "b": ".", "c": ".", "e": "."}),
    # five flat files (kappadata.copying.create_zips_folder only accepts files)
    "L5f": dict(files={"a": "a.txt", "b": "b.txt", "c": "c.txt", "d": "d.txt", "e": "e.txt"}, dirs={},
                dirof={"a": ".", "b": ".", "c": ".", "d": ".", "e": "."}),
    "L5": dict(files={"a": "a.txt", "b": "s/b.txt", "c": "c.txt", "d": "d.txt", "e": "e.txt"}, dirs={"s": "s"},
               dirof={"a": ".", "b": "s", "c": ".", "d": ".", "e": "."}),
}


def scenarios(tier):
    res = []
    for func in ("folder", "imagefolder"):
        for fmt in ("raw", "zip", "zips"):
            layout = "L2" if (func == "imagefolder" and fmt == "zips") else "L1"
            for rel in (None, "data/train"):
                for init in ("absent", "user", "userempty"):
                    for order in ("startfirst", "startlast"):
                        nw = 1 if (fmt == "zips" and rel) else 0
                        res.append(dict(func=func, fmt=fmt, rel=rel, init=init, order=order, layout=layout, nw=nw))
    # folder of five zips with 0..4 unzip workers (worker processes are not killed: clean runs only for nw >= 2)
    for nw in ((0, 2, 3) if tier == "quick" else (0, 1, 2, 3, 4)):
        res.append(dict(func="folder", fmt="zips", rel=None, init="absent", order="startfirst", layout="L5", nw=nw,
                        depth=(1 if nw <= 1 else 0)))
    # raw folder with upper-case .ZIP file names (classified and copied as a plain folder)
    res.append(dict(func="folder", fmt="raw", rel=None, init="absent", order="startfirst", layout="LZ", nw=0, depth=1))
    # hidden entries; a minority of zip entries in a plain folder
    res.append(dict(func="folder", fmt="raw", rel=None, init="absent", order="startfirst", layout="LH", nw=0, depth=1))
    res.append(dict(func="folder", fmt="zip", rel=None, init="absent", order="startfirst", layout="LH", nw=0, depth=1))
    res.append(dict(func="folder", fmt="raw", rel=None, init="absent", order="startfirst", layout="LM", nw=0, depth=1))
    # round trip through the library's own zip creation
    for func, layout in (("folder", "L5f"), ("imagefolder", "L2")):
        for nw in ((0,) if tier == "quick" else (0, 2)):
            res.append(dict(func=func, fmt="zips", rel=None, init="absent", order="startfirst", layout=layout, nw=nw,
                            depth=(1 if nw <= 1 else 0), via="create_zips"))
    if tier == "quick":
        keep = []
        for s in res:
            if s["layout"] in ("L5", "L5f", "LZ", "LH", "LM") or s.get("via"):
                keep.append(s)
                continue
            if s["init"] != "absent":
                # user folders: one order is enough (nothing is ever deleted there)
                if s["order"] == "startlast" or s["rel"]:
                    continue
            if s["func"] == "imagefolder" and s["order"] == "startlast":
                continue
            if s["func"] == "imagefolder":
                s = dict(s, depth=1)  # quick: the twin gets single deaths, the folder function double deaths
            keep.append(s)
        res = keep
    return res


# ---------------------------------------------------------------- building sources
def build_source(root, scn):
    """create <root>/global[/rel] as the source in the scenario's format; returns (global_path, local_path)"""
    lay = LAYOUTS[scn["layout"]]
    g = os.path.join(root, "global")
    src = os.path.join(g, scn["rel"]) if scn["rel"] else g
    if scn["fmt"] == "raw":
        for f, rp in lay["files"].items():
            p = os.path.join(src, rp)
            os.makedirs(os.path.dirname(p), exist_ok=True)
            with open(p, "wb") as fh:
                fh.write(CONTENT[f])
    elif scn["fmt"] == "zip":
        os.makedirs(os.path.dirname(src), exist_ok=True)
        with zipfile.ZipFile(src + ".zip", "w") as z:
            for f, rp in lay["files"].items():
                z.writestr(rp, CONTENT[f])
    elif scn.get("via") == "create_zips":
        # the source is produced by the library's own zip creation from a raw folder: create o copy = identity
        from pathlib import Path
        sys.path.insert(0, core.REPO)
        from kappadata.copying.create_zips import create_zips_folder, create_zips_imagefolder
        raw = os.path.join(root, "raw_for_zips")
        for f, rp in lay["files"].items():
            p = os.path.join(raw, rp)
            os.makedirs(os.path.dirname(p), exist_ok=True)
            with open(p, "wb") as fh:
                fh.write(CONTENT[f])
        if scn["func"] == "imagefolder":
            create_zips_imagefolder(Path(raw), Path(src))
        else:
            create_zips_folder(Path(raw), Path(src), batch_size=2)
    else:
        os.makedirs(src, exist_ok=True)
        if scn["func"] == "imagefolder":
            # class-wise zips: <class>.zip is extracted into dst/<class>/
            for f, rp in lay["files"].items():
                cls, name = rp.split("/")
                with zipfile.ZipFile(os.path.join(src, cls + ".zip"), "w") as z:
                    z.writestr(name, CONTENT[f])
        else:
            for i, (f, rp) in enumerate(sorted(lay["files"].items())):
                with zipfile.ZipFile(os.path.join(src, f"part{i}.zip"), "w") as z:
                    z.writestr(rp, CONTENT[f])
    return g, os.path.join(root, "localroot", "local")


def init_local(local, scn):
    dst = os.path.join(local, scn["rel"]) if scn["rel"] else local
    if scn["init"] == "user":
        lay = LAYOUTS[scn["layout"]]
        os.makedirs(dst)
        with open(os.path.join(dst, "my_notes.txt"), "w") as f:
            f.write("user data")
        # a user copy that is not identical to the source (the user's business)
        p = os.path.join(dst, lay["files"]["a"])
        os.makedirs(os.path.dirname(p), exist_ok=True)
        with open(p, "wb") as f:
            f.write(b"user version")
    elif scn["init"] == "userempty":
        os.makedirs(dst)
    return dst


# ---------------------------------------------------------------- projection disk -> abstract state
def project(dst, scn):
    lay = LAYOUTS[scn["layout"]]
    d = dict(dst="absent", start=False, end=False, file={f: "none" for f in lay["files"]},
             sub={x: False for x in lay["dirs"]}, junk=False, tmp="absent")
    tmp = dst + TMP_SUFFIX
    if os.path.lexists(tmp):
        ents = os.listdir(tmp) if os.path.isdir(tmp) else ["?"]
        d["tmp"] = "empty" if not ents else ("marked" if ents == [START] else "bad")
    if not os.path.isdir(dst):
        if os.path.lexists(dst):
            d["dst"] = "bad"
        return d
    d["dst"] = "present"
    known = {START, END}
    d["start"] = os.path.isfile(os.path.join(dst, START))
    d["end"] = os.path.isfile(os.path.join(dst, END))
    for f, rp in lay["files"].items():
        p = os.path.join(dst, rp)
        known.add(rp)
        if os.path.isfile(p):
            with open(p, "rb") as fh:
                d["file"][f] = "full" if fh.read() == CONTENT[f] else "partial"
    for x, rp in lay["dirs"].items():
        known.add(rp)
        d["sub"][x] = os.path.isdir(os.path.join(dst, rp))
    for base, dirs, files in os.walk(dst):
        for n in dirs + files:
            rp = os.path.relpath(os.path.join(base, n), dst)
            if rp not in known:
                d["junk"] = True
    return d


def classify(kind, p1, p2, dst, scn):
    """audit event -> abstract operation {op, t, n}"""
    lay = LAYOUTS[scn["layout"]]
    op = {"mkdir": "mkdir", "wopen": "wopen", "remove": "remove", "rmdir": "rmdir", "rename": "rename",
          "replace": "rename", "mkdir_noparent": "touch", "utime": "touch", "chmod": "touch", "chown": "touch", "chunk": "chunk",
          "truncate": "wopen"}.get(kind, kind)
    tmp = dst + TMP_SUFFIX
    ap = os.path.abspath(p1) if os.path.isabs(p1) or os.sep in p1 else None
    base = os.path.basename(p1.rstrip("/"))
    t, n = "junk", ""
    file_by_base = {os.path.basename(rp): f for f, rp in lay["files"].items()}
    dir_by_base = {os.path.basename(rp): x for x, rp in lay["dirs"].items()}
    if op == "rename":
        t = "tmp" if (ap == tmp) else "junk"
    elif ap is not None and ap == dst:
        t = "dst"
    elif ap is not None and ap == tmp:
        t = "tmp"
    elif ap is not None and dst.startswith(ap + os.sep):
        t = "parent"
    elif base == START:
        t = "tmpstart" if (ap is not None and ap.startswith(tmp + os.sep)) else "start"
    elif base == END:
        t = "end"
    elif base in file_by_base and op in ("wopen", "remove", "touch", "chunk"):
        t, n = "file", file_by_base[base]
    elif base in dir_by_base and op in ("mkdir", "rmdir", "touch"):
        t, n = "sub", dir_by_base[base]
    elif base == os.path.basename(dst) and op in ("rmdir", "mkdir"):
        t = "dst"
    return dict(a="op", op=op, t=t, n=n)


# ---------------------------------------------------------------- running attempts
def make_call(scn, g, local):
    def call():
        sys.path.insert(0, core.REPO)
        if scn["func"] == "folder":
            from kappadata.copying.folder import copy_folder_from_global_to_local as fn
        else:
            from kappadata.copying.image_folder import copy_imagefolder_from_global_to_local as fn
        r = fn(g, local, relative_path=scn["rel"], num_workers=scn["nw"])
        if scn["func"] == "folder":
            return dict(copied=bool(r.was_copied), deleted=bool(r.was_deleted), fmt=r.source_format or "none")
        fmt = "zip" if r.was_zip else ("zips" if r.was_zip_classwise else ("raw" if r.was_copied else "none"))
        return dict(copied=bool(r.was_copied), deleted=bool(r.was_deleted), fmt=fmt)

    return call


def order_key(order):
    if order == "startfirst":
        return lambda name: (0 if name == START else 1, name)
    return lambda name: (1 if name == START else 0, name)


class Explorer:
    def __init__(self, scn, root, depth):
        self.scn, self.root, self.depth = scn, root, depth
        self.g, self.local = build_source(root, scn)
        self.localroot = os.path.dirname(self.local)
        os.makedirs(self.localroot)
        self.dst = init_local(self.local, scn)
        self.snapdir = os.path.join(root, "snaps")
        os.makedirs(self.snapdir)
        self.nsnap = 0
        self.traces = []
        self.seen = {}
        self.attempts = 0
        self.call = make_call(scn, self.g, self.local)
        self.key = order_key(scn["order"])

    def snapshot(self):
        # everything the function can touch lives below localroot (dst, its parents, the temporary sibling folder)
        self.nsnap += 1
        p = os.path.join(self.snapdir, str(self.nsnap))
        shutil.copytree(self.localroot, p, symlinks=True)
        return p

    def restore(self, p):
        shutil.rmtree(self.localroot)
        shutil.copytree(p, self.localroot, symlinks=True)

    def attempt(self, kill_at):
        self.attempts += 1
        events, outcome = fsaudit.run_attempt(self.call, kill_at=kill_at, sorted_scandir=self.key)
        ev = [dict(a="invoke")]
        ev += [classify(k, p1, p2, self.dst, self.scn) for (k, p1, p2) in events]
        disk = project(self.dst, self.scn)
        if outcome[0] == "crash":
            ev.pop()  # the operation the process died before did not execute
            ev.append(dict(a="crash", disk=disk))
        elif outcome[0] == "ret":
            ev.append(dict(a="ret", res=outcome[1], disk=disk))
        else:
            ev.append(dict(a="fail", what=list(outcome), disk=disk))
        return ev, outcome, len(events)

    def explore(self, prefix, snap, depth):
        """from the disk state in `snap`: a clean run (+ a second clean call), and every kill point"""
        self.restore(snap)
        ev, outcome, nops = self.attempt(None)
        ev2, outcome2, _ = self.attempt(None)  # calling again after a normal return
        self.traces.append(prefix + ev + ev2)
        if depth == 0:
            return
        for k in range(1, nops + 1):
            self.restore(snap)
            evk, outk, _ = self.attempt(k)
            if outk[0] != "crash":
                self.traces.append(prefix + evk)
                continue
            state_key = json.dumps(evk[-1]["disk"], sort_keys=True)
            if self.seen.get(state_key, -1) >= depth - 1:
                # the same abstract disk state was already explored at least as deeply; still record this death
                self.traces.append(prefix + evk + self.clean_suffix())
                continue
            self.seen[state_key] = depth - 1
            s2 = self.snapshot()
            self.explore(prefix + evk, s2, depth - 1)

    def clean_suffix(self):
        ev, _, _ = self.attempt(None)
        ev2, _, _ = self.attempt(None)
        return ev + ev2

    def run(self):
        s0 = self.snapshot()
        self.explore([], s0, self.depth)
        init = self.initial_disk
        return self.traces

    @property
    def initial_disk(self):
        self.restore(os.path.join(self.snapdir, "1"))
        return project(self.dst, self.scn)


def explore_scenario(args):
    i, scn, depth = args
    core.use_repo()
    root = f"/dev/shm/kdverif-copy-{os.getpid()}-{i}"
    shutil.rmtree(root, ignore_errors=True)
    os.makedirs(root)
    try:
        ex = Explorer(scn, root, scn.get("depth", depth))
        init = None
        traces = ex.run()
        init = ex.initial_disk
        cfg = dict(scn, rel=scn["rel"] or "", init=init, init_kind=scn["init"], user=(scn["init"] != "absent"))
        return [dict(cfg=cfg, ev=t) for t in traces], ex.attempts
    finally:
        shutil.rmtree(root, ignore_errors=True)


# ---------------------------------------------------------------- TLC
def write_mc(layout, proto, mode):
    """generate the MC module + cfg for a layout (constants differ per layout)"""
    lay = LAYOUTS[layout]
    mod = f"CopyTraceMC_{layout}"
    files = ", ".join(f'"{f}"' for f in sorted(lay["files"]))
    dirs = ", ".join(f'"{d}"' for d in sorted(lay["dirs"]))
    dirof = " @@ ".join(f'"{f}" :> "{d}"' for f, d in sorted(lay["dirof"].items()))
    path = os.path.join(tlc.SPECS, mod + ".tla")
    with open(path, "w") as f:
        f.write(f"---- MODULE {mod} ----\nEXTENDS CopyTrace\nMCFiles == {{{files}}}\nMCDirs == {{{dirs}}}\n"
                f"MCDirOf == {dirof}\n====\n")
    cfgp = os.path.join(tlc.SPECS, f"{mod}_{mode}.cfg")
    with open(cfgp, "w") as f:
        f.write("CONSTANTS\n  Files <- MCFiles\n  Dirs <- MCDirs\n  DirOf <- MCDirOf\n"
                f'  Proto = "{proto}"\n  MaxCrashes = 1000\n')
        if mode == "obs":
            f.write("SPECIFICATION ObsSpec\nCONSTRAINT ObsConstraint\nPOSTCONDITION Report\n")
        else:
            f.write("SPECIFICATION DescSpec\nCONSTRAINT DescCollect\nPOSTCONDITION DescReport\n")
        f.write("CHECK_DEADLOCK FALSE\n")
    return mod, os.path.basename(cfgp)


def validate(traces, layout, mode, proto="v1", jobs=6):
    mod, cfg = write_mc(layout, proto, mode)
    chunks = [traces[i::jobs] for i in range(jobs)]
    chunks = [c for c in chunks if c]

    def one(i_ch):
        i, ch = i_ch
        path = os.path.join(tlc.WORK, f"copy-{mode}-{layout}-{os.getpid()}-{i}.json")
        with open(path, "w") as f:
            json.dump(dict(traces=ch), f)
        try:
            r = tlc.run_tlc(mod, cfg, name=f"copy{mode}{layout}{i}", workers=1, env=dict(TRACE_FILE=path), timeout=3000)
        finally:
            os.remove(path)
        acc = tlc.tagged(r.prints, "ACCEPTED")
        assert len(acc) == 1, r.stdout[-3000:]
        if mode == "obs":
            rej = tlc.tagged(r.prints, "REJECTED")
            assert len(rej) == 1, r.stdout[-3000:]
            info = {x[0]: (x[1], sorted(x[2])) for x in rej[0]}
        else:
            pr = tlc.tagged(r.prints, "PROGRESS")
            assert len(pr) == 1, r.stdout[-3000:]
            info = {x[0]: x[1] for x in pr[0]}
        return set(acc[0]), info, r

    os.makedirs(tlc.WORK, exist_ok=True)
    acc, info, st, tr = set(), {}, 0, 0
    with ThreadPoolExecutor(max_workers=jobs) as ex:
        for a, inf, r in ex.map(one, list(enumerate(chunks))):
            acc |= a
            info.update(inf)
            st += r.distinct_states
            tr += r.states_generated
    return acc, info, dict(states=st, transitions=tr)


def scn_key(cfg):
    via = ":via=" + cfg["via"] if cfg.get("via") else ""
    return (f"{cfg['func']}:{cfg['fmt']}{via}:rel={cfg['rel'] or '-'}:init={cfg['init_kind']}:order={cfg['order']}")


def crash_key(t):
    """canonical identity of a failing schedule: scenario + for each killed attempt the operation it died before"""
    parts = []
    last = None
    n = 0
    for e in t["ev"]:
        if e["a"] == "invoke":
            n = 0
            last = "start-of-call"
        elif e["a"] == "op":
            n += 1
            last = f"{e['op']}({e['t']}{':' + e['n'] if e['n'] else ''})"
        elif e["a"] == "crash":
            parts.append(f"after={last}#{n}")
    return scn_key(t["cfg"]) + ":" + ("/".join(parts) if parts else "nocrash")


def run(prop, tier, seed):
    core.use_repo()
    v = core.Verdict(prop, tier, seed)
    quick = tier == "quick"

    # ---- (M) the protocol model
    for proto, expect_ok in (("v1", True), ("v0", False)):
        cfgname = f"CopyMC_{proto}.cfg" if quick else f"CopyMC3_{proto}.cfg"
        r = tlc.run_tlc("CopyMC", cfgname, name="copymc" + proto, workers=8, coverage=(proto == "v1"), timeout=3000)
        v.add_tlc(r, f"Copy.tla Proto={proto}" + ("" if expect_ok else " (negative control: must violate ReturnOK)"))
        if expect_ok:
            for nm in r.violated:
                v.violation(f"model:{nm}", f"protocol model v1 violates {nm}", dict(cex=str(r.cex)[:6000]))
            for act in ("Check", "WipeDone", "MkTmp", "WriteTmpStart", "Rename", "CreateFile", "FillFile", "WriteEnd",
                        "Crash", "RmFile", "RmSub", "Invoke", "RmTmpStart", "RmTmpDir", "MkSub"):
                if r.coverage.get(act, (0, 0))[1] == 0:
                    raise tlc.TLCError(f"vacuity: action {act} of Copy.tla never taken")
        elif "ReturnOK" not in r.violated:
            raise tlc.TLCError("negative control failed: the original protocol (v0) should violate ReturnOK")

    # ---- (R/T) crash schedules on the real code
    depth = 2 if quick else 3
    scns = scenarios(tier)
    from concurrent.futures import ProcessPoolExecutor
    import multiprocessing as mp
    all_traces, attempts = [], 0
    with ProcessPoolExecutor(max_workers=14, mp_context=mp.get_context("fork")) as ex:
        for trs, na in ex.map(explore_scenario, [(i, s, depth) for i, s in enumerate(scns)]):
            all_traces += trs
            attempts += na
    for i, t in enumerate(all_traces, start=1):
        t["id"] = i
    by_layout = {}
    for t in all_traces:
        by_layout.setdefault(t["cfg"]["layout"], []).append(t)
    v.coverage["evaluations"] = attempts
    v.coverage["traces_validated_against_impl"] = len(all_traces)
    v.coverage["scenarios"] = len(scns)
    v.coverage["max_successive_crashes"] = depth
    keys = set()
    n_fail = 0
    deviations = {}
    for layout, trs in sorted(by_layout.items()):
        acc, info, st = validate(trs, layout, "obs")
        v.coverage["states"] += st["states"]
        v.coverage["transitions"] += st["transitions"]
        ids = {t["id"] for t in trs}
        if acc | set(info) != ids:
            raise tlc.TLCError(f"obs verdicts not total for layout {layout}: {len(ids)} traces, {len(acc)} accepted, "
                               f"{len(info)} rejected")
        for t in trs:
            if any(e["a"] == "fail" for e in t["ev"]):
                e = [e for e in t["ev"] if e["a"] == "fail"][0]
                v.violation(crash_key(t) + ":exception", f"the call did not return normally nor die at the kill point: "
                            f"{e['what']}", t)
                continue
            if sum(1 for e in t["ev"] if e["a"] == "crash") >= 1:
                keys.add(crash_key(t))
            if t["id"] in info:
                at, clauses = info[t["id"]]
                what = (f"clauses {clauses} fail on the observed state after event {at} "
                        f"({t['ev'][at - 1] if at >= 1 else None}) of the real run")
                v.violation(crash_key(t), what, t)
        # operations performed inside joblib worker processes are not visible to the audit hook: no conformance claim
        trs = [t for t in trs if t["cfg"]["nw"] <= 1]
        acc2, prog, st2 = validate(trs, layout, "desc", proto=os.environ.get("KDVERIF_COPY_PROTO", "v1"))
        v.coverage["states"] += st2["states"]
        v.coverage["transitions"] += st2["transitions"]
        for t in trs:
            if t["id"] not in acc2 and not any(e["a"] == "fail" for e in t["ev"]):
                at = prog.get(t["id"], 0)
                nxt = t["ev"][at] if at < len(t["ev"]) else None
                deviations.setdefault(scn_key(t["cfg"]), []).append(dict(matched=at, next_event=nxt, key=crash_key(t)))
    v.coverage["distinct_nontrivial"] = len(keys)
    v.coverage["rule"] = ("one case = one schedule (scenario x sequence of kill points, each 'the process dies right "
                          "before its k-th mutating file-system operation') followed by a clean call and a second call; "
                          "kill points are enumerated from the real run's audit events (every one of them), recursively "
                          "up to max_successive_crashes, deduplicated by the abstract disk state they leave; "
                          "non-trivial = at least one killed attempt; distinct by scenario and kill-point sequence")
    v.coverage["exhaustive"] = True
    v.coverage["protocol_deviations"] = {k: x[:3] for k, x in sorted(deviations.items())[:10]}
    v.coverage["protocol_conforming_traces"] = len(all_traces) - sum(len(x) for x in deviations.values())
    if deviations:
        v.notes.append("some real traces are not behaviours of the descriptive protocol Proto=v1 (see "
                       "coverage.protocol_deviations); the verdict rests on the normative observation check only")
        print(f"NOTE property={prop}: {sum(len(x) for x in deviations.values())} traces deviate from the modelled "
              f"protocol (no normative clause failed on them)")
    for t in all_traces[:1] + [t for t in all_traces if sum(1 for e in t["ev"] if e["a"] == "crash") == depth][:2]:
        v.sample(dict(cfg=t["cfg"], ev=t["ev"]))
    v.assumptions += ["process death is os._exit before a mutating operation reported by the audit hook (open for "
                      "writing, mkdir, remove, rmdir, rename, utime, chmod, ...) or between the two halves of a file "
                      "payload copy; power loss / fsync ordering is not modelled",
                      "num_workers <= 1 (joblib worker processes of a killed parent are outside the model)",
                      "one invocation at a time"]
    return v.finish()
