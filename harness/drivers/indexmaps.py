"""C02: stacked subsets, concats and wrappers address the right underlying sample.

(M) TLC checks IndexMaps.tla: the code's index arithmetic (Resolve: list indexing with negative indices, cumulative
    sizes + bisect_right, balanced round-robin) denotes the composed map Den for every pool of <= MaxPool layers.
(T) Random real stacks (KDSubset, SubsetWrapper, RepeatWrapper, ShuffleWrapper, KDConcatDataset incl. balanced,
    KDWrapper subclasses, depth up to 8) are built and every layer is observed through the public API: len,
    getitem_x for all k in -len..len-1, getall_x, getall_as_* helpers on list / ndarray / tensor roots, ModeWrapper on
    top, root_dataset, all_wrappers / lookup, attribute and getshape delegation, dispose. TLC evaluates the clauses
    against the normative denotation (IndexMapsTrace.tla).
"""
import json
import random

from kdverif import core, tlc, tracecheck


def make_classes():
    import numpy as np
    import torch
    from kappadata.datasets.kd_dataset import KDDataset
    from kappadata.datasets.kd_wrapper import KDWrapper

    class RootDS(KDDataset):
        def __init__(self, r, n, flavor):
            super().__init__()
            self.r, self.n, self.flavor = r, n, flavor
            self.mut = r * 10   # a plain attribute that changes during the dataset's life
            self.data = [r * 1000 + i for i in range(n)]
            self.ids = tuple(self.data)   # per-sample access never depends on what happened to the bulk list
            self.disposed = 0

        def __len__(self):
            return self.n

        def getitem_x(self, idx, ctx=None):
            return self.ids[idx]  # list-backed: Python negative indices work

        def getall_x(self):
            if self.flavor == "list":
                return list(self.data)
            if self.flavor == "listref":
                return self.data   # hands out its internal list (layers above must not modify it)
            if self.flavor == "numpy":
                return np.array(self.data)
            return torch.tensor(self.data)

        def getshape_x(self):
            return (self.r,)

        @property
        def root_attr(self):
            return self.r

        # attributes whose VALUE is falsy / None (an unset transform, an empty name ...): delegation is about the
        # attribute, not about its truth value
        root_none = None
        root_zero = 0
        root_empty = ""
        root_false = False

        def dispose(self):
            self.disposed += 1

    class RootNoBulk(RootDS):
        """a root WITHOUT a bulk accessor: the library's getall utilities fall back to the per-sample accessor"""

        def __getattribute__(self, item):
            if item == "getall_x":
                raise AttributeError(item)
            return super().__getattribute__(item)

    RootDS.NoBulk = RootNoBulk

    class WrapA(KDWrapper):
        pass

    class WrapB(KDWrapper):
        def getitem_x(self, idx, ctx=None):
            return self.dataset.getitem_x(idx, ctx)

    return RootDS, WrapA, WrapB


def dec(v):
    v = int(v)
    return [v // 1000, v % 1000]


def build(r, K, max_layers, max_n):
    """random pool; returns (terms, objects)"""
    from kappadata.datasets.kd_subset import KDSubset
    from kappadata.datasets.kd_concat_dataset import KDConcatDataset
    from kappadata.wrappers.dataset_wrappers.subset_wrapper import SubsetWrapper
    from kappadata.wrappers.dataset_wrappers.repeat_wrapper import RepeatWrapper
    from kappadata.wrappers.dataset_wrappers.shuffle_wrapper import ShuffleWrapper
    RootDS, WrapA, WrapB = K
    terms, objs, lens, flavors = [], [], [], []
    nroots = 0

    def T(k, **kw):
        t = dict(k=k, r=0, n=0, d=0, idxs=[], ds=[], bal=False)
        t.update(kw)
        return t

    flavor = r.choice(["list", "listref", "numpy", "tensor", "none"])
    n_layers = r.randint(1, max_layers)
    for li in range(n_layers):
        kinds = ["root"] if not objs else ["root", "subset", "subset", "subsetw", "repeat", "shuffle", "concat", "concat",
                                            "wrapa", "wrapb"]
        kind = r.choice(kinds)
        top = len(objs)  # mostly build on the most recent layer: deep chains
        pick = (lambda: top if r.random() < 0.7 else r.randint(1, top))
        if kind == "root":
            nroots += 1
            n = r.randint(1, max_n)
            objs.append((RootDS.NoBulk if flavor == "none" else RootDS)(nroots, n, flavor))
            terms.append(T("root", r=nroots, n=n))
            lens.append(n)
        elif kind in ("subset", "subsetw"):
            d = pick()
            m = lens[d - 1]
            if m == 0:
                continue
            idxs = [r.randrange(-m, m) for _ in range(r.randint(0, min(2 * m, max_n)))]
            cls = KDSubset if kind == "subset" else SubsetWrapper
            objs.append(cls(objs[d - 1], indices=list(idxs)))
            terms.append(T("subset", d=d, idxs=idxs))
            lens.append(len(idxs))
        elif kind == "repeat":
            d = pick()
            m = lens[d - 1]
            if m == 0 or m * 3 > 4 * max_n:
                continue
            reps = r.randint(1, 3)
            objs.append(RepeatWrapper(objs[d - 1], repetitions=reps))
            terms.append(T("subset", d=d, idxs=list(range(m)) * reps))
            lens.append(m * reps)
        elif kind == "shuffle":
            d = pick()
            m = lens[d - 1]
            w = ShuffleWrapper(objs[d - 1], seed=r.randint(0, 99))
            objs.append(w)
            terms.append(T("subset", d=d, idxs=[int(i) for i in w.indices]))
            lens.append(m)
        elif kind == "concat":
            ds = [pick() for _ in range(r.randint(1, 3))]
            if sum(lens[d - 1] for d in ds) > 6 * max_n:
                continue
            objs.append(KDConcatDataset([objs[d - 1] for d in ds]))
            terms.append(T("concat", ds=ds))
            lens.append(sum(lens[d - 1] for d in ds))
        else:
            d = pick()
            objs.append((WrapA if kind == "wrapa" else WrapB)(objs[d - 1]))
            terms.append(T("wrap", d=d))
            lens.append(lens[d - 1])
    # optionally a balanced concat on top (nothing is layered above it)
    if r.random() < 0.25:
        ds = [r.randint(1, len(objs)) for _ in range(r.randint(1, 3))]
        if all(lens[d - 1] >= 1 for d in ds):
            objs.append(KDConcatDataset([objs[d - 1] for d in ds], balanced_sampling=True))
            terms.append(T("concat", ds=ds, bal=True))
            lens.append(-1)
    return terms, objs, lens, flavor


def roots_of(objs, terms):
    return [o for o, t in zip(objs, terms) if t["k"] == "root"]


def observe(p, terms, objs, lens):
    import numpy as np
    import torch
    from kappadata.wrappers import ModeWrapper
    from kappadata.utils.getall_as_tensor import getall, getall_as_list, getall_as_numpy, getall_as_tensor
    o, t = objs[p - 1], terms[p - 1]
    roots = roots_of(objs, terms)
    for rt in roots:
        rt.disposed = 0
    if t["bal"]:
        m = len(t["ds"])
        kmax = 2 * m * max(lens[d - 1] for d in t["ds"]) + 3
        items = [dec(o.getitem_x(k)) for k in range(kmax)]
        try:
            len(o)
            refused = False
        except AssertionError:
            refused = True
        o.dispose()
        return dict(a="bal", p=p, items=items, lenrefused=refused, disposed=[rt.r for rt in roots if rt.disposed > 0])
    n = len(o)
    items = [dec(o.getitem_x(k)) for k in range(n)]
    negs = [dec(o.getitem_x(k)) for k in range(-n, 0)]
    garef = False
    try:
        ga = getall(o, "x")
    except AttributeError:
        # a concat layer over roots without bulk accessor has nothing to concatenate: an explicit refusal
        if not any(rt.flavor == "none" for rt in roots):
            raise
        garef, ga = True, []
    except AssertionError as e:
        # KDConcatDataset only concatenates list-valued bulk results (explicit assert); allowed for non-list roots
        import traceback
        last = traceback.extract_tb(e.__traceback__)[-1]
        if not last.filename.endswith("kd_concat_dataset.py"):  # raised by the concat layer itself (any helper)
            raise
        garef = True
    if not garef and len(ga) != n:
        # wrong already; do not go on calling the bulk accessor (a layer that grows a shared list would explode)
        raise RuntimeError(f"getall_x returned {len(ga)} values for a dataset of length {n}")
    if garef:
        gal, helpers = [], True
    else:
        gal = [dec(v) for v in (ga.tolist() if hasattr(ga, "tolist") else ga)]
        ref = [int(v) for v in (ga.tolist() if hasattr(ga, "tolist") else ga)]
        hl = getall_as_list(o, "x")
        hn = getall_as_numpy(o, "x")
        ht = getall_as_tensor(o, "x")
        helpers = (isinstance(hl, list) and [int(v) for v in hl] == ref and isinstance(hn, np.ndarray)
                   and [int(v) for v in hn.tolist()] == ref and torch.is_tensor(ht)
                   and [int(v) for v in ht.tolist()] == ref)
    mw = ModeWrapper(o, mode="x index")
    mwl = []
    for k in range(n):
        x, i = mw[k]
        mwl.append(dec(x) + [int(i)])
    root = o.root_dataset
    wr = o.all_wrappers
    ids = {id(x): i + 1 for i, x in enumerate(objs)}
    wrappers = [ids.get(id(w), -1) for w in wr]
    # identity, not attribute access (layers delegate unknown attributes downwards)
    rp = ids.get(id(root), 0)
    root_r = terms[rp - 1]["r"] if rp and terms[rp - 1]["k"] == "root" else -1
    lookup = True
    for w in wr:
        lookup = lookup and o.has_wrapper(w) and o.has_wrapper_type(type(w)) and w in o.get_wrappers_of_type(type(w))
    lookup = lookup and [type(w) for w in wr] == o.all_wrapper_types and not o.has_wrapper(object())
    attr = o.root_attr if t["k"] != "root" else o.r
    try:
        m1 = o.mut
        for rt in roots:
            rt.mut = rt.r * 10 + 1
        m2 = o.mut            # delegation is resolved at every access: the new value, not a remembered one
        for rt in roots:
            rt.mut = rt.r * 10
        fresh = (m1 == o.root_attr * 10 and m2 == o.root_attr * 10 + 1) if t["k"] != "root" else True
        attrf = (fresh and o.root_none is None and o.root_zero == 0 and type(o.root_zero) is int and o.root_empty == ""
                 and o.root_false is False)
    except AttributeError:
        attrf = False
    shape = o.getshape_x()[0]
    shape = shape if o.getdim_x() == shape else -1
    with o:
        pass  # __exit__ -> dispose
    return dict(a="obs", p=p, len=n, items=items, negs=negs, getall=gal, garef=garef, helpers=bool(helpers), mw=mwl,
                root=root_r, wrappers=wrappers, lookup=bool(lookup), attr=int(attr), attrf=bool(attrf),
                shape=int(shape), disposed=[rt.r for rt in roots if rt.disposed > 0])


def one_trace(tid, r, K, max_layers, max_n):
    terms, objs, lens, flavor = build(r, K, max_layers, max_n)
    ev = []
    for p in range(1, len(objs) + 1):
        try:
            ev.append(observe(p, terms, objs, lens))
        except Exception as e:
            import traceback
            ev.append(dict(a="err", p=p, type=type(e).__name__, tb=traceback.format_exc()[-600:]))
            break
    return dict(id=tid, cfg=dict(pool=terms, flavor=flavor), ev=ev)


def run(prop, tier, seed):
    core.use_repo()
    v = core.Verdict(prop, tier, seed)
    quick = tier == "quick"
    r = random.Random(seed * 13 + 2)
    res = tlc.run_tlc("IndexMapsProps", "IndexMapsProps_quick.cfg" if quick else "IndexMapsProps_thorough.cfg",
                      name="c02mc", workers=8, coverage=True, timeout=3000)
    v.add_tlc(res, "IndexMapsProps exhaustive")
    for nm in res.violated:
        v.violation(f"model:{nm}", f"design model violates {nm}", dict(cex=str(res.cex)[:6000]))
    for act in ("BuildRoot", "BuildSubset", "BuildConcat", "BuildWrap"):
        if res.coverage.get(act, (0, 0))[1] == 0:
            raise tlc.TLCError(f"vacuity: action {act} never taken")
    K = make_classes()
    traces = []
    for tid in range(1, (500 if quick else 5000) + 1):
        big = tid % 4 == 0
        traces.append(one_trace(tid, r, K, 8 if big else 4, 12 if big else 4))
    acc, rej, st = tracecheck.validate("IndexMapsTrace", tracecheck.write_cfg("IndexMapsTrace.cfg", tracecheck.STD_CFG),
                                       traces, "c02tv", jobs=8)
    v.coverage["states"] += st["states"]
    v.coverage["transitions"] += st["transitions"]
    v.coverage["traces_validated_against_impl"] = len(traces)
    v.coverage["evaluations"] = sum(len(t["ev"]) for t in traces)
    keys = set()
    for t in traces:
        sig = "/".join(x["k"] + ("B" if x["bal"] else "") + (str(x["d"]) if x["d"] else "") + ("".join(map(str, x["ds"])))
                       for x in t["cfg"]["pool"])
        nontriv = sum(1 for x in t["cfg"]["pool"] if x["k"] != "root") >= 2
        key = sig + ":" + str(abs(hash(json.dumps(t["cfg"]["pool"]))) % 10 ** 8)
        if nontriv:
            keys.add(key)
        if t["id"] in rej:
            pos, clauses = rej[t["id"]]
            e = t["ev"][pos - 1] if pos >= 1 else None
            v.violation(key, f"clauses {clauses} fail for layer {e.get('p') if e else None} of stack {sig}: "
                        f"{json.dumps(e)[:400]}", t)
    v.coverage["distinct_nontrivial"] = len(keys)
    v.coverage["rule"] = ("one case = one random pool of layers (every layer observed); non-trivial = at least two "
                          "non-root layers; distinct by the full term structure incl. index lists")
    for t in traces[:1] + [t for t in traces if len(t["cfg"]["pool"]) >= 5][:1]:
        v.sample(dict(pool=t["cfg"]["pool"], first_obs={k: x for k, x in t["ev"][-1].items() if k not in ("mw",)}))
    v.assumptions += ["root datasets are list-backed (Python negative indices work) and return fresh values",
                      "nothing is layered on top of a balanced concat (it has no length)"]
    return v.finish()
