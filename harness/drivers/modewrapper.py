"""C01: the mode string decides which items a sample has, and in which order.

(M) TLC checks the constructor's fusing loop + un-fusing loop (ModeWrapper.tla) against PositionsRight / FreshCalls /
    JointOnce / NoError / TableCoversAll for every mode string up to MaxLen over 6 items and 6 declared-group sets.
(T) The real ModeWrapper over real stacks (KDDataset, KDWrapper chains, fused-operation wrappers above/below other
    wrappers, KDSubset, KDConcatDataset, TorchWrapper) is driven through access histories (int, negative, slice,
    list, iter, len); loaders return tags (item, sample, call id); TLC evaluates the clauses (ModeWrapperTrace.tla).
"""
import itertools
import json
import random

from kdverif import core, tlc, tracecheck

ITEMS = ["x", "class", "y", "z", "index", "ctx.k"]
CTX_ITEMS = ("ctx.k", "ctx.k.s")   # the second key contains a dot (as the library's own transforms name their keys)
LOADERS = ["x", "class", "y", "z"]
DECLS = [[], [["x", "class"]], [["class", "x"]], [["x", "y", "z"]], [["x", "class"], ["y", "z"]],
         [["y", "z"], ["class", "x"]]]
OVERLAP = [["x", "class"], ["x", "y"]]  # shares a member: must be refused by the constructor
PYNONE = -99

NONCE = [0]


def nonce():
    NONCE[0] += 1
    return NONCE[0]


class Tag(tuple):
    """(item, sample id, call id)"""
    pass


def make_classes():
    from kappadata.datasets.kd_dataset import KDDataset
    from kappadata.datasets.kd_wrapper import KDWrapper

    class TagDS(KDDataset):
        def __init__(self, n, base=0):
            super().__init__()
            self.n, self.base = n, base

        def __len__(self):
            return self.n

        def _load(self, it, idx, ctx):
            assert 0 <= idx < self.n, f"index {idx} out of range"
            c = nonce()
            me = self.base + int(idx)
            # what this loader can see in the context it was handed: entries recorded for ANOTHER sample are stale
            stale = ctx is not None and any(isinstance(v, Tag) and v[1] != me for v in ctx.values())
            if it == "x" and ctx is not None:
                ctx["k"] = Tag(("rec", me, c))
                ctx["k.s"] = Tag(("rec2", me, c))
                if me % 2 == 1:
                    ctx["odd"] = Tag(("rec", me, c))  # a key only some samples record
            return Tag((it, me, c, bool(stale)))

        def getitem_x(self, idx, ctx=None):
            return self._load("x", idx, ctx)

        def getitem_class(self, idx, ctx=None):
            return self._load("class", idx, ctx)

        def getitem_y(self, idx, ctx=None):
            return self._load("y", idx, ctx)

        def getitem_z(self, idx, ctx=None):
            return self._load("z", idx, ctx)

    class PlainW(KDWrapper):
        pass

    class IndexW(KDWrapper):
        """a wrapper that happens to define getitem_index (e.g. exposing an unfiltered index): the mode item 'index'
        is the index the sample was requested with, whatever the stack defines"""

        def getitem_index(self, idx, ctx=None):
            return int(idx) + 1000

    def fused_wrapper(groups, delegate=()):
        """a wrapper that declares `groups` as jointly loaded and implements every item + every joint loader itself"""

        def joint(g):
            def fn(self, idx, ctx=None):
                vals = [getattr(self.dataset, "getitem_" + it)(idx, ctx) for it in g]
                c = nonce()
                if "x" in g and ctx is not None:
                    ctx["k"] = Tag(("rec", vals[0][1], c))
                    ctx["k.s"] = Tag(("rec2", vals[0][1], c))
                return tuple(Tag((it, v[1], c, any(len(u) > 3 and u[3] for u in vals))) for it, v in zip(g, vals))

            return fn

        def single(it):
            def fn(self, idx, ctx=None):
                v = getattr(self.dataset, "getitem_" + it)(idx, ctx)
                c = nonce()
                if it == "x" and ctx is not None:
                    ctx["k"] = Tag(("rec", v[1], c))
                    ctx["k.s"] = Tag(("rec2", v[1], c))
                return Tag((it, v[1], c, len(v) > 3 and v[3]))

            return fn

        ns = {"fused_operations": property(lambda self: self.dataset.fused_operations + [list(g) for g in groups])}
        for it in LOADERS:
            ns["getitem_" + it] = single(it)
        for g in groups:
            ns["getitem_" + "".join(g)] = joint(g)
        for g in delegate:
            # groups declared by an inner layer: the outermost wrapper forwards their joint loader
            ns["getitem_" + "".join(g)] = (lambda nm: lambda self, idx, ctx=None: getattr(self.dataset, nm)(idx, ctx))(
                "getitem_" + "".join(g))
        return type("FusedW", (KDWrapper,), ns)

    class TupleDS:
        """plain torch-style dataset returning (x, class, y, z)"""

        def __init__(self, n):
            self.n = n

        def __len__(self):
            return self.n

        def __getitem__(self, idx):
            c = nonce()
            return tuple(Tag((it, int(idx), c)) for it in LOADERS)

    return TagDS, PlainW, fused_wrapper, TupleDS, IndexW


def build_stack(kind, n, decl, r, K):
    """returns (dataset, map, refuseok)"""
    TagDS, PlainW, fused_wrapper, TupleDS, IndexW = K
    from kappadata.datasets.kd_subset import KDSubset
    from kappadata.datasets.kd_concat_dataset import KDConcatDataset
    from kappadata.wrappers.torch_wrapper import TorchWrapper
    ident = list(range(n))
    if kind == "base":
        return TagDS(n), ident, False
    if kind == "wrap":
        return PlainW(TagDS(n)), ident, False
    if kind == "wrap2":
        return PlainW(PlainW(TagDS(n))), ident, False
    if kind == "wrap_index":
        return IndexW(PlainW(TagDS(n))), ident, False
    if kind == "fused":
        return fused_wrapper(decl)(TagDS(n)), ident, False
    if kind == "fused_wrap":
        return fused_wrapper(decl)(PlainW(TagDS(n))), ident, False
    if kind == "fused_split":
        # two fused wrappers, each declaring part of the groups; the outer one implements everything
        inner = fused_wrapper(decl[:1])(TagDS(n))
        return fused_wrapper(decl[1:], delegate=decl[:1])(inner), ident, False
    if kind == "wrap_fused":
        # outermost wrapper does not implement the items itself: the constructor may refuse (stated domain)
        return PlainW(fused_wrapper(decl)(TagDS(n))), ident, True
    if kind == "subset_fused":
        idxs = [r.randrange(n) for _ in range(n)]
        return KDSubset(fused_wrapper(decl)(TagDS(n)), idxs), idxs, True
    if kind == "subset":
        idxs = [r.randrange(n) for _ in range(n)]
        return KDSubset(TagDS(n), idxs), idxs, False
    if kind == "subset_wrap":
        idxs = [r.randrange(n) for _ in range(max(1, n - 1))]
        return PlainW(KDSubset(PlainW(TagDS(n)), idxs)), idxs, False
    if kind == "concat":
        n1 = max(1, n // 2)
        n2 = n - n1
        parts = [TagDS(n1, 0)] + ([TagDS(n2, n1)] if n2 else [])
        return KDConcatDataset(parts), ident, False
    if kind == "torch":
        return TorchWrapper(TupleDS(n), mode="x class y z"), ident, False
    raise ValueError(kind)


def split_raw(raw):
    if isinstance(raw, tuple) and not isinstance(raw, Tag) and len(raw) == 2 and isinstance(raw[1], dict):
        return raw[0], raw[1], True
    return raw, None, False


def decode_sample(raw, n0):
    """one sample result of the real ModeWrapper -> recorded observation; call ids of this result lie in (n0, n1]"""
    items, ctx, hasctx = split_raw(raw)
    bare = isinstance(items, Tag) or not isinstance(items, tuple)
    seq = [items] if bare else list(items)
    out = []
    for v in seq:
        if isinstance(v, Tag) and v[0] == "rec":
            out.append(dict(it="ctx.k", s=v[1], cid=v[2]))
        elif isinstance(v, Tag) and v[0] == "rec2":
            out.append(dict(it="ctx.k.s", s=v[1], cid=v[2]))
        elif isinstance(v, Tag):
            out.append(dict(it=v[0], s=v[1], cid=v[2]))
        elif isinstance(v, int):
            out.append(dict(it="index", s=int(v), cid=0))
        else:
            out.append(dict(it="other", s=-1, cid=0))
    n1 = max([n0] + [o["cid"] for o in out] + [v[2] for v in (ctx or {}).values() if isinstance(v, Tag)])
    # a loader saw an entry of another sample in the context it was handed
    ctxfresh = not any(isinstance(v, Tag) and len(v) > 3 and v[3] for v in seq)
    ctxs = []
    if ctx is not None:
        for k, v in ctx.items():
            # an entry is fresh iff it was recorded by a loader call of this access
            if not (isinstance(v, Tag) and n0 < v[2]):
                ctxfresh = False
            if isinstance(v, Tag):
                ctxs.append(v[1])
    return dict(n0=n0, n1=n1, out=out, bare=bool(bare), hasctx=hasctx, ctxfresh=ctxfresh, ctxs=ctxs)


def rand_access(r, n):
    form = r.choice(["int", "int", "slice", "slice", "list", "iter", "len"])
    e = dict(a="acc", form=form, k=0, lo=PYNONE, hi=PYNONE, st=PYNONE, ks=[], lenres=-1, res=[])
    if form == "int":
        e["k"] = r.randrange(-n, n)
    elif form == "slice":
        e["lo"] = r.choice([PYNONE] + list(range(-n - 2, n + 3)))
        e["hi"] = r.choice([PYNONE] + list(range(-n - 2, n + 3)))
        e["st"] = r.choice([PYNONE, 1, 2, 3, -1, -2])
    elif form == "list":
        e["ks"] = [r.randrange(-n, n) for _ in range(r.randint(0, 3))]
    return e


def perform(mw, mode, rctx, e):
    f = e["form"]
    if f == "len":
        e["lenres"] = len(mw)
        return
    n0 = NONCE[0]
    if f == "int":
        raws = [mw[e["k"]]]
    elif f == "slice":
        nn = lambda v: None if v == PYNONE else v  # noqa
        raws = mw[slice(nn(e["lo"]), nn(e["hi"]), nn(e["st"]))]
    elif f == "list":
        raws = mw[list(e["ks"])]
    else:
        raws = list(iter(mw))
    # per-sample call-id windows: results are produced in order, so the ids of result j lie above those of result j-1
    res = []
    lo = n0
    for raw in raws:
        d = decode_sample(raw, lo)
        res.append(d)
        lo = d["n1"]
    e["res"] = res


def one_trace(tid, kind, mode, decl, rctx, n, r, K, naccess):
    from kappadata.wrappers import ModeWrapper
    ds, mp, refuseok = build_stack(kind, n, decl, r, K)
    if decl is OVERLAP or decl == OVERLAP:
        refuseok = True
    cfg = dict(kind=kind, mode=mode, decl=decl, rctx=rctx, n=len(mp), map=mp, refuseok=refuseok)
    ev = []
    try:
        mw = ModeWrapper(ds, mode=" ".join(mode), return_ctx=rctx)
    except AssertionError as e:
        import traceback
        last = traceback.extract_tb(e.__traceback__)[-1]
        if last.filename.endswith("mode_wrapper.py"):  # raised by ModeWrapper itself while constructing (any helper)
            return dict(id=tid, cfg=cfg, ev=[dict(a="refuse")])
        return dict(id=tid, cfg=cfg, ev=[dict(a="err", type="AssertionError")])
    except Exception as e:
        return dict(id=tid, cfg=cfg, ev=[dict(a="err", type=type(e).__name__)])
    for _ in range(naccess):
        e = rand_access(r, len(mp))
        try:
            perform(mw, mode, rctx, e)
            ev.append(e)
        except Exception as ex:
            ev.append(dict(a="err", type=type(ex).__name__, during=e))
            break
    else:
        ev.extend(helper_events(mode, r, 3))
    return dict(id=tid, cfg=cfg, ev=ev)


HELPER_ITEMS = ["x", "class", "y", "z", "index", "ctx.k", "ctx.k.s", "ctx", "c", "xy", "clas", "k", "ind", "y z", ""]


def helper_events(mode, r, count):
    """the static mode-string helpers of ModeWrapper (used by every collator to find / replace an item of a batch):
    has_item, get_item_index, get_item, set_item, add_item on the trace's mode string and on sub-modes of it"""
    from kappadata.wrappers import ModeWrapper
    ev = []
    for _ in range(count):
        hm = list(mode) if r.random() < 0.5 else r.sample(list(mode), r.randint(1, len(mode)))
        hm = list(dict.fromkeys(hm)) if r.random() < 0.5 else hm
        item = r.choice(hm) if r.random() < 0.5 else r.choice(HELPER_ITEMS[:-2])
        ms = " ".join(hm)
        e = dict(a="helper", hm=hm, hi=item, has=False, idx=-1, got=0, changed=[], setlen=0, added=[], exc="")
        try:
            e["has"] = bool(ModeWrapper.has_item(mode=ms, item=item))
            try:
                e["idx"] = int(ModeWrapper.get_item_index(mode=ms, item=item))
            except ValueError:
                e["idx"] = -1
            batch = tuple(f"p{p + 1}" for p in range(len(hm)))  # position tags (a bare tag is not a tuple)
            if item in hm:
                got = ModeWrapper.get_item(mode=ms, item=item, batch=batch if len(hm) > 1 or r.random() < 0.5 else batch[0])
                e["got"] = int(got[1:]) if isinstance(got, str) and got[:1] == "p" else -1
                new = ModeWrapper.set_item(mode=ms, item=item, batch=batch, value="new")
                e["setlen"] = len(new)
                e["changed"] = [p + 1 for p in range(min(len(new), len(batch))) if new[p] != batch[p]]
                if any(new[p - 1] != "new" for p in e["changed"]):
                    e["changed"].append(0)
            added = ModeWrapper.add_item(mode=ms, item=item)
            e["added"] = added.split(" ")
        except Exception as ex:  # noqa
            e["exc"] = type(ex).__name__
        ev.append(e)
    return ev


def in_domain(mode):
    return all(it not in CTX_ITEMS or "x" in mode[:p] for p, it in enumerate(mode))


def run(prop, tier, seed):
    core.use_repo()
    v = core.Verdict(prop, tier, seed)
    quick = tier == "quick"
    r = random.Random(seed * 7 + 1)

    res = tlc.run_tlc("ModeWrapperProps", "ModeWrapperProps_quick.cfg" if quick else "ModeWrapperProps_thorough.cfg",
                      name="c01mc", workers=8, coverage=True, timeout=3000)
    v.add_tlc(res, "ModeWrapperProps exhaustive")
    for nm in res.violated:
        v.violation(f"model:{nm}", f"design model violates {nm}", dict(cex=str(res.cex)[:6000]))
    for act in ("CtorIter", "CtorDone", "Call", "Unfuse"):
        if res.coverage.get(act, (0, 0))[1] == 0:
            raise tlc.TLCError(f"vacuity: action {act} of ModeWrapper.tla never taken")

    K = make_classes()
    traces = []
    tid = 0
    maxlen = 3 if quick else 4
    modes = [list(m) for ln in range(1, maxlen + 1) for m in itertools.product(ITEMS, repeat=ln) if in_domain(m)]
    plain_kinds = ["base", "wrap", "wrap2", "wrap_index", "subset", "subset_wrap", "concat"]
    fused_kinds = ["fused", "fused_wrap", "wrap_fused", "subset_fused"]
    # the whole grid of (M), each mode on rotating stacks
    for mi, mode in enumerate(modes):
        for di, decl in enumerate(DECLS):
            kinds = plain_kinds if not decl else fused_kinds + (["fused_split"] if len(decl) > 1 else [])
            if quick:
                kinds = [kinds[(mi + di) % len(kinds)]]
            for kind in kinds:
                tid += 1
                traces.append(one_trace(tid, kind, mode, decl, bool((mi + di + tid) % 2), r.randint(1, 5), r, K,
                                        3 if quick else 5))
    # TorchWrapper: tuple-returning torch dataset, no ctx items
    for mode in [m for m in modes if "ctx.k" not in m][:: (3 if quick else 1)]:
        tid += 1
        traces.append(one_trace(tid, "torch", mode, [], False, r.randint(1, 5), r, K, 3))
    # overlapping groups must be refused
    for mode in (["x", "class", "y"], ["y", "x"], ["class"]):
        tid += 1
        traces.append(one_trace(tid, "fused", mode, OVERLAP, False, 3, r, K, 2))
    # long random modes, deeper histories, larger datasets
    for _ in range(300 if quick else 3000):
        ln = r.randint(4, 10)
        mode = [r.choice(ITEMS + ["ctx.k.s"]) for _ in range(ln)]
        if not in_domain(mode):
            mode = ["x"] + mode
        decl = r.choice(DECLS)
        kind = r.choice(plain_kinds if not decl else fused_kinds + (["fused_split"] if len(decl) > 1 else []))
        tid += 1
        traces.append(one_trace(tid, kind, mode, decl, r.random() < 0.5, r.randint(1, 30), r, K, r.randint(2, 12)))

    acc, rej, st = tracecheck.validate("ModeWrapperTrace", tracecheck.write_cfg("ModeWrapperTrace.cfg", tracecheck.STD_CFG),
                                       traces, "c01tv", jobs=8)
    v.coverage["states"] += st["states"]
    v.coverage["transitions"] += st["transitions"]
    v.coverage["traces_validated_against_impl"] = len(traces)
    v.coverage["evaluations"] = len(traces)
    keys = set()
    refused = 0
    for t in traces:
        c = t["cfg"]
        key = f"{c['kind']}:mode={' '.join(c['mode'])}:decl={json.dumps(c['decl'])}:rctx={int(c['rctx'])}"
        if t["ev"] and t["ev"][0]["a"] == "refuse":
            refused += 1
        elif len(c["mode"]) > 1 and (c["decl"] or c["kind"] not in ("base",)):
            keys.add(key)
        if t["id"] in rej:
            pos, clauses = rej[t["id"]]
            e = t["ev"][pos - 1] if pos >= 1 else None
            v.violation(key, f"clauses {clauses} fail at event {pos}: {json.dumps(e)[:500]}", t)
    v.coverage["distinct_nontrivial"] = len(keys)
    v.coverage["refused_by_constructor"] = refused
    v.coverage["rule"] = ("one case = (stack kind, mode string, declared groups, return_ctx) with a random history of "
                          "int/negative/slice/list/iter/len accesses; all modes up to length 3 (quick) / 4 (thorough) x all "
                          "group sets on rotating stacks + random modes of length 4..10; non-trivial = more than one item "
                          "and (fused groups declared or a wrapper/subset/concat layer present) and not refused")
    for t in traces[:1] + [t for t in traces if t["cfg"]["decl"] and len(t["cfg"]["mode"]) > 2][:2]:
        v.sample(dict(cfg=t["cfg"], ev=t["ev"][:2]))
    v.assumptions += ["'ctx.k' only after an item that records k; on stacks with fused operations every item is implemented "
                      "by the outermost wrapper, otherwise the constructor may refuse (stated domain)",
                      "TorchWrapper over tuple-returning torch datasets"]
    return v.finish()
