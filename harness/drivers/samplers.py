"""C12 / C13: rank-aware samplers (DistributedSampler, RandomSampler, ClassBalancedSampler, WeightedSampler, SemiSampler).

C12 (RankSplit.tla): one global epoch draw, split evenly and reproducibly by rank.
C13 (EpochSamplers.tla): how class-balanced / semi-supervised / weighted samplers compose an epoch.

(M) TLC checks that the descriptive machines (the code's draw / pad / slice loops, every generator outcome, every
    interleaving of the ranks) satisfy the normative clauses on a bounded grid chosen in Init/Configure; mutated
    machines (Mutant # "none") are negative controls that must violate a clause.
(T) The REAL samplers are built once per rank (plus a single-rank object for C12) and observed at the public API
    (len(), set_epoch(), iteration).  Every trace is a sequence of epoch observations of one configuration; TLC
    evaluates the normative operators of the specification on the observed values (RankSplitTrace.tla additionally
    replays the descriptive machine on the observed global draw).  Corrupted copies of accepted traces must be
    rejected (selftest against vacuity).
"""
import copy
import os
import random
import signal
from concurrent.futures import ThreadPoolExecutor

from kdverif import core, tlc, tracecheck

# --------------------------------------------------------------------------------------------- harness datasets


class ClsDS:
    """Dataset with class labels; `container` decides how the bulk accessor hands them out."""

    def __init__(self, classes, container="list", n_classes=None):
        self._classes = [int(c) for c in classes]
        self._container = container
        self._n_classes = n_classes if n_classes is not None else max(max(self._classes) + 1, 1)
        if container != "item":
            self.getall_class = self._getall_class

    def __len__(self):
        return len(self._classes)

    def __getitem__(self, i):
        return i

    def getdim_class(self):
        return self._n_classes

    def getshape_class(self):
        return (self._n_classes,)

    def getitem_class(self, idx, ctx=None):
        return self._classes[idx]

    def _getall_class(self):
        if self._container == "list":
            return list(self._classes)
        if self._container == "numpy":
            import numpy as np
            return np.array(self._classes, dtype=np.int64)
        if self._container == "tensor":
            import torch
            return torch.tensor(self._classes, dtype=torch.long)
        raise ValueError(self._container)


class Diverge(Exception):
    pass


def _alarm(signum, frame):
    raise Diverge()


def guarded(fn, seconds=20):
    """run fn() under a deadline; returns (value, None) or (None, exception-name)"""
    old = signal.signal(signal.SIGALRM, _alarm)
    signal.alarm(seconds)
    try:
        return fn(), None
    except Diverge:
        return None, "Diverge"
    except Exception as e:  # noqa: any exception that escapes from the samplers is an observation
        return None, type(e).__name__ + ": " + str(e)[:160]
    finally:
        signal.alarm(0)
        signal.signal(signal.SIGALRM, old)


def labelled_dataset(c, n_classes):
    """the dataset the sampler is built on: ClsDS, or - c["stack"] = permutation - a KDSubset layer presenting a
    permuted root (position j shows root sample stack[j]); c["warm"]: the labels of the ROOT were read through the library's bulk utility
    before (whatever is remembered about a dataset must not leak through the layer above it)"""
    perm = c.get("stack")
    if not perm:
        return ClsDS(c["cls"], c["container"], n_classes=n_classes)
    from kappadata.datasets.kd_subset import KDSubset
    root_cls = [0] * len(perm)
    for j, pj in enumerate(perm):
        root_cls[pj] = c["cls"][j]
    root = ClsDS(root_cls, c["container"], n_classes=n_classes)
    if c.get("warm"):
        try:
            # what every class-aware sampler / wrapper does first with a dataset: read all labels through the utility
            from kappadata.utils.getall_as_tensor import getall_as_tensor
            getall_as_tensor(root, item="class")
        except Exception:  # noqa: not the observation
            pass
    return KDSubset(root, list(perm))


# --------------------------------------------------------------------------------------------- building real samplers
def build(c, rank, world):
    """the real sampler of configuration c for (rank, world)"""
    import torch
    from kappadata.samplers import (ClassBalancedSampler, DistributedSampler, RandomSampler, SemiSampler,
                                    WeightedSampler)
    s = c["sampler"]
    if s == "dist":
        return DistributedSampler(list(range(c["n"])), num_replicas=world, rank=rank, shuffle=c["shuffle"],
                                  seed=c["seed"], drop_last=c["drop"], num_repeats=c["rep"])
    if s == "rand":
        return RandomSampler(list(range(c["n"])), replacement=c["repl"], num_repeats=c["rep"],
                             generator=torch.Generator().manual_seed(c["seed"]))
    if s == "cb":
        ds = labelled_dataset(c, c["C"])
        return ClassBalancedSampler(ds, shuffle=c["shuffle"], samples_per_class=(c["spc"] or None), seed=c["seed"],
                                    rank=rank, world_size=world)
    if s == "w":
        ds = list(range(c["n"]))
        return WeightedSampler(ds, weights=torch.tensor(c["weights"], dtype=torch.float), size=(c["size"] or None),
                               seed=c["seed"], rank=rank, world_size=world)
    if s == "semi":
        ds = labelled_dataset(c, max(max(c["cls"]) + 1, 1))
        return SemiSampler(ds, num_labeled=c["nl"], num_unlabeled=c["nu"], rank=rank, world_size=world, seed=c["seed"],
                           length_mode=c["mode"])
    raise ValueError(s)


def observe(c, schedule, with_g1):
    """Epoch observations of configuration c.  schedule = [(epoch, fresh)]: fresh -> new sampler objects are built,
    else set_epoch is called on the objects of the previous observation."""
    ev = []
    objs = None
    for (e, fresh) in schedule:
        def one():
            nonlocal objs
            if fresh is True or objs is None:
                objs = dict(ranks=[build(c, r, c["W"]) for r in range(c["W"])],
                            single=(build(c, 0, 1) if with_g1 else None))
            allobjs = objs["ranks"] + ([objs["single"]] if with_g1 else [])
            if fresh != "again":  # "again": a second pass over the same objects at the same (seed, epoch)
                for o in allobjs:
                    if c["sampler"] != "rand":
                        o.set_epoch(e)
            if fresh == "extra0":  # one rank has done an extra pass: all ranks must still share the one global draw
                list(objs["ranks"][0])
            lens = [int(len(o)) for o in objs["ranks"]]
            streams = [[int(i) for i in o] for o in objs["ranks"]]
            d = dict(a="epoch", e=e, lens=lens, streams=streams)
            if with_g1:
                d["g1"] = [int(i) for i in objs["single"]]
            return d

        val, exc = guarded(one)
        if exc is not None:
            ev.append(dict(a="exc", what=exc))
            break
        ev.append(val)
    return ev


def _pg_child(conn, c, schedule, rank, store_path, preview):
    """one rank of a REAL torch.distributed process group (gloo, file store): the samplers are built with their
    default rank / world size, i.e. through kappadata.utils.distributed"""
    import datetime
    import torch
    import torch.distributed as dist
    torch.set_num_threads(1)
    out = []
    try:
        if preview:
            # legal single-process use before the group exists (e.g. a preview / length computation): rank 0 of 1
            o = build(c, None, None)
            if c["sampler"] != "rand":
                o.set_epoch(0)
            list(o)
        dist.init_process_group("gloo", store=dist.FileStore(store_path, c["W"]), rank=rank, world_size=c["W"],
                                timeout=datetime.timedelta(seconds=60))
        obj = None
        for (e, fresh) in schedule:
            if fresh is True or obj is None:
                obj = build(c, None, None)
            if fresh != "again" and c["sampler"] != "rand":
                obj.set_epoch(e)
            if fresh == "extra0" and rank == 0:
                list(obj)
            out.append((int(len(obj)), [int(i) for i in obj]))
        dist.barrier()
        dist.destroy_process_group()
        conn.send(("ok", out))
    except BaseException as ex:  # noqa
        conn.send(("exc", type(ex).__name__ + ": " + str(ex)[:160]))
    finally:
        conn.close()
        os._exit(0)


def observe_pg(c, schedule, with_g1, preview, deadline=90):
    """observe() with every rank running in its own process of a real process group"""
    import multiprocessing as mp
    import tempfile
    ctx = mp.get_context("fork")
    tmp = tempfile.mkdtemp(prefix="pg", dir=tlc.WORK)
    procs = []
    try:
        for rank in range(c["W"]):
            a, b = ctx.Pipe()
            p = ctx.Process(target=_pg_child, args=(b, c, schedule, rank, os.path.join(tmp, "store"), preview), daemon=True)
            p.start()
            b.close()
            procs.append((p, a))
        res = []
        for p, a in procs:
            if a.poll(deadline):
                try:
                    res.append(a.recv())
                except EOFError:
                    res.append(("exc", "rank process died"))
            else:
                res.append(("exc", "Diverge"))
        for p, a in procs:
            p.join(timeout=2)
            if p.is_alive():
                p.kill()
    finally:
        import shutil
        shutil.rmtree(tmp, ignore_errors=True)
    bad = [x[1] for x in res if x[0] != "ok"]
    if bad:
        return [dict(a="exc", what=bad[0])]
    single = build(c, 0, 1) if with_g1 else None
    ev = []
    for k, (e, fresh) in enumerate(schedule):
        d = dict(a="epoch", e=e, lens=[x[1][k][0] for x in res], streams=[x[1][k][1] for x in res])
        if with_g1:
            if fresh is True and k > 0:
                single = build(c, 0, 1)
            if fresh != "again" and c["sampler"] != "rand":
                single.set_epoch(e)
            d["g1"] = [int(i) for i in single]
        ev.append(d)
    return ev


def schedule_for(r, sampler, n_epochs=5):
    if sampler == "rand":
        return [(0, True), (0, True)]
    eps = [r.randint(0, 3)]
    while len(eps) < n_epochs:
        eps.append(r.randint(0, 3))
    # at least one epoch revisited and one change
    eps[2] = eps[0]
    if eps[1] == eps[0]:
        eps[1] = (eps[0] + 1) % 4
    sched = [(e, (i == 0) or r.random() < 0.4) for i, e in enumerate(eps)]
    # a second pass without set_epoch, and a pass after rank 0 did an extra one (same (seed, epoch) -> same draw)
    sched.append((eps[-1], "again"))
    sched.append((eps[-1], "extra0"))
    return sched


# --------------------------------------------------------------------------------------------- C12 configurations
def c12_spec_cfg(c):
    """projection of a driver configuration onto the cfg record of RankSplitTrace.tla"""
    s = c["sampler"]
    if s == "dist":
        return dict(sampler=s, kind="dist", E=c["n"], W=c["W"], drop=c["drop"], rep=c["rep"], distinct=True,
                    shuffle=c["shuffle"])
    if s == "rand":
        return dict(sampler=s, kind="rand", E=c["n"], W=1, drop=False, rep=c["rep"], distinct=not c["repl"],
                    shuffle=False)
    if s == "cb":
        spc = c["spc"] or max(c["cls"].count(k) for k in range(c["C"]))
        return dict(sampler=s, kind="cut", E=c["C"] * spc, W=c["W"], drop=False, rep=1, distinct=False,
                    shuffle=c["shuffle"])
    if s == "w":
        return dict(sampler=s, kind="cut", E=(c["size"] or c["n"]), W=c["W"], drop=False, rep=1, distinct=True,
                    shuffle=True)
    raise ValueError(s)


def layout(r, n_classes, lo, hi):
    """random class layout: every class lo..hi samples, shuffled order"""
    cls = []
    for k in range(n_classes):
        cls += [k] * r.randint(lo, hi)
    r.shuffle(cls)
    return cls


def c12_grid():
    """exhaustive small grid"""
    for n in range(1, 7):
        for w in range(1, 6):
            for drop in (False, True):
                for shuffle, rep in ((False, 1), (True, 1), (True, 2), (True, 3)):
                    yield dict(sampler="dist", n=n, W=w, drop=drop, shuffle=shuffle, rep=rep)
    for n in range(1, 8):
        for rep in range(1, 5):
            for repl in (False, True):
                yield dict(sampler="rand", n=n, W=1, rep=rep, repl=repl)
    for cls in ([0, 1], [0, 1, 0, 0], [1, 0, 1, 0, 1], [0, 1, 2], [2, 0, 1, 1, 0, 2, 2]):
        for spc in (0, 1, 2, 5):
            for w in range(1, 5):
                for shuffle in (False, True):
                    yield dict(sampler="cb", cls=cls, C=max(cls) + 1, spc=spc, W=w, shuffle=shuffle, container="list")
    for n in range(1, 6):
        for size in [0] + list(range(1, n + 1)):
            for w in range(1, 5):
                yield dict(sampler="w", n=n, size=size, W=w, weights=[1.0 + (i % 3) for i in range(n)])


def c12_random(r, big):
    s = r.choice(["dist", "dist", "dist", "cb", "w", "rand"])
    if s == "dist":
        shuffle = r.random() < 0.8
        rep = r.choice([1, 1, 2, 3, 4]) if shuffle else 1
        # big: at least 20 distinct samples in the draw (the domain of "set_epoch changes the draw")
        n = (r.randint(20, 26) * rep if r.random() < 0.3 else r.randint(20, 40)) if big else r.randint(1, 19)
        return dict(sampler=s, n=n, W=r.randint(1, 8) if r.random() < 0.8 else r.randint(n, 2 * n + 3),
                    drop=r.random() < 0.5, shuffle=shuffle, rep=rep)
    if s == "rand":
        return dict(sampler=s, n=r.randint(1, 40), W=1, rep=r.randint(1, 5), repl=r.random() < 0.3)
    if s == "cb":
        C = r.randint(2, 6)
        cls = layout(r, C, 1, 12 if big else 4)
        return dict(sampler=s, cls=cls, C=C, spc=r.choice([0, 0, r.randint(1, 14)]), W=r.randint(1, 8),
                    shuffle=r.random() < 0.8, container=r.choice(["list", "numpy", "item"]))
    n = r.randint(20, 40) if big else r.randint(1, 19)
    weights = [round(r.uniform(0.05, 3.0), 3) for _ in range(n)]
    npos = n
    if r.random() < 0.3 and n > 1:
        for i in r.sample(range(n), r.randint(1, n // 2)):
            weights[i] = 0.0
            npos -= 1
    size = 0 if (npos == n and r.random() < 0.4) else r.randint(1, npos)
    return dict(sampler="w", n=n, size=size, W=r.randint(1, 8), weights=weights)


def c12_key(c):
    s = c["sampler"]
    if s == "dist":
        body = f"N={c['n']},W={c['W']},drop={int(c['drop'])},shuffle={int(c['shuffle'])},rep={c['rep']}"
    elif s == "rand":
        body = f"N={c['n']},rep={c['rep']},repl={int(c['repl'])}"
    elif s == "cb":
        body = (f"cls={''.join(map(str, c['cls']))},spc={c['spc']},W={c['W']},shuffle={int(c['shuffle'])},"
                f"container={c['container']}")
    else:
        body = f"N={c['n']},size={c['size']},W={c['W']},zeros={sum(1 for x in c['weights'] if x == 0)}"
    return (f"{s}:{body},seed={c['seed']}" + (f",procgroup={c['pg']}" if c.get("pg") else "")
            + (f",stacked{'+warm' if c.get('warm') else ''}" if c.get("stack") else "")
            + (",launcher-env" if c.get("lenv") else ""))


def c12_nontrivial(c, sc):
    """more than one rank and the draw is not a multiple of the world size (padding / tail cut happens), or
    repeated augmentation"""
    return (sc["W"] > 1 and sc["E"] % sc["W"] != 0) or sc["rep"] > 1


# --------------------------------------------------------------------------------------------- C13 configurations
def c13_spec_cfg(c):
    s = c["sampler"]
    base = dict(sampler=s, kind=s, cls=[0], C=1, spc=0, W=c["W"], shuffle=False, nl=1, nu=1, mode="all", size=0)
    if s == "cb":
        base.update(cls=c["cls"], C=c["C"], spc=c["spc"], shuffle=c["shuffle"])
    elif s == "semi":
        base.update(cls=c["cls"], nl=c["nl"], nu=c["nu"], mode=c["mode"])
    elif s == "w":
        base.update(cls=[0] * c["n"], size=c["size"])
    return base


def c13_grid():
    for cls in ([0, 1], [1, 0, 0], [0, 1, 0, 0], [0, 1, 1, 1, 0], [0, 1, 2], [2, 0, 1, 1], [2, 0, 1, 1, 0, 2, 2]):
        for spc in (0, 1, 2, 3, 5):
            for w in range(1, 5):
                for shuffle in (False, True):
                    yield dict(sampler="cb", cls=cls, C=max(cls) + 1, spc=spc, W=w, shuffle=shuffle, container="list")
    for cls in ([0, -1], [0, -1, 1, -1, 2, 3], [-1, -1, 0, -1], [0, 1, -1, 2, -1, -1, -1], [3, -1, 0, 0, 1]):
        for nl in (1, 2, 3):
            for nu in (1, 2):
                for mode in ("labeled", "unlabeled", "all"):
                    for w in (1, 2, 3):
                        yield dict(sampler="semi", cls=cls, nl=nl, nu=nu, mode=mode, W=w, container="list")
    for n in range(1, 6):
        for size in [0] + list(range(1, n + 1)):
            for w in range(1, 5):
                yield dict(sampler="w", n=n, size=size, W=w, weights=[1.0 + (i % 3) for i in range(n)])


def c13_random(r, big):
    s = r.choice(["cb", "cb", "semi", "semi", "w"])
    cont = r.choice(["list", "list", "numpy", "tensor", "item"])
    if s == "cb":
        C = r.randint(2, 6)
        cls = layout(r, C, 1, 12 if big else 4)
        return dict(sampler=s, cls=cls, C=C, spc=r.choice([0, 0, r.randint(1, 14), r.randint(1, 30)]),
                    W=r.randint(1, 4) if r.random() < 0.8 else r.randint(5, 9), shuffle=r.random() < 0.8,
                    container=cont)
    if s == "semi":
        nlab = r.randint(9, 24) if big else r.randint(1, 8)
        nunl = r.randint(9, 24) if big else r.randint(1, 8)
        ncls = r.randint(1, 5)
        cls = [r.randrange(ncls) for _ in range(nlab)] + [-1] * nunl
        r.shuffle(cls)
        return dict(sampler=s, cls=cls, nl=r.randint(1, 4), nu=r.randint(1, 4),
                    mode=r.choice(["labeled", "unlabeled", "all"]), W=r.randint(1, 4), container=cont)
    n = r.randint(10, 40) if big else r.randint(1, 9)
    weights = [round(r.uniform(0.05, 3.0), 3) for _ in range(n)]
    npos = n
    if r.random() < 0.3 and n > 1:
        for i in r.sample(range(n), r.randint(1, n // 2)):
            weights[i] = 0.0
            npos -= 1
    size = 0 if (npos == n and r.random() < 0.4) else r.randint(1, npos)
    return dict(sampler="w", n=n, size=size, W=r.randint(1, 4) if r.random() < 0.8 else r.randint(5, 9),
                weights=weights)


def c13_key(c):
    s = c["sampler"]
    if s == "cb":
        body = (f"cls={','.join(map(str, c['cls']))},spc={c['spc']},W={c['W']},shuffle={int(c['shuffle'])},"
                f"container={c['container']}")
    elif s == "semi":
        body = (f"cls={','.join(map(str, c['cls']))},nl={c['nl']},nu={c['nu']},mode={c['mode']},W={c['W']},"
                f"container={c['container']}")
    else:
        body = f"N={c['n']},size={c['size']},W={c['W']},zeros={sum(1 for x in c['weights'] if x == 0)}"
    return (f"{s}:{body},seed={c['seed']}" + (f",procgroup={c['pg']}" if c.get("pg") else "")
            + (f",stacked{'+warm' if c.get('warm') else ''}" if c.get("stack") else "")
            + (",launcher-env" if c.get("lenv") else ""))


def c13_nontrivial(c):
    """class-balanced: some class is smaller than samples_per_class (reuse happens) or W does not divide the epoch;
    semi: some pool is used up within the stream (a second permutation starts) ; weighted: more than one rank or a
    proper sub-size"""
    s = c["sampler"]
    if s == "cb":
        counts = [c["cls"].count(k) for k in range(c["C"])]
        spc = c["spc"] or max(counts)
        return min(counts) < spc or (c["C"] * spc) % c["W"] != 0
    if s == "semi":
        nlab = sum(1 for x in c["cls"] if x != -1)
        nunl = len(c["cls"]) - nlab
        chunks = dict(labeled=nlab // c["nl"], unlabeled=nunl // c["nu"],
                      all=(nlab + nunl) // (c["nl"] + c["nu"]))[c["mode"]]
        per_rank = chunks * (c["nl"] + c["nu"]) // c["W"]
        full_chunks = per_rank // (c["nl"] + c["nu"])
        return full_chunks * c["nl"] > nlab or full_chunks * c["nu"] > nunl
    return c["W"] > 1 or c["size"] not in (0, c["n"])


# --------------------------------------------------------------------------------------------- negative controls
def corrupt(t, how):
    """a corrupted copy of an accepted trace and the clause that has to reject it (None if not applicable)"""
    t = copy.deepcopy(t)
    eps = [e for e in t["ev"] if e["a"] == "epoch"]
    if not eps:
        return None
    e = eps[-1]
    c = t["cfg"]
    if how == "swap_ranks":
        # rank offset / stride confusion: two ranks' streams exchanged
        if c["W"] < 2 or e["streams"][0] == e["streams"][1]:
            return None
        e["streams"][0], e["streams"][1] = e["streams"][1], e["streams"][0]
        return t, "C12_SingleDraw"
    if how == "short_rank":
        if not e["streams"][-1]:
            return None
        e["streams"][-1] = e["streams"][-1][:-1]
        return t, "C12_EqualLength"
    if how == "same_epoch_draw":
        # epoch not mixed into the seed: a later epoch repeats the draw of a different earlier epoch
        if not c.get("shuffle") or len(eps) < 2 or eps[0]["e"] == eps[1]["e"]:
            return None
        if len(set(sum(eps[0]["streams"], []))) < 20:
            return None
        eps[1]["streams"], eps[1]["g1"], eps[1]["lens"] = eps[0]["streams"], eps[0]["g1"], eps[0]["lens"]
        t["ev"] = t["ev"][:t["ev"].index(eps[1]) + 1]
        return t, "C12_EpochChanges"
    if how == "break_run":
        if c.get("rep", 1) < 2 or len(e["g1"]) < 2 or c["E"] < 3:
            return None
        # second slot of the first run replaced by the last sample of the draw (runs no longer consecutive)
        if e["g1"][1] == e["g1"][-1]:
            return None
        e["g1"][1] = e["g1"][-1]
        return t, "C12_RepeatRuns"
    if how == "dup_index":
        # C13: one emitted index replaced by its neighbour
        s = e["streams"][0]
        if len(s) < 2 or s[0] == s[1]:
            return None
        if c["kind"] == "w":
            s[1] = s[0]
            return t, "C13_W_NoRepeat"
        if c["kind"] == "semi":
            s[0], s[1] = s[1], s[0]
            cls = c["cls"]
            if (cls[s[0]] == -1) == (cls[s[1]] == -1):
                return None
            return t, "C13_Semi_Alternation"
        if c["kind"] == "cb":
            cls = c["cls"]
            spc = c["spc"] or max(cls.count(k) for k in range(c["C"]))
            if cls[s[0]] == cls[s[1]] or (c["C"] * spc) % c["W"] != 0:
                return None
            s[1] = s[0]
            return t, "C13_CB_PerClass"
    if how == "out_of_range":
        s = e["streams"][0]
        if not s:
            return None
        s[0] = len(c["cls"])
        return t, "C13_ValidIndices"
    return None


# --------------------------------------------------------------------------------------------- the two checks
MC = {
    "C12": dict(module="RankSplitProps", quick="RankSplitProps_quick.cfg", thorough="RankSplitProps_thorough.cfg",
                actions=["Configure", "PDrawSlot", "PDrawDone", "PDecide", "PPadHead", "PPadMulCopy", "PPadMulDone",
                         "PPadCat", "PCutList", "PEmit", "PFinish", "PAllDone"],
                mutants=dict(contig="RankSplitProps_mut_contig.cfg", floormul="RankSplitProps_mut_floormul.cfg",
                             padmid="RankSplitProps_mut_padmid.cfg", norepeat="RankSplitProps_mut_norepeat.cfg"),
                trace=("RankSplitTrace", "RankSplitTrace.cfg")),
    "C13": dict(module="EpochSamplersProps", quick="EpochSamplersProps_quick.cfg",
                thorough="EpochSamplersProps_thorough.cfg",
                actions=["Configure", "PCBNextClass", "PCBRound", "PCBClassDone", "PCBShuffle", "PWDraw", "PWDrawn",
                         "PSplit", "PSemiRefillL", "PSemiRefillU", "PSemiEmitL", "PSemiEmitU", "PSemiDone"],
                mutants=dict(cb_nocut="EpochSamplersProps_mut_cb_nocut.cfg",
                             semi_replace="EpochSamplersProps_mut_semi_replace.cfg",
                             w_replace="EpochSamplersProps_mut_w_replace.cfg"),
                trace=("EpochSamplersTrace", "EpochSamplersTrace.cfg")),
}


def model_check_start(prop, tier, pool):
    """TLC runs in background threads (the JVMs run beside the trace recording); returns futures"""
    m = MC[prop]
    quick = tier == "quick"
    main = pool.submit(tlc.run_tlc, m["module"], m["quick"] if quick else m["thorough"], name=prop + "mc",
                       workers=6, coverage=True, timeout=3000)

    def mutants():
        return {name: tlc.run_tlc(m["module"], cfg, name=f"{prop}mut{name}", workers=2, timeout=600)
                for name, cfg in m["mutants"].items()}

    return main, pool.submit(mutants)


def model_check_finish(v, prop, futures):
    m = MC[prop]
    res = futures[0].result()
    v.add_tlc(res, m["module"] + " exhaustive")
    for nm in res.violated:
        v.violation(f"model:{nm}", f"design model violates {nm}", dict(cex=str(res.cex)[:6000]))
    for act in m["actions"]:
        if res.coverage.get(act, (0, 0))[1] == 0:
            raise tlc.TLCError(f"vacuity: action {act} never taken in {m['module']}")
    # negative controls: every mutated machine must violate a clause
    caught = {}
    for name, rm in futures[1].result().items():
        if not rm.violated:
            raise tlc.TLCError(f"negative control: mutant {name} of {m['module']} satisfies every clause")
        caught[name] = rm.violated[0]
        v.coverage["states"] += rm.distinct_states
        v.coverage["transitions"] += rm.states_generated
    v.coverage["model_mutants_rejected"] = caught


def selftest(v, prop, traces, acc, hows):
    """corrupt accepted traces; TLC must reject every corrupted copy with the expected clause"""
    mod, cfg = MC[prop]["trace"]
    bad, expect = [], {}
    nid = 10 ** 6
    for how in hows:
        n = 0
        for t in traces:
            if t["id"] not in acc:
                continue
            t2 = dict(t, prop=prop)
            res = corrupt(t2, how)
            if not res or res[1] is None:
                continue
            ct, clause = res
            ct.pop("prop", None)
            nid += 1
            ct["id"] = nid
            bad.append(ct)
            expect[nid] = (how, clause)
            n += 1
            if n >= 3:
                break
        if n == 0:
            raise tlc.TLCError(f"selftest: no accepted trace suitable for corruption {how}")
    a2, r2, st = tracecheck.validate(mod, cfg, bad, prop + "self", jobs=2)
    for i, (how, clause) in expect.items():
        if i not in r2 or clause not in r2[i][1]:
            raise tlc.TLCError(f"selftest: corrupted trace ({how}) not rejected by {clause}: {r2.get(i)}")
    v.coverage["selftest_corrupted_rejected"] = len(bad)
    v.coverage["states"] += st["states"]
    v.coverage["transitions"] += st["transitions"]


def run(prop, tier, seed):
    core.use_repo()
    v = core.Verdict(prop, tier, seed)
    r = random.Random(seed * 7919 + (12 if prop == "C12" else 13))
    quick = tier == "quick"

    pool = ThreadPoolExecutor(max_workers=2)
    futures = model_check_start(prop, tier, pool)

    # ---- (T) traces from the real code
    if prop == "C12":
        cfgs = list(c12_grid())
        n_rand = 1500 if quick else 12000
        cfgs += [c12_random(r, big=(i % 2 == 0)) for i in range(n_rand)]
        spec_cfg, key_of, with_g1 = c12_spec_cfg, c12_key, True
    else:
        cfgs = list(c13_grid())
        n_rand = 2000 if quick else 15000
        cfgs += [c13_random(r, big=(i % 2 == 0)) for i in range(n_rand)]
        spec_cfg, key_of, with_g1 = c13_spec_cfg, c13_key, False
    traces, meta = [], {}
    # a few configurations run as REAL process groups (every rank its own process, default rank / world size)
    # (a few of every sampler kind; larger configurations first so that independently seeded streams really differ)
    n_pg = (4 if quick else 20)
    pg_ids = set()
    for kind in sorted({c["sampler"] for c in cfgs} - {"rand"}):
        cand = [i for i, c in enumerate(cfgs) if c["sampler"] == kind and 2 <= c["W"] <= 3]
        r.shuffle(cand)
        cand.sort(key=lambda i: -(len(cfgs[i].get("cls", [])) or cfgs[i].get("n", 0)))
        pg_ids |= set(cand[:n_pg])
    for i, c in enumerate(cfgs):
        # negative seeds are seeds too (torch generators accept them)
        c["seed"] = r.randint(0, 5000) if r.random() < 0.85 else -r.randint(1, 2)
        if c["sampler"] in ("cb", "semi") and len(c["cls"]) >= 2 and r.random() < 0.25:
            perm = list(range(len(c["cls"])))
            r.shuffle(perm)
            c["stack"], c["warm"] = perm, r.random() < 0.7
        sched = schedule_for(r, c["sampler"], n_epochs=(4 if quick else 5))
        launcher_env = (i % 9 == 4) and i not in pg_ids
        c["lenv"] = launcher_env
        if launcher_env:
            # a process started by a launcher (RANK / WORLD_SIZE / LOCAL_RANK in the environment) that has NOT
            # initialised a process group: explicit rank arguments count, nothing else
            os.environ.update(RANK="1", WORLD_SIZE="2", LOCAL_RANK="1")
        if i in pg_ids:
            # torch's own DistributedSampler refuses default ranks before the group exists: no preview there
            c["pg"] = "preview" if (len(traces) % 2 == 0 and c["sampler"] != "dist") else "plain"
            ev = observe_pg(c, sched, with_g1, preview=(c["pg"] == "preview"))
        else:
            ev = observe(c, sched, with_g1)
        if launcher_env:
            for k_ in ("RANK", "WORLD_SIZE", "LOCAL_RANK"):
                os.environ.pop(k_, None)
        t = dict(id=i + 1, cfg=spec_cfg(c), ev=ev)
        traces.append(t)
        meta[i + 1] = c
    mod, cfgfile = MC[prop]["trace"]
    acc, rej, st = tracecheck.validate(mod, cfgfile, traces, prop + "tv", jobs=6)
    v.coverage["states"] += st["states"]
    v.coverage["transitions"] += st["transitions"]
    v.coverage["traces_validated_against_impl"] = len(traces)
    v.coverage["evaluations"] = len(traces)
    v.coverage["epoch_observations"] = sum(len(t["ev"]) for t in traces)
    v.coverage["rejected_traces"] = len(rej)
    if prop == "C12":
        keys = {key_of(meta[t["id"]]) for t in traces if c12_nontrivial(meta[t["id"]], t["cfg"])}
        rule = ("cases = exhaustive small grid (distributed N<=6 W<=5 x drop_last x shuffle/repeats; random sampler; "
                "class-balanced and weighted layouts x world sizes 1..4) + seeded random configurations (N<=40, W<=8, "
                "also W>N), each observed over 4-5 epochs (revisited epochs, fresh and reused objects); non-trivial = "
                "several ranks and the draw length is not a multiple of W (padding or tail cut happens), or repeated "
                "augmentation; distinct by full configuration key")
    else:
        keys = {key_of(meta[t["id"]]) for t in traces if c13_nontrivial(meta[t["id"]])}
        rule = ("cases = fixed small layouts x samples_per_class / chunk sizes / length modes / sizes x world sizes + "
                "seeded random layouts (2..6 classes with 1..12 samples, label/unlabeled splits, chunk sizes 1..4, "
                "W<=9, label containers list/numpy/tensor/per-item), each observed over 4-5 epochs; non-trivial = "
                "class-balanced: a class is reused or W does not divide the epoch; semi: a pool is exhausted within a "
                "rank stream; weighted: several ranks or a proper sub-size; distinct by full configuration key")
    v.coverage["distinct_nontrivial"] = len(keys)
    v.coverage["rule"] = rule
    by_kind = {}
    for t in traces:
        by_kind.setdefault(t["cfg"]["sampler"], []).append(t)
    v.coverage["traces_per_sampler"] = {k: len(x) for k, x in sorted(by_kind.items())}
    for k in sorted(by_kind):
        big = [t for t in by_kind[k] if t["cfg"]["W"] > 1] or by_kind[k]
        t = big[len(big) // 2]
        v.sample(dict(input=key_of(meta[t["id"]]), cfg=t["cfg"], ev=t["ev"][:2]), cap=5)
    for t in traces:
        if t["id"] in rej:
            posn, clauses = rej[t["id"]]
            c = meta[t["id"]]
            bad = t["ev"][posn - 1] if 0 < posn <= len(t["ev"]) else None
            what = (f"clauses {clauses} fail at epoch observation {posn} of {len(t['ev'])} "
                    f"({'exception ' + bad['what'] if bad and bad['a'] == 'exc' else 'observed streams'})")
            v.violation(key_of(c), what, dict(input=c, cfg=t["cfg"], ev=t["ev"], position=posn, clauses=clauses))

    model_check_finish(v, prop, futures)
    pool.shutdown()

    # ---- vacuity: corrupted traces must be rejected
    if prop == "C12":
        selftest(v, prop, traces, acc, ["swap_ranks", "short_rank", "same_epoch_draw", "break_run"])
    else:
        selftest(v, prop, traces, acc, ["dup_index", "out_of_range"])

    v.assumptions += [
        "the global draw of a configuration is observed as the stream of the same sampler built with world size 1 "
        "(C12: a function of (seed, epoch) only)",
        "'set_epoch changes the draw' / 'ranks are seeded differently' are decided only where a coincidence has "
        "probability < 2^-60 (>= 20 distinct values in the draw resp. >= 20 draws from pools with >= 8 remaining)",
        "in-domain inputs: every class non-empty, both pools non-empty, at least `size` positive weights, "
        "repeated augmentation only with shuffle=True, RandomSampler with default num_samples",
        "TLC 1.8 and CommunityModules Json are trusted; bounds of the exhaustive grids as in the cfg files",
    ]
    v.coverage["exhaustive"] = False
    return v.finish()
