"""C07 / C08 / C09: where randomness comes from.

(M) TLC checks the forwarding rule of set_rng / worker_init_fn on transform trees (RngFlow.tla): with no forgetful kind
    every token drawn after an injection / worker initialisation stems from the injected / worker generator and the
    global generator is untouched; a forgetful scheduled-transform and a forgetful member-holder are negative controls.
(T) C07: every stochastic transform shipped, every container around it, the ready-made pipelines: two independently
    constructed instances (different global states, different call histories before injection), equal injected seeds,
    re-injection; observed: output / ctx digests and the state of the three process-global generators around every call.
    C08: seeded sample wrappers, access orders, global perturbations, simulated workers (deep copies), a draw-probe
    transform. C09: worker initialisation in two copies with equal / different seeds; generator-state table per
    object-graph path. TLC decides every clause (RngFlowTrace.tla).
"""
import copy
import json
import os
import random

import numpy as np

from kdverif import core, tlc, tracecheck
from kdverif import graphwalk as gw


# ---------------------------------------------------------------- trees for C07
def build_trees(quick, r):
    import catalog
    leaves = catalog.leaf_catalog()
    pipes = catalog.pipelines()
    cont = catalog.containers()
    trees = []  # (name, make, input kind)
    for name, (mk, kind) in leaves.items():
        trees.append((name, mk, kind))
    for name, (mk, kind) in pipes.items():
        trees.append((name, mk, kind))
    single = [(n, mk, k) for n, (mk, k) in leaves.items() if not k.startswith("semseg")]
    for cname in ("compose", "compose2", "randomapply", "scheduled"):
        wrap = cont[cname][0]
        for n, mk, k in single:
            trees.append((f"{cname}({n})", (lambda w=wrap, m=mk: w(m)), k))
    # patchwise: the child sees 8x8 tensor patches
    pw = cont["patchwise"][0]
    for n in ("KDRandomHorizontalFlip.tensor", "KDAdditiveGaussianNoise", "KDAdditiveUniformNoise", "KDThreshold",
              "KDRandomThreshold", "KDRandomAdditiveGaussianNoise", "KDRandomErasing", "KDRandomGaussianBlurTV"):
        mk = leaves[n][0]
        trees.append((f"patchwise({n})", (lambda m=mk: pw(m)), "tensor16"))
        trees.append((f"patchwise(compose({n}))", (lambda m=mk: pw(lambda: cont['compose'][0](m))), "tensor16"))
        trees.append((f"compose(patchwise({n}))", (lambda m=mk: cont['compose'][0](lambda: pw(m))), "tensor16"))
    # depth 2 and 3 nestings
    pairs = [("compose", "randomapply"), ("randomapply", "compose"), ("scheduled", "compose"), ("compose", "scheduled"),
             ("randomapply", "scheduled"), ("scheduled", "randomapply"), ("compose2", "compose")]
    sub = single if not quick else [single[i] for i in sorted(r.sample(range(len(single)), 12))]
    for a, b in pairs:
        for n, mk, k in sub:
            trees.append((f"{a}({b}({n}))", (lambda wa=cont[a][0], wb=cont[b][0], m=mk: wa(lambda: wb(m))), k))
    for n, mk, k in sub[:: (3 if quick else 1)]:
        trees.append((f"compose(randomapply(scheduled({n})))",
                      (lambda m=mk: cont['compose'][0](lambda: cont['randomapply'][0](lambda: cont['scheduled'][0](m)))), k))
    return trees


def c07_trace(tid, name, mk, kind, ncalls, r):
    """Two independently constructed instances, two seeds, three rounds. Every call is logged under (seed, k, input):
    round 0  instance by instance: inject, K calls
    round 1  re-injection; instance 2 is additionally rescaled to strength 1 right after the injection (strength 1 =
             the constructed ranges, so nothing the property talks about may change)
    round 2  both instances are injected first and then called alternately (two live instances must not share state)
    Instance 2 has a history before the first injection: a few calls and a strength round trip 0 -> 1."""
    import catalog
    ev = []
    seeds = [0, r.randint(1, 10 ** 6)]
    undrawn = set()

    def fail(seed, what, e):
        ev.append(dict(a="call", seed=seed, k=0, inp=0, out=0, ctx=0, gadv=[], exc=f"{what}:{type(e).__name__}:{str(e)[:120]}"))
        return dict(id=tid, cfg=dict(name=name), ev=ev), undrawn

    try:
        insts = []
        for inst in (1, 2):
            gw.perturb_globals(1000 * inst + r.randint(0, 999))
            t = mk()
            if inst == 2:
                # a history before the seed is injected: calls, and a strength round trip back to the constructed ranges
                for h in range(r.randint(1, 4)):
                    t(catalog.fresh_input(kind, h), {})
                if hasattr(t, "scale_strength"):
                    t.scale_strength(0.)
                    t(catalog.fresh_input(kind, 0), {})
                    t.scale_strength(1.)
            insts.append(t)
    except Exception as e:
        return fail(0, "construct", e)
    cls = gw.ClassIds()

    def one_call(t, seed, k):
        x = catalog.fresh_input(kind, k)
        ctx = {}
        g0 = gw.global_states()
        try:
            out = t(x, ctx)
            exc = ""
        except Exception as e:
            out, exc = None, f"call:{type(e).__name__}:{str(e)[:120]}"
        g1 = gw.global_states()
        gadv = sorted(n for n in g0 if g0[n] != g1[n])
        ev.append(dict(a="call", seed=seed, k=k, inp=k % 3, out=cls(gw.canon(out)), ctx=cls(gw.canon(ctx)), gadv=gadv,
                       exc=exc))
        return not exc

    for rep in range(3):
        for si, seed in enumerate(seeds):
            if rep < 2:
                for inst, t in enumerate(insts, start=1):
                    try:
                        t.set_rng(np.random.default_rng(seed))
                        if rep == 1 and inst == 2 and hasattr(t, "scale_strength"):
                            t.scale_strength(1.)
                    except Exception as e:
                        return fail(seed, "set_rng", e)
                    gw.perturb_globals(77 * inst + 13 * rep + si + r.randint(0, 10 ** 6))
                    for k in range(ncalls):
                        if not one_call(t, seed, k):
                            return dict(id=tid, cfg=dict(name=name), ev=ev), undrawn
            else:
                try:
                    for t in insts:
                        t.set_rng(np.random.default_rng(seed))
                except Exception as e:
                    return fail(seed, "set_rng", e)
                gw.perturb_globals(991 + si + r.randint(0, 10 ** 6))
                for k in range(ncalls):
                    for t in insts:
                        if not one_call(t, seed, k):
                            return dict(id=tid, cfg=dict(name=name), ev=ev), undrawn
    return dict(id=tid, cfg=dict(name=name, kind=kind, ncalls=ncalls), ev=ev), undrawn


# ---------------------------------------------------------------- C08: seeded sample wrappers
def make_datasets():
    import torch
    from kappadata.datasets.kd_dataset import KDDataset
    from kappadata.transforms.base.kd_stochastic_transform import KDStochasticTransform
    import catalog

    class ImgDS(KDDataset):
        def __init__(self, n, kind, collators=None):
            super().__init__(collators=collators)
            self.n, self.kind = n, kind

        def __len__(self):
            return self.n

        def getitem_x(self, idx, ctx=None):
            x = catalog.fresh_input(self.kind if not self.kind.startswith("semseg") else "tensor", int(idx) % 3)
            if self.kind.startswith("semseg"):
                return catalog.fresh_input(self.kind, int(idx) % 3)[0]
            return x

        def getitem_y(self, idx, ctx=None):
            return self.getitem_x(idx, ctx)

        def getitem_class(self, idx, ctx=None):
            return int(idx) % 3

        def getitem_semseg(self, idx, ctx=None):
            return catalog.fresh_input("semseg", int(idx) % 3)[1]

        def getshape_class(self):
            return (3,)

    class DrawProbe(KDStochasticTransform):
        """returns its first four draws (makes 'different indices draw from different streams' exact)"""

        def __call__(self, x, ctx=None):
            return torch.tensor(self.rng.integers(0, 2 ** 31, size=4))

    return ImgDS, DrawProbe


def c08_stacks(quick, r):
    """(name, build(seed) -> dataset, item, probe?)"""
    import catalog
    import kappadata.transforms as T
    from kappadata.wrappers.sample_wrappers.x_transform_wrapper import XTransformWrapper
    from kappadata.wrappers.sample_wrappers.y_transform_wrapper import YTransformWrapper
    from kappadata.wrappers.sample_wrappers.kd_multi_view_wrapper import KDMultiViewWrapper
    from kappadata.wrappers.sample_wrappers.kd_mix_wrapper import KDMixWrapper
    from kappadata.wrappers.sample_wrappers.semseg_transform_wrapper import SemsegTransformWrapper
    from kappadata.wrappers.sample_wrappers.x_repeat_wrapper import XRepeatWrapper
    from kappadata.datasets.kd_wrapper import KDWrapper
    from kappadata.transforms.base.kd_scheduled_transform import KDScheduledTransform
    from kappaschedules import ConstantSchedule
    ImgDS, DrawProbe = make_datasets()
    leaves = catalog.leaf_catalog()
    cont = catalog.containers()

    class Plain(KDWrapper):
        pass

    S = []
    names = [n for n, (mk, k) in leaves.items() if k in ("pil", "tensor")]
    if quick:
        variants = [n for n in names if "." in n]  # non-default constructor variants are always in
        names = sorted(set(r.sample(names, 10)) | set(variants))
    for n in names:
        mk, k = leaves[n]
        S.append((f"X({n})", (lambda s, mk=mk, k=k: XTransformWrapper(ImgDS(6, k), mk(), seed=s)), "x", False))
        S.append((f"X(compose({n}))", (lambda s, mk=mk, k=k: XTransformWrapper(ImgDS(6, k), cont["compose"][0](mk), seed=s)), "x", False))
        S.append((f"X(randomapply({n}))", (lambda s, mk=mk, k=k: XTransformWrapper(ImgDS(6, k), cont["randomapply"][0](mk), seed=s)), "x", False))
        S.append((f"X(scheduled({n}))", (lambda s, mk=mk, k=k: XTransformWrapper(ImgDS(6, k), KDScheduledTransform(mk(), schedule=ConstantSchedule(value=0.5)), seed=s)), "x", False))
        # containers inside containers: the per-index generator has to pass through every container kind, whatever
        # the outer container reports about itself
        S.append((f"X(compose(scheduled({n})))", (lambda s, mk=mk, k=k: XTransformWrapper(ImgDS(6, k), T.KDComposeTransform([KDScheduledTransform(mk(), schedule=ConstantSchedule(value=0.5))]), seed=s)), "x", False))
        S.append((f"Plain(X({n}))", (lambda s, mk=mk, k=k: Plain(XTransformWrapper(Plain(ImgDS(6, k)), mk(), seed=s))), "x", False))
        S.append((f"MV({n})", (lambda s, mk=mk, k=k: KDMultiViewWrapper(ImgDS(6, k), configs=[(2, mk()), (1, cont["compose"][0](mk))], seed=s)), "x", False))
    tens = [n for n in names if leaves[n][1] == "tensor"]
    for n in tens[:4]:
        mk = leaves[n][0]
        S.append((f"X(patchwise({n}))", (lambda s, mk=mk: XTransformWrapper(ImgDS(6, "tensor16"), cont["patchwise"][0](mk), seed=s)), "x", False))
        S.append((f"Y({n})", (lambda s, mk=mk: YTransformWrapper(ImgDS(6, "tensor"), mk(), seed=s)), "y", False))
    # probes: the transform returns its draws
    S.append(("X(probe)", (lambda s: XTransformWrapper(ImgDS(8, "tensor"), DrawProbe(), seed=s)), "x", True))
    S.append(("X(compose(probe))", (lambda s: XTransformWrapper(ImgDS(8, "tensor"), T.KDComposeTransform([DrawProbe()]), seed=s)), "x", True))
    S.append(("X(randomapply1(probe))", (lambda s: XTransformWrapper(ImgDS(8, "tensor"), T.KDRandomApply(DrawProbe(), p=1.0), seed=s)), "x", True))
    S.append(("X(scheduled(probe))", (lambda s: XTransformWrapper(ImgDS(8, "tensor"), KDScheduledTransform(DrawProbe(), schedule=ConstantSchedule(value=0.5)), seed=s)), "x", True))
    S.append(("X(compose(scheduled(probe)))", (lambda s: XTransformWrapper(ImgDS(8, "tensor"), T.KDComposeTransform([KDScheduledTransform(DrawProbe(), schedule=ConstantSchedule(value=0.5))]), seed=s)), "x", True))
    S.append(("X(compose(probe,scheduled(compose(probe))))", (lambda s: XTransformWrapper(ImgDS(8, "tensor"), T.KDComposeTransform([DrawProbe(), KDScheduledTransform(T.KDComposeTransform([DrawProbe()]), schedule=ConstantSchedule(value=0.5))]), seed=s)), "x", True))
    S.append(("X(compose(randomapply1(probe)))", (lambda s: XTransformWrapper(ImgDS(8, "tensor"), T.KDComposeTransform([T.KDRandomApply(DrawProbe(), p=1.0)]), seed=s)), "x", True))
    S.append(("X(scheduled(randomapply1(probe)))", (lambda s: XTransformWrapper(ImgDS(8, "tensor"), KDScheduledTransform(T.KDRandomApply(DrawProbe(), p=1.0), schedule=ConstantSchedule(value=0.5)), seed=s)), "x", True))
    S.append(("MV(probe)", (lambda s: KDMultiViewWrapper(ImgDS(8, "tensor"), configs=[(2, DrawProbe())], seed=s)), "x", True))
    S.append(("MV(probe,probe)", (lambda s: KDMultiViewWrapper(ImgDS(8, "tensor"), configs=[(1, DrawProbe()), (1, DrawProbe())], seed=s)), "x", True))
    S.append(("MV(probe,compose(probe),probe)", (lambda s: KDMultiViewWrapper(ImgDS(8, "tensor"), configs=[
        (1, DrawProbe()), (2, T.KDComposeTransform([DrawProbe()])), (1, DrawProbe())], seed=s)), "x", True))
    S.append(("Plain(X(probe))", (lambda s: Plain(XTransformWrapper(Plain(ImgDS(8, "tensor")), DrawProbe(), seed=s))), "x", True))
    # the ready-made wrappers of kappadata.common
    from kappadata.common.wrappers.sample_wrappers.byol_multi_view_wrapper import ByolMultiViewWrapper
    from kappadata.common.wrappers.sample_wrappers.imagenet_minaug_multi_view_wrapper import ImagenetMinaugMultiViewWrapper
    from kappadata.common.wrappers.sample_wrappers.imagenet_minaug_x_transform_wrapper import ImagenetMinaugXTransformWrapper
    from kappadata.common.wrappers.sample_wrappers.mugs_multi_view_wrapper import MUGSMultiViewWrapper
    S.append(("MinaugMV", (lambda s: ImagenetMinaugMultiViewWrapper(ImgDS(5, "pil32"), size=8, seed=s)), "x", False))
    S.append(("MinaugX", (lambda s: ImagenetMinaugXTransformWrapper(ImgDS(5, "pil32"), size=8, seed=s)), "x", False))
    S.append(("MUGS", (lambda s: MUGSMultiViewWrapper(ImgDS(5, "pil32"), global_size=8, local_size=8, num_local_crops=2, seed=s)), "x", False))
    if not quick:
        S.append(("ByolMV", (lambda s: ByolMultiViewWrapper(ImgDS(4, "pil32"), seed=s)), "x", False))
    # sample-level mix (fused x+class) and segmentation transforms
    S.append(("Mix", (lambda s: KDMixWrapper(ImgDS(6, "tensor16"), mixup_alpha=1.0, mixup_p=0.7, seed=s)), "xclass", False))
    S.append(("X(Mix)", (lambda s: XTransformWrapper(KDMixWrapper(ImgDS(6, "tensor16"), mixup_alpha=1.0, mixup_p=0.7, seed=s),
                                                    leaves["KDAdditiveGaussianNoise"][0](), seed=s)), "xclass", False))
    from kappadata.transforms.semseg.kd_semseg_random_crop import KDSemsegRandomCrop
    from kappadata.transforms.semseg.kd_semseg_random_horizontal_flip import KDSemsegRandomHorizontalFlip
    S.append(("Semseg", (lambda s: SemsegTransformWrapper(ImgDS(6, "semseg"), transforms=[
        KDSemsegRandomHorizontalFlip(p=0.5), KDSemsegRandomCrop(size=(8, 10)), leaves["KDAdditiveGaussianNoise"][0]()], seed=s)),
        "xsemseg", False))
    return S


def get_item(ds, item, i):
    if item == "x":
        return ds.getitem_x(i)
    if item == "y":
        return ds.getitem_y(i)
    if item == "xclass":
        return [ds.getitem_xclass(i), ds.getitem_x(i), ds.getitem_class(i)]
    if item == "xsemseg":
        return [ds.getitem_xsemseg(i), ds.getitem_x(i), ds.getitem_semseg(i)]
    raise ValueError(item)


def c08_trace(tid, name, build, item, probe, r, nreq):
    ev = []
    cls = gw.ClassIds()
    seeds = [0, r.randint(1, 10 ** 5)]  # seed 0 is a seed like any other
    try:
        for seed in seeds:
            gw.perturb_globals(r.randint(0, 10 ** 6))
            base = build(seed)
            n = len(base)
            # "workers": deep copies (what fork gives a dataloader worker), each initialised with its own global seed
            copies = [copy.deepcopy(base), copy.deepcopy(base), copy.deepcopy(base)]
            # a scheduled transform changes its strength with training progress once a worker is initialised - the
            # stacks use a constant schedule and every copy is initialised; otherwise one copy stays un-initialised
            first = 0 if "scheduled" in name else 1
            for w, c in enumerate(copies[first:], start=1):
                np.random.seed(1234 + w + r.randint(0, 999))
                c.worker_init_fn(0, batch_size=2, dataset_len=n, world_size=1, drop_last=True, updates=100000)
            for q in range(nreq):
                i = r.randrange(n)
                c = copies[r.randrange(len(copies))]
                if r.random() < 0.3:
                    gw.perturb_globals(r.randint(0, 10 ** 6))
                try:
                    out = get_item(c, item, i)
                    exc = ""
                except Exception as e:
                    out, exc = None, f"{type(e).__name__}:{str(e)[:120]}"
                ev.append(dict(a="req", seed=seed, i=i, v=0, out=cls(gw.canon(out)), probe=bool(probe), exc=exc))
                if exc:
                    return dict(id=tid, cfg=dict(name=name), ev=ev)
                if probe and isinstance(out, (list, tuple)) and len(out) > 1:
                    # every view of a multi-view sample is a stream of its own: no view of ANOTHER index may replay it
                    for k, view in enumerate(out, start=1):
                        ev.append(dict(a="req", seed=seed, i=i, v=k, out=cls(gw.canon(view)), probe=True, exc=""))
    except Exception as e:
        ev.append(dict(a="req", seed=0, i=0, v=0, out=0, probe=False, exc=f"setup:{type(e).__name__}:{str(e)[:160]}"))
    return dict(id=tid, cfg=dict(name=name), ev=ev)


# ---------------------------------------------------------------- C09: worker initialisation
def _identity_view(x):
    return x


def c09_stacks(quick, r):
    """(name, build() -> dataset with ModeWrapper-less stack, item)"""
    import catalog
    import kappadata.transforms as T
    from kappadata.wrappers.sample_wrappers.x_transform_wrapper import XTransformWrapper
    from kappadata.wrappers.sample_wrappers.kd_multi_view_wrapper import KDMultiViewWrapper
    from kappadata.wrappers.sample_wrappers.kd_mix_wrapper import KDMixWrapper
    from kappadata.wrappers.sample_wrappers.semseg_transform_wrapper import SemsegTransformWrapper
    from kappadata.datasets.kd_subset import KDSubset
    from kappadata.datasets.kd_concat_dataset import KDConcatDataset
    from kappadata.datasets.kd_wrapper import KDWrapper
    from kappadata.wrappers import ModeWrapper
    from kappadata.collators.kd_mix_collator import KDMixCollator
    ImgDS, DrawProbe = make_datasets()
    leaves = catalog.leaf_catalog()
    cont = catalog.containers()

    class Plain(KDWrapper):
        pass

    S = []
    names = [n for n, (mk, k) in leaves.items() if k in ("pil", "tensor")]
    if quick:
        names = sorted(r.sample(names, 10))
    for n in names:
        mk, k = leaves[n]
        S.append((f"X({n})", (lambda mk=mk, k=k: XTransformWrapper(ImgDS(6, k), mk())), "x"))
        for c in ("compose", "randomapply", "scheduled"):
            S.append((f"X({c}({n}))", (lambda mk=mk, k=k, c=c: XTransformWrapper(ImgDS(6, k), cont[c][0](mk))), "x"))
        S.append((f"X(compose(scheduled({n})))", (lambda mk=mk, k=k: XTransformWrapper(ImgDS(6, k), cont["compose"][0](lambda: cont["scheduled"][0](mk)))), "x"))
        S.append((f"MV({n})", (lambda mk=mk, k=k: KDMultiViewWrapper(ImgDS(6, k), configs=[(2, mk()), (1, cont["compose"][0](mk))])), "x"))
        # a plain callable view (no KDTransform) before the stochastic one; a transform given as a list (config form)
        S.append((f"MV(callable,{n})", (lambda mk=mk, k=k: KDMultiViewWrapper(ImgDS(6, k), configs=[(1, _identity_view), (1, mk())])), "x"))
        S.append((f"X([{n}])", (lambda mk=mk, k=k: XTransformWrapper(ImgDS(6, k), [mk()])), "x"))
        S.append((f"Mode(Plain(X({n})))", (lambda mk=mk, k=k: ModeWrapper(Plain(XTransformWrapper(ImgDS(6, k), mk())), mode="x")), "mode"))
        S.append((f"Subset(X({n}))", (lambda mk=mk, k=k: KDSubset(XTransformWrapper(ImgDS(6, k), mk()), [0, 2, 3])), "x"))
        S.append((f"Concat(X({n}),X({n}))", (lambda mk=mk, k=k: KDConcatDataset([XTransformWrapper(ImgDS(3, k), mk()), XTransformWrapper(ImgDS(3, k), mk())])), "x"))
    for n in [m for m in names if leaves[m][1] == "tensor"][:4]:
        mk = leaves[n][0]
        S.append((f"X(patchwise({n}))", (lambda mk=mk: XTransformWrapper(ImgDS(6, "tensor16"), cont["patchwise"][0](mk))), "x"))

    # a SEEDED transform wrapper above an UNSEEDED stochastic one: the lower one still gets its own stream per worker
    for n in names[:3]:
        mk, k = leaves[n]
        S.append((f"Xseeded(X({n}))", (lambda mk=mk, k=k: XTransformWrapper(XTransformWrapper(ImgDS(6, k), mk()), mk(), seed=5)), "x"))

    # a concat whose FIRST part is a plain root and whose second part carries the stochastic transform
    mkc, kc = leaves[names[0]]
    S.append((f"Mode(Concat(plain root, X({names[0]})))",
              (lambda: ModeWrapper(KDConcatDataset([ImgDS(3, kc), XTransformWrapper(ImgDS(3, kc), mkc())]), mode="x")), "mode"))

    def shared_configs():
        # a seeded evaluation wrapper and an unseeded training wrapper built from the SAME configuration objects live
        # in one worker (what the interleaved scheduler's concat dataset holds); the probe returns its draws
        cfgs = [(1, DrawProbe())]
        return KDConcatDataset([KDMultiViewWrapper(ImgDS(3, "tensor"), configs=cfgs, seed=5),
                                KDMultiViewWrapper(ImgDS(3, "tensor"), configs=cfgs)])
    S.append(("Concat(MVseeded(cfg),MV(cfg)) one configuration object, probe", shared_configs, "x"))
    # the concat dataset the InterleavedSampler builds over main + side datasets (its own worker_init_fn)
    from kappadata.samplers.interleaved_sampler import InterleavedSampler, InterleavedSamplerConfig
    from torch.utils.data import SequentialSampler

    def interleaved(mk, k):
        main = ModeWrapper(XTransformWrapper(ImgDS(4, k), mk()), mode="x")
        side = ModeWrapper(XTransformWrapper(ImgDS(3, k), cont["compose"][0](mk)), mode="x")
        s = InterleavedSampler(main_sampler=SequentialSampler(main), batch_size=2, epochs=1,
                               configs=[InterleavedSamplerConfig(sampler=SequentialSampler(side), every_n_epochs=1)])
        return s.dataset

    # collators registered on the root dataset are re-seeded by the root's worker_init_fn
    def with_collator(mk):
        col = KDMixCollator(mixup_alpha=1.0, mixup_p=1.0, apply_mode="sample", lamb_mode="sample", shuffle_mode="random",
                            dataset_mode="x", return_ctx=False)
        return ModeWrapper(Plain(XTransformWrapper(ImgDS(8, "tensor16", collators=[col]), mk())), mode="x")

    S.append(("Mode(Plain(X(noise))) + root KDMixCollator", (lambda: with_collator(leaves["KDAdditiveGaussianNoise"][0])), "collate"))

    # collators registered through the containers (compose collator, single-collator wrapper)
    from kappadata.collators.base.kd_compose_collator import KDComposeCollator
    from kappadata.collators.base.kd_single_collator_wrapper import KDSingleCollatorWrapper

    def mixcol():
        return KDMixCollator(mixup_alpha=1.0, mixup_p=1.0, apply_mode="sample", lamb_mode="sample", shuffle_mode="random")

    def with_container(kind):
        if kind == "compose":
            col = KDComposeCollator([mixcol(), mixcol()], dataset_mode="x", return_ctx=False)
        else:
            col = KDSingleCollatorWrapper(mixcol(), dataset_mode="x", return_ctx=False)
        return ModeWrapper(XTransformWrapper(ImgDS(8, "tensor16", collators=[col]), leaves["KDAdditiveGaussianNoise"][0]()), mode="x")

    S.append(("Mode(X(noise)) + root KDComposeCollator[mix, mix]", (lambda: with_container("compose")), "collate"))
    S.append(("Mode(X(noise)) + root KDSingleCollatorWrapper(mix)", (lambda: with_container("wrapper")), "collate"))
    # no wrapper at all between ModeWrapper and the root that carries the stochastic collator
    S.append(("Mode(root + KDSingleCollatorWrapper(mix)), no wrappers",
              (lambda: ModeWrapper(ImgDS(8, "tensor16", collators=[KDSingleCollatorWrapper(mixcol(), dataset_mode="x", return_ctx=False)]),
                                   mode="x")), "collate"))

    # two different wrapper stacks over the SAME root dataset inside the interleaved concat dataset
    def interleaved_shared_root(mk, k):
        root = ImgDS(4, k)
        main = ModeWrapper(XTransformWrapper(root, mk()), mode="x")
        side = ModeWrapper(XTransformWrapper(root, cont["compose"][0](mk)), mode="x")
        s = InterleavedSampler(main_sampler=SequentialSampler(main), batch_size=2, epochs=1,
                               configs=[InterleavedSamplerConfig(sampler=SequentialSampler(side), every_n_epochs=1)])
        return s.dataset

    mk0, k0 = leaves[names[0]]
    S.append((f"InterleavedConcat(two stacks over one root: X({names[0]}), X(compose({names[0]})))",
              (lambda: interleaved_shared_root(mk0, k0)), "concat8"))
    for n in names[:3]:
        mk, k = leaves[n]
        S.append((f"InterleavedConcat(X({n}),X(compose({n})))", (lambda mk=mk, k=k: interleaved(mk, k)), "concat7"))
    from kappadata.common.wrappers.sample_wrappers.imagenet_minaug_multi_view_wrapper import ImagenetMinaugMultiViewWrapper
    from kappadata.common.wrappers.sample_wrappers.mugs_multi_view_wrapper import MUGSMultiViewWrapper
    S.append(("MinaugMV", (lambda: ImagenetMinaugMultiViewWrapper(ImgDS(5, "pil32"), size=8)), "x"))
    S.append(("MUGS", (lambda: MUGSMultiViewWrapper(ImgDS(5, "pil32"), global_size=8, local_size=8, num_local_crops=2)), "x"))
    from kappadata.transforms.semseg.kd_semseg_random_crop import KDSemsegRandomCrop
    from kappadata.transforms.semseg.kd_semseg_random_horizontal_flip import KDSemsegRandomHorizontalFlip
    S.append(("Semseg", (lambda: SemsegTransformWrapper(ImgDS(6, "semseg"), transforms=[
        KDSemsegRandomHorizontalFlip(p=0.5), KDSemsegRandomCrop(size=(8, 10)), leaves["KDAdditiveGaussianNoise"][0]()])), "xsemseg"))
    return S


def c09_trace(tid, name, build, item, r, nreq):
    ev = []
    cls = gw.ClassIds()
    try:
        gw.perturb_globals(r.randint(0, 10 ** 6))
        base = build()
        n = 3 if item == "mode" else len(base)
        if tid % 2 == 0:
            # the dataset was already initialised once in the main process (the way a num_workers=0 pass is prepared):
            # workers forked afterwards must be initialised all the same
            kw0 = dict(batch_size=2, world_size=1, drop_last=True, updates=100000)
            if item not in ("concat7", "concat8"):
                kw0["dataset_len"] = n if item != "collate" else 8
            base.worker_init_fn(0, **kw0)
        indexed = item in ("mode", "concat7", "concat8")
        if item == "collate":
            n = 8
        for sameseed in (False, True):
            wsa = r.randint(1, 10 ** 6)
            wsb = wsa if sameseed else wsa + 1 + r.randint(0, 1000)
            # each simulated worker runs its whole life before the next one starts (a worker is its own process)
            st0, st1, outs = [], [], []
            for ws in (wsa, wsb):
                c = copy.deepcopy(base)
                gw.perturb_globals(ws)  # what the DataLoader does in a worker before calling worker_init_fn
                kw = dict(batch_size=2, world_size=1, drop_last=True, updates=100000)
                if item not in ("concat7", "concat8"):  # the interleaved concat dataset passes each part's own length
                    kw["dataset_len"] = n
                c.worker_init_fn(0, **kw)
                st0.append({p: gw.gen_state(g) for p, g in gw.walk_generators(c).items()})
                o = []
                for q in range(nreq):
                    i = q % n
                    if item == "collate":
                        val = c.collators[0]([c[(i + j) % n] for j in range(4)])
                    else:
                        val = c[i] if indexed else get_item(c, item, i)
                    o.append(cls(gw.canon(val)))
                outs.append(o)
                st1.append({p: gw.gen_state(g) for p, g in gw.walk_generators(c).items()})
            for p in sorted(st0[0]):
                if p not in st0[1]:
                    continue
                drawn = (st1[0].get(p) != st0[0][p]) or (st1[1].get(p) != st0[1][p])
                ev.append(dict(a="node", path=p, sameseed=sameseed, drawn=bool(drawn), sa=cls(st0[0][p]), sb=cls(st0[1][p]),
                               exc=""))
            # the same worker seed reproduces the same outputs
            ev.append(dict(a="node", path="<outputs>", sameseed=sameseed, drawn=False, sa=cls(gw.canon(outs[0])),
                           sb=cls(gw.canon(outs[1])), exc=""))
            if name.startswith("Concat(MVseeded(cfg),MV(cfg))") and nreq >= 6:
                # the draws the UNSEEDED part handed out (after its seeded sibling was read): a worker stream like any other
                ev.append(dict(a="node", path="<draws of the unseeded part>", sameseed=sameseed, drawn=True,
                               sa=cls(gw.canon(outs[0][3:6])), sb=cls(gw.canon(outs[1][3:6])), exc=""))
    except Exception as e:
        ev.append(dict(a="node", path="", sameseed=False, drawn=False, sa=0, sb=0, exc=f"{type(e).__name__}:{str(e)[:160]}"))
    return dict(id=tid, cfg=dict(name=name), ev=ev)



C08_SUBPROC = r"""
import json, os, sys, random, warnings
warnings.filterwarnings("ignore")
sys.path.insert(0, sys.argv[1]); sys.path.insert(0, sys.argv[2]); sys.path.insert(0, sys.argv[3])
os.environ["VERIF_REPO"] = sys.argv[1]
from kdverif import core
core.use_repo()
from kdverif import graphwalk as gw
import rngflow
want = json.loads(sys.argv[4])
stacks = {s_[0]: s_ for s_ in rngflow.c08_stacks(False, random.Random(0))}
out = []
for name, seed, idxs in want:
    _, build, item, probe = stacks[name]
    gw.perturb_globals(4242)
    ds = build(seed)
    out.append([name, seed, [[i, gw.canon(rngflow.get_item(ds, item, i))] for i in idxs]])
print("RESULT" + json.dumps(out))
"""


def c08_other_processes(names, r):
    """The same stacks in fresh interpreter processes with different string-hash seeds: the value of (seed, i) must not
    depend on the process it is computed in. Returns {name: {(seed, i): [digests...]}}"""
    import subprocess
    import sys as _sys
    here = os.path.dirname(os.path.abspath(__file__))
    want = [[n, sd, [0, 1, 3]] for n in names for sd in (0, 4711)]
    res = {}
    for hs in ("0", "1", "2"):
        env = dict(os.environ, PYTHONHASHSEED=hs, OMP_NUM_THREADS="1")
        p = subprocess.run([_sys.executable, "-c", C08_SUBPROC, core.REPO, os.path.dirname(here), here, json.dumps(want)],
                           stdout=subprocess.PIPE, stderr=subprocess.PIPE, text=True, env=env, timeout=600)
        line = [ln for ln in p.stdout.splitlines() if ln.startswith("RESULT")]
        if not line:
            raise tlc.TLCError(f"C08 sub-interpreter failed: {p.stderr[-800:]}")
        for name, seed, vals in json.loads(line[0][6:]):
            for i, dig in vals:
                res.setdefault(name, {}).setdefault((seed, i), []).append(dig)
    return res


# ---------------------------------------------------------------- real DataLoader workers
class _StateProbeDS:
    """wraps a dataset: item i = (worker id, value digest of dataset[i], generator-state table of the worker's copy)"""

    def __init__(self, ds, item):
        self.ds, self.item = ds, item

    def __len__(self):
        return len(self.ds) if self.item != "mode" else 3

    def __getitem__(self, i):
        import torch
        info = torch.utils.data.get_worker_info()
        before = {p: gw.gen_state(g) for p, g in gw.walk_generators(self.ds).items()}
        val = self.ds[i] if self.item == "mode" else get_item(self.ds, self.item, i)
        after = {p: gw.gen_state(g) for p, g in gw.walk_generators(self.ds).items()}
        return (info.id if info is not None else -1, gw.canon(val), before, after)

    def worker_init_fn(self, wid):
        import torch
        torch.set_num_threads(1)
        self.ds.worker_init_fn(wid, batch_size=1, dataset_len=len(self), world_size=1, drop_last=True, updates=100000)


def loader_run(ds, item, num_workers, base_seed, init=True):
    """one pass of a real DataLoader; returns [(index, worker, digest, before, after)] in index order.
    init=False: the loader is created WITHOUT a worker_init_fn (legal; a seeded wrapper does not depend on it)"""
    import torch
    probe = _StateProbeDS(ds, item)
    g = torch.Generator()
    g.manual_seed(base_seed)
    dl = torch.utils.data.DataLoader(probe, batch_size=1, shuffle=False, num_workers=num_workers, collate_fn=lambda b: b[0],
                                     worker_init_fn=(probe.worker_init_fn if num_workers > 0 and init else None), generator=g)
    return [(i,) + tuple(x) for i, x in enumerate(dl)]


def c08_mugs_decisions(tid, r):
    """MUGSMultiViewWrapper records its weak/strong decision per sample in the context: one draw per index"""
    from kappadata.common.wrappers.sample_wrappers.mugs_multi_view_wrapper import MUGSMultiViewWrapper
    ImgDS, _ = make_datasets()
    ev = []
    for seed in (0, r.randint(1, 10 ** 5)):
        try:
            ds = MUGSMultiViewWrapper(ImgDS(48, "pil32"), global_size=8, local_size=8, num_local_crops=1, seed=seed)
            vals = []
            for i in range(48):
                ctx = {}
                ds.getitem_x(i, ctx)
                vals.append(int(bool(ctx["is_weak_global_aug"])))
            ev.append(dict(a="vary", vals=vals, exc=""))
        except Exception as e:
            ev.append(dict(a="vary", vals=[], exc=f"{type(e).__name__}:{str(e)[:120]}"))
    return dict(id=tid, cfg=dict(name="MUGS weak/strong decisions over 48 indices"), ev=ev)


def c08_loader_trace(tid, name, build, item, probe, r):
    """the same seeded stack read through real DataLoaders with 0, 2 and 3 workers: value per index must not depend on it"""
    ev = []
    cls = gw.ClassIds()
    seed = r.randint(1, 10 ** 5)
    try:
        for nw, init in ((0, True), (2, True), (3, True), (2, True), (2, False), (1, False)):
            if not init and "scheduled" in name:
                continue    # a scheduled transform needs the worker initialisation for its progress counter
            gw.perturb_globals(r.randint(0, 10 ** 6))
            ds = build(seed)
            for (i, wid, dig, _b, _a) in loader_run(ds, item, nw, r.randint(0, 10 ** 6), init=init):
                ev.append(dict(a="req", seed=seed, i=i, v=0, out=cls(dig), probe=bool(probe), exc=""))
    except Exception as e:
        ev.append(dict(a="req", seed=0, i=0, v=0, out=0, probe=False, exc=f"loader:{type(e).__name__}:{str(e)[:160]}"))
    return dict(id=tid, cfg=dict(name=name + " via DataLoader(0,2,3 workers)"), ev=ev)


def c09_single_worker_trace(tid, name, build, item, r):
    """one real worker: two loaders with different base seeds must start that worker's generators differently,
    the same base seed must reproduce them"""
    ev = []
    cls = gw.ClassIds()
    try:
        gw.perturb_globals(r.randint(0, 10 ** 6))
        ds = build()
        b1 = r.randint(0, 10 ** 6)
        runs = [loader_run(ds, item, 1, b1), loader_run(ds, item, 1, b1 + 1 + r.randint(0, 999)), loader_run(ds, item, 1, b1)]
        tabs = []
        for run_ in runs:
            first, drawn = None, set()
            for (i, wid, dig, before, after) in run_:
                if first is None:
                    first = before
                drawn |= {p for p in before if after.get(p) != before[p]}
            tabs.append((first or {}, drawn))
        for p in sorted(tabs[0][0]):
            if p in tabs[1][0]:
                ev.append(dict(a="node", path=p, sameseed=False, drawn=bool(p in tabs[0][1] or p in tabs[1][1]),
                               sa=cls(tabs[0][0][p]), sb=cls(tabs[1][0][p]), exc=""))
            if p in tabs[2][0]:
                ev.append(dict(a="node", path=p, sameseed=True, drawn=False, sa=cls(tabs[0][0][p]), sb=cls(tabs[2][0][p]), exc=""))
    except Exception as e:
        ev.append(dict(a="node", path="", sameseed=False, drawn=False, sa=0, sb=0, exc=f"loader1:{type(e).__name__}:{str(e)[:160]}"))
    return dict(id=tid, cfg=dict(name=name + " via DataLoader(1 worker, two base seeds)"), ev=ev)


def c09_loader_trace(tid, name, build, item, r):
    """real workers: every member generator that a worker draws from must start in a state that differs between the
    two workers of one loader, and must be the same again when the loader is re-created with the same base seed"""
    ev = []
    cls = gw.ClassIds()
    try:
        gw.perturb_globals(r.randint(0, 10 ** 6))
        ds = build()
        base = r.randint(0, 10 ** 6)
        runs = [loader_run(ds, item, 2, base), loader_run(ds, item, 2, base)]
        first = []  # per run: worker -> (state table at the worker's first item, drawn paths over all its items)
        for run_ in runs:
            tabs = {}
            for (i, wid, dig, before, after) in run_:
                t = tabs.setdefault(wid, dict(first=before, drawn=set()))
                t["drawn"] |= {p for p in before if after.get(p) != before[p]}
            first.append(tabs)
        w = sorted(first[0])
        if len(w) >= 2:
            a, b = first[0][w[0]], first[0][w[1]]
            for p in sorted(a["first"]):
                if p in b["first"]:
                    ev.append(dict(a="node", path=p, sameseed=False, drawn=bool(p in a["drawn"] or p in b["drawn"]),
                                   sa=cls(a["first"][p]), sb=cls(b["first"][p]), exc=""))
        for wid in w:
            if wid in first[1]:
                for p in sorted(first[0][wid]["first"]):
                    if p in first[1][wid]["first"]:
                        ev.append(dict(a="node", path=p, sameseed=True, drawn=False, sa=cls(first[0][wid]["first"][p]),
                                       sb=cls(first[1][wid]["first"][p]), exc=""))
        ev.append(dict(a="node", path="<outputs>", sameseed=True, drawn=False,
                       sa=cls(gw.canon([x[3] for x in runs[0]])), sb=cls(gw.canon([x[3] for x in runs[1]])), exc=""))
    except Exception as e:
        ev.append(dict(a="node", path="", sameseed=False, drawn=False, sa=0, sb=0, exc=f"loader:{type(e).__name__}:{str(e)[:160]}"))
    return dict(id=tid, cfg=dict(name=name + " via DataLoader(2 workers)"), ev=ev)


# ---------------------------------------------------------------- run
def model_check(v, quick):
    res = tlc.run_tlc("RngFlowMC", "RngFlowMC_ok.cfg" if quick else "RngFlowMC_thorough.cfg", name=v.prop + "mc", workers=8,
                      coverage=True, timeout=3000)
    v.add_tlc(res, "RngFlow.tla, no forgetful kind")
    for nm in res.violated:
        v.violation(f"model:{nm}", f"forwarding-rule model violates {nm}", dict(cex=str(res.cex)[:6000]))
    for act in ("AddNode", "Finish", "Perturb", "SetRng", "WorkerInit", "Call"):
        if res.coverage.get(act, (0, 0))[1] == 0:
            raise tlc.TLCError(f"vacuity: action {act} never taken")
    for neg in ("sched", "holder"):
        rn = tlc.run_tlc("RngFlowMC", f"RngFlowMC_{neg}.cfg", name=v.prop + "neg" + neg, workers=4, timeout=600)
        v.add_tlc(rn, f"negative control: forgetful {neg} must violate SeedDetermines")
        if "SeedDetermines" not in rn.violated and "WorkerStreams" not in rn.violated:
            raise tlc.TLCError(f"negative control failed: a forgetful '{neg}' kind should violate SeedDetermines")


def run(prop, tier, seed):
    core.use_repo()
    import warnings
    warnings.filterwarnings("ignore")
    v = core.Verdict(prop, tier, seed)
    quick = tier == "quick"
    r = random.Random(seed * 101 + int(prop[1:]))
    model_check(v, quick)
    traces = []
    diag = {}
    if prop == "C07":
        trees = build_trees(quick, r)
        ncalls = 6 if quick else 16
        for tid, (name, mk, kind) in enumerate(trees, start=1):
            t, und = c07_trace(tid, name, mk, kind, ncalls, r)
            traces.append(t)
        rule = ("one case = one transform tree (leaf / container nesting / ready-made pipeline): two independently "
                "constructed instances, two seeds, injection and re-injection, K calls each on 3 probe inputs; "
                "non-trivial = a container or pipeline (more than one node); distinct by tree name")
        nontriv = lambda t: "(" in t["cfg"]["name"] or "Transform" in t["cfg"]["name"]  # noqa
    elif prop == "C08":
        stacks = c08_stacks(quick, r)
        for tid, (name, build, item, probe) in enumerate(stacks, start=1):
            traces.append(c08_trace(tid, name, build, item, probe, r, 14 if quick else 40))
        # a few stacks through real DataLoaders (all probes + a sample of the others)
        # (no default-scheduled transforms here: their strength follows the worker's progress counter, which a
        # num_workers=0 pass without initialisation does not have - that is the schedule, not a seeding matter)
        pick = [s_ for s_ in stacks if s_[3]][: (2 if quick else 6)] + r.sample(
            [s_ for s_ in stacks if not s_[3] and "scheduled(" not in s_[0]], 3 if quick else 15)
        for (name, build, item, probe) in pick:
            traces.append(c08_loader_trace(len(traces) + 1, name, build, item, probe, r))
        # the same (seed, i) computed in other interpreter processes (different PYTHONHASHSEED)
        multi = [n_ for n_ in ("Mix", "X(Mix)", "X(probe)", "MV(probe)", "Semseg", "MUGS") if n_ in {s_[0] for s_ in stacks}]
        probes = {s_[0]: s_[3] for s_ in stacks}
        for name, table in c08_other_processes(multi, r).items():
            cls = gw.ClassIds()
            ev = [dict(a="req", seed=sd, i=i, v=0, out=cls(d), probe=bool(probes[name]), exc="")
                  for (sd, i), digs in sorted(table.items()) for d in digs]
            traces.append(dict(id=len(traces) + 1, cfg=dict(name=name + " in 3 interpreter processes"), ev=ev))
        traces.append(c08_mugs_decisions(len(traces) + 1, r))
        rule = ("one case = one seeded wrapper stack: two seeds, three copies (the original and two initialised simulated "
                "workers), random request orders with repetitions and global-state perturbations; non-trivial = every "
                "stack (each has a stochastic member); distinct by stack name")
        nontriv = lambda t: True  # noqa
    else:
        stacks = c09_stacks(quick, r)
        for tid, (name, build, item) in enumerate(stacks, start=1):
            traces.append(c09_trace(tid, name, build, item, r, 6 if quick else 12))
        for (name, build, item) in r.sample([s_ for s_ in stacks if s_[2] in ("x", "mode", "xsemseg")], 4 if quick else 20):
            traces.append(c09_loader_trace(len(traces) + 1, name, build, item, r))
            traces.append(c09_single_worker_trace(len(traces) + 1, name, build, item, r))
        rule = ("one case = one dataset stack: worker initialisation in two deep copies with different and with equal "
                "worker seeds, then K requests per copy; one event per member generator (object-graph path); "
                "non-trivial = every stack; distinct by stack name")
        nontriv = lambda t: True  # noqa
    acc, rej, st = tracecheck.validate("RngFlowTrace", tracecheck.write_cfg("RngFlowTrace.cfg", tracecheck.STD_CFG), traces,
                                       prop.lower() + "tv", jobs=8)
    v.coverage["states"] += st["states"]
    v.coverage["transitions"] += st["transitions"]
    v.coverage["traces_validated_against_impl"] = len(traces)
    v.coverage["evaluations"] = sum(len(t["ev"]) for t in traces)
    v.coverage["distinct_nontrivial"] = len({t["cfg"]["name"] for t in traces if nontriv(t)})
    v.coverage["rule"] = rule
    for t in traces:
        if t["id"] in rej:
            pos, clauses = rej[t["id"]]
            e = t["ev"][pos - 1] if pos >= 1 else None
            v.violation(t["cfg"]["name"], f"clauses {clauses} fail at event {pos}: {json.dumps(e)[:300]}",
                        dict(cfg=t["cfg"], ev=t["ev"][: pos + 2]))
    for t in traces[:1] + traces[len(traces) // 2: len(traces) // 2 + 1]:
        v.sample(dict(cfg=t["cfg"], ev=t["ev"][:6]))
    v.assumptions += ["outputs / contexts / generator states are compared by SHA-256 digests of canonical bytes",
                      "simulated workers = deep copies + np.random.seed(ws) + worker_init_fn (what a forked DataLoader "
                      "worker does); fork start method",
                      "decided for the probe inputs and call counts tried"]
    return v.finish()
