"""X01 (extension): InfiniteBatchSampler and the plain epoch samplers it is fed with.

Specifications: specs/InfiniteBatch.tla (normative clauses X_... + the descriptive machine of InfiniteBatchSampler.__iter__
over torch's BatchSampler.__iter__), InfiniteBatchProps.tla (exhaustive), InfiniteBatchRefine.tla (side by side with the
step machine of Interleaved.tla), InfiniteBatchTrace.tla (binding), PlainSamplers(.tla, Props, Trace).

(M) TLC: the descriptive machine satisfies every normative clause, the closed form and the counter relations on a grid
    of geometries x stop arguments; it refines the main stream of Interleaved.tla; ten mutated machines (among them "v0",
    the class as found) are rejected, a BETTER machine ("exact": stops at the update) is accepted by the normative clauses
    - the named deviation Dev_EpochGranularity is not demanded.
(T) the REAL InfiniteBatchSampler runs over a probe around real samplers (kappadata Sequential/Random/Distributed/
    Weighted, a SamplerBase subclass, torch samplers, a plain list, an epoch-tagged harness sampler); the probe logs
    set_epoch / iter / every drawn index / exhaustion, the consumer logs batches and the end of the stream.  TLC evaluates
    the normative clauses at every event of the observed sequence (Obs = verdict) and replays the descriptive machine
    (Desc = NOTE).  Refinement on real code: InfiniteBatchSampler vs InterleavedSampler without side configs.
    Plain samplers: every pass observed at the public API next to an identically seeded twin.
"""
import copy
import json
import os
import random
import signal
import traceback
from concurrent.futures import ThreadPoolExecutor

from kdverif import core, tlc

JOBS = int(os.environ.get("XINF_JOBS", "8"))
MC_WORKERS = int(os.environ.get("XINF_MC_WORKERS", "2"))


# ---------------------------------------------------------------------------------------------- harness objects
class Overrun(BaseException):
    """the probe was asked for far more sampler iterations than any in-domain run needs"""


class Deadline(BaseException):
    """CPU-time deadline of one run"""


def _on_alarm(signum, frame):
    raise Deadline()


class TagDS:
    def __init__(self, n):
        self.n = n

    def __len__(self):
        return self.n

    def __getitem__(self, i):
        if not 0 <= i < self.n:
            raise IndexError(i)
        return int(i)

    def worker_init_fn(self, rank, **kwargs):
        pass


def perm(seed, epoch, n):
    r = random.Random(seed * 1000003 + epoch * 7919 + 17)
    p = list(range(n))
    r.shuffle(p)
    return p


class TagSampler:
    """harness sampler with set_epoch: an epoch-dependent permutation, fixed inside iter() (eager, like torch's
    DistributedSampler)"""

    def __init__(self, data_source, seed):
        self.data_source, self.seed, self.epoch = data_source, seed, 0

    def set_epoch(self, e):
        self.epoch = e

    def __len__(self):
        return len(self.data_source)

    def __iter__(self):
        return iter(perm(self.seed, self.epoch, len(self.data_source)))


class ProbeIter:
    def __init__(self, it, k, log):
        self.it, self.k, self.log = it, k, log

    def __iter__(self):
        return self

    def __next__(self):
        try:
            v = next(self.it)
        except StopIteration:
            self.log.append(dict(a="x", v=-1, k=self.k, b=[]))
            raise
        self.log.append(dict(a="d", v=int(v), k=self.k, b=[]))
        return v


class Probe:
    """stands between the class under test and a real sampler; has no set_epoch"""

    def __init__(self, base, log, max_iters):
        self.base, self.log, self.max_iters, self.k = base, log, max_iters, 0

    @property
    def data_source(self):
        for nm in ("data_source", "dataset"):
            if hasattr(self.base, nm):
                return getattr(self.base, nm)
        return self.base

    def __len__(self):
        return len(self.base)

    def __iter__(self):
        self.k += 1
        if self.k > self.max_iters:
            raise Overrun()
        self.log.append(dict(a="it", v=-1, k=self.k, b=[]))
        return ProbeIter(iter(self.base), self.k, self.log)


class ProbeSE(Probe):
    def set_epoch(self, e):
        self.log.append(dict(a="se", v=(int(e) if isinstance(e, int) and abs(e) < 2 ** 30 else -99), k=-1, b=[]))
        self.base.set_epoch(e)


def probe(base, log, max_iters):
    return (ProbeSE if hasattr(base, "set_epoch") else Probe)(base, log, max_iters)


KINDS_NOSE = ["kdseq", "kdrand", "kdrand2", "tseq", "trand", "list"]
KINDS_SE = ["tag", "kddist", "kddist2", "tdist", "kdweighted", "base"]
# samplers whose k-th iteration does not depend on how far earlier iterations were consumed (InterleavedSampler leaves
# the iterator of every epoch unfinished, a generator-backed RandomSampler then continues from another generator state)
STATELESS = ["kdseq", "tseq", "list", "tag", "kddist", "kddist2", "tdist", "kdweighted", "base"]


def base_sub_cls():
    from kappadata.samplers.base.sampler_base import SamplerBase

    class BaseSub(SamplerBase):
        """the smallest subclass the skeleton asks for: effective_length + _generate_indices"""

        def __init__(self, n, seed, data_source, rank=None, world_size=None):
            super().__init__(rank=rank, world_size=world_size)
            self.n, self.seed, self.data_source = n, seed, data_source

        @property
        def effective_length(self):
            return self.n

        def _generate_indices(self):
            return perm(self.seed, self.epoch, self.n)

    return BaseSub


def make_sampler(kind, n, sseed):
    import torch
    import torch.utils.data as tud
    import kappadata.samplers as ks
    ds = TagDS(n)
    g = lambda: torch.Generator().manual_seed(sseed)  # noqa: E731
    if kind == "kdseq":
        return ks.SequentialSampler(ds)
    if kind == "kdrand":
        return ks.RandomSampler(ds, generator=g())
    if kind == "kdrand2":
        return ks.RandomSampler(ds, generator=g(), num_repeats=2)
    if kind == "tseq":
        return tud.SequentialSampler(ds)
    if kind == "trand":
        return tud.RandomSampler(ds, generator=g())
    if kind == "list":
        return perm(sseed, 0, n)
    if kind == "tag":
        return TagSampler(ds, sseed)
    if kind == "kddist":
        return ks.DistributedSampler(ds, num_replicas=1, rank=0, shuffle=True, seed=sseed)
    if kind == "kddist2":
        return ks.DistributedSampler(ds, num_replicas=2, rank=1, shuffle=True, seed=sseed, num_repeats=2)
    if kind == "tdist":
        return tud.DistributedSampler(ds, num_replicas=1, rank=0, shuffle=True, seed=sseed)
    if kind == "kdweighted":
        return ks.WeightedSampler(ds, weights=torch.arange(1, n + 1).float(), seed=sseed)
    if kind == "base":
        return base_sub_cls()(n, sseed, ds)
    raise ValueError(kind)


def twin_rows(kind, n, sseed, rows):
    """the sampler's own iteration order per epoch, from an independent identically built instance"""
    tw = make_sampler(kind, n, sseed)
    out = []
    for e in range(rows):
        if hasattr(tw, "set_epoch"):
            tw.set_epoch(e)
        out.append([int(i) for i in tw])
    return out


# ---------------------------------------------------------------------------------------------- geometry mirror (bookkeeping)
def SPE(c):
    return (c["N"] // c["B"]) * c["B"] if c["drop"] else c["N"]


def UPE(c):
    return (SPE(c) + c["B"] - 1) // c["B"]


def in_domain(c):
    return c["kind"] == "e" or UPE(c) >= 1


def epochs_needed(c):
    if c["kind"] == "e":
        return c["budget"]
    if c["kind"] == "s":
        return -(-c["budget"] // SPE(c))
    return -(-c["budget"] // UPE(c))


def max_batches(c):
    return c["budget"] if c["kind"] == "n" else epochs_needed(c) * UPE(c)


def stop_kwargs(c):
    return {} if c["kind"] == "n" else {{"e": "epochs", "u": "updates", "s": "samples"}[c["kind"]]: c["budget"]}


def own_refusal(e, fname):
    """an explicit refusal of the component's own making: assert / raise inside its own source file"""
    if not isinstance(e, (AssertionError, NotImplementedError, ValueError)):
        return False
    tb = traceback.extract_tb(e.__traceback__)
    return bool(tb) and tb[-1].filename.endswith(fname)


# ---------------------------------------------------------------------------------------------- recording real runs
def with_deadline(fn, seconds=20):
    old = signal.signal(signal.SIGVTALRM, _on_alarm)
    signal.setitimer(signal.ITIMER_VIRTUAL, seconds)
    try:
        return fn()
    finally:
        signal.setitimer(signal.ITIMER_VIRTUAL, 0)
        signal.signal(signal.SIGVTALRM, old)


def geometry(skind, n, sseed, c0):
    """complete the spec cfg for a run of sampler kind `skind` over a data source of n items"""
    probe_rows = twin_rows(skind, n, sseed, 1)
    c = dict(N=len(probe_rows[0]), B=c0["B"], drop=c0["drop"], kind=c0["kind"], budget=c0["budget"],
             se=hasattr(make_sampler(skind, n, sseed), "set_epoch"), miter=[], bad="")
    if c["N"] < 1 or not in_domain(c):
        return None
    rows = twin_rows(skind, n, sseed, epochs_needed(c) + 1)
    if any(len(r) != c["N"] for r in rows):
        raise tlc.TLCError(f"harness: sampler kind {skind} changes its length between epochs")
    c["miter"] = rows
    return c


def ev(a, v=-1, k=-1, b=()):
    return dict(a=a, v=int(v), k=int(k), b=[int(x) for x in b])


def record_stream(c, skind, n, sseed):
    """run the REAL InfiniteBatchSampler; returns (events, error text)"""
    from kappadata.samplers.infinite_batch_sampler import InfiniteBatchSampler
    log, out, err = [], [], ""
    limit_b = max_batches(c) * 2 + 8
    pr = probe(make_sampler(skind, n, sseed), log, max_iters=epochs_needed(c) * 2 + 4)

    def flush():
        out.extend(log)
        del log[:]

    def body():
        nonlocal err
        try:
            ibs = InfiniteBatchSampler(pr, batch_size=c["B"], drop_last=c["drop"], **stop_kwargs(c))
            it = iter(ibs)
        except Exception as e:  # noqa
            err = f"{type(e).__name__}: {e}"[:200]
            out.append(ev("exc"))
            return
        nb = 0
        while True:
            try:
                batch = next(it)
            except StopIteration:
                flush()
                out.append(ev("stop"))
                return
            except Overrun:
                flush()
                out.append(ev("overrun"))
                return
            except Exception as e:  # noqa: whatever escapes is an observation
                flush()
                err = f"{type(e).__name__}: {e}"[:200]
                out.append(ev("exc"))
                return
            flush()
            try:
                out.append(ev("b", b=batch))
            except Exception as e:  # noqa: not a list of ints
                err = f"batch not a list of ints: {type(e).__name__}"
                out.append(ev("exc"))
                return
            nb += 1
            if c["kind"] == "n" and nb == c["budget"]:
                out.append(ev("cut"))
                return
            if nb > limit_b:
                out.append(ev("overrun"))
                return

    try:
        with_deadline(body)
    except Deadline:
        flush()
        out.append(ev("diverge"))
    return out, err


def run_batches(make_bs, log):
    """list of batches of a batch sampler + the epochs its sampler was told; returns (batches, se list, error)"""
    try:
        def body():
            bs = make_bs()
            res, n = [], 0
            for b in bs:
                res.append([int(i) for i in b])
                n += 1
                if n > 5000:
                    raise Overrun()
            return res
        res = with_deadline(body)
        return res, [e["v"] for e in log if e["a"] == "se"], ""
    except (Overrun, Deadline) as e:
        return [], [], type(e).__name__
    except Exception as e:  # noqa
        return [], [], f"{type(e).__name__}: {e}"[:200]


def record_refine(c, skind, n, sseed):
    from kappadata.samplers.infinite_batch_sampler import InfiniteBatchSampler
    from kappadata.samplers.interleaved_sampler import InterleavedSampler
    cap = epochs_needed(c) * 2 + 4
    l1, l2, l3 = [], [], []
    ib, seib, e1 = run_batches(lambda: InfiniteBatchSampler(probe(make_sampler(skind, n, sseed), l1, cap),
                                                             batch_size=c["B"], drop_last=c["drop"], **stop_kwargs(c)), l1)
    il, seil, e2 = run_batches(lambda: InterleavedSampler(main_sampler=probe(make_sampler(skind, n, sseed), l2, cap),
                                                          batch_size=c["B"], drop_last=c["drop"],
                                                          **stop_kwargs(c)).batch_sampler, l2)
    ile, seile, e3 = run_batches(lambda: InterleavedSampler(main_sampler=probe(make_sampler(skind, n, sseed), l3, cap),
                                                            batch_size=c["B"], drop_last=c["drop"],
                                                            epochs=epochs_needed(c)).batch_sampler, l3)
    err = "; ".join(f"{w}: {e}" for w, e in (("InfiniteBatchSampler", e1), ("InterleavedSampler", e2),
                                             ("InterleavedSampler(epochs)", e3)) if e)
    return dict(ib=ib, il=il, ile=ile, seib=seib, seil=seil, seile=seile, err=err)


def record_loader(c, skind, n, sseed, workers):
    """a real DataLoader over the real InfiniteBatchSampler: which items arrive, in which batches"""
    import torch
    from torch.utils.data import DataLoader
    from kappadata.samplers.infinite_batch_sampler import InfiniteBatchSampler
    log = []

    def body():
        pr = probe(make_sampler(skind, n, sseed), log, epochs_needed(c) * 2 + 8)
        ibs = InfiniteBatchSampler(pr, batch_size=c["B"], drop_last=c["drop"], **stop_kwargs(c))
        # timeout: only a guard against a hung worker process (the CPU-time deadline does not see a blocked wait)
        loader = DataLoader(TagDS(n), batch_sampler=ibs, num_workers=workers, timeout=(300 if workers else 0),
                            collate_fn=lambda items: [int(i) for i in items])
        res = []
        it = iter(loader)
        try:
            for batch in it:
                res.append(batch)
                if (c["kind"] == "n" and len(res) == c["budget"]) or len(res) > 5000:
                    break
        finally:
            del it
        return res

    try:
        torch.set_num_threads(1)
        res = with_deadline(body, seconds=60)
        return dict(ib=res, seib=[e["v"] for e in log if e["a"] == "se"], err="")
    except (Deadline, Overrun) as e:
        return dict(ib=[], seib=[], err=type(e).__name__)
    except Exception as e:  # noqa
        return dict(ib=[], seib=[], err=f"{type(e).__name__}: {e}"[:200])


CTOR_CASES = [  # (name, kwargs, invalid?)
    ("ok_none", {}, False), ("ok_e", dict(epochs=2), False), ("ok_u", dict(updates=3), False),
    ("ok_s", dict(samples=5), False),
    ("zero_e", dict(epochs=0), True), ("zero_u", dict(updates=0), True), ("zero_s", dict(samples=0), True),
    ("neg_e", dict(epochs=-1), True), ("float_u", dict(updates=2.5), True), ("str_s", dict(samples="3"), True),
    ("two_eu", dict(epochs=1, updates=1), True), ("two_us", dict(updates=1, samples=1), True),
    ("three", dict(epochs=1, updates=1, samples=1), True),
]


def record_ctor(kwargs):
    from kappadata.samplers.infinite_batch_sampler import InfiniteBatchSampler
    from kappadata.samplers import SequentialSampler
    try:
        InfiniteBatchSampler(SequentialSampler(TagDS(4)), batch_size=2, drop_last=False, **kwargs)
        return [ev("ok")], ""
    except Exception as e:  # noqa
        if own_refusal(e, "infinite_batch_sampler.py"):
            return [ev("refuse")], ""
        return [ev("exc")], f"{type(e).__name__}: {e}"[:200]


# ---------------------------------------------------------------------------------------------- plain samplers
def plain_cases(quick, r):
    cases = []
    for n in range(1, 7):
        cases.append(dict(kind="seq", n=n, num=n, rep=1, repl=False, W=1, r=0))
        for rep in (1, 2, 3):
            for repl in (False, True):
                for num in sorted({n, 1, max(1, n - 1), n + 1, 2 * n, 2 * n + 1}):
                    cases.append(dict(kind="rand", n=n, num=num, rep=rep, repl=repl, W=1, r=0))
        for W in (1, 2, 3):
            for rk in range(W):
                cases.append(dict(kind="base", n=n, num=n, rep=1, repl=False, W=W, r=rk))
    for _ in range(60 if quick else 600):
        n = r.randint(7, 40)
        k = r.choice(["rand", "rand", "base", "seq"])
        if k == "rand":
            cases.append(dict(kind="rand", n=n, num=r.choice([n, n, r.randint(1, 3 * n)]), rep=r.randint(1, 4),
                              repl=r.random() < 0.4, W=1, r=0))
        elif k == "base":
            W = r.randint(1, 5)
            cases.append(dict(kind="base", n=n, num=n, rep=1, repl=False, W=W, r=r.randrange(W)))
        else:
            cases.append(dict(kind="seq", n=n, num=n, rep=1, repl=False, W=1, r=0))
    return cases


def record_plain(c, sseed, passes=2):
    """observe `passes` consecutive passes of the real sampler and of an identically seeded twin"""
    import torch
    import kappadata.samplers as ks

    def build():
        ds = TagDS(c["n"])
        if c["kind"] == "seq":
            return ks.SequentialSampler(ds)
        if c["kind"] == "rand":
            kw = dict(generator=torch.Generator().manual_seed(sseed), num_repeats=c["rep"], replacement=c["repl"])
            if c["num"] != c["n"]:
                kw["num_samples"] = c["num"]
            return ks.RandomSampler(ds, **kw)
        return base_sub_cls()(c["n"], sseed, ds, rank=c["r"], world_size=c["W"])

    evs, err = [], ""
    empty = dict(len=-1, eff=-1, out=[], out2=[], gen=[])
    try:
        def body():
            s, t = build(), build()
            for p in range(passes):
                if hasattr(s, "set_epoch"):
                    s.set_epoch(p)
                    t.set_epoch(p)
                out = [int(i) for i in s]
                out2 = [int(i) for i in t]
                gen = perm(sseed, p, c["n"]) if c["kind"] == "base" else []
                evs.append(dict(a="pass", len=int(len(s)), eff=int(s.effective_length), out=out, out2=out2, gen=gen))
        with_deadline(body)
    except Deadline:
        evs.append(dict(a="exc", **empty))
        err = "Deadline"
    except Exception as e:  # noqa
        evs.append(dict(a="exc", **empty))
        err = f"{type(e).__name__}: {e}"[:200]
    return evs, err


# ---------------------------------------------------------------------------------------------- configuration generators
def stop_args(g, max_epochs):
    """every stop argument whose budget is reached within max_epochs epochs + one consumer horizon"""
    res = [("e", b) for b in range(1, max_epochs + 1)]
    u, s = UPE(g), SPE(g)
    if u >= 1:
        res += [("u", b) for b in range(1, max_epochs * u + 2)]
        res += [("s", b) for b in range(1, max_epochs * s + 2)]
        res += [("n", 2 * u + 1)]
    return res


def grid(max_n, max_epochs, only_b_le_n=False):
    for n in range(1, max_n + 1):
        for b in range(1, (n if only_b_le_n else n + 1) + 1):
            for drop in (False, True):
                g = dict(N=n, B=b, drop=drop)
                for kind, bud in stop_args(g, max_epochs):
                    yield n, dict(B=b, drop=drop, kind=kind, budget=bud)


def random_cfg(r):
    n = r.randint(7, 40)
    b = r.randint(1, min(n + 3, 16))
    drop = r.random() < 0.5
    g = dict(N=n, B=b, drop=drop)
    kind = r.choice("neus")
    me = r.randint(1, 4)
    if UPE(g) == 0:
        kind = "e"
    if kind == "e":
        bud = me
    elif kind == "s":
        bud = r.randint(1, me * SPE(g))
    else:
        bud = r.randint(1, me * UPE(g))
    return n, dict(B=b, drop=drop, kind=kind, budget=bud)


# ---------------------------------------------------------------------------------------------- TLC side
def validate(module, cfg, traces, name, jobs=JOBS, timeout=3000, extra_tags=()):
    """like kdverif.tracecheck.validate, additionally returns the id sets printed under extra tags"""
    os.makedirs(tlc.WORK, exist_ok=True)
    if not traces:
        return set(), {}, dict(states=0, transitions=0), {t: set() for t in extra_tags}
    order = sorted(traces, key=lambda t: -len(json.dumps(t)))
    chunks = [c for c in (order[i::jobs] for i in range(jobs)) if c]

    def one(i_ch):
        i, ch = i_ch
        path = os.path.join(tlc.WORK, f"{name}-{os.getpid()}-{i}.json")
        with open(path, "w") as f:
            json.dump(dict(traces=ch), f)
        try:
            r = tlc.run_tlc(module, cfg, name=f"{name}{i}", workers=1, env=dict(TRACE_FILE=path), timeout=timeout,
                            heap="2g")
        finally:
            os.remove(path)
        acc, rej = tlc.tagged(r.prints, "ACCEPTED"), tlc.tagged(r.prints, "REJECTED")
        if len(acc) != 1 or len(rej) != 1:
            raise tlc.TLCError(f"{module}: verdict lines missing\n{r.stdout[-3000:]}")
        ex = {}
        for t in extra_tags:
            got = tlc.tagged(r.prints, t)
            if len(got) != 1:
                raise tlc.TLCError(f"{module}: line {t} missing\n{r.stdout[-2000:]}")
            ex[t] = set(got[0])
        return set(acc[0]), {x[0]: (x[1], sorted(x[2])) for x in rej[0]}, r, ex

    acc, rej, st, tr, extra = set(), {}, 0, 0, {t: set() for t in extra_tags}
    with ThreadPoolExecutor(max_workers=jobs) as ex:
        for a, rj, r, e in ex.map(one, list(enumerate(chunks))):
            acc |= a
            rej.update(rj)
            st += r.distinct_states
            tr += r.states_generated
            for t in extra_tags:
                extra[t] |= e[t]
    ids = {t["id"] for t in traces}
    acc -= set(rej)
    if acc | set(rej) != ids:
        raise tlc.TLCError(f"{module}: verdicts not total: {len(ids)} traces, {len(acc)} accepted, {len(rej)} rejected, "
                           f"e.g. missing {sorted(ids - acc - set(rej))[:5]}")
    return acc, rej, dict(states=st, transitions=tr), extra


CLAUSES = ["L_Whole", "X_SetEpochOrder", "X_SetEpochOnce", "X_SetEpochBeforeDraw", "X_IterOrder", "X_BatchesExact", "X_BatchIsDrawn",
           "X_NoMix", "X_BatchSize", "X_Seamless", "X_StopNotEarly", "X_StopNotLate", "X_Terminates", "X_NoError",
           "X_CutOnlyUnbounded", "X_EveryCutDelivered", "X_Complete", "R_SameAsInterleaved", "R_SameBatchesEpochs",
           "R_PrefixOfSame"]
NORMATIVE = ["P_SetEpochOrder", "P_SetEpochOnce", "P_SetEpochBeforeDraw", "P_IterOrder", "P_BatchesExact", "P_BatchIsDrawn",
             "P_NoMix", "P_BatchSize", "P_Seamless", "P_StopNotEarly", "P_StopNotLate", "P_NoError", "P_CutOnlyUnbounded",
             "P_EveryCutDelivered", "P_Complete"]
# mutant -> normative clauses of which the first reported violation must be one ({} = must be accepted)
MUTANTS = {
    "v0": {"P_NoError"}, "eq": {"P_StopNotLate"}, "exact": set(),
    "mix": {"P_NoMix", "P_BatchesExact", "P_StopNotLate", "P_BatchIsDrawn", "P_EveryCutDelivered"},
    "nodrop": {"P_BatchesExact", "P_BatchSize", "P_EveryCutDelivered"},
    "se_late": {"P_SetEpochOnce"}, "se_stale": {"P_SetEpochOrder"}, "se_twice": {"P_SetEpochOrder", "P_SetEpochOnce"},
    "early": {"P_StopNotEarly"}, "late": {"P_StopNotLate"},
}
REFINE_MUTANTS = {"nodrop": {"R_BatchesCompatible", "R_SameAsInterleaved"},
                  "late": {"R_SameAsInterleaved", "R_PrefixOfSame"}, "early": {"R_SameAsInterleaved", "R_PrefixOfSame"}}
QUICK_MUTANTS = ["v0", "eq", "exact", "mix", "se_late"]
IB_ACTIONS = ["Configure", "PBegin", "PSetEpoch", "PStartIter", "PEmitIndex", "PExhaust", "PCloseBatch", "PResume",
              "PAbandon", "PEndEpoch", "PStop"]
RF_ACTIONS = ["RILStart", "RILAnnounce", "RILEmitMain", "RILCloseUpdate", "RILAfterUpdate", "RIBBegin", "RIBSetEpoch",
              "RIBStartIter", "RIBEmitIndex", "RIBExhaust", "RIBCloseBatch", "RIBResume", "RIBEndEpoch", "RIBStop"]
PS_ACTIONS = ["SeqEmit", "TorchPerm", "TorchInt", "TorchEmit", "RepPerm", "RepInt", "RepInterleave", "RepCut",
              "BaseGenerate", "BaseSlice", "BaseCut"]


def model_checks(v, prop, tier):
    """all TLC runs on the design, in parallel; returns nothing, fills v / raises TLCError"""
    jobs = [("main", "InfiniteBatchProps", f"InfiniteBatchProps_{tier}.cfg", dict(coverage=True, workers=MC_WORKERS)),
            ("refine", "InfiniteBatchRefine", f"InfiniteBatchRefine_{tier}.cfg", dict(coverage=True, workers=MC_WORKERS)),
            ("plain", "PlainSamplersProps", "PlainSamplersProps_v1.cfg", dict(coverage=True, workers=2)),
            ("plain_v0", "PlainSamplersProps", "PlainSamplersProps_v0.cfg", dict(workers=2, extra=["-continue"]))]
    # quick: the as-found class, the names-only repair, the better class and two faults; thorough: all of them
    muts = [m for m in MUTANTS if tier != "quick" or m in QUICK_MUTANTS]
    rmuts = [m for m in REFINE_MUTANTS if tier != "quick" or m == "late"]
    jobs += [(f"mut_{m}", "InfiniteBatchProps", f"InfiniteBatchProps_mut_{m}.cfg", dict(workers=1)) for m in muts]
    jobs += [(f"rmut_{m}", "InfiniteBatchRefine", f"InfiniteBatchRefine_mut_{m}.cfg", dict(workers=1)) for m in rmuts]

    def one(j):
        nm, mod, cfg, kw = j
        return nm, tlc.run_tlc(mod, cfg, name=f"{prop}{nm}", timeout=3000, heap="3g", **kw)

    with ThreadPoolExecutor(max_workers=3) as ex:
        res = dict(ex.map(one, jobs))

    def vacuity(r, actions, what):
        for act in actions:
            if r.coverage.get(act, (0, 0))[1] == 0:
                raise tlc.TLCError(f"vacuity: action {act} never taken in {what}")

    for nm, label, actions in (("main", "InfiniteBatchProps exhaustive", IB_ACTIONS),
                               ("refine", "InfiniteBatchRefine (side by side with Interleaved.tla)", RF_ACTIONS),
                               ("plain", "PlainSamplersProps exhaustive", PS_ACTIONS)):
        r = res[nm]
        v.add_tlc(r, label)
        for bad in r.violated:
            v.violation(f"model:{nm}:{bad}", f"design model violates {bad}", dict(cex=str(r.cex)[:6000]))
        vacuity(r, actions, label)
    controls = {}
    for m, expect in MUTANTS.items():
        if m not in muts:
            continue
        r = res[f"mut_{m}"]
        got = set(r.violated)
        if (not expect and got) or (expect and not (got & expect)):
            raise tlc.TLCError(f"negative control: machine variant {m!r} gave {sorted(got)}, expected "
                               f"{sorted(expect) or 'no violation'}")
        controls[m] = sorted(got) or "accepted"
    for m, expect in REFINE_MUTANTS.items():
        if m not in rmuts:
            continue
        got = set(res[f"rmut_{m}"].violated)
        if not (got & expect):
            raise tlc.TLCError(f"negative control: refinement with variant {m!r} gave {sorted(got)}")
        controls["refine_" + m] = sorted(got)
    got = set(res["plain_v0"].violated)
    if not {"Q_NoError", "Q_Length"} <= got:
        raise tlc.TLCError(f"negative control: PlainSamplers v0 gave {sorted(got)}, expected Q_NoError and Q_Length")
    controls["plain_v0"] = sorted(got)
    v.coverage["model_controls"] = controls


# ---------------------------------------------------------------------------------------------- corrupted traces
def corruptions(t, r):
    """yield (name, corrupted copy) of an accepted stream trace; every one must be rejected"""
    evs = t["ev"]
    bpos = [i for i, e in enumerate(evs) if e["a"] == "b"]
    sepos = [i for i, e in enumerate(evs) if e["a"] == "se"]

    def mk(name, new):
        c = copy.deepcopy(t)
        c["ev"] = new
        c["corrupt"] = name
        return name, c

    sw = [i for i in bpos if len(evs[i]["b"]) >= 2 and evs[i]["b"][0] != evs[i]["b"][1]]
    if sw:
        i = r.choice(sw)
        new = copy.deepcopy(evs)
        new[i]["b"][0], new[i]["b"][1] = new[i]["b"][1], new[i]["b"][0]
        yield mk("swap_in_batch", new)
    if sepos:
        i = r.choice(sepos)
        new = copy.deepcopy(evs)
        new[i]["v"] += 1
        yield mk("wrong_epoch_announced", new)
        i = sepos[-1]
        if i + 1 < len(evs) and evs[i + 1]["a"] == "it":
            new = copy.deepcopy(evs)
            new[i], new[i + 1] = new[i + 1], new[i]
            yield mk("set_epoch_after_iter", new)
    if len(bpos) >= 2:
        new = copy.deepcopy(evs)
        del new[bpos[0]]
        yield mk("batch_lost", new)
    if evs[-1]["a"] == "stop":
        yield mk("no_stop", copy.deepcopy(evs[:-1]))
        c = t["cfg"]
        left = [evs[i]["b"] for i in bpos[:-1]]
        if bpos and ((c["kind"] == "u" and len(left) < c["budget"])
                     or (c["kind"] == "s" and sum(len(b) for b in left) < c["budget"])):
            # the stream ends before the budget is reached: everything from the last batch on is cut, the stop is kept
            # (cutting a batch that lies BEYOND the budget would be the exact stop, which the specification accepts)
            new = copy.deepcopy(evs[:bpos[-1]]) + [copy.deepcopy(evs[-1])]
            yield mk("stops_early", new)
    # a batch over the epoch boundary: the first batch of an epoch also carries the last index of the epoch before
    for a, b in zip(bpos, bpos[1:]):
        if any(e["a"] == "it" for e in evs[a:b]):
            new = copy.deepcopy(evs)
            new[b]["b"] = [new[a]["b"][-1]] + new[b]["b"]
            yield mk("batch_over_boundary", new)
            break
    itpos = [i for i, e in enumerate(evs) if e["a"] == "it"]
    if len(sepos) >= 2:
        # the next epoch is announced while the current one is still being drawn
        i = sepos[1]
        dprev = [j for j in range(i) if evs[j]["a"] == "d"]
        if dprev:
            new = copy.deepcopy(evs)
            e = new.pop(i)
            new.insert(dprev[-1], e)
            yield mk("announce_too_early", new)
    dpos = [i for i, e in enumerate(evs) if e["a"] == "d"]
    if dpos:
        new = copy.deepcopy(evs)
        new[r.choice(dpos)]["k"] += 1
        yield mk("draw_from_other_iteration", new)
    c = t["cfg"]
    if evs[-1]["a"] == "cut":
        new = copy.deepcopy(evs)
        new[-1]["a"] = "stop"
        yield mk("unbounded_stream_stops", new)
        if len(bpos) >= 1:
            new = copy.deepcopy(evs)
            del new[bpos[-1]]
            yield mk("consumer_turned_away", new)
    if evs[-1]["a"] == "stop":
        for a in ("overrun", "exc"):
            new = copy.deepcopy(evs)
            new[-1]["a"] = a
            yield mk("ends_with_" + a, new)
        if c["kind"] == "e" and c["budget"] >= 2:
            cc = copy.deepcopy(t)
            cc["cfg"]["budget"] -= 1
            cc["corrupt"] = "one_epoch_too_many"
            yield "one_epoch_too_many", cc


# ---------------------------------------------------------------------------------------------- the check
def key_stream(t):
    c = t["cfg"]
    return (f"{t['mode']}:{t['skind']}:n={t['n']},N={c['N']},B={c['B']},drop={int(c['drop'])},{c['kind']}={c['budget']}"
            + (f",bad={c['bad']}" if c["bad"] else ""))


def _t(label, t0=[None]):
    import time
    now = time.time()
    if os.environ.get("XINF_TIMING") and t0[0] is not None:
        print(f"  [timing] {label}: {now - t0[0]:.1f}s", flush=True)
    t0[0] = now


def run(prop, tier, seed):
    core.use_repo()
    _t("start")
    v = core.Verdict(prop, tier, seed)
    r = random.Random(seed * 7919 + 101)
    quick = tier == "quick"

    with ThreadPoolExecutor(max_workers=1) as bg:
        mc = bg.submit(model_checks, v, prop, tier)

        # ---- plain samplers first: a sampler kind that cannot complete a pass is reported there, not as a stream
        ptraces, pmeta = [], {}
        for i, c in enumerate(plain_cases(quick, r), start=1):
            evs, err = record_plain(c, sseed=seed * 100003 + i)
            ptraces.append(dict(id=i, cfg=c, ev=evs))
            pmeta[i] = (c, err)
        usable = {}
        for k in KINDS_NOSE + KINDS_SE:
            try:
                twin_rows(k, 3, 1, 2)
                usable[k] = True
            except Exception as e:  # noqa
                usable[k] = False
                v.notes.append(f"sampler kind {k} cannot complete a pass on this tree ({type(e).__name__}: {e}); its "
                               f"defect is reported by the plain-sampler traces, streams over it are skipped")
        nose = [k for k in KINDS_NOSE if usable[k]]
        wse = [k for k in KINDS_SE if usable[k]]
        stateless = [k for k in STATELESS if usable[k]]

        # ---- streams of the real InfiniteBatchSampler
        traces, tid = [], 0

        def add_stream(n, c0, skind, sseed):
            nonlocal tid
            c = geometry(skind, n, sseed, c0)
            if c is None:
                return
            tid += 1
            evs, err = record_stream(c, skind, n, sseed)
            traces.append(dict(id=tid, mode="stream", skind=skind, n=n, cfg=c, ev=evs, err=err,
                               ib=[], il=[], ile=[], seib=[], seil=[], seile=[]))

        def add_refine(n, c0, skind, sseed):
            nonlocal tid
            c = geometry(skind, n, sseed, c0)
            if c is None or c["B"] > c["N"] or c["kind"] == "n":
                return
            tid += 1
            d = record_refine(c, skind, n, sseed)
            traces.append(dict(id=tid, mode="refine", skind=skind, n=n, cfg=c, ev=[ev("ref")], **d))

        cases = list(grid(6 if quick else 8, 3))
        for j, (n, c0) in enumerate(cases):
            kinds = (nose + wse) if not quick else [nose[(j + seed) % len(nose)], wse[(j // 2 + seed) % len(wse)]]
            for k in kinds:
                add_stream(n, c0, k, sseed=seed * 1009 + j)
        for j in range(250 if quick else 3000):
            n, c0 = random_cfg(r)
            add_stream(n, c0, r.choice(nose + wse), sseed=seed * 2003 + j)
        rcases = [x for x in grid(6 if quick else 7, 3, only_b_le_n=True) if x[1]["kind"] != "n"]
        for j, (n, c0) in enumerate(rcases):
            for k in (stateless if not quick else [stateless[(j + seed) % len(stateless)]]):
                add_refine(n, c0, k, sseed=seed * 3001 + j)
        for j in range(60 if quick else 800):
            n, c0 = random_cfg(r)
            add_refine(n, c0, r.choice(stateless), sseed=seed * 4001 + j)
        for j in range(16 if quick else 80):
            n, c0 = random_cfg(r)
            n = min(n, 12)
            c0["B"] = min(c0["B"], n + 1)
            skind = r.choice(nose + wse)
            c = geometry(skind, n, seed * 5003 + j, c0)
            if c is None:
                continue
            tid += 1
            d = record_loader(c, skind, n, seed * 5003 + j, workers=(0 if j % 2 == 0 else 2))
            traces.append(dict(id=tid, mode="loader", skind=skind, n=n, cfg=c, ev=[ev("ref")], il=[], ile=[], seil=[],
                               seile=[], **d))
        for name, kw, invalid in CTOR_CASES:
            tid += 1
            evs, err = record_ctor(kw)
            kind = "n" if not kw else {"epochs": "e", "updates": "u", "samples": "s"}[sorted(kw)[0]]
            traces.append(dict(id=tid, mode="ctor", skind="kdseq", n=4,
                               cfg=dict(N=4, B=2, drop=False, kind=kind, budget=1, se=False, miter=[],
                                        bad=(name if invalid else "")),
                               ev=evs, err=err, ib=[], il=[], ile=[], seib=[], seil=[], seile=[]))

        _t("recorded real runs")

        def strip(t):
            return {k: t[k] for k in ("id", "mode", "cfg", "ev", "err", "ib", "il", "ile", "seib", "seil", "seile")}

        streams = [t for t in traces if t["mode"] == "stream"]
        half = max(2, JOBS // 2)
        with ThreadPoolExecutor(max_workers=3) as tv:
            f_obs = tv.submit(validate, "InfiniteBatchTrace", "InfiniteBatchTrace_obs.cfg", [strip(t) for t in traces],
                              prop + "obs", half, 3000, ("DEVIATION",))
            f_desc = tv.submit(validate, "InfiniteBatchTrace", "InfiniteBatchTrace_desc.cfg",
                               [strip(t) for t in streams], prop + "desc", max(2, JOBS // 4))
            f_pl = tv.submit(validate, "PlainSamplersTrace", "PlainSamplersTrace.cfg", ptraces, prop + "pl", 2)
            acc, rej, st, extra = f_obs.result()
            dacc, drej, dst, _ = f_desc.result()
            pacc, prej, pst, _ = f_pl.result()
        _t("plain + desc validated")
        # ---- corrupted copies of accepted traces must be rejected (the binding is not vacuous)
        good = [t for t in streams if t["id"] in acc and len(t["ev"]) > 6]
        r.shuffle(good)
        ctraces, cid = [], 10 ** 6
        per_kind = 10 if quick else 75
        chosen = [t for kd in "eusn" for t in [g for g in good if g["cfg"]["kind"] == kd][:per_kind]]
        for t in chosen:
            for name, c in corruptions(t, r):
                cid += 1
                c["id"] = cid
                ctraces.append(c)
        goodref = [t for t in traces if t["mode"] == "refine" and t["id"] in acc and len(t["ib"]) >= 2]
        for t in goodref[:10 if quick else 60]:
            for name, fld in (("il_batch_lost", "il"), ("ile_batch_lost", "ile")):
                c = copy.deepcopy(t)
                del c[fld][r.randrange(len(c[fld]))]
                cid += 1
                c["id"], c["corrupt"] = cid, name
                ctraces.append(c)
        for t in [t for t in traces if t["mode"] == "loader" and t["id"] in acc and len(t["ib"]) >= 2][:4]:
            c = copy.deepcopy(t)
            c["ib"][0], c["ib"][1] = c["ib"][1], c["ib"][0][::-1] + [0]
            cid += 1
            c["id"], c["corrupt"] = cid, "loader_batches_swapped"
            ctraces.append(c)
        cacc, crej, cst, _ = validate("InfiniteBatchTrace", "InfiniteBatchTrace_obs.cfg", [strip(t) for t in ctraces],
                                      prop + "neg", extra_tags=("DEVIATION",))
        # selftest findings are machinery errors - but never in place of a violation found on the real code (below)
        selftest = None
        kinds_rej = {}
        for t in ctraces:
            if t["id"] in crej:
                kinds_rej.setdefault(t["corrupt"], set()).update(crej[t["id"]][1])
        exercised = set().union(*kinds_rej.values()) if kinds_rej else set()
        missing = [c for c in CLAUSES if c not in exercised]
        if cacc:
            bad = [t for t in ctraces if t["id"] in cacc][0]
            selftest = f"selftest: corrupted trace ({bad['corrupt']}) of {key_stream(bad)} was ACCEPTED"
        elif len(ctraces) < 20:
            selftest = f"selftest: only {len(ctraces)} corrupted traces could be built"
        elif missing:
            selftest = f"selftest: no corrupted trace was rejected by clause(s) {missing}"
        _t("controls validated")
        mc.result()
        _t("model checks joined")

    # ---- verdicts
    for s in (st, pst, dst, cst):
        v.coverage["states"] += s["states"]
        v.coverage["transitions"] += s["transitions"]
    v.coverage["traces_validated_against_impl"] = len(traces) + len(ptraces)
    v.coverage["evaluations"] = sum(len(t["ev"]) for t in traces) + sum(len(t["ev"]) for t in ptraces)
    v.coverage["by_mode"] = {m: sum(1 for t in traces if t["mode"] == m) for m in ("stream", "refine", "loader", "ctor")}
    v.coverage["by_mode"]["plain"] = len(ptraces)
    v.coverage["by_sampler_kind"] = {k: sum(1 for t in traces if t["skind"] == k and t["mode"] != "ctor")
                                     for k in KINDS_NOSE + KINDS_SE}
    v.coverage["corrupted_controls"] = dict(n=len(ctraces), rejected_by={k: sorted(s) for k, s in kinds_rej.items()})
    v.coverage["named_deviation_Dev_EpochGranularity"] = dict(
        traces_showing_it=len(extra["DEVIATION"]),
        bounded_streams=sum(1 for t in streams if t["cfg"]["kind"] != "n"),
        meaning="stream ended at the end of the epoch in which updates=/samples= was reached, later than the update")
    nontrivial = set()
    for t in streams:
        c = t["cfg"]
        if epochs_needed(c) >= 2 and (c["N"] % c["B"] != 0 or c["B"] > c["N"]):
            nontrivial.add(key_stream(t))
    v.coverage["distinct_nontrivial"] = len(nontrivial)
    v.coverage["rule"] = ("cases = exhaustive grid (data sources 1..6 x batch sizes 1..n+1 x drop_last x every stop "
                          "argument reached within 3 epochs + one unbounded horizon) x sampler kinds, + seeded random "
                          "larger ones; non-trivial = stream crosses an epoch boundary and B does not divide N")
    for t in (streams[:1] + [t for t in streams if t["cfg"]["kind"] == "u"][:1]
              + [t for t in traces if t["mode"] == "refine"][:1]):
        v.sample(dict(mode=t["mode"], sampler=t["skind"], cfg={k: t["cfg"][k] for k in t["cfg"] if k != "miter"},
                      ev=t["ev"][:14], ib=t["ib"][:6], il=t["il"][:6]))
    by_id = {t["id"]: t for t in traces}
    # one representative of every (mode, failed clauses) signature first: the printed report lines are capped
    pending = []
    for i in sorted(rej):
        t = by_id[i]
        pos, clauses = rej[i]
        got = t["ev"][pos - 1] if 0 < pos <= len(t["ev"]) else None
        what = (f"real {'InfiniteBatchSampler' if t['mode'] != 'refine' else 'InfiniteBatchSampler vs InterleavedSampler'}"
                f": clauses {clauses} fail at event {pos} of {len(t['ev'])} ({got}){'; ' + t['err'] if t['err'] else ''}")
        pending.append(((t["mode"], tuple(clauses)), key_stream(t), what,
                        dict(clauses=clauses, position=pos, sampler=t["skind"], n=t["n"], cfg=t["cfg"], ev=t["ev"],
                             err=t["err"], ib=t["ib"], il=t["il"], ile=t["ile"])))
    for i in sorted(prej):
        c, err = pmeta[i]
        pos, clauses = prej[i]
        key = "plain:" + ",".join(f"{k}={int(c[k]) if isinstance(c[k], bool) else c[k]}" for k in
                                  ("kind", "n", "num", "rep", "repl", "W", "r"))
        pending.append((("plain", c["kind"], tuple(clauses)), key,
                        f"plain sampler pass {pos}: clauses {clauses} fail{'; ' + err if err else ''}",
                        dict(clauses=clauses, cfg=c, ev=ptraces[i - 1]["ev"], err=err)))
    seen_sig, first, rest = set(), [], []
    for p in pending:
        (rest if p[0] in seen_sig else first).append(p)
        seen_sig.add(p[0])
    for _, key, what, payload in first + rest:
        v.violation(key, what, payload)
    if selftest and not v.violations:
        raise tlc.TLCError(selftest)
    if selftest:
        v.notes.append(selftest + " (not enforced: the real code violates the specification, see the violations)")
    dev = [(key_stream(by_id[i]), drej[i]) for i in sorted(drej) if i in acc]
    v.coverage["protocol_deviations"] = dev[:5]
    v.coverage["desc_conforming"] = len(dacc)
    if dev:
        print(f"NOTE property={prop}: {len(dev)} streams satisfy every normative clause but are not behaviours of the "
              f"descriptive machine InfiniteBatch.tla (v1), e.g. {dev[0]}")
        v.notes.append("descriptive-model deviations present; the verdict rests on the normative observation check")
    v.assumptions += ["the wrapped sampler yields the same number of indices in every iteration (checked by the harness)",
                      "updates=/samples=/no stop argument: at least one batch per epoch (otherwise the class spins "
                      "without yielding - outside the domain, see reports/xinf.md)",
                      "refinement on real code only over samplers whose k-th iteration does not depend on how far "
                      "earlier iterations were consumed",
                      "TLC and CommunityModules Json are trusted"]
    v.coverage["exhaustive"] = False
    return v.finish()
