"""C16: label-rewriting wrappers are coherent, in range and reproducible.

(M) TLC checks specs/LabelsProps.tla (descriptive machine of Labels.tla |= clauses P_*, lemmas L_*) over a bounded grid of
    layouts and constructor arguments; five negative controls (the three bulk accessors as found, an unseeded draw,
    a group size outside the domain) must violate exactly the expected clause.
(T) every configuration of a small exhaustive grid plus seeded random larger ones is run on the REAL wrappers; one
    trace = open / items / bulk / again / rebuild / data observed at the public API.  TLC evaluates the normative clauses
    on the observed values (LabelsTrace.tla ObsSpec = the verdict) and runs the descriptive machine on the configuration
    (DescSpec = conformance, noted only).  Corrupted copies of accepted traces must be rejected with the expected clause.
"""
import hashlib
import itertools
import json
import math
import os
import random
import signal
import traceback
from concurrent.futures import ThreadPoolExecutor

from kdverif import core, tlc

SCALE = 1000000
I32 = 2000000000
KINDS = ["cg", "rs", "swap", "ow", "ag", "pl", "rc", "semi", "ls", "oh"]
NAMES = dict(cg="ClassGroupsWrapper", rs="RandomSuperclassWrapper", swap="SwapLabelWrapper", ow="OverwriteClassesWrapper",
             ag="AllgatherClassWrapper", pl="KDPseudoLabelWrapper", rc="KDRandomClassWrapper", semi="SemiWrapper",
             ls="LabelSmoothingWrapper", oh="OneHotWrapper")


# ---------------------------------------------------------------- harness dataset (no repository code except the base)
def make_base(cls, C, store="list"):
    import numpy as np
    import torch
    from kappadata.datasets.kd_dataset import KDDataset

    class LabDS(KDDataset):
        """labels are Python ints; store = "list": every accessor returns fresh objects; store = "tensor" / "numpy":
        the bulk accessor hands out the dataset's own label storage (what kappadata.utils.getall_as_* accept)"""

        def __init__(self, classes, n_classes):
            super().__init__()
            self._cls = [int(c) for c in classes]
            self._C = int(n_classes)
            self._store = None
            if store == "tensor":
                self._store = torch.tensor(self._cls, dtype=torch.long)
            elif store == "numpy":
                self._store = np.array(self._cls, dtype=np.int64)

        def __len__(self):
            return len(self._cls)

        def getitem_class(self, idx, ctx=None):
            return int(self._cls[idx]) if self._store is None else int(self._store[int(idx)])

        def getall_class(self):
            return [int(c) for c in self._cls] if self._store is None else self._store

        def getshape_class(self):
            return (self._C,)

        def getitem_x(self, idx, ctx=None):
            idx = int(idx)
            return torch.tensor([idx * 7 + 3, idx, self._cls[idx]], dtype=torch.float32)

    return LabDS(cls, C)


def base_for(case):
    """the wrapped dataset of a case; a["c0"]: it announces c0 classes while the wrapper is constructed"""
    return make_base(case["cls"], case["a"].get("c0") or case["C"], store=case["a"].get("store", "list"))


def built(case, base):
    """construct the real wrapper; then the wrapped dataset's class count takes its final value (what the public
    num_classes setter of KDRandomClassWrapper does underneath a long-lived wrapper)"""
    w = build(case, base)
    if case["a"].get("c0"):
        base._C = int(case["C"])
    return w


def set_global_rng(s):
    import numpy as np
    import torch
    random.seed(s)
    np.random.seed(s % (2 ** 32))
    torch.default_generator.manual_seed(s)      # CPU generator only (torch.manual_seed queues per-device lazy calls)


# ---------------------------------------------------------------- building the real wrappers
def build(case, base):
    """case: dict(kind, sub, n, C, cls, a=constructor arguments). Returns the real wrapper over `base`."""
    import torch
    k, a = case["kind"], case["a"]
    if k == "cg":
        from kappadata.wrappers.dataset_wrappers.class_groups_wrapper import ClassGroupsWrapper
        return ClassGroupsWrapper(base, classes_per_group=a["cpg"], shuffle=a["shuffle"], seed=a["seed"])
    if k == "rs":
        from kappadata.wrappers.dataset_wrappers.random_superclass_wrapper import RandomSuperclassWrapper
        return RandomSuperclassWrapper(base, classes_per_superclass=a["cps"], superclass_splits=a["splits"],
                                       shuffle=a["shuffle"], seed=a["seed"])
    if k == "swap":
        from kappadata.wrappers.dataset_wrappers.swap_label_wrapper import SwapLabelWrapper
        return SwapLabelWrapper(base, p=a["pn"] / a["pd"], seed=a["seed"])
    if k == "ow":
        from kappadata.wrappers.dataset_wrappers.overwrite_classes_wrapper import OverwriteClassesWrapper
        tbl = list(a["tbl"])
        return OverwriteClassesWrapper(base, classes=torch.tensor(tbl) if a["tensor"] else tbl)
    if k == "ag":
        from kappadata.wrappers.dataset_wrappers.allgather_class_wrapper import AllgatherClassWrapper
        if a.get("over") == "semi":
            # stacked on another label wrapper (some samples unlabeled): bulk and per-sample accessor still agree
            from kappadata.wrappers.sample_wrappers.semi_wrapper import SemiWrapper
            base = SemiWrapper(dataset=base, semi_percent=0.5, seed=3)
        return AllgatherClassWrapper(base, world_size=a["W"])
    if k == "pl":
        from kappadata.wrappers.dataset_wrappers.kd_pseudo_label_wrapper import KDPseudoLabelWrapper
        sub = case["sub"]
        if sub == "hard":
            return KDPseudoLabelWrapper(base, pseudo_labels=torch.tensor(a["tbl"], dtype=torch.long))
        rows = torch.tensor(a["rows"], dtype=torch.float32)
        if sub == "soft":
            return KDPseudoLabelWrapper(base, pseudo_labels=rows)
        if sub == "thr":
            return KDPseudoLabelWrapper(base, pseudo_labels=rows * a["rs"], threshold=a["thr"] / SCALE)
        tau = dict(none=None, inf=float("inf")).get(a["tau"], a["tau"])
        if tau is None:
            rows = rows / rows.sum(dim=1, keepdim=True)      # "labels are probabilities"
        return KDPseudoLabelWrapper(base, pseudo_labels=rows, topk=a["k"], tau=tau, seed=a["seed"])
    if k == "rc":
        from kappadata.wrappers.sample_wrappers.kd_random_class_wrapper import KDRandomClassWrapper
        sub = case["sub"]
        kw = dict(world_size=a["W"]) if sub == "gatherbug" else None
        return KDRandomClassWrapper(base, mode=sub, mode_kwargs=kw, num_classes=a["nc"] if a["pass_nc"] else None,
                                    seed=a["seed"])
    if k == "semi":
        from kappadata.wrappers.sample_wrappers.semi_wrapper import SemiWrapper
        return SemiWrapper(dataset=base, semi_percent=a["num"] / a["den"], seed=a["seed"])
    if k == "ls":
        from kappadata.wrappers.sample_wrappers.label_smoothing_wrapper import LabelSmoothingWrapper
        sm = a["sn"] / a["sd"]
        return LabelSmoothingWrapper(base, smoothing=int(sm) if a["sn"] in (0, a["sd"]) and a["as_int"] else sm)
    if k == "oh":
        from kappadata.wrappers.sample_wrappers.one_hot_wrapper import OneHotWrapper
        return OneHotWrapper(base)
    raise ValueError(k)


# ---------------------------------------------------------------- observation (projection to ints / strings / lists)
def errname(e):
    tb = traceback.extract_tb(e.__traceback__)
    last = tb[-1] if tb else None
    where = f"{os.path.basename(last.filename)}:{last.name}" if last else "?"
    return f"{type(e).__name__}@{where}"


def own_refusal(e):
    """NotImplementedError raised by a `raise` inside kappadata source (an explicit refusal of the component's own making)"""
    if not isinstance(e, NotImplementedError):
        return False
    tb = traceback.extract_tb(e.__traceback__)
    return bool(tb) and os.sep + "kappadata" + os.sep in tb[-1].filename and (tb[-1].line or "").strip().startswith("raise")


def clamp(v):
    return max(-I32, min(I32, int(v)))


def as_label(v):
    """integral scalar -> int, else None"""
    import numpy as np
    import torch
    if isinstance(v, bool):
        return None
    if isinstance(v, (int, np.integer)):
        return clamp(v)
    if torch.is_tensor(v) and v.ndim == 0 and not v.dtype.is_floating_point and v.dtype != torch.bool:
        return clamp(v.item())
    return None


def project_items(vals):
    """-> (form, labs, enc)"""
    import numpy as np
    import torch
    labs = [as_label(v) for v in vals]
    if all(x is not None for x in labs):
        return "int", labs, []
    if all(torch.is_tensor(v) and v.ndim == 1 and v.dtype.is_floating_point for v in vals):
        return "vec", [], [[clamp(round(float(x) * SCALE)) for x in v.tolist()] for v in vals]
    if all((isinstance(v, (float, np.floating)) or (torch.is_tensor(v) and v.ndim == 0 and v.dtype.is_floating_point))
           for v in vals):
        return "bin", [], [[clamp(round(float(v) * SCALE))] for v in vals]
    kinds = sorted({type(v).__name__ for v in vals})
    return "other:" + ",".join(kinds), [], []


def project_bulk(b):
    import numpy as np
    import torch
    if torch.is_tensor(b) or isinstance(b, np.ndarray):
        b = b.tolist()
    if not isinstance(b, (list, tuple)):
        raise TypeError(f"bulk accessor returned {type(b).__name__}")
    out = [as_label(v) for v in b]
    if any(x is None for x in out):
        raise TypeError("bulk accessor returned non-integral entries")
    return out


def E(a, err="", dim=-1, ln=-1, labs=(), form="-", enc=(), refused=False, xw=(), xb=()):
    return dict(a=a, err=err, dim=int(dim), len=int(ln), labs=list(labs), form=form, enc=[list(r) for r in enc],
                refused=bool(refused), xw=list(xw), xb=list(xb))


class Deadline(Exception):
    pass


def _alarm(signum, frame):
    raise Deadline()


def sweep(w, n, a, order=None, dim=-1):
    order = list(range(n)) if order is None else order
    try:
        vals = {i: w.getitem_class(i) for i in order}
    except Deadline:
        raise
    except Exception as e:
        return E(a, err=errname(e), dim=dim)
    form, labs, enc = project_items([vals[i] for i in range(n)])
    return E(a, labs=labs, form=form, enc=enc, dim=dim)


def eq_ids(objs):
    ids, seen = [], {}
    for o in objs:
        h = hashlib.sha256(repr((str(o.dtype), tuple(o.shape), o.tolist())).encode()).hexdigest()
        ids.append(seen.setdefault(h, len(seen) + 1))
    return ids


def get_dim(w):
    shape = w.getshape_class()
    if not (isinstance(shape, tuple) and len(shape) == 1):
        raise TypeError(f"getshape_class returned {shape!r}")
    return int(shape[0])


def observe(case, gseed, deadline=20):
    """Run the real wrapper; returns (events, wrapper or None). Never raises for repository-side failures."""
    n = case["n"]
    ev, w = [], None
    old = signal.signal(signal.SIGALRM, _alarm)
    signal.alarm(deadline)
    try:
        set_global_rng(gseed)
        base = base_for(case)
        try:
            w = built(case, base)
            dim, ln = get_dim(w), len(w)
        except Deadline:
            raise
        except Exception as e:
            return ev + [E("open", err=errname(e))], None
        ev.append(E("open", dim=dim, ln=ln))
        ev.append(sweep(w, n, "items"))
        try:
            ev.append(E("bulk", labs=project_bulk(w.getall_class()), form="int"))
        except Deadline:
            raise
        except Exception as e:
            ev.append(E("bulk", refused=True) if own_refusal(e) else E("bulk", err=errname(e)))
        ev.append(sweep(w, n, "again"))
        # same arguments, other global generator state, other access order
        set_global_rng(gseed * 7919 + 104729)
        try:
            w2 = built(case, base_for(case))
            ev.append(sweep(w2, n, "rebuild", order=list(reversed(range(n))), dim=get_dim(w2)))
        except Deadline:
            raise
        except Exception as e:
            ev.append(E("rebuild", err=errname(e)))
        try:
            twin = make_base(case["cls"], case["C"])
            ids = eq_ids([w.getitem_x(i) for i in range(n)] + [twin.getitem_x(i) for i in range(n)])
            ev.append(E("data", xw=ids[:n], xb=ids[n:], labs=[int(c) for c in base.getall_class()], form="int"))
        except Deadline:
            raise
        except Exception as e:
            ev.append(E("data", err=errname(e)))
        # the same arguments once more over the SAME wrapped dataset object (after the first wrapper was built and read)
        set_global_rng(gseed * 31 + 17)
        try:
            w3 = build(case, base)
            ev.append(sweep(w3, n, "rebuild", dim=get_dim(w3)))
        except Deadline:
            raise
        except Exception as e:
            ev.append(E("rebuild", err=errname(e)))
        return ev, w
    except Deadline:
        return ev + [E("open" if not ev else "data", err="Diverge")], None
    finally:
        signal.alarm(0)
        signal.signal(signal.SIGALRM, old)


# ---------------------------------------------------------------- witnesses for the descriptive machine
def desc_par(case, w, ev):
    """Arguments of the machine of Labels.tla: constructor arguments + outcomes of the seeded draws as the object's public
    attributes show them (a witness permutation where the object keeps only a derived table). None = not observable."""
    k, a, n, C, cls = case["kind"], case["a"], case["n"], case["C"], case["cls"]
    try:
        if k == "cg":
            cpg = a["cpg"]
            L = math.ceil(C / cpg) * cpg
            table = [int(x) for x in w.cls_to_clsgroup.tolist()]
            free = {g: [g * cpg + t for t in range(cpg)] for g in range(L // cpg)}
            tperm = [free[g].pop(0) if free.get(g) else 0 for g in table]
            return dict(z=0, cpg=cpg, shuffle=bool(a["shuffle"]), tperm=tperm if len(tperm) == L else list(range(L)))
        if k == "rs":
            cperm = [int(x) for x in w.perm.tolist()]
            sperm = list(range(n))
            if a["splits"] > 1:
                within = [int(x) for x in list(w.idx_within_class)]
                sperm = sorted(range(n), key=lambda j: (within[j], j))
            return dict(z=0, cps=a["cps"], splits=a["splits"], shuffle=bool(a["shuffle"]), cperm=cperm, sperm=sperm)
        if k == "swap":
            ap = [bool(x) for x in w.apply.tolist()]
            lab = ev[1]["labs"]
            return dict(z=0, apply=ap, newc=[lab[j] % C if ap[j] and lab else 0 for j in range(n)])
        if k == "ow":
            return dict(z=0, tbl=list(a["tbl"]))
        if k == "ag":
            return dict(z=0, W=a["W"])
        if k == "pl":
            sub = case["sub"]
            if sub == "hard":
                return dict(z=0, sub=sub, tbl=list(a["tbl"]))
            if sub == "soft":
                return dict(z=0, sub=sub, rows=a["rows"])
            if sub == "thr":
                return dict(z=0, sub=sub, rows=a["rows"], conf=a["conf"], thr=a["thr"])
            lab = ev[1]["labs"]
            choice = []
            for j in range(n):
                row = a["rows"][j]
                rank = sum(1 for x in row if x > row[lab[j]]) if lab and 0 <= lab[j] < C else 0
                choice.append(rank if rank < a["k"] else 0)
            return dict(z=0, sub=sub, rows=a["rows"], k=a["k"], choice=choice)
        if k == "rc":
            sub, nc = case["sub"], a["nc"]
            lab = ev[1]["labs"]
            if sub == "random":
                return dict(z=0, sub=sub, nc=nc, draw=[x % nc for x in lab])
            if sub == "randperm":
                head = [x for x in lab[:nc] if 0 <= x < nc]
                rest = [x for x in range(nc) if x not in head]
                perm = head + rest
                return dict(z=0, sub=sub, nc=nc, perm=perm if sorted(perm) == list(range(nc)) else list(range(nc)))
            return dict(z=0, sub=sub, nc=nc, W=a["W"])
        if k == "semi":
            semi = sorted(int(x) for x in w.semi_idxs)
            return dict(z=0, num=a["num"], den=a["den"], sperm=semi + [j for j in range(n) if j not in set(semi)])
        if k == "ls":
            return dict(z=0, sn=a["sn"], sd=a["sd"])
        return dict(z=0)
    except Exception:
        return None


# ---------------------------------------------------------------- case generators
def layouts(n_max, c_max):
    for C in range(1, c_max + 1):
        for n in range(1, n_max + 1):
            for cls in itertools.product(range(C), repeat=n):
                yield n, C, list(cls)


def mk(kind, sub, n, C, cls, **a):
    return dict(kind=kind, sub=sub, n=n, C=C, cls=list(cls), a=a)


def score_rows(r, n, C, spread):
    """rows of distinct non-negative integer scores (smallest >= 1)"""
    return [r.sample(range(1, spread * C + 2), C) for _ in range(n)]


def thr_case(r, n, C, cls, rows, rs):
    import torch
    conf = [clamp(round(float(p) * SCALE)) for p in
            (torch.tensor(rows, dtype=torch.float32) * rs).softmax(dim=1).max(dim=1).values.tolist()]
    for _ in range(50):
        thr = r.choice([200000, 350000, 500000, 650000, 800000, 950000]) + r.randint(-40000, 40000)
        if all(abs(c - thr) > 2000 for c in conf):      # the model compares fixed point values: keep them apart
            return mk("pl", "thr", n, C, cls, rows=rows, rs=rs, conf=conf, thr=thr)
    return None


def cases_for(kind, n, C, cls, r, seeds, big=False):
    """all argument combinations of the small grid (big=False) or one random combination (big=True)"""
    out = []
    pick = (lambda xs: [r.choice(list(xs))]) if big else (lambda xs: list(xs))
    if kind == "cg":
        for cpg in pick([d for d in range(1, C + 1) if C % d == 0]):
            for sh, sd in pick([(False, 0)] + [(True, s) for s in seeds]):
                out.append(mk("cg", "-", n, C, cls, cpg=cpg, shuffle=sh, seed=sd))
    elif kind == "rs":
        for cps in pick(range(1, C + 1)):
            for sp in pick([1, 2, 3] if big or n >= 3 else [1, 2]):
                for sh, sd in pick([(False, seeds[0])] + [(True, s) for s in seeds]):
                    out.append(mk("rs", "-", n, C, cls, cps=cps, splits=sp, shuffle=sh, seed=sd))
    elif kind == "swap":
        for pn in pick([0, 1, 2, 3, 4]):
            for sd in pick(seeds):
                out.append(mk("swap", "-", n, C, cls, pn=pn, pd=4, seed=sd))
    elif kind == "ow":
        tbls = [[r.randrange(C) for _ in range(n)]] if big else \
            ([list(t) for t in itertools.product(range(C), repeat=n)] if n <= 3 else
             [[r.randrange(C) for _ in range(n)] for _ in range(4)])
        for t in tbls:
            out.append(mk("ow", "-", n, C, cls, tbl=t, tensor=r.random() < 0.5))
    elif kind == "ag":
        for W in pick(range(1, n + 1)):
            out.append(mk("ag", "-", n, C, cls, W=W))
    elif kind == "pl":
        subs = pick(["hard", "soft", "thr", "topk"])
        for sub in subs:
            if sub == "hard":
                out.append(mk("pl", sub, n, C, cls, tbl=[r.randrange(C) for _ in range(n)]))
                continue
            if C < 2:
                continue
            rows = score_rows(r, n, C, 3 if big else 2)
            if sub == "soft":
                out.append(mk("pl", sub, n, C, cls, rows=rows))
            elif sub == "thr":
                c = thr_case(r, n, C, cls, rows, r.choice([0.25, 0.5, 1.0]))
                if c:
                    out.append(c)
                if C in (2, 4):
                    # rows sitting EXACTLY on the threshold: equal logits give confidence 1/C (exact in float32);
                    # whatever the wrapper decides there, bulk and per-sample accessors must decide the same
                    tie = [list(row) for row in rows]
                    for j in range(0, n, 2):
                        tie[j] = [3] * C
                    import torch
                    conf = [clamp(round(float(p_) * SCALE)) for p_ in
                            torch.tensor(tie, dtype=torch.float32).softmax(dim=1).max(dim=1).values.tolist()]
                    out.append(mk("pl", "thr", n, C, cls, rows=tie, rs=1.0, conf=conf, thr=SCALE // C))
            else:
                for k in pick(range(1, C + 1)):
                    for tau in pick(["none", "inf", 0.5, 2.0]):
                        out.append(mk("pl", sub, n, C, cls, rows=rows, k=k, tau=tau, seed=r.choice(seeds)))
    elif kind == "rc":
        for sub in pick(["random", "randperm", "gatherbug"]):
            for nc, pass_nc in pick([(C, False)] + [(m, True) for m in ((r.randint(1, 2 * C),) if big else range(1, 5))]):
                if sub == "gatherbug":
                    for W in pick(range(1, n + 1)):
                        out.append(mk("rc", sub, n, C, cls, nc=nc, pass_nc=pass_nc, W=W, seed=seeds[0]))
                else:
                    for sd in pick(seeds):
                        out.append(mk("rc", sub, n, C, cls, nc=nc, pass_nc=pass_nc, W=1, seed=sd))
    elif kind == "semi":
        for num in pick([0, 1, 2, 3, 4]):
            for sd in pick(seeds):
                out.append(mk("semi", "-", n, C, cls, num=num, den=4, seed=sd))
    elif kind == "ls":
        for sn, sd in pick([(0, 10), (1, 10), (5, 10), (10, 10)] + ([(r.randint(1, 19), 20)] if big else [])):
            out.append(mk("ls", "-", n, C, cls, sn=sn, sd=sd, as_int=r.random() < 0.5))
    elif kind == "oh":
        out.append(mk("oh", "-", n, C, cls))
    return out


def small_grid(r, tier):
    n_max, c_max = (4, 3) if tier == "quick" else (5, 4)
    seeds = [0, 1] if tier == "quick" else [0, 1, 7]
    cap = 600 if tier == "quick" else 9000
    res = []
    for kind in KINDS:
        mine, fixed = [], []                              # fixed: never dropped by the per-wrapper cap
        for n, C, cls in layouts(n_max, c_max):
            if kind in ("pl", "rc") and cls != [j % C for j in range(n)]:
                continue                                  # the wrapped labels do not reach these wrappers' labels
            for _ in range(8 if kind == "pl" else 1):      # pseudo-label tables are drawn: several per layout
                mine += cases_for(kind, n, C, cls, r, seeds)
        if kind == "ls":                                  # documented binary case: one announced class, labels 0/1
            for n in range(1, n_max + 1):
                for cls in itertools.product(range(2), repeat=n):
                    mine += cases_for("ls", n, 1, list(cls), r, seeds)
        if kind == "pl":                                  # peaked score tables, identical in every run (float32 softmax
            fr = random.Random(12345)                     # weights over many classes are where sampling is fragile)
            for C in (8, 12, 17, 20):
                for tau in (0.5, 1.0, 2.0):
                    fixed.append(mk("pl", "topk", 6, C, [j % C for j in range(6)], rows=score_rows(fr, 6, C, 3), k=C,
                                    tau=tau, seed=fr.randrange(1000)))
        if kind == "ag":                                  # identity layouts: every position distinguishable
            for n in range(n_max + 1, 13 if tier == "quick" else 25):
                mine += cases_for("ag", n, n, list(range(n)), r, seeds)
        if len(mine) > cap:
            r.shuffle(mine)
            mine = mine[:cap]
        res += mine + fixed
    return res


def random_cases(r, count):
    res = []
    for kind in KINDS:
        got = 0
        while got < count:
            n = r.choice([r.randint(5, 30), r.randint(5, 30), r.randint(31, 200)])
            C = r.randint(2, 20)
            if kind == "ls" and r.random() < 0.15:
                C, cls = 1, [r.randrange(2) for _ in range(n)]
            elif kind == "cg":
                C = r.choice([2, 3, 4, 6, 8, 9, 10, 12, 16, 20])
                cls = [r.randrange(C) for _ in range(n)]
            else:
                cls = [r.randrange(C) for _ in range(n)]
            if r.random() < 0.3:
                cls = sorted(cls)
            cs = cases_for(kind, n, C, cls, r, [r.randint(0, 10 ** 6)], big=True)
            res += cs[:1]
            got += 1
    return res


def case_key(c):
    a = {k: v for k, v in c["a"].items() if k not in ("rows", "conf", "tbl")}
    dig = hashlib.sha256(json.dumps([c["cls"], c["a"]], sort_keys=True).encode()).hexdigest()[:10]
    cls = ",".join(map(str, c["cls"])) if c["n"] <= 12 else f"#{dig}"
    return f"{NAMES[c['kind']]}:{c['sub']}:n={c['n']},C={c['C']},cls=[{cls}]," + \
        ",".join(f"{k}={a[k]}" for k in sorted(a)) + (f",tables#{dig}" if len(a) != len(c["a"]) else "")


# ---------------------------------------------------------------- TLC side
def run_batches(cfg, traces, name, tag, jobs, timeout=3000):
    """parallel JVMs over disjoint batches. Each prints <<"NACCEPTED", k>> and <<tag, {entries starting with a trace id}>>;
    verdicts must be total per batch: k + number of listed ids = batch size, listed ids belong to the batch.
    returns (accepted ids, listed entries, stats)"""
    os.makedirs(tlc.WORK, exist_ok=True)
    order = sorted(traces, key=lambda t: -(t["cfg"]["n"] * (t["cfg"]["C"] if t["cfg"]["kind"] in ("ls", "oh") else 1)))
    chunks = [c for c in (order[i::jobs] for i in range(jobs)) if c]

    def one(i_ch):
        i, ch = i_ch
        path = os.path.join(tlc.WORK, f"{name}-{os.getpid()}-{i}.json")
        with open(path, "w") as f:
            json.dump(dict(traces=ch), f)
        try:
            r = tlc.run_tlc("LabelsTrace", cfg, name=f"{name}{i}", workers=1, env=dict(TRACE_FILE=path), timeout=timeout)
        finally:
            os.remove(path)
        nacc, listed = tlc.tagged(r.prints, "NACCEPTED"), tlc.tagged(r.prints, tag)
        if len(nacc) != 1 or len(listed) != 1:
            raise tlc.TLCError(f"LabelsTrace/{cfg}: verdict lines missing\n{r.stdout[-3000:]}")
        ids = {t["id"] for t in ch}
        lids = {x[0] for x in listed[0]}
        if not lids <= ids or len(lids) != len(listed[0]) or nacc[0] + len(lids) != len(ids):
            raise tlc.TLCError(f"LabelsTrace/{cfg}: verdicts not total in batch {i}: {len(ids)} traces, {nacc[0]} accepted, "
                               f"{len(lids)} listed under {tag}")
        return ids - lids, listed[0], r

    acc, entries, st, tr = set(), [], 0, 0
    with ThreadPoolExecutor(max_workers=jobs) as ex:
        for a, ls, r in ex.map(one, list(enumerate(chunks))):
            acc |= a
            entries += ls
            st += r.distinct_states
            tr += r.states_generated
    return acc, entries, dict(states=st, transitions=tr)


def validate_obs(traces, name, jobs):
    acc, entries, st = run_batches("LabelsTrace_obs.cfg", traces, name, "REJECTED", jobs)
    return acc, {x[0]: (x[1], sorted(x[2])) for x in entries}, st


def validate_desc(traces, name, jobs):
    acc, entries, st = run_batches("LabelsTrace_desc.cfg", traces, name, "DEVIATION", jobs)
    return acc, {x[0]: sorted(x[1]) for x in entries}, st


# ---------------------------------------------------------------- negative controls on traces
def corruptions(t):
    """(name, expected clause, corrupted copy) for an accepted trace t; only those applicable to its shape"""
    out = []
    ev = t["ev"]
    enc = t["cfg"]["kind"] in ("ls", "oh")

    def cp():
        return json.loads(json.dumps(t))

    if not enc and ev[2]["labs"]:
        c = cp()
        c["ev"][2]["labs"][-1] = [x for x in range(-1, ev[0]["dim"]) if x != ev[2]["labs"][-1]][0]
        out.append(("bulk entry changed", "Coherent", c))
        c = cp(); c["ev"][1]["labs"][0] = ev[0]["dim"]
        out.append(("per-sample label = dim", "ItemInRange", c))
        c = cp(); c["ev"][2]["labs"][0] = -2
        out.append(("bulk label = -2", "BulkInRange", c))
        c = cp(); c["ev"][2]["refused"] = True; c["ev"][2]["labs"] = []
        if not (t["cfg"]["kind"] == "pl" and t["cfg"]["sub"] == "topk"):
            out.append(("bulk refused", "RefuseOnlyTopK", c))
        c = cp(); c["ev"][3]["labs"][0] = -1 if ev[3]["labs"][0] != -1 else 0
        out.append(("second sweep differs", "Repeatable", c))
        c = cp(); c["ev"][4]["labs"][-1] = -1 if ev[4]["labs"][-1] != -1 else 0
        out.append(("second construction differs", "Functional", c))
        c = cp(); c["ev"][4]["dim"] += 1
        out.append(("second construction announces another shape", "Functional", c))
    if enc and ev[1]["form"] == "vec":
        c = cp(); c["ev"][1]["enc"][0][0] -= 3000
        out.append(("entry lowered by 3e-3", "EncSumOne", c))
        c = cp(); row = c["ev"][1]["enc"][0]; j = max(range(len(row)), key=lambda q: row[q]); row[j] = -row[j] - 1
        out.append(("entry negative", "EncNonNeg", c))
        if ev[0]["dim"] > 1:
            c = cp(); row = c["ev"][1]["enc"][0]; j = max(range(len(row)), key=lambda q: row[q]); o = (j + 1) % len(row)
            row[j], row[o] = row[o], row[j]
            if t["cfg"]["sn"] < t["cfg"]["sd"]:
                out.append(("maximum moved", "EncArgmax", c))
            c = cp(); c["ev"][2]["labs"][0] = (ev[2]["labs"][0] + 1) % ev[0]["dim"]
            if t["cfg"]["sn"] < t["cfg"]["sd"]:
                out.append(("bulk id is not the argmax", "EncBulk", c))
        c = cp(); c["ev"][1]["enc"][0] = c["ev"][1]["enc"][0] + [0]
        out.append(("vector too long", "EncShape", c))
        c = cp(); c["ev"][1]["form"] = "other:str"; c["ev"][1]["enc"] = []
        out.append(("unusable value", "EncForm", c))
    c = cp(); c["ev"][5]["xw"][0] = max(c["ev"][5]["xw"]) + 1
    out.append(("payload differs", "Untouched", c))
    c = cp(); c["ev"][5]["labs"][0] = -1
    out.append(("wrapped labels edited", "BaseIntact", c))
    c = cp(); c["ev"][0]["len"] += 1
    out.append(("length changed", "LenKept", c))
    c = cp(); c["ev"][1] = E("items", err="KeyError@x.py:f")
    out.append(("accessor raised", "NoError", c))
    return out


# ---------------------------------------------------------------- model checking
MC_ACTIONS = ["Configure", "Start", "BuildTable", "CountStep", "Invert", "WhereStep", "GatherBase", "PadStep", "PlaceStep",
              "CutStep", "FillStep", "PickStep", "ItemStep", "BulkStep", "EndRound", "Finished"]
NEG = [("LabelsProps_neg_ag.cfg", "P_Coherent", "all-gather bulk accessor indexing twice"),
       ("LabelsProps_neg_ow.cfg", "P_Coherent", "overwrite-classes without its own bulk accessor"),
       ("LabelsProps_neg_pl.cfg", "P_Coherent", "pseudo-label bulk accessor ignoring the threshold"),
       ("LabelsProps_neg_seed.cfg", "P_Functional", "draws taken from the global generator"),
       ("LabelsProps_neg_domain.cfg", "P_ItemInRange", "group size not dividing the class count")]


def model_check(v, prop, tier):
    workers = 4 if tier == "quick" else 10
    with ThreadPoolExecutor(max_workers=7) as ex:
        main = ex.submit(tlc.run_tlc, "LabelsProps", f"LabelsProps_{tier}.cfg", name=prop + "mc", workers=workers,
                         coverage=True, timeout=3000, deadlock=True)
        negs = [ex.submit(tlc.run_tlc, "LabelsProps", cfg, name=prop + "neg" + str(i), workers=1, timeout=600, heap="2g")
                for i, (cfg, _, _) in enumerate(NEG)]
        live = ex.submit(tlc.run_tlc, "LabelsProps", "LabelsProps_live.cfg", name=prop + "live", workers=1, timeout=900,
                         deadlock=True, heap="2g")
        res = main.result()
        negres = [f.result() for f in negs]
        liveres = live.result()
    v.add_tlc(res, f"LabelsProps {tier}: machine of Labels.tla |= P_*, L_* (Proto v1, seeded)")
    for nm in res.violated:
        v.violation(f"model:{nm}", f"design model (Labels.tla, repaired protocol) violates {nm}", dict(cex=str(res.cex)[:6000]))
    if not res.violated:
        for act in MC_ACTIONS:
            if res.coverage.get(act, (0, 0))[1] == 0:
                raise tlc.TLCError(f"vacuity: action {act} never taken in LabelsProps_{tier}.cfg")
    v.add_tlc(liveres, "LabelsProps_live.cfg: every behaviour of the tiny grid reaches pc = done (temporal)")
    for nm in liveres.violated:
        v.violation(f"model:{nm}", f"design model violates {nm} on the liveness grid", dict(cex=str(liveres.cex)[:6000]))
    for (cfg, expect, what), r in zip(NEG, negres):
        v.add_tlc(r, f"negative control {cfg}: {what} must violate {expect}")
        if expect not in r.violated:
            raise tlc.TLCError(f"negative control failed: {cfg} should violate {expect}, got {r.violated}")


# ---------------------------------------------------------------- the check
def strip_obs(t):
    cfg = {k: t["cfg"][k] for k in ("kind", "sub", "n", "C", "cls", "sn", "sd")}
    return dict(id=t["id"], cfg=cfg, ev=t["ev"])


def run(prop, tier, seed):
    import time
    core.use_repo()
    v = core.Verdict(prop, tier, seed)
    r = random.Random(seed * 7907 + 16)
    quick = tier == "quick"
    jobs = 4 if quick else 8
    phase, t0 = {}, time.time()
    bg = ThreadPoolExecutor(max_workers=3)
    mc = bg.submit(model_check, v, prop, tier)      # TLC runs in child JVMs while the real wrappers are driven here

    # ---- (T) traces from the real wrappers
    cases = small_grid(r, tier) + random_cases(r, 45 if quick else 500)
    for c in cases:
        # label storage handed out by the wrapped dataset's bulk accessor; class count changing under encoders
        if r.random() < 0.3:
            c["a"]["store"] = r.choice(["tensor", "numpy"])
        if c["kind"] == "ag" and c["n"] >= 2 and r.random() < 0.4:
            c["a"]["over"] = "semi"
        if c["kind"] in ("oh", "ls") and r.random() < 0.4:
            c["a"]["c0"] = r.choice([c["C"] + 1, c["C"] + 3, max(1, c["C"] - 1)])
            if c["a"]["c0"] == c["C"]:
                del c["a"]["c0"]
    traces, by_id = [], {}
    for tid, c in enumerate(cases, start=1):
        ev, w = observe(c, gseed=seed * 1000003 + tid)
        a = c["a"]
        cfg = dict(kind=c["kind"], sub=c["sub"], n=c["n"], C=c["C"], cls=c["cls"],
                   sn=a.get("sn", 0) if c["kind"] == "ls" else 0, sd=a.get("sd", 1) if c["kind"] == "ls" else 1)
        t = dict(id=tid, cfg=cfg, ev=ev)
        complete = len(ev) == 7 and all(e["err"] == "" for e in ev) and ev[1]["form"] in ("int", "vec", "bin")
        par = desc_par(c, w, ev) if complete and not c["a"].get("over") else None
        if par is not None:
            t["cfg"]["par"] = par
        t["complete"] = complete
        traces.append(t)
        by_id[tid] = (c, t)
    phase["record"] = round(time.time() - t0, 1)

    # negative controls: corrupted copies of (probably accepted) traces ride in the same batches; a control counts only
    # if TLC accepted its donor
    ctl, expect, per_sig = [], {}, {}
    for t in traces:
        sig = (t["cfg"]["kind"], t["cfg"]["sub"], t["ev"][1]["form"] if len(t["ev"]) > 1 else "-")
        if t["complete"] and t["cfg"]["n"] >= 2 and per_sig.get(sig, 0) < 2 and (t["ev"][0]["dim"] >= 2 or sig[2] == "bin"):
            per_sig[sig] = per_sig.get(sig, 0) + 1
            for what, clause, c in corruptions(t):
                c = strip_obs(c)
                c["id"] = 10 ** 6 + len(ctl)
                expect[c["id"]] = (what, clause, t["id"])
                ctl.append(c)
    obs_f = bg.submit(validate_obs, [strip_obs(t) for t in traces] + ctl, prop + "tv", jobs)

    # Desc: the descriptive machine must reproduce what the real object showed (noted, never a verdict)
    dsel = [dict(id=t["id"], cfg=t["cfg"], ev=t["ev"][:3]) for t in traces if "par" in t["cfg"]]
    desc_f = None
    if dsel:
        probe = json.loads(json.dumps(dsel[0]))
        probe["id"] = 10 ** 6
        if probe["ev"][1]["form"] == "int":
            probe["ev"][1]["labs"][0] += 1
        else:
            probe["ev"][1]["enc"][0][0] += 50
        desc_f = bg.submit(validate_desc, dsel + [probe], prop + "td", jobs)

    mc.result()
    phase["model_check_done_at"] = round(time.time() - t0, 1)
    acc, rej, st = obs_f.result()
    phase["obs_done_at"] = round(time.time() - t0, 1)
    v.coverage["states"] += st["states"]
    v.coverage["transitions"] += st["transitions"]
    v.coverage["traces_validated_against_impl"] = len(traces)
    v.coverage["evaluations"] = len(traces)

    # ---- negative controls
    effective, machinery = {}, None
    for i, (what, clause, src) in expect.items():
        if src not in acc:
            continue
        if i in acc or clause not in rej[i][1]:
            machinery = (f"negative control failed: trace {src} with '{what}' should fail {clause}, "
                         f"got {rej.get(i, 'ACCEPTED')}")
        effective[clause] = effective.get(clause, 0) + 1
    need = {"Coherent", "ItemInRange", "BulkInRange", "RefuseOnlyTopK", "Repeatable", "Functional", "Untouched", "BaseIntact",
            "LenKept", "NoError", "EncSumOne", "EncNonNeg", "EncArgmax", "EncBulk", "EncShape", "EncForm"}
    if need - set(effective) and machinery is None:
        machinery = f"negative controls missing for clauses {sorted(need - set(effective))}"
    v.coverage["negative_control_traces"] = sum(effective.values())
    v.coverage["negative_control_clauses"] = sorted(effective)
    for i in expect:
        acc.discard(i)
        rej.pop(i, None)
    v.coverage["rejected_traces"] = len(rej)
    if machinery is not None:
        if not rej:
            raise tlc.TLCError(machinery)
        # real traces were rejected (their donors are missing as controls): the violation is reported, never hidden
        v.notes.append("negative controls incomplete on this run: " + machinery)

    per_kind, nontriv = {}, set()
    for c, t in by_id.values():
        per_kind[c["kind"]] = per_kind.get(c["kind"], 0) + 1
        ev = t["ev"]
        if c["n"] >= 2 and len(ev) > 1 and ev[1]["err"] == "" and (ev[1]["form"] != "int" or ev[1]["labs"] != c["cls"]):
            nontriv.add(case_key(c))
    v.coverage["traces_per_wrapper"] = per_kind
    v.coverage["distinct_nontrivial"] = len(nontriv)
    v.coverage["rule"] = ("cases = every (layout, constructor arguments, seed) of the small grid (capped per wrapper by a "
                          "seeded sample) + seeded random configurations with 5..200 samples and up to 20 classes; "
                          "non-trivial = at least two samples and the per-sample accessor shows something other than the "
                          "wrapped labels (a rewritten label or an encoding); distinct by wrapper, layout and arguments")
    sig_seen, first_of, rest = set(), [], []
    for i in sorted(rej):
        sg = (by_id[i][0]["kind"], by_id[i][0]["sub"], tuple(rej[i][1]))
        (rest if sg in sig_seen else first_of).append(i)
        sig_seen.add(sg)
    v.coverage["rejected_signatures"] = [list(map(str, sg)) for sg in sorted(sig_seen)]
    for i in first_of + rest:
        c, t = by_id[i]
        pos, clauses = rej[i]
        e = t["ev"][pos - 1] if 0 < pos <= len(t["ev"]) else None
        detail = ""
        if e is not None and e["a"] == "bulk" and not e["refused"] and e["err"] == "":
            first = t["ev"][1]["labs"]
            bad = [j for j in range(min(len(first), len(e["labs"]))) if first[j] != e["labs"][j]]
            detail = f"; per-sample {first[:12]} vs bulk {e['labs'][:12]} (differs at {bad[:6]})"
        elif e is not None and e["err"]:
            detail = f"; {e['a']} raised {e['err']}"
        elif e is not None and e["a"] in ("items", "again", "rebuild"):
            detail = f"; dim {t['ev'][0]['dim']}, {e['a']} {e['form']} {(e['labs'] or e['enc'])[:8]} vs first sweep " \
                     f"{(t['ev'][1]['labs'] or t['ev'][1]['enc'])[:8]}"
        v.violation(case_key(c), f"clauses {clauses} fail at event {pos} ({e['a'] if e else '?'}) of the real "
                    f"{NAMES[c['kind']]}{detail}", dict(case=c, ev=t["ev"], clauses=clauses, position=pos))

    # ---- Desc results
    if desc_f is not None:
        dacc, ddev, dst = desc_f.result()
        phase["desc_done_at"] = round(time.time() - t0, 1)
        if 10 ** 6 not in ddev:
            raise tlc.TLCError("negative control failed: a corrupted trace conforms to the descriptive machine")
        ddev.pop(10 ** 6)
        v.coverage["states"] += dst["states"]
        v.coverage["transitions"] += dst["transitions"]
        v.coverage["desc_traces"] = len(dsel)
        v.coverage["desc_conforming"] = len(dacc)
        v.coverage["desc_deviations"] = [dict(key=case_key(by_id[i][0]), differs=ddev[i]) for i in sorted(ddev)[:6]]
        if ddev:
            kinds = sorted({by_id[i][0]["kind"] for i in ddev})
            print(f"NOTE property={prop}: {len(ddev)} of {len(dsel)} traces are not reproduced by the descriptive machine "
                  f"of Labels.tla (wrappers {kinds}); the verdict rests on the normative clauses only")
            v.notes.append(f"descriptive-model deviations: {len(ddev)} traces, wrappers {kinds}")
    v.coverage["phase_s"] = phase

    shown = set()
    for t in traces:
        if t["cfg"]["kind"] not in shown and t["cfg"]["n"] >= 3 and len(shown) < 4 and t["cfg"]["kind"] in ("rs", "ag", "pl", "ls"):
            shown.add(t["cfg"]["kind"])
            v.sample(dict(case=by_id[t["id"]][0], ev=[{k: e[k] for k in e if e[k] not in ("", [], -1, "-", False)}
                                                     for e in t["ev"]]))
    v.assumptions += ["wrapped labels are Python ints in 0..C-1 (0/1 with one announced class for the documented binary "
                      "smoothing case); the wrapped dataset returns fresh objects from every accessor",
                      "stated domain: group sizes dividing the class count, world sizes <= dataset size, seeded "
                      "constructions (seed=None / dynamic pseudo-labels are outside 'a function of arguments and seed')",
                      "encodings logged as fixed point x10^6, sum-to-one tolerance 1e-4, smoothing < 1 at least 0.05 "
                      "away from 1 so that a strict argmax is visible at that resolution",
                      "Functional is observed on two constructions under two different global generator states and two "
                      "access orders (a dependence that happens to coincide on both is not seen)",
                      "TLC 1.8 and CommunityModules Json are trusted"]
    v.coverage["exhaustive"] = False
    return v.finish()
