"""C19: SharedDictDataset / CachedDataset under every interleaving of reader processes and clears.

(M) TLC checks Cache.tla (Proto v1 = current tree) for 2-3 processes, 2 indices, clears; Proto v0 (original
    check-then-read) is the negative control and must violate NoError.
(R/T) K forked reader processes share the real Manager dict. In each, ds.shared_dict is replaced by a gate proxy and
    the wrapped dataset by a gated dataset: every dict operation / load blocks on a pipe until the parent scheduler
    grants it. The scheduler enumerates ALL interleavings of a workload (stateless DFS) and records, in execution
    order, every operation with the dict's key set after it and every returned value (decoded against the known
    payloads). TLC validates each trace: CacheTrace.tla Obs (normative; verdict) and Desc (conformance to Cache.tla).
"""
import json
import multiprocessing as mp
import os
import random
import sys
import time
from concurrent.futures import ThreadPoolExecutor

from kdverif import core, tlc

IDX = [0, 1, 2, 3]


# ---------------------------------------------------------------- payloads and transform
def payload(ptype, i):
    if ptype == "int":
        return 1000 + i
    if ptype == "tuple":
        return (i, "s%d" % i, (i, i + 1))
    if ptype == "bytes":
        return bytes([i, i + 1, 255]) * 5
    if ptype == "optional":
        return None if i == 0 else ("v", i)      # None is a picklable payload too
    if ptype == "tensor":
        import torch
        return torch.arange(6).view(2, 3) + 10 * i
    if ptype == "runtimeclass":
        return _runtime_class()(i, "s%d" % i)
    if ptype == "bf16":
        import torch
        return (torch.arange(6).view(2, 3) + 10 * i).to(torch.bfloat16)
    if ptype == "ndarray":
        import numpy as np
        return np.arange(6, dtype=np.int32).reshape(2, 3) + 10 * i
    if ptype == "ndtuple":
        import numpy as np
        return (np.full((2,), float(i), dtype=np.float64), i)
    raise ValueError(ptype)


def _runtime_class():
    """a payload type that exists only in the running program (a class made at run time in a module that is not on
    disk - what a notebook / REPL session has): picklable in this process and every forked one"""
    import collections
    import types
    name = "kdverif_runtime_payloads"
    if name not in sys.modules:
        mod = types.ModuleType(name)
        cls = collections.namedtuple("Sample", ["a", "b"])
        cls.__module__ = name
        mod.Sample = cls
        sys.modules[name] = mod
    return sys.modules[name].Sample


_runtime_class()   # made before any cache (and its manager process) exists, as a session's own classes are


def eq(a, b):
    import numpy as np
    import torch
    if isinstance(a, np.ndarray) or isinstance(b, np.ndarray):
        return (type(a) is type(b) and a.dtype == b.dtype and a.shape == b.shape and bool(np.array_equal(a, b)))
    if isinstance(a, torch.Tensor) or isinstance(b, torch.Tensor):
        return (isinstance(a, torch.Tensor) and isinstance(b, torch.Tensor) and a.dtype == b.dtype and a.shape == b.shape
                and torch.equal(a, b))
    if isinstance(a, tuple) and isinstance(b, tuple):
        return len(a) == len(b) and all(eq(x, y) for x, y in zip(a, b))
    return type(a) == type(b) and a == b


def T(x):
    return ("T", x)


def decode(ptype, v):
    for i in IDX:
        p = payload(ptype, i)
        if eq(v, T(p)):
            return "Tb", i
        if eq(v, p):
            return "b", i
        if eq(v, T(T(p))):
            return "TTb", i
    return "other", -1


# ---------------------------------------------------------------- child side
class Gate:
    def __init__(self, conn, real):
        self.conn, self.real = conn, real
        self.active = False   # only operations performed while the scheduler runs a command of this process are gated

    def step(self, op, key, fn):
        if not self.active:
            return fn()
        self.conn.send(("req", op, key))
        self.conn.recv()  # go
        try:
            res = fn()
        except BaseException as e:
            self.conn.send(("done", op, key, False, sorted(self.real.keys()), type(e).__name__))
            raise
        hit = bool(res) if op == "contains" else True
        self.conn.send(("done", op, key, hit, sorted(self.real.keys()), None))
        return res


class GateDict:
    """stands in for ds.shared_dict; every method goes through the gate under its own name"""

    def __init__(self, gate):
        object.__setattr__(self, "_g", gate)

    def __contains__(self, k):
        return self._g.step("contains", k, lambda: k in self._g.real)

    def __getitem__(self, k):
        return self._g.step("getitem", k, lambda: self._g.real[k])

    def __setitem__(self, k, v):
        return self._g.step("setitem", k, lambda: self._g.real.__setitem__(k, v))

    def clear(self):
        return self._g.step("clear", -1, lambda: self._g.real.clear())

    def __len__(self):
        return len(self._g.real)

    def __getattr__(self, name):
        real = getattr(self._g.real, name)
        if not callable(real):
            return real

        def call(*a, **k):
            key = a[0] if a and isinstance(a[0], int) else -1
            return self._g.step("other", key, lambda: real(*a, **k))

        return call


class GatedBase:
    def __init__(self, gate, ptype, n):
        self.gate, self.ptype, self.n = gate, ptype, n

    def __len__(self):
        return self.n

    def __getitem__(self, i):
        return self.gate.step("load", int(i), lambda: payload(self.ptype, int(i)))


def child_main(conn, pristine, ptype, posttransform=True):
    import copy
    import gc
    calls = dict(n=0)

    def transform(x):
        calls["n"] += 1
        return T(x)

    def fresh():
        # a fresh copy of the dataset object as it was forked (per-process state must not leak between schedules);
        # the Manager proxy itself is shared, not copied
        real = pristine.shared_dict
        # shallow copy + one-level copies of plain containers: no reference cycles (a deep copy drags the logger's
        # object graph along and would be freed by the cyclic collector at an arbitrary later moment)
        ds = copy.copy(pristine)
        for k_, v_ in list(vars(ds).items()):
            if type(v_) in (dict, list, set):
                setattr(ds, k_, type(v_)(v_))
        gate = Gate(conn, real)
        ds.shared_dict = GateDict(gate)
        base = GatedBase(gate, ptype, len(IDX))
        if posttransform:
            ds.transform = transform
        else:
            # no post-cache transform; the WRAPPED dataset has a transform attribute of its own (torchvision layout),
            # which is none of the cache's business
            # (ds.transform is left exactly as the constructor left it: the dataset was built without a transform)
            base.transform = transform
        ds.dataset = base
        return ds, gate

    class _NoGate:
        active = False

    def fresh_or_error():
        # copying the dataset object (what handing it to a reader process does) is the cache's own code
        # (__getattr__ / __reduce_ex__ lookups): a failure is an observation of every later access, not a harness crash
        try:
            return fresh() + (None,)
        except BaseException as e:  # noqa
            return None, _NoGate(), "Copy:" + type(e).__name__

    ds, gate, broken = fresh_or_error()
    while True:
        cmd = conn.recv()
        if cmd[0] == "reset":
            gate.active = False
            old = (ds, gate)
            ds, gate, broken = fresh_or_error()
            del old        # the objects of the previous schedule go away now (ungated; they hold no reference cycles)
            try:
                pristine.shared_dict.clear()
            except BaseException as e:  # noqa: reaching the shared cache from a reader process is the cache's own code
                broken = broken or ("Share:" + type(e).__name__)
            conn.send(("resetdone",))
        elif broken is not None and cmd[0] in ("access", "clear", "copydrop"):
            conn.send(("exc", broken))
        elif cmd[0] == "access":
            calls["n"] = 0
            gate.active = True
            try:
                v = ds[cmd[1]]
                gate.active = False
                val, vi = decode(ptype, v)
                conn.send(("ret", cmd[1], val, vi, calls["n"]))
            except BaseException as e:  # noqa
                gate.active = False
                conn.send(("exc", type(e).__name__))
        elif cmd[0] == "clear":
            gate.active = True
            try:
                ds.dispose()
                gate.active = False
                conn.send(("cleared",))
            except BaseException as e:  # noqa
                gate.active = False
                conn.send(("exc", type(e).__name__))
        elif cmd[0] == "copydrop":
            # a short-lived copy of the dataset object (what pickling it to a pool / copy.copy produces) goes away:
            # that is not a dispose() and must not touch the shared cache
            gate.active = True
            try:
                c = copy.copy(ds)
                del c   # a shallow copy holds no reference cycle: it is freed right here
                gate.active = False
                conn.send(("cleared",))
            except BaseException as e:  # noqa
                gate.active = False
                conn.send(("exc", type(e).__name__))
        elif cmd[0] == "quit":
            return


# ---------------------------------------------------------------- parent side: scheduler
class Pool:
    def __init__(self, nprocs, ptype, posttransform=True):
        core.use_repo()
        from kappadata.caching.shared_dict_dataset import SharedDictDataset

        class Plain:
            def __len__(self):
                return len(IDX)

            def __getitem__(self, i):
                return payload(ptype, i)

        self.ds = SharedDictDataset(Plain())
        self.ptype = ptype
        ctx = mp.get_context("fork")
        self.conns, self.procs = [], []
        for _ in range(nprocs):
            a, b = ctx.Pipe()
            p = ctx.Process(target=child_main, args=(b, self.ds, ptype, posttransform), daemon=True)
            p.start()
            self.conns.append(a)
            self.procs.append(p)

    def close(self):
        for c in self.conns:
            try:
                c.send(("quit",))
            except Exception:
                pass
        for p in self.procs:
            p.join(timeout=2)
            if p.is_alive():
                p.kill()
        try:
            self.ds.shared_dict._manager = None
        except Exception:
            pass

    def execute(self, workload, prefix):
        """workload: list per process of commands ("a", i) | ("c",). prefix: forced choices (process numbers).
        Returns (events, choices, enabled_sets)."""
        self.ds.shared_dict.clear()
        for c in self.conns:
            c.send(("reset",))
        for c in self.conns:
            if not c.poll(20) or c.recv()[0] != "resetdone":
                raise tlc.TLCError("reader process did not reset")
        n = len(workload)
        todo = [list(w) for w in workload]
        pending = [None] * n  # pending gate request of a blocked process
        events, choices, enabled_sets = [], [], []

        def pump(p):
            """read messages of p until it blocks at a gate or finishes its command"""
            while True:
                if not self.conns[p].poll(20):
                    raise tlc.TLCError(f"reader process {p} does not answer (deadlock in the harness?)")
                m = self.conns[p].recv()
                if m[0] == "req":
                    pending[p] = m
                    return
                if m[0] == "done":
                    events.append(dict(a="op", p=f"p{p + 1}", op=m[1], key=m[2], hit=m[3], keys=m[4]))
                    continue
                if m[0] == "ret":
                    events.append(dict(a="ret", p=f"p{p + 1}", i=m[1], val=m[2], vi=m[3], tcalls=m[4]))
                elif m[0] == "exc":
                    events.append(dict(a="exc", p=f"p{p + 1}", type=m[1]))
                pending[p] = None
                return

        step = 0
        while True:
            enabled = [p for p in range(n) if pending[p] is not None or todo[p]]
            if not enabled:
                break
            if step < len(prefix):
                p = prefix[step]
                assert p in enabled, (prefix, step, enabled)
            else:
                p = enabled[0]
            enabled_sets.append(enabled)
            choices.append(p)
            if pending[p] is not None:
                self.conns[p].send("go")
            else:
                cmd = todo[p].pop(0)
                if cmd[0] == "a":
                    events.append(dict(a="begin", p=f"p{p + 1}", i=cmd[1]))
                    self.conns[p].send(("access", cmd[1]))
                elif cmd[0] == "k":
                    events.append(dict(a="begincopy", p=f"p{p + 1}"))
                    self.conns[p].send(("copydrop",))
                else:
                    events.append(dict(a="beginclear", p=f"p{p + 1}"))
                    self.conns[p].send(("clear",))
            pump(p)
            step += 1
        return events, choices, enabled_sets

    def all_interleavings(self, workload, warm=0, limit=None, rnd=None):
        """stateless DFS over scheduler choices; the first `warm` commands of process 0 run to completion first"""
        forced = []
        if warm:
            # run the warm-up sequentially: find the forced prefix by executing with process 0 first
            w0 = [workload[0][:warm]] + [[] for _ in workload[1:]]
            _, ch, _ = self.execute(w0, [])
            forced = ch
        stack = [list(forced)]
        out = []
        while stack:
            prefix = stack.pop()
            events, choices, enabled_sets = self.execute(workload, prefix)
            out.append((events, choices))
            if limit and len(out) >= limit:
                break
            for pos in range(len(prefix), len(choices)):
                for alt in enabled_sets[pos]:
                    if alt != choices[pos]:
                        stack.append(choices[:pos] + [alt])
            if rnd is not None and len(stack) > 1:
                # randomised DFS order (used when a limit cuts the enumeration)
                j = rnd.randrange(len(stack))
                stack[-1], stack[j] = stack[j], stack[-1]
        return out


WORKLOADS_QUICK = [
    # (name, workload per process, warm, limit)
    ("miss_vs_clear", [[("a", 0)], [("c",)]], 0, None),
    ("hit_vs_clear", [[("a", 0), ("a", 0)], [("c",)]], 1, None),
    ("two_readers_same", [[("a", 0)], [("a", 0)]], 0, None),
    ("two_readers_then_again", [[("a", 0), ("a", 0)], [("a", 0)]], 0, None),
    ("reader_clear_reader", [[("a", 1)], [("c",), ("a", 1)]], 0, None),
    ("warm_two_readers_clear", [[("a", 0), ("a", 0)], [("a", 0)], [("c",)]], 1, 400),
]
WORKLOADS_THOROUGH = WORKLOADS_QUICK[:-1] + [
    ("warm_two_readers_clear", [[("a", 0), ("a", 0)], [("a", 0)], [("c",)]], 1, None),
    ("cross", [[("a", 0), ("a", 1)], [("a", 1), ("a", 0)]], 0, None),
    ("two_readers_clear", [[("a", 0)], [("a", 0)], [("c",)]], 0, None),
    ("reader_two_clears", [[("a", 0), ("a", 0)], [("c",), ("c",)]], 0, None),
    ("three_readers", [[("a", 0)], [("a", 0)], [("a", 0), ("c",)]], 0, 6000),
]


def loader_trace(ptype, wrapped, num_workers):
    """the cached dataset itself inside a DataLoader with automatic batching, two epochs"""
    import torch
    from kappadata.caching.shared_dict_dataset import SharedDictDataset

    class Plain(torch.utils.data.Dataset):
        def __len__(self):
            return len(IDX)

        def __getitem__(self, i):
            return payload(ptype, int(i))

    base = Plain()
    order = list(IDX)
    if wrapped == "subset":
        order = [2, 0, 3]
        base = torch.utils.data.Subset(base, order)
    ev = []
    try:
        ds = SharedDictDataset(base, transform=T)
        dl = torch.utils.data.DataLoader(ds, batch_size=2, shuffle=False, num_workers=num_workers, collate_fn=lambda b: list(b))
        for epoch in range(2):
            k = 0
            for batch in dl:
                for v in batch:
                    val, vi = decode(ptype, v)
                    ev.append(dict(a="plain", p="p1", i=order[k], val=val, vi=vi))
                    k += 1
    except BaseException as e:  # noqa
        ev.append(dict(a="exc", p="p1", type=type(e).__name__))
    return dict(cfg=dict(workload=f"dataloader:{wrapped}:workers={num_workers}", ptype=ptype, tr=True, nprocs=1, choices=[]),
                ev=ev)


def stacked_trace(ptype, r, length, k=0):
    """a cache on top of an index-remapping layer on top of another cache (each cache is 'a dataset' for the one
    above); the outer cache has the post-cache transform.  Events name the UNDERLYING index the access denotes."""
    from kappadata.caching.shared_dict_dataset import SharedDictDataset
    n = len(IDX)

    class Plain:
        def __len__(self):
            return n

        def __getitem__(self, i):
            return payload(ptype, int(i))

    class Rev:
        def __init__(self, ds):
            self.ds = ds

        def __len__(self):
            return n

        def __getitem__(self, i):
            return self.ds[n - 1 - int(i)]

    class RevFwd(Rev):
        """the same layer in the style of the library's wrappers: unknown attributes are forwarded downwards"""

        def __getattr__(self, item):
            if item == "ds":
                raise AttributeError(item)
            return getattr(self.ds, item)

    ev = []
    try:
        inner = SharedDictDataset(Plain())
        outer = SharedDictDataset((RevFwd if r.random() < 0.6 else Rev)(inner), transform=T)
        for _ in range(length):
            if r.random() < 0.1:
                (outer if r.random() < 0.5 else inner).dispose()
                continue
            i = r.choice(IDX)
            if r.random() < 0.25:
                inner[i]   # the lower cache is read directly as well (other consumers of the same dataset object)
                continue
            val, vi = decode(ptype, outer[i])
            ev.append(dict(a="plain", p="p1", i=n - 1 - i, val=val, vi=vi))
    except BaseException as e:  # noqa
        ev.append(dict(a="exc", p="p1", type=type(e).__name__))
    return dict(cfg=dict(workload=f"stacked_caches{k}", ptype=ptype, tr=True, nprocs=1, choices=[]), ev=ev)


def oob_trace(ptype, k=0):
    """indices the wrapped dataset refuses: the cached dataset refuses them in the same way (before and after the
    valid indices were cached)"""
    from kappadata.caching.shared_dict_dataset import SharedDictDataset
    n = len(IDX)

    class Strict:
        def __len__(self):
            return n

        def __getitem__(self, i):
            if not 0 <= int(i) < n:
                raise IndexError(i)
            return payload(ptype, int(i))

    def outcome(ds, i):
        try:
            ds[i]
            return "value"
        except BaseException as e:  # noqa
            return type(e).__name__

    ev = []
    try:
        base = Strict()
        ds = SharedDictDataset(Strict(), transform=T)
        for rnd in range(2):
            for i in (n, n + 3, -1, -n - 1, 2 * n):
                ev.append(dict(a="oob", p="p1", i=int(i), same=bool(outcome(ds, i) == outcome(base, i))))
            for i in IDX:
                val, vi = decode(ptype, ds[i])
                ev.append(dict(a="plain", p="p1", i=i, val=val, vi=vi))
    except BaseException as e:  # noqa
        ev.append(dict(a="exc", p="p1", type=type(e).__name__))
    return dict(cfg=dict(workload=f"out_of_range{k}", ptype=ptype, tr=True, nprocs=1, choices=[]), ev=ev)


def sequential_history(r, length):
    w = []
    for _ in range(length):
        if r.random() < 0.12:
            w.append(("c",))
        elif r.random() < 0.08:
            w.append(("k",))
        else:
            w.append(("a", r.choice(IDX)))
    return [w]


# ---------------------------------------------------------------- TLC
def write_cfg(mode, proto):
    name = f"CacheTrace_{mode}.cfg"
    with open(os.path.join(tlc.SPECS, name), "w") as f:
        f.write('CONSTANTS\n  Procs = {"p1", "p2", "p3"}\n  Idx = {0, 1, 2, 3}\n  MaxAcc = 100000\n  MaxClears = 100000\n'
                f'  Proto = "{proto}"\n')
        if mode == "obs":
            f.write("SPECIFICATION ObsSpec\nCONSTRAINT ObsConstraint\nPOSTCONDITION Report\n")
        else:
            f.write("SPECIFICATION DescSpec\nCONSTRAINT DescCollect\nPOSTCONDITION DescReport\n")
        f.write("CHECK_DEADLOCK FALSE\n")
    return name


def validate(traces, mode, proto="v1", jobs=6):
    cfg = write_cfg(mode, proto)
    order = sorted(traces, key=lambda t: -len(t["ev"]))
    chunks = [order[i::jobs] for i in range(jobs)]
    chunks = [c for c in chunks if c]
    os.makedirs(tlc.WORK, exist_ok=True)

    def one(i_ch):
        i, ch = i_ch
        path = os.path.join(tlc.WORK, f"cache-{mode}-{os.getpid()}-{i}.json")
        with open(path, "w") as f:
            json.dump(dict(traces=ch), f)
        try:
            r = tlc.run_tlc("CacheTrace", cfg, name=f"cache{mode}{i}", workers=1, env=dict(TRACE_FILE=path), timeout=3000)
        finally:
            os.remove(path)
        acc = tlc.tagged(r.prints, "ACCEPTED")
        assert len(acc) == 1, r.stdout[-3000:]
        if mode == "obs":
            rej = tlc.tagged(r.prints, "REJECTED")
            assert len(rej) == 1, r.stdout[-3000:]
            info = {x[0]: (x[1], sorted(x[2])) for x in rej[0]}
        else:
            pr = tlc.tagged(r.prints, "PROGRESS")
            info = {x[0]: x[1] for x in pr[0]}
        return set(acc[0]), info, r

    acc, info, st, tr = set(), {}, 0, 0
    with ThreadPoolExecutor(max_workers=jobs) as ex:
        for a, inf, r in ex.map(one, list(enumerate(chunks))):
            acc |= a
            info.update(inf)
            st += r.distinct_states
            tr += r.states_generated
    return acc, info, dict(states=st, transitions=tr)


def sched_key(t):
    return f"{t['cfg']['workload']}:{t['cfg']['ptype']}:sched=" + "".join(str(c + 1) for c in t["cfg"]["choices"])


def run(prop, tier, seed):
    core.use_repo()
    v = core.Verdict(prop, tier, seed)
    quick = tier == "quick"
    r = random.Random(seed + 19)

    # ---- (M)
    for proto, expect_ok in (("v1", True), ("v0", False)):
        cfgname = (f"Cache_{proto}.cfg" if quick or not expect_ok else f"Cache3_{proto}.cfg")
        res = tlc.run_tlc("Cache", cfgname, name="cachemc" + proto, workers=16, coverage=expect_ok, timeout=3000)
        v.add_tlc(res, f"Cache.tla Proto={proto}" + ("" if expect_ok else " (negative control: must violate NoError)"))
        if expect_ok:
            for nm in res.violated:
                v.violation(f"model:{nm}", f"Cache.tla (v1) violates {nm}", dict(cex=str(res.cex)[:6000]))
            for act in ("Begin", "Read", "Load", "Store", "Return", "BeginClear", "Clear"):
                if res.coverage.get(act, (0, 0))[1] == 0:
                    raise tlc.TLCError(f"vacuity: action {act} of Cache.tla never taken")
        elif "NoError" not in res.violated:
            raise tlc.TLCError("negative control failed: check-then-read (v0) should violate NoError")

    # ---- (R/T) every interleaving on the real class
    traces = []
    workloads = WORKLOADS_QUICK if quick else WORKLOADS_THOROUGH
    ptypes = (["int", "tensor", "optional", "ndarray", "runtimeclass"] if quick else
              ["int", "tuple", "bytes", "tensor", "optional", "ndarray", "bf16", "ndtuple", "runtimeclass"])
    exhaustive = True
    variants = [(pt, True) for pt in ptypes] + [("int", False)]   # (payload type, post-cache transform configured?)
    for pi, (ptype, tr) in enumerate(variants):
        pool = Pool(3, ptype, posttransform=tr)
        try:
            for name, wl, warm, limit in workloads:
                if pi > 0 and len(wl) > 2 and quick:
                    continue
                if not tr and name not in ("two_readers_then_again", "hit_vs_clear"):
                    continue
                wl3 = wl + [[] for _ in range(3 - len(wl))]
                runs = pool.all_interleavings(wl3, warm=warm, limit=limit, rnd=r if limit else None)
                if limit and len(runs) >= limit:
                    exhaustive = False
                for events, choices in runs:
                    traces.append(dict(cfg=dict(workload=name, ptype=ptype, tr=tr, nprocs=len(wl), choices=choices),
                                       ev=events))
            # a copy of the dataset object that goes away while another process reads
            if tr and (pi == 0 or not quick):
                for events, choices in pool.all_interleavings([[("a", 0), ("k",), ("a", 0)], [("a", 0)], []], warm=0):
                    traces.append(dict(cfg=dict(workload="copy_dropped", ptype=ptype, tr=tr, nprocs=2, choices=choices),
                                       ev=events))
            # sequential histories of one process (at most one load between clears)
            for k in range(3 if quick else 20):
                wl = sequential_history(r, 120 if quick else 200)
                events, choices, _ = pool.execute(wl + [[], []], [])
                traces.append(dict(cfg=dict(workload=f"sequential{k}", ptype=ptype, tr=tr, nprocs=1, choices=[]), ev=events))
        finally:
            pool.close()
    # through real DataLoaders with automatic batching (0 and 2 workers), also over a torch Subset
    for ptype in (["int"] if quick else ["int", "tuple"]):
        for wrapped in ("plain", "subset"):
            for nw in (0, 2):
                traces.append(loader_trace(ptype, wrapped, nw))
    for ptype in (["int", "ndarray"] if quick else ["int", "tuple", "ndarray", "tensor"]):
        for k in range(2 if quick else 6):
            traces.append(stacked_trace(ptype, r, 60, k))
    for k, ptype in enumerate(["int", "tensor"] if quick else ["int", "tuple", "tensor", "ndarray"]):
        traces.append(oob_trace(ptype, k))
    for i, t in enumerate(traces, start=1):
        t["id"] = i
    v.coverage["evaluations"] = len(traces)
    v.coverage["traces_validated_against_impl"] = len(traces)
    acc, info, st = validate(traces, "obs")
    v.coverage["states"] += st["states"]
    v.coverage["transitions"] += st["transitions"]
    ids = {t["id"] for t in traces}
    if acc | set(info) != ids:
        raise tlc.TLCError(f"obs verdicts not total: {len(ids)} traces, {len(acc)} accepted, {len(info)} rejected")
    keys = set()
    for t in traces:
        if t["cfg"]["nprocs"] > 1:
            keys.add(sched_key(t))
        if t["id"] in info:
            at, clauses = info[t["id"]]
            v.violation(sched_key(t), f"clauses {clauses} fail at event {at} ({t['ev'][at - 1] if at else None}) of the "
                        f"real SharedDictDataset run", t)
    acc2, prog, st2 = validate(traces, "desc")
    v.coverage["states"] += st2["states"]
    v.coverage["transitions"] += st2["transitions"]
    dev = []
    for t in traces:
        if t["id"] not in acc2:
            at = prog.get(t["id"], 0)
            dev.append(dict(key=sched_key(t), matched=at, next_event=t["ev"][at] if at < len(t["ev"]) else None))
    v.coverage["protocol_deviations"] = dev[:5]
    v.coverage["protocol_conforming_traces"] = len(traces) - len(dev)
    if dev:
        print(f"NOTE property={prop}: {len(dev)} traces are not behaviours of the descriptive model Cache.tla v1 "
              f"(no normative clause failed on them)")
        v.notes.append("descriptive-model deviations present; verdict rests on the normative observation check")
    v.coverage["distinct_nontrivial"] = len(keys)
    v.coverage["rule"] = ("one case = one complete interleaving of the gated dict operations / loads of a workload over "
                          "2-3 real reader processes (all interleavings by stateless DFS unless a limit is stated), or one "
                          "sequential history; non-trivial = at least two processes; distinct by (workload, payload type, "
                          "scheduler choice sequence)")
    v.coverage["exhaustive"] = exhaustive
    multi = [t for t in traces if t["cfg"]["nprocs"] > 1]
    for t in multi[:1] + multi[len(multi) // 2: len(multi) // 2 + 1] + [t for t in traces if t["cfg"]["nprocs"] == 1][:1]:
        v.sample(dict(cfg=t["cfg"], ev=t["ev"][:30]))
    v.assumptions += ["the Manager process serialises dict operations (each is atomic)",
                      "fork start method; payloads picklable; indices 0..N-1",
                      "scheduler grants one operation at a time (no true parallelism inside an operation)"]
    return v.finish()
