"""C10 / C11: batch-level and sample-level mixup / cutmix.

C10  KDMixCollator / MAEFinetuneMixCollator    specs/MixCollator{Norm,,Props,Trace}.tla
C11  KDMixWrapper through ModeWrapper          specs/MixWrapper{Norm,,Props,Trace}.tla

(M) TLC checks that the descriptive model of the algorithm (draw structure, per-sample loop with its box counter /
    pad-or-cut loop with the reversed padding list) satisfies the normative clauses for every configuration of a small
    grid; the original per-sample loop of the collator (Variant v0) and two mutants of the wrapper are negative
    controls that must violate their clause.
(T) The REAL code runs on id-encoded inputs (sample k = k-th unit vector along a channel / id axis, one-hot labels), so
    every output position is a coefficient vector over the source samples.  Python only projects (fixed point x10^6,
    distinct position vectors with count and bounding box, equality classes of pass-through items, loads recorded in
    ctx by the harness dataset); TLC evaluates the normative clauses (the same operators as in (M)) on every recorded
    batch / request.  A few accepted traces are corrupted on purpose and must be rejected (binding self-test).
"""
import copy
import hashlib
import itertools
import random
import signal
import traceback
from concurrent.futures import ThreadPoolExecutor

import numpy as np

from kdverif import core, tlc, tracecheck

S = 10 ** 6
TOL = 100
POS = 16  # coordinate entries of the C11 encoding are stored as coordinate / POS
DEADLINE_S = 20


class Diverge(Exception):
    pass


def _alarm(*_):
    raise Diverge()


def guarded(fn):
    """run fn() under a deadline; returns (value, None) or (None, (kind, type name, exception))"""
    old = signal.signal(signal.SIGALRM, _alarm)
    signal.alarm(DEADLINE_S)
    try:
        return fn(), None
    except Diverge as e:
        return None, ("diverge", "Diverge", e)
    except Exception as e:  # noqa
        return None, ("exc", type(e).__name__, e)
    finally:
        signal.alarm(0)
        signal.signal(signal.SIGALRM, old)


def fx(t):
    """fixed point x10^6 of a tensor / array (list of ints)"""
    a = np.asarray(t, dtype=np.float64)
    if not np.all(np.isfinite(a)):
        raise ValueError("non-finite value in output")
    return np.rint(a * S).astype(np.int64)


def eq_classes(values):
    """equality class ids (first distinct value = 1, ...) of tensors / numbers by dtype, shape and bytes"""
    import torch
    seen, out = {}, []
    for v in values:
        if isinstance(v, torch.Tensor):
            key = ("t", str(v.dtype), tuple(v.shape), hashlib.sha256(v.contiguous().numpy().tobytes()).hexdigest())
        else:
            key = ("o", type(v).__name__, repr(v))
        out.append(seen.setdefault(key, len(seen) + 1))
    return out


def tlc_view(traces, fields):
    """what TLC reads: integers / strings / booleans / lists only (no floats, no nulls) - the specification's fields"""
    return [dict(id=t["id"], cfg={k: t["cfg"][k] for k in fields}, ev=t["ev"]) for t in traces]


C10_FIELDS = ("B", "H", "W", "K", "onehot", "lamb", "shuffle", "S", "Tol", "y0")
C11_FIELDS = ("N", "K", "cls", "shp", "fshp", "p1", "seeded", "cutmix", "S", "Tol")

# ====================================================================================================== C10
MODES = ["x class", "class x", "index x class", "x class index", "x index class extra", "extra class x",
         "class extra index x"]


def c10_harness():
    import torch
    from kappadata.datasets.kd_dataset import KDDataset

    class IdBatchDataset(KDDataset):
        """sample k: image = k-th unit vector in channel space (C = B), label = row y0[k]; always fresh objects"""

        def __init__(self, B, H, W, y0, onehot, scalar_kind, ldtype="float32"):
            super().__init__()
            self.B, self.H, self.W, self.y0, self.onehot, self.scalar_kind = B, H, W, y0, onehot, scalar_kind
            self.ldtype = getattr(torch, ldtype)  # one-hot / soft labels also come as int64 (F.one_hot) or float64

        def __len__(self):
            return self.B

        def getitem_x(self, idx, ctx=None):
            x = torch.zeros(self.B, self.H, self.W)
            x[int(idx)] = 1.
            return x

        def getitem_class(self, idx, ctx=None):
            row = self.y0[int(idx)]
            if self.onehot:
                return torch.tensor(row, dtype=self.ldtype)
            if self.scalar_kind == "int":
                return int(row[0])
            return torch.tensor(float(row[0]))

        def getitem_extra(self, idx, ctx=None):
            return torch.tensor([3. * int(idx) + 1., -7.])

        def getshape_class(self):
            return (len(self.y0[0]),) if self.onehot else (2,)

    return IdBatchDataset


def c10_build(c):
    """real collator for configuration c"""
    from kappadata.collators.kd_mix_collator import KDMixCollator
    from kappadata.collators import KDComposeCollator
    if c["ctor"] == "mae":
        from kappadata.common.collators.mae_finetune_mix_collator import MAEFinetuneMixCollator
        col = MAEFinetuneMixCollator()
    else:
        kw = dict(apply_mode=c["apply"], lamb_mode=c["lamb"], shuffle_mode=c["shuffle"])
        if c["mixup_p"] > 0:
            kw.update(mixup_p=c["mixup_p"], mixup_alpha=c["mixup_alpha"])
        if c["cutmix_p"] > 0:
            kw.update(cutmix_p=c["cutmix_p"], cutmix_alpha=c["cutmix_alpha"])
        if c["ctor"] == "direct":
            col = KDMixCollator(dataset_mode=c["mode"], return_ctx=c["rc"], **kw)
        else:
            col = KDComposeCollator(collators=[KDMixCollator(**kw)], dataset_mode=c["mode"], return_ctx=c["rc"])
    return col.set_rng(np.random.default_rng(c["seed"]))


def pixel_classes(xk, W):
    """xk: (C, H, W) array -> distinct pixel vectors with count and bounding box"""
    C = xk.shape[0]
    rows = fx(xk.reshape(C, -1).T)
    uniq, inv = np.unique(rows, axis=0, return_inverse=True)
    inv = np.asarray(inv).reshape(-1)
    out = []
    for ci in range(len(uniq)):
        pos = np.nonzero(inv == ci)[0]
        r, cc = pos // W, pos % W
        out.append(dict(vec=[int(v) for v in uniq[ci]], n=int(len(pos)), top=int(r.min()), bot=int(r.max()) + 1,
                        left=int(cc.min()), right=int(cc.max()) + 1))
    return out


def c10_record(c, Dataset):
    """call the real collator on c['nb'] successive id-encoded batches; returns the event list"""
    import torch
    from torch.utils.data import default_collate
    from kappadata.wrappers import ModeWrapper
    ev = []
    items = c["mode"].split(" ")
    ds = ModeWrapper(Dataset(c["B"], c["H"], c["W"], c["y0"], c["onehot"], c["scalar"], c.get("ldtype", "float32")),
                     mode=c["mode"],
                     return_ctx=c["rc"])
    col, err = guarded(lambda: c10_build(c))
    if err:
        return [dict(a="exc", type="ctor:" + err[1])]
    for _ in range(c["nb"]):
        ref = default_collate([ds[k] for k in range(c["B"])])
        ref_items = ref[0] if c["rc"] else ref
        out, err = guarded(lambda: col([ds[k] for k in range(c["B"])]))
        if err:
            ev.append(dict(a="exc", type=err[1]))
            break
        try:
            o_items, ctx = (out if c["rc"] else (out, None))
            if not isinstance(o_items, (list, tuple)) or len(o_items) != len(items) or (c["rc"] and not isinstance(ctx, dict)):
                ev.append(dict(a="exc", type="layout"))
                break
            x, y = o_items[items.index("x")], o_items[items.index("class")]
            if not (torch.is_tensor(x) and torch.is_tensor(y) and x.ndim == 4 and y.ndim in (1, 2) and len(x) == len(y)):
                ev.append(dict(a="exc", type="layout"))
                break
            xn, yn = x.detach().numpy(), y.detach().numpy()
            lam = cut = None
            if ctx is not None and "lambda" in ctx:
                lam = fx(torch.as_tensor(ctx["lambda"]).reshape(-1).numpy())
                cut = np.asarray(torch.as_tensor(ctx.get("use_cutmix", False)).reshape(-1).numpy()).astype(int)
            for k in range(len(x)):
                e = dict(a="sample", k=k + 1, lab=[int(v) for v in fx(yn[k].reshape(-1))],
                         pc=pixel_classes(xn[k], xn.shape[3]), lam=-1, cut=-1)
                if lam is not None and len(lam) in (1, len(x)):
                    e["lam"] = int(lam[k if len(lam) == len(x) else 0])
                if cut is not None and len(cut) in (1, len(x)):
                    e["cut"] = int(cut[k if len(cut) == len(x) else 0])
                ev.append(e)
            others = [p for p, it in enumerate(items) if it not in ("x", "class")]
            ids = eq_classes([ref_items[p] for p in others] + [o_items[p] for p in others])
            ev.append(dict(a="batch", pin=ids[:len(others)], pout=ids[len(others):], nin=len(items), nout=len(o_items),
                           xs=[int(v) for v in x.shape], ys=[int(v) for v in y.shape]))
        except ValueError as e:
            ev.append(dict(a="exc", type="projection:" + str(e)[:40]))
            break
    return ev


def c10_labels(r, B, kind, K=None):
    """kind: onehotB (class = sample id), onehot (K classes, random assignment), binary"""
    if kind == "binary":
        vals = [r.randint(0, 1) for _ in range(B)]
        if B >= 2 and len(set(vals)) == 1:
            vals[r.randrange(B)] ^= 1
        return [[v] for v in vals], 1, False
    if kind == "onehotB":
        K = max(B, 2)
        cls = list(range(B))
    else:
        cls = [r.randrange(K) for _ in range(B)]
    return [[1 if m == cl else 0 for m in range(K)] for cl in cls], K, True


def c10_cfg(r, B, H, W, apply, lamb, shuffle, split, kind, seed, K=None, mode=None, rc=True, ctor="direct", nb=2,
            alphas=None, q=None):
    y0, K, onehot = c10_labels(r, B, kind, K)
    q = q if q is not None else 0.5
    mixup_p = 1.0 if split == "mixup" else 0.0 if split == "cutmix" else q
    cutmix_p = 1.0 - mixup_p if split == "mixed" else (1.0 if split == "cutmix" else 0.0)
    ma, ca = alphas or (0.8, 1.0)
    return dict(B=B, H=H, W=W, K=K, onehot=onehot, lamb=lamb, shuffle=shuffle, S=S, Tol=TOL, y0=y0,
                apply=apply, split=split, mixup_p=mixup_p, cutmix_p=cutmix_p, mixup_alpha=ma, cutmix_alpha=ca,
                mode=mode or "x class", rc=rc, ctor=ctor, seed=seed, nb=nb, labels=kind, scalar=r.choice(["int", "t0"]),
                ldtype=r.choice(["float32", "float32", "int64", "float64"]) if onehot else "float32")


def c10_key(c):
    return (f"{c['ctor']}:seed={c['seed']},B={c['B']},H={c['H']},W={c['W']},apply={c['apply']},lamb={c['lamb']},"
            f"shuffle={c['shuffle']},mixup_p={c['mixup_p']:g},cutmix_p={c['cutmix_p']:g},"
            f"alphas={c['mixup_alpha']:g}/{c['cutmix_alpha']:g},labels={c['labels']}{c['K']}"
            f"{'' if c.get('ldtype', 'float32') == 'float32' else ':' + c['ldtype']},"
            f"mode={c['mode'].replace(' ', '+')},ctx={int(c['rc'])}")


def c10_generate(tier, seed):
    r = random.Random(seed * 7919 + 10)
    quick = tier == "quick"
    cfgs = []
    # exhaustive small grid: every apply x lamb x shuffle x split x label kind on small batches / images
    shapes = [(1, 1), (2, 2), (2, 3)] if quick else [(1, 1), (1, 2), (2, 2), (2, 3), (3, 3), (4, 4)]
    n_seeds = 1 if quick else 4
    for B, (H, W), apply, lamb, shuffle, split, kind in itertools.product(
            range(1, 5 if quick else 6), shapes, ("batch", "sample"), ("batch", "sample"), ("roll", "flip", "random"),
            ("mixup", "cutmix", "mixed"), ("onehotB", "onehot", "binary")):
        if shuffle == "flip" and B > 1 and B % 2:
            continue  # domain: flip needs an even batch
        for s in range(n_seeds):
            cfgs.append(c10_cfg(r, B, H, W, apply, lamb, shuffle, split, kind, seed=r.randrange(10 ** 6), K=2,
                                mode=r.choice(MODES), rc=True, ctor=r.choice(["direct", "direct", "compose"]), nb=2))
    # seeded random larger configurations
    for n in range(700 if quick else 6000):
        shuffle = r.choice(["roll", "flip", "random", "random"])
        B = r.choice([1, 2, 4, 6, 8]) if shuffle == "flip" else r.randint(1, 9 if quick else 12)
        H, W = r.randint(1, 12 if quick else 16), r.randint(1, 12 if quick else 16)
        kind = r.choice(["onehotB", "onehot", "onehot", "binary"])
        cfgs.append(c10_cfg(r, B, H, W, r.choice(["batch", "sample"]), r.choice(["batch", "sample", "sample"]), shuffle,
                            r.choice(["mixup", "cutmix", "mixed", "mixed"]), kind, seed=r.randrange(10 ** 6),
                            K=r.randint(2, max(2, min(B, 10))), mode=r.choice(MODES), rc=r.random() < 0.8,
                            ctor=r.choice(["direct", "direct", "compose"]), nb=3,
                            alphas=(r.choice([0.02, 0.2, 0.8, 1.0, 5.0]), r.choice([0.02, 0.2, 1.0, 3.0])),
                            q=r.choice([0.5, 0.5, 0.2, 0.8, 0.35])))
    # the ready-made MAE fine-tuning collator (flip, batch/batch, 0.5/0.5, no ctx)
    for n in range(60 if quick else 400):
        B = r.choice([1, 2, 2, 4, 4, 6, 8])
        c = c10_cfg(r, B, r.randint(1, 10), r.randint(1, 10), "batch", "batch", "flip", "mixed",
                    r.choice(["onehotB", "onehot", "binary"]), seed=r.randrange(10 ** 6), K=r.randint(2, 6),
                    mode="x class", rc=False, ctor="mae", nb=3)
        cfgs.append(c)
    return cfgs


def c10_visible(t):
    """non-trivial: B >= 2 and some output sample visibly carries a partner (image or label)"""
    if t["cfg"]["B"] < 2:
        return False
    for e in t["ev"]:
        if e["a"] == "sample":
            k = e["k"] - 1
            for q in e["pc"]:
                if len(q["vec"]) > k and any(abs(v) > TOL for j, v in enumerate(q["vec"]) if j != k):
                    return True
    return False


def c10_corruptions(traces, acc):
    """binding self-test: corrupted copies of accepted traces and the clause that must reject them"""
    out = []

    def first(pred):
        for t in traces:
            if t["id"] in acc and pred(t):
                return copy.deepcopy(t)
        return None

    def strict(e):  # a sample whose weight is visible in label and image: strictly mixed, partner of another class
        return e["a"] == "sample" and sum(1 for v in e["lab"] if v > 5000) >= 2

    t = first(lambda t: t["cfg"]["onehot"] and any(strict(e) for e in t["ev"]))
    if t:
        e = next(e for e in t["ev"] if strict(e))
        nz = [i for i, v in enumerate(e["lab"]) if v > 5000][:2]
        e["lab"][nz[0]] -= 3000
        e["lab"][nz[1]] += 3000
        out.append((t, "label weight shifted by 0.003", {"C10_SamePartnerWeight", "C10_CtxWeight"}))
    t = first(lambda t: any(strict(e) and e["lam"] >= 0 for e in t["ev"]))
    if t:
        e = next(e for e in t["ev"] if strict(e) and e["lam"] >= 0)
        e["lam"] = e["lam"] - 2000 if e["lam"] > 500000 else e["lam"] + 2000
        out.append((t, "reported lambda shifted by 0.002", {"C10_CtxWeight"}))
    t = first(lambda t: any(e["a"] == "batch" and e["pin"] for e in t["ev"]))
    if t:
        e = next(e for e in t["ev"] if e["a"] == "batch" and e["pin"])
        e["pout"][0] = max(e["pout"] + e["pin"]) + 1
        out.append((t, "pass-through item replaced", {"C10_PassThrough"}))
    t = first(lambda t: any(e["a"] == "sample" and len(e["pc"]) == 2 and min(q["n"] for q in e["pc"]) >= 2 for e in t["ev"]))
    if t:
        e = next(e for e in t["ev"] if e["a"] == "sample" and len(e["pc"]) == 2 and min(q["n"] for q in e["pc"]) >= 2)
        k = e["k"] - 1
        own = [q for q in e["pc"] if q["vec"][k] > 500000][0]
        oth = [q for q in e["pc"] if q is not own][0]
        own["n"] += 1
        oth["n"] -= 1
        out.append((t, "pasted region is not a full box", {"C10_ImageForm", "C10_SamePartnerWeight", "C10_CtxWeight"}))
    t = first(lambda t: t["cfg"]["shuffle"] == "roll" and t["cfg"]["B"] >= 4 and t["cfg"]["labels"] == "onehotB"
              and t["cfg"]["lamb"] == "sample" and c10_visible(t))
    if t:
        t["cfg"]["shuffle"] = "flip"
        out.append((t, "roll output judged as flip", {"C10_ShuffleMode"}))
    for n, (t, what, cl) in enumerate(out):
        t["id"] = 10 ** 6 + n
    return out


def run_c10(prop, tier, seed):
    v = core.Verdict(prop, tier, seed)
    quick = tier == "quick"
    # ---- (M) runs in the background while the real code is being recorded
    pool = ThreadPoolExecutor(max_workers=2)
    f_mc = pool.submit(tlc.run_tlc, "MixCollatorProps", f"MixCollatorProps_{tier}.cfg", name=prop + "mc",
                       workers=6 if quick else 8, coverage=True, timeout=3300)
    f_neg = pool.submit(tlc.run_tlc, "MixCollatorProps", "MixCollatorProps_v0.cfg", name=prop + "neg", workers=2,
                        timeout=1200)
    # ---- (T)
    Dataset = c10_harness()
    traces = []
    for n, c in enumerate(c10_generate(tier, seed), start=1):
        traces.append(dict(id=n, cfg=c, ev=c10_record(c, Dataset)))
    acc, rej, st = tracecheck.validate("MixCollatorTrace", "MixCollatorTrace.cfg", tlc_view(traces, C10_FIELDS),
                                        prop + "tv", jobs=8)
    v.coverage["states"] += st["states"]
    v.coverage["transitions"] += st["transitions"]
    v.coverage["traces_validated_against_impl"] = len(traces)
    v.coverage["evaluations"] = len(traces)
    v.coverage["batches_judged"] = sum(1 for t in traces for e in t["ev"] if e["a"] == "batch")
    for t in traces:
        if t["id"] in rej:
            pos, clauses = rej[t["id"]]
            if "Malformed" in clauses:
                raise tlc.TLCError(f"malformed trace {c10_key(t['cfg'])} at event {pos}")
            e = t["ev"][pos - 1] if pos else None
            v.violation(c10_key(t["cfg"]), f"clauses {clauses} fail at event {pos} "
                        f"({'sample %d' % e['k'] if e and e['a'] == 'sample' else e and e['a']}) of the real collator's output",
                        dict(cfg=t["cfg"], failed_at=pos, clauses=clauses, ev=t["ev"][max(0, pos - 12):pos + 1]))
    # ---- (M) results
    res = f_mc.result()
    v.add_tlc(res, "MixCollatorProps exhaustive (Variant v1: own flag, own box)")
    for nm in res.violated:
        v.violation(f"model:{nm}", f"design model violates {nm}", dict(cex=str(res.cex)[:6000]))
    for act in ("Configure", "PDrawFlags", "PDrawLams", "PDrawBoxes", "PDrawPerm", "PXBatch", "PXLoop", "PApplyY",
                "PRecordCtx", "Observe"):
        if res.coverage.get(act, (0, 0))[1] == 0:
            raise tlc.TLCError(f"vacuity: action {act} never taken in MixCollatorProps_{tier}.cfg")
    neg = f_neg.result()
    v.add_tlc(neg, "negative control: Variant v0 (partner's flag, running box counter) must violate SamePartnerWeight")
    if not ({"Inv_SamePartnerWeight", "Inv_CtxWeight"} & set(neg.violated)):
        raise tlc.TLCError(f"negative control failed: Variant v0 should violate Inv_SamePartnerWeight, got {neg.violated}")
    pool.shutdown()
    # binding self-test
    cor = c10_corruptions(traces, acc)
    if len(cor) < 4:
        if not v.violations:
            raise tlc.TLCError(f"self-test: only {len(cor)} corruptible traces found")
        v.notes.append(f"self-test reduced: only {len(cor)} accepted traces could be corrupted (violations present)")
    cacc, crej, _ = tracecheck.validate("MixCollatorTrace", "MixCollatorTrace.cfg",
                                       tlc_view([t for t, _, _ in cor], C10_FIELDS), prop + "st", jobs=1)
    for t, what, cl in cor:
        if t["id"] in cacc or not (set(crej[t["id"]][1]) & cl):
            msg = f"self-test failed: corrupted trace ({what}) -> {crej.get(t['id'], 'ACCEPTED')}, expected {sorted(cl)}"
            if not v.violations:  # machinery failure - but never at the price of hiding a violation
                raise tlc.TLCError(msg)
            v.notes.append(msg)
    v.coverage["selftest_corruptions_rejected"] = [what for _, what, _ in cor]
    v.coverage["distinct_nontrivial"] = len({c10_key(t["cfg"]) for t in traces if c10_visible(t)})
    v.coverage["rule"] = ("case = one collator instance (constructor, apply/lamb/shuffle mode, mixup/cutmix split, alphas, "
                          "B, H, W, label kind, dataset mode, seed) called on 2-3 successive id-encoded batches; exhaustive "
                          "small grid of all mode/split/label combinations + seeded random larger ones + the MAE collator; "
                          "non-trivial = B >= 2 and some output image visibly carries a partner; distinct by full key")
    for t in traces[:1] + [t for t in traces if t["cfg"]["split"] == "mixed" and t["cfg"]["lamb"] == "sample"][:1] \
            + [t for t in traces if t["cfg"]["ctor"] == "mae"][:1]:
        v.sample(dict(cfg=t["cfg"], ev=t["ev"][:6]))
    v.assumptions += [
        "domain: mixup_p + cutmix_p = 1 (the constructor refuses any other split), flip only with even batch size, "
        "float32 images of layout (B, C, H, W), dataset modes containing both x and class",
        "decoding by id-encoded inputs: C = B channels, one-hot / binary input labels",
        "mixup weights compared in fixed point x10^6 with tolerance 1e-4; cutmix structure (box, pixel counts) exact",
        "roll admits either direction (documented 0->1, implemented i-1), random = some permutation",
    ]
    return v.finish()


# ====================================================================================================== C11
FORMS = {"xc": "x class", "cx": "class x", "x": "x", "c": "class"}


def c11_harness():
    import torch
    from kappadata.datasets.kd_dataset import KDDataset

    class IdSampleDataset(KDDataset):
        """sample i = unit vector e_i along the id axis `ax` (length N), constant over its own spatial shape;
        class cls[i]; loads are recorded in ctx; always fresh objects"""

        def __init__(self, shapes, ax, cls, K, label_kind):
            super().__init__()
            self.shapes, self.ax, self.cls, self.K, self.label_kind = shapes, ax, cls, K, label_kind

        def __len__(self):
            return len(self.shapes)

        def full_shape(self, i):
            sh = list(self.shapes[i])
            sh.insert(self.ax, len(self.shapes) + len(sh))
            return sh

        def getitem_x(self, idx, ctx=None):
            if ctx is not None:
                ctx.setdefault("xloads", []).append(int(idx))
            N, sp = len(self.shapes), self.shapes[int(idx)]
            x = torch.zeros(*self.full_shape(int(idx)))
            x.select(self.ax, int(idx)).fill_(1.)
            for d in range(len(sp)):  # coordinate entries: the position's own coordinate along spatial dim d
                view = [1] * len(sp)
                view[d] = sp[d]
                x.select(self.ax, N + d).copy_((torch.arange(sp[d], dtype=torch.float32) / POS).view(view).expand(sp))
            return x

        def getitem_class(self, idx, ctx=None):
            if ctx is not None:
                ctx.setdefault("cloads", []).append(int(idx))
            cl = self.cls[int(idx)]
            if self.label_kind == "int":
                return int(cl)
            if self.label_kind == "t0":
                return torch.tensor(int(cl))
            return torch.nn.functional.one_hot(torch.tensor(int(cl)), num_classes=self.K).float()

        def getshape_class(self):
            return self.K,

    return IdSampleDataset


def position_classes(x, ax, N):
    """x: array with id axis ax -> distinct decoded vectors (coefficients over the samples, then per spatial dim the
    displacement = coordinate entry - own coordinate * coefficient sum) with count and bounding box"""
    arr = np.moveaxis(x, ax, 0).astype(np.float64)
    sp = arr.shape[1:]
    coef = arr[:N]
    grid = np.indices(sp)
    disp = [arr[N + d] * POS - grid[d] * coef.sum(axis=0) for d in range(len(sp))]
    arr = np.concatenate([coef, np.stack(disp)], axis=0) if disp else coef
    rows = fx(arr.reshape(arr.shape[0], -1).T)
    uniq, inv = np.unique(rows, axis=0, return_inverse=True)
    inv = np.asarray(inv).reshape(-1)
    out = []
    for ci in range(len(uniq)):
        pos = np.nonzero(inv == ci)[0]
        co = np.unravel_index(pos, sp) if len(sp) else ()
        out.append(dict(vec=[int(v) for v in uniq[ci]], n=int(len(pos)), lo=[int(a.min()) for a in co],
                        hi=[int(a.max()) + 1 for a in co]))
    return out


def c11_record(c, Dataset, r):
    import torch
    from kappadata.wrappers import ModeWrapper
    from kappadata.wrappers.sample_wrappers.kd_mix_wrapper import KDMixWrapper
    N = c["N"]
    base = Dataset([tuple(s) for s in c["shp"]], c["ax"], [cl - 1 for cl in c["cls"]], c["K"], c["labels"])
    kw = {}
    if c["mixup_p"] is not None:
        kw.update(mixup_p=c["mixup_p"])
        if c["mixup_p"] > 0:
            kw.update(mixup_alpha=c["mixup_alpha"], mixup_unify_shapes_mode=c["unify"])
    if c["cutmix_p"] is not None:
        kw.update(cutmix_p=c["cutmix_p"])
        if c["cutmix_p"] > 0:
            kw.update(cutmix_alpha=c["cutmix_alpha"])
    wrapper, err = guarded(lambda: KDMixWrapper(dataset=base, seed=c["seed"], **kw))
    if err:
        return [dict(a="exc", i=1, form="xc", type="ctor:" + err[1])]
    mws = {f: ModeWrapper(dataset=wrapper, mode=m, return_ctx=True) for f, m in FORMS.items()}
    ev = []
    for i, form in c["requests"]:
        out, err = guarded(lambda: mws[form][i - 1])
        if err:
            kind, tname, exc = err
            last = traceback.extract_tb(exc.__traceback__)[-1] if exc.__traceback__ else None
            if kind == "exc" and isinstance(exc, NotImplementedError) and last is not None \
                    and last.filename.endswith("kd_mix_wrapper.py"):
                ev.append(dict(a="refuse", i=i, form=form))
            else:
                ev.append(dict(a="exc", i=i, form=form, type=tname))
            continue
        try:
            item, ctx = out
            hasx, hasc = "x" in form, "c" in form
            if hasx and hasc:
                x, y = (item[0], item[1]) if form == "xc" else (item[1], item[0])
            else:
                x, y = (item, None) if hasx else (None, item)
            e = dict(a="get", i=i, form=form, hasx=hasx, hasc=hasc, lab=[], pc=[], xs=[],
                     nx=len(ctx.get("xloads", [])), nc=len(ctx.get("cloads", [])))
            if hasx:
                if not torch.is_tensor(x):
                    raise ValueError("x is not a tensor")
                e["xs"] = [int(v) for v in x.shape]
                xn = x.detach().numpy()
                if xn.ndim == len(c["fshp"][i - 1]) and xn.shape[c["ax"]] == N + xn.ndim - 1:
                    e["pc"] = position_classes(xn, c["ax"], N)
                else:
                    e["pc"] = [dict(vec=[], n=0, lo=[], hi=[])]
            if hasc:
                if not torch.is_tensor(y):
                    raise ValueError("class is not a tensor")
                e["lab"] = [int(v) for v in fx(y.detach().numpy().reshape(-1))]
            ev.append(e)
        except (ValueError, TypeError, IndexError) as ex:
            ev.append(dict(a="exc", i=i, form=form, type="projection:" + str(ex)[:40]))
    return ev


SHAPE_POOL = {1: [(4,), (6,), (3,), (1,)], 2: [(4, 5), (6, 3), (4, 4), (1, 7), (5, 5), (2, 2)],
              3: [(1, 4, 5), (1, 6, 3), (2, 4, 4), (3, 2, 2), (2, 5, 1)]}


def c11_cfg(r, N, K, nd, unify, mixup_p, cutmix_p, alpha, seeded, sseed, reps=1, labels=None, nshapes=2):
    pool = r.sample(SHAPE_POOL[nd], min(nshapes, len(SHAPE_POOL[nd])))
    shp = [list(r.choice(pool)) for _ in range(N)] if unify else [list(pool[0])] * N
    ax = r.randint(0, nd)
    cls = [r.randint(1, K) for _ in range(N)]
    fshp = [s[:ax] + [N + nd] + s[ax:] for s in shp]
    total = (mixup_p or 0.) + (cutmix_p or 0.)
    requests = []
    for i in range(1, N + 1):
        if seeded:
            forms = ["xc", "cx", "x", "c"] * reps
            r.shuffle(forms)
        else:
            forms = [r.choice(["xc", "cx"]), r.choice(["xc", "cx", "x", "c"])]
        requests += [(i, f) for f in forms]
    if seeded:
        r.shuffle(requests)  # the draw depends on seed + idx only, not on the order of requests
    return dict(N=N, K=K, cls=cls, shp=shp, fshp=fshp, p1=abs(total - 1.0) < 1e-12, seeded=seeded,
                cutmix=bool(cutmix_p), S=S, Tol=TOL, ax=ax, mixup_p=mixup_p, cutmix_p=cutmix_p, mixup_alpha=alpha,
                cutmix_alpha=1.0, unify="pad_or_cut_end" if unify else None, seed=sseed if seeded else None,
                labels=labels or r.choice(["int", "t0", "onehot"]), requests=requests)


def c11_key(c):
    shp = "/".join("x".join(map(str, s)) for s in sorted({tuple(s) for s in c["shp"]}))
    return (f"seed={c['seed']},N={c['N']},K={c['K']},shapes={shp},ax={c['ax']},unify={c['unify']},mixup_p={c['mixup_p']},"
            f"cutmix_p={c['cutmix_p']},alpha={c['mixup_alpha']},labels={c['labels']},"
            f"cls={''.join(map(str, c['cls']))[:24]},req={len(c['requests'])}")


def c11_generate(tier, seed):
    r = random.Random(seed * 104729 + 11)
    quick = tier == "quick"
    cfgs = []
    # exhaustive small grid
    for N, nd, unify, mp, alpha, seeded in itertools.product(
            (1, 2, 3, 4), (1, 2, 3), (False, True), (0.3, 1.0), (0.2, 1.0, 5.0), (False, True)):
        for s in range(2 if quick else 8):
            cfgs.append(c11_cfg(r, N, r.randint(2, max(2, N)), nd, unify, mp, None, alpha, seeded,
                                0 if s == 0 else r.randrange(10 ** 6), reps=1))
    # seeded random larger datasets
    for n in range(400 if quick else 3200):
        N = r.randint(2, 14 if quick else 20)
        nd = r.choice([1, 2, 2, 3, 3])
        cfgs.append(c11_cfg(r, N, r.choice([1, 2, 2, 3, 5, 10, r.randint(2, 10)]), nd, r.random() < 0.7, r.choice([0.3, 0.5, 1.0, 1.0]), None,
                            r.choice([0.2, 0.8, 1.0, 5.0]), r.random() < 0.7,
                            r.choice([0, 1, r.randrange(10 ** 6), r.randrange(10 ** 6)]),
                            reps=r.choice([1, 1, 2]), nshapes=r.choice([2, 2, 3])))
    # configurations with a cutmix probability: a cutmix draw must refuse explicitly, everything else as usual
    for n in range(120 if quick else 500):
        N = r.randint(2, 8)
        mp, cp = r.choice([(0.5, 0.5), (0.3, 0.3), (0.6, 0.2), (None, 1.0), (None, 0.4), (0.8, 0.2)])
        unify = r.random() < 0.5 and mp is not None
        cfgs.append(c11_cfg(r, N, r.randint(2, 6), r.choice([1, 2, 3]), unify, mp, cp, 0.8, r.random() < 0.7,
                            r.randrange(10 ** 6)))
    return cfgs


def c11_nontrivial(t):
    """a request whose output visibly carries a partner"""
    for e in t["ev"]:
        if e["a"] == "get":
            i = e["i"] - 1
            for q in e["pc"]:
                if len(q["vec"]) > i and any(abs(v) > TOL for j, v in enumerate(q["vec"]) if j != i):
                    return True
    return False


def c11_corruptions(traces, acc):
    out = []

    def first(pred):
        for t in traces:
            if t["id"] in acc and pred(t):
                return copy.deepcopy(t)
        return None

    def mixed_joint(e):
        return e["a"] == "get" and e["hasx"] and e["hasc"] and sum(1 for v in e["lab"] if v > 5000) >= 2

    t = first(lambda t: any(mixed_joint(e) for e in t["ev"]))
    if t:
        e = next(e for e in t["ev"] if mixed_joint(e))
        nz = [k for k, v in enumerate(e["lab"]) if v > 5000][:2]
        e["lab"][nz[0]] -= 3000
        e["lab"][nz[1]] += 3000
        out.append((t, "label weight shifted by 0.003 in a joint request", {"C11_SamePartnerWeight"}))
    t = first(lambda t: any(mixed_joint(e) for e in t["ev"]))
    if t:
        e = next(e for e in t["ev"] if mixed_joint(e))
        e["lab"][[k for k, v in enumerate(e["lab"]) if v > 5000][0]] += 2000
        out.append((t, "label does not sum to one", {"C11_Simplex", "C11_SamePartnerWeight", "C11_LabelMix"}))

    def seeded_pair(t):
        if not t["cfg"]["seeded"]:
            return None
        for a, e in enumerate(t["ev"]):
            if e["a"] == "get" and e["form"] == "c" and sum(1 for v in e["lab"] if v > 5000) >= 2:
                for b, f in enumerate(t["ev"]):
                    if b != a and f["a"] == "get" and f["i"] == e["i"] and f["hasx"]:
                        return max(a, b), a
        return None

    t = first(lambda t: seeded_pair(t) is not None)
    if t:
        _, a = seeded_pair(t)
        e = t["ev"][a]
        nz = [k for k, v in enumerate(e["lab"]) if v > 5000][:2]
        e["lab"][nz[0]] -= 4000
        e["lab"][nz[1]] += 4000
        out.append((t, "label-only request of a seeded wrapper uses another weight than the image", {"C11_SeedSameDraw"}))
    t = first(lambda t: t["cfg"]["p1"] and any(e["a"] == "get" and e["hasx"] for e in t["ev"]))
    if t:
        e = next(e for e in t["ev"] if e["a"] == "get" and e["hasx"])
        e["nx"], e["nc"] = 1, 1
        out.append((t, "no partner loaded although p = 1", {"C11_ProbOne"}))
    t = first(lambda t: any(e["a"] == "get" and len(e["pc"]) == 2 for e in t["ev"]))
    if t:
        e = next(e for e in t["ev"] if e["a"] == "get" and len(e["pc"]) == 2)
        q = [q for q in e["pc"] if sum(1 for v in q["vec"] if v > TOL) >= 1 and q["lo"] == [0] * len(q["lo"])][0]
        q["lo"][-1] += 1
        q["hi"][-1] += 1
        out.append((t, "partner data shifted by one position (padded in front)", {"C11_Convex", "C11_SamePartnerWeight"}))
    t = first(lambda t: any(mixed_joint(e) and len(e["pc"]) == 1 for e in t["ev"]))
    if t:
        e = next(e for e in t["ev"] if mixed_joint(e) and len(e["pc"]) == 1)
        e["pc"][0]["vec"][-1] += 250000
        out.append((t, "partner contribution displaced along the last dimension", {"C11_Convex", "C11_SamePartnerWeight"}))
    t = first(lambda t: not t["cfg"]["cutmix"] and any(e["a"] == "get" for e in t["ev"]))
    if t:
        n = next(n for n, e in enumerate(t["ev"]) if e["a"] == "get")
        t["ev"][n] = dict(a="refuse", i=t["ev"][n]["i"], form=t["ev"][n]["form"])
        out.append((t, "refusal without a cutmix probability", {"C11_NoError", "C11_SeedSameDraw"}))
    for n, (t, what, cl) in enumerate(out):
        t["id"] = 10 ** 6 + n
    return out


def run_c11(prop, tier, seed):
    v = core.Verdict(prop, tier, seed)
    quick = tier == "quick"
    pool = ThreadPoolExecutor(max_workers=4)
    f_mc = pool.submit(tlc.run_tlc, "MixWrapperProps", f"MixWrapperProps_{tier}.cfg", name=prop + "mc",
                       workers=6 if quick else 8, coverage=True, timeout=3300)
    f_negs = {m: pool.submit(tlc.run_tlc, "MixWrapperProps", f"MixWrapperProps_{m}.cfg", name=prop + m, workers=2,
                             timeout=1200) for m in ("padleft", "cuttail", "labelswap")}
    Dataset = c11_harness()
    r = random.Random(seed + 1)
    traces = []
    for n, c in enumerate(c11_generate(tier, seed), start=1):
        traces.append(dict(id=n, cfg=c, ev=c11_record(c, Dataset, r)))
    acc, rej, st = tracecheck.validate("MixWrapperTrace", "MixWrapperTrace.cfg", tlc_view(traces, C11_FIELDS),
                                        prop + "tv", jobs=8)
    v.coverage["states"] += st["states"]
    v.coverage["transitions"] += st["transitions"]
    v.coverage["traces_validated_against_impl"] = len(traces)
    v.coverage["evaluations"] = len(traces)
    v.coverage["requests_judged"] = sum(len(t["ev"]) for t in traces)
    v.coverage["refusals_seen"] = sum(1 for t in traces for e in t["ev"] if e["a"] == "refuse")
    for t in traces:
        if t["id"] in rej:
            pos, clauses = rej[t["id"]]
            e = t["ev"][pos - 1] if pos else None
            v.violation(c11_key(t["cfg"]), f"clauses {clauses} fail at request {pos} "
                        f"(index {e and e['i'] - 1}, form {e and e['form']}) of the real KDMixWrapper",
                        dict(cfg={k: val for k, val in t["cfg"].items() if k != "requests"}, failed_at=pos,
                             clauses=clauses, ev=[x for x in t["ev"][:pos] if e and x.get("i") == e.get("i")][-6:]))
    res = f_mc.result()
    v.add_tlc(res, "MixWrapperProps exhaustive (Variant v1)")
    for nm in res.violated:
        v.violation(f"model:{nm}", f"design model violates {nm}", dict(cex=str(res.cex)[:6000]))
    for act in ("Configure", "PBegin", "PDoDraw", "PUntouched", "PLoadSecond", "PRefuse", "PAssertShapes", "PUnifyDim",
                "PMix", "Judge"):
        if res.coverage.get(act, (0, 0))[1] == 0:
            raise tlc.TLCError(f"vacuity: action {act} never taken in MixWrapperProps_{tier}.cfg")
    for mutant, clause in (("padleft", "Inv_Convex"), ("cuttail", "Inv_Convex"), ("labelswap", "Inv_SamePartnerWeight")):
        neg = f_negs[mutant].result()
        v.add_tlc(neg, f"negative control: mutant {mutant} must violate {clause}")
        if clause not in neg.violated:
            raise tlc.TLCError(f"negative control failed: mutant {mutant} should violate {clause}, got {neg.violated}")
    pool.shutdown()
    cor = c11_corruptions(traces, acc)
    if len(cor) < 5:
        if not v.violations:
            raise tlc.TLCError(f"self-test: only {len(cor)} corruptible traces found")
        v.notes.append(f"self-test reduced: only {len(cor)} accepted traces could be corrupted (violations present)")
    cacc, crej, _ = tracecheck.validate("MixWrapperTrace", "MixWrapperTrace.cfg",
                                       tlc_view([t for t, _, _ in cor], C11_FIELDS), prop + "st", jobs=1)
    for t, what, cl in cor:
        if t["id"] in cacc or not (set(crej[t["id"]][1]) & cl):
            msg = f"self-test failed: corrupted trace ({what}) -> {crej.get(t['id'], 'ACCEPTED')}, expected {sorted(cl)}"
            if not v.violations:  # machinery failure - but never at the price of hiding a violation
                raise tlc.TLCError(msg)
            v.notes.append(msg)
    v.coverage["selftest_corruptions_rejected"] = [what for _, what, _ in cor]
    v.coverage["distinct_nontrivial"] = len({c11_key(t["cfg"]) for t in traces if c11_nontrivial(t)})
    v.coverage["rule"] = ("case = one KDMixWrapper instance (dataset size, classes, per-sample shapes, id axis, unify mode, "
                          "probabilities, alpha, seed or none, label type) accessed through ModeWrapper for every index in "
                          "all four request forms (seeded: shuffled order, repeated); exhaustive small grid + seeded random "
                          "larger datasets + cutmix configurations; non-trivial = some returned x visibly carries a partner; "
                          "distinct by full key")
    for t in traces[:1] + [t for t in traces if t["cfg"]["seeded"] and t["cfg"]["unify"] and c11_nontrivial(t)][:1] \
            + [t for t in traces if t["cfg"]["cutmix"]][:1]:
        v.sample(dict(cfg={k: val for k, val in t["cfg"].items() if k != "requests"}, ev=t["ev"][:4]))
    v.assumptions += [
        "harness datasets return fresh objects, Python int / 0-d tensor / one-hot labels (DESIGN section 6 domain notes)",
        "differing sample shapes only with mixup_unify_shapes_mode='pad_or_cut_end'; a cutmix draw may refuse "
        "(NotImplementedError raised in kd_mix_wrapper.py), nothing else may",
        "'mixes every sample' is observed as: the wrapped dataset served a second x / class load (recorded in ctx)",
        "weights compared in fixed point x10^6 with tolerance 1e-4; which positions carry the partner is exact",
    ]
    return v.finish()


def run(prop, tier, seed):
    core.use_repo()
    if prop == "C10":
        return run_c10(prop, tier, seed)
    if prop == "C11":
        return run_c11(prop, tier, seed)
    raise ValueError(prop)
