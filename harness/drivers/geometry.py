"""C14: geometric transforms stay in bounds and their recorded parameters tell the truth.

(M) TLC checks specs/GeometryProps.tla: the bound arithmetic of every transform (Geometry.tla, one action per loop
    iteration / decision of the code, nondeterministic draws) satisfies the normative clauses for every configuration
    of a small grid; mutated models (GeometryProps_neg_<mutant>.cfg: off-by-one draw range, original crop guard,
    unclamped fallback, ...) must be rejected.
(T) The real transforms are run on coordinate-encoded inputs (pixel (r,c) of an H x W input holds r*W+c+1, so the
    output of a crop / pad / flip / patchify IS a map of source coordinates, 0 = constant fill).  One trace = one
    transform instance, one event per call.  Logged per call: input extent, constructor parameters, the recorded ctx,
    output extent, the flattened coordinate map(s), and - for interpolating transforms only - the harness flag
    `replay` (torchvision functional op driven only by the recorded ctx reproduces the output bit for bit).
    specs/GeometryTrace.tla evaluates the clauses of C14 on these observations; TLC decides.
"""
import json
import math
import os
import random
import signal
import sys
import time
import traceback

from kdverif import core, tlc, tracecheck

PROP = "C14"
CALL_DEADLINE_S = 20

# ---------------------------------------------------------------------------------------------------------------
# coordinate-encoded inputs and projections
# ---------------------------------------------------------------------------------------------------------------


def coord_tensor(H, W, c=1, dtype=None):
    import torch
    base = torch.arange(1, H * W + 1, dtype=torch.float32).view(1, H, W)
    x = torch.cat([base + k * CH_OFF for k in range(c)], dim=0)
    return x.to(dtype) if dtype is not None else x


CH_OFF = 100000  # channel k of a multi-channel coordinate tensor holds coordinate + k * CH_OFF


def coord_pil(H, W, mode="I"):
    import numpy as np
    from PIL import Image
    a = np.arange(1, H * W + 1, dtype=np.int32).reshape(H, W)
    if mode == "F":
        return Image.fromarray(a.astype(np.float32), mode="F")
    return Image.fromarray(a, mode="I")


def make_input(H, W, typ, c=1):
    """typ: 't' float tensor [c,H,W] | 'pI' PIL mode I | 'pF' PIL mode F"""
    if typ == "t":
        return coord_tensor(H, W, c)
    return coord_pil(H, W, "I" if typ == "pI" else "F")


def project(img):
    """-> (oh, ow, flat list of ints of channel 0, channels_consistent) for a tensor [C,H,W] / [H,W] or a PIL image"""
    import numpy as np
    import torch
    if torch.is_tensor(img):
        t = img
        if t.ndim == 2:
            t = t.unsqueeze(0)
        assert t.ndim == 3, t.shape
        a = t.detach().cpu().to(torch.float64).numpy()
        a0 = a[0]
        ok = True
        for k in range(1, a.shape[0]):
            # fill cells (0 or negative) are equal in all channels, coordinate cells carry the channel offset
            exp = np.where(a0 > 0, a0 + k * CH_OFF, a0)
            ok = ok and bool(np.array_equal(a[k], exp))
    else:
        a0 = np.asarray(img, dtype=np.float64)
        assert a0.ndim == 2, a0.shape
        ok = True
    r = np.rint(a0)
    ok = ok and bool(np.array_equal(r, a0))  # coordinates survive only exactly
    return int(a0.shape[0]), int(a0.shape[1]), [int(v) for v in r.reshape(-1)], ok


def img_size(img):
    import torch
    if torch.is_tensor(img):
        return int(img.shape[-2]), int(img.shape[-1])
    return int(img.height), int(img.width)


def same_image(a, b):
    import numpy as np
    import torch
    if torch.is_tensor(a) != torch.is_tensor(b):
        return False
    if torch.is_tensor(a):
        return a.shape == b.shape and a.dtype == b.dtype and bool(torch.equal(a, b))
    return a.size == b.size and a.mode == b.mode and bool(np.array_equal(np.asarray(a), np.asarray(b)))


# ---------------------------------------------------------------------------------------------------------------
# calling the repository under a deadline; classifying what came back
# ---------------------------------------------------------------------------------------------------------------
class _Deadline(Exception):
    pass


def _on_alarm(signum, frame):
    raise _Deadline()


def guarded(fn):
    """-> ("ok", value) | ("refuse", text) | ("raise", text) | ("diverge", "")
    refuse = an exception of the component's own making: AssertionError / ValueError / NotImplementedError /
    RuntimeError whose innermost Python frame lies in kappadata source."""
    old = signal.signal(signal.SIGALRM, _on_alarm)
    signal.setitimer(signal.ITIMER_REAL, CALL_DEADLINE_S)
    try:
        return "ok", fn()
    except _Deadline:
        return "diverge", ""
    except Exception as e:  # noqa
        tb = traceback.extract_tb(e.__traceback__)
        last = tb[-1] if tb else None
        own = last is not None and os.sep + "kappadata" + os.sep in last.filename
        txt = f"{type(e).__name__}: {str(e)[:160]} @ {os.path.basename(last.filename) if last else '?'}:{last.lineno if last else 0}"
        if own and isinstance(e, (AssertionError, ValueError, NotImplementedError)):
            return "refuse", txt
        return "raise", txt
    finally:
        signal.setitimer(signal.ITIMER_REAL, 0)
        signal.signal(signal.SIGALRM, old)


class RecRng:
    """numpy Generator proxy that records every draw (method, integer arguments, integer results).  Used only for the
    descriptive conformance fields (number of attempts, fallback taken); the verdict never depends on it."""

    def __init__(self, seed):
        import numpy as np
        self._g = np.random.default_rng(seed)
        self.log = []

    def integers(self, *a, **k):
        v = self._g.integers(*a, **k)
        self.log.append(("integers",))
        return v

    def uniform(self, *a, **k):
        v = self._g.uniform(*a, **k)
        self.log.append(("uniform",))
        return v

    def random(self, *a, **k):
        v = self._g.random(*a, **k)
        self.log.append(("random",))
        return v

    def permutation(self, *a, **k):
        v = self._g.permutation(*a, **k)
        self.log.append(("permutation",))
        return v

    def standard_normal(self, *a, **k):
        v = self._g.standard_normal(*a, **k)
        self.log.append(("standard_normal",))
        return v

    def __getattr__(self, name):
        return getattr(self._g, name)

    def count(self, name):
        return sum(1 for e in self.log if e[0] == name)


def base_event(kind, status, txt):
    return dict(k=kind, st=status, exc=txt)


def pad4(padding):
    """torchvision padding argument -> (left, top, right, bottom)"""
    if padding is None:
        return 0, 0, 0, 0
    if isinstance(padding, int):
        return padding, padding, padding, padding
    if len(padding) == 1:
        return padding[0], padding[0], padding[0], padding[0]
    if len(padding) == 2:
        return padding[0], padding[1], padding[0], padding[1]
    return tuple(padding)


def frac(x, den=10000):
    """float -> exact rational <<num, den>> for floats that were generated as k/den"""
    n = round(x * den)
    assert abs(n / den - x) < 1e-12, x
    g = math.gcd(n, den) or 1
    return [n // g, den // g]


# ---------------------------------------------------------------------------------------------------------------
# recorders: one function per transform kind; each returns ONE event (dict of ints / bools / strings / int lists)
# ---------------------------------------------------------------------------------------------------------------
def _rng(seed):
    import numpy as np
    return np.random.default_rng(seed)


def _ints(seq):
    return [int(v) for v in seq]


def rec_rc(cfg, H, W, seed):
    """KDRandomCrop"""
    from kappadata.transforms.kd_random_crop import KDRandomCrop
    ev = dict(H=H, W=W, seed=seed)
    t = KDRandomCrop(size=(cfg["th"], cfg["tw"]), padding=padarg_of(cfg), pad_if_needed=cfg["pin"], fill=0,
                     padding_mode=cfg["pmode"])
    t.set_rng(_rng(seed))
    x = make_input(H, W, cfg["typ"], cfg.get("c", 1))
    ctx = {}
    st, out = guarded(lambda: t(x, ctx))
    ev.update(base_event("rc", st, out if st != "ok" else ""))
    if st == "ok":
        oh, ow, m, cons = project(out)
        c = ctx.get("random_crop")
        ev.update(oh=oh, ow=ow, map=m, cons=cons, hasctx=c is not None,
                  ctx=_ints([c["i"], c["j"], c["h"], c["w"]]) if c is not None else [0, 0, 0, 0])
    return ev


def rec_trc(cfg, H, W, seed):
    """KDTwoRandomCrop"""
    from kappadata.transforms.kd_two_random_crop import KDTwoRandomCrop
    ev = dict(H=H, W=W, seed=seed)
    t = KDTwoRandomCrop(size=(cfg["th"], cfg["tw"]), padding=padarg_of(cfg), pad_if_needed=cfg["pin"], fill=0,
                        padding_mode=cfg["pmode"], overlap_min=cfg["omin"][0] / cfg["omin"][1],
                        overlap_max=cfg["omax"][0] / cfg["omax"][1], tries=cfg["tries"])
    rr = RecRng(seed)
    t.set_rng(rr)
    x = make_input(H, W, cfg["typ"])
    ctx = {}
    st, out = guarded(lambda: t(x, ctx))
    ev.update(base_event("trc", st, out if st != "ok" else ""))
    if st == "ok":
        ok_shape = isinstance(out, (list, tuple)) and len(out) == 2
        ev["two"] = ok_shape
        if ok_shape:
            oh0, ow0, m0, c0 = project(out[0])
            oh1, ow1, m1, c1 = project(out[1])
            c = ctx.get("two_random_crop")
            ev.update(oh=oh0, ow=ow0, map=m0, oh1=oh1, ow1=ow1, map1=m1, cons=c0 and c1, hasctx=c is not None)
            if c is not None:
                ev["ctx"] = _ints([c[k] for k in ("i0", "j0", "h0", "w0", "i1", "j1", "h1", "w1")])
                ev["oot"] = bool(c["out_of_tries"])
                ev["ov"] = int(round(float(c["overlap"]) * 10000))
            else:
                ev.update(ctx=[0] * 8, oot=False, ov=0)
            ev["ndraw"] = rr.count("integers")
    return ev


def rec_rrc(cfg, H, W, seed):
    """KDRandomResizedCrop"""
    import torch
    from torchvision.transforms import InterpolationMode
    from torchvision.transforms import functional as F
    from kappadata.transforms.kd_random_resized_crop import KDRandomResizedCrop
    ev = dict(H=H, W=W, seed=seed)
    t = KDRandomResizedCrop(size=(cfg["th"], cfg["tw"]), scale=(cfg["smin"][0] / cfg["smin"][1], cfg["smax"][0] / cfg["smax"][1]),
                            ratio=(cfg["rmin"][0] / cfg["rmin"][1], cfg["rmax"][0] / cfg["rmax"][1]),
                            interpolation=cfg["interp"])
    rr = RecRng(seed)
    t.set_rng(rr)
    x = make_input(H, W, cfg["typ"])
    x0 = x.clone() if torch.is_tensor(x) else x.copy()
    ctx = {}
    st, out = guarded(lambda: t(x, ctx))
    ev.update(base_event("rrc", st, out if st != "ok" else ""))
    if st == "ok":
        oh, ow = img_size(out)
        c = ctx.get("random_resized_crop")
        ev.update(oh=oh, ow=ow, hasctx=c is not None, nuni=rr.count("uniform"), nint=rr.count("integers"))
        if c is not None:
            cc = _ints([c[k] for k in ("og_h", "og_w", "i", "j", "h", "w")])
            ev["ctx"] = cc
            inb = 0 <= cc[2] and 0 <= cc[3] and cc[4] >= 1 and cc[5] >= 1 and cc[2] + cc[4] <= H and cc[3] + cc[5] <= W
            if inb:
                s2, again = guarded(lambda: F.resized_crop(x0, cc[2], cc[3], cc[4], cc[5], [cfg["th"], cfg["tw"]],
                                                           InterpolationMode(cfg["interp"])))
                ev["replay"] = s2 == "ok" and same_image(again, out)
            else:
                ev["replay"] = False
        else:
            ev.update(ctx=[0] * 6, replay=False)
        # with nearest interpolation every output value is a source coordinate: log the bounding box of the sources
        if cfg["interp"] == "nearest":
            _, _, m, cons = project(out)
            rows = [(v - 1) // W for v in m]
            cols = [(v - 1) % W for v in m]
            ev.update(near=True, cons=cons and min(m) >= 1, box=[min(rows), max(rows), min(cols), max(cols)])
        else:
            ev.update(near=False, cons=True, box=[0, 0, 0, 0])
    return ev


def rec_src(cfg, H, W, seed):
    """KDSimpleRandomCrop = Resize(size) -> KDRandomCrop(size, padding, reflect)"""
    import torch
    from torchvision.transforms import InterpolationMode, Resize
    from torchvision.transforms import functional as F
    from kappadata.transforms.kd_simple_random_crop import KDSimpleRandomCrop
    ev = dict(H=H, W=W, seed=seed)
    size = cfg["size"] if cfg["sq"] else (cfg["size"], cfg["size2"])
    t = KDSimpleRandomCrop(size=size, padding=cfg["pad"], interpolation=cfg["interp"], padding_mode=cfg["pmode"])
    t.set_rng(_rng(seed))
    x = make_input(H, W, cfg["typ"])
    x0 = x.clone() if torch.is_tensor(x) else x.copy()
    ctx = {}
    st, out = guarded(lambda: t(x, ctx))
    ev.update(base_event("src", st, out if st != "ok" else ""))
    if st == "ok":
        oh, ow = img_size(out)
        c = ctx.get("random_crop")
        # by hand: the documented pipeline with torchvision only
        resized = Resize(size=size, interpolation=InterpolationMode(cfg["interp"]))(x0)
        rh, rw = img_size(resized)
        ev.update(oh=oh, ow=ow, rh=rh, rw=rw, hasctx=c is not None)
        if c is not None:
            cc = _ints([c["i"], c["j"], c["h"], c["w"]])
            ev["ctx"] = cc
            padded = F.pad(resized, cfg["pad"], 0, cfg["pmode"])
            s2, again = guarded(lambda: F.crop(padded, cc[0], cc[1], cc[2], cc[3]))
            ev["replay"] = s2 == "ok" and same_image(again, out)
        else:
            ev.update(ctx=[0] * 4, replay=False)
    return ev


def rec_er(cfg, H, W, seed):
    """KDRandomErasing (tensor only, edits in place)"""
    import torch
    from kappadata.transforms.kd_random_erasing import KDRandomErasing
    ev = dict(H=H, W=W, seed=seed)
    t = KDRandomErasing(p=1.0, min_area=cfg["amin"][0] / cfg["amin"][1], max_area=cfg["amax"][0] / cfg["amax"][1],
                        min_aspect=cfg["aspect"][0] / cfg["aspect"][1], mode=cfg["mode"], min_count=cfg["cmin"],
                        max_count=cfg["cmax"])
    t.set_rng(_rng(seed))
    x = coord_tensor(H, W, cfg["c"]) + 1000.0
    x0 = x.clone()
    st, out = guarded(lambda: t(x, {}))
    ev.update(base_event("er", st, out if st != "ok" else ""))
    if st == "ok":
        shape_ok = torch.is_tensor(out) and tuple(out.shape) == tuple(x0.shape)
        ev["shape"] = bool(shape_ok)
        if shape_ok:
            changed = (out != x0)
            anyc = changed.any(dim=0)
            allc = changed.all(dim=0)
            # erased cells are erased in every channel (the replacement never equals a coordinate >= 1000)
            ev["cons"] = bool(torch.equal(anyc, allc))
            if cfg["mode"] == "zeros":
                ev["cons"] = ev["cons"] and bool((out[changed] == 0).all())
            ev["map"] = _ints(anyc.to(torch.int64).reshape(-1))  # 1 = erased
        else:
            ev.update(cons=False, map=[])
    return ev


def rec_sa(cfg, H, W, seed):
    """KDSpecAugment on a [c, H, W] tensor: time_masking acts on axis 1 (rows), frequency_masking on axis 2 (columns)"""
    import torch
    from kappadata.transforms.audio.kd_spec_augment import KDSpecAugment
    ev = dict(H=H, W=W, seed=seed)
    t = KDSpecAugment(time_masking=cfg["tm"] or None, frequency_masking=cfg["fm"] or None)
    t.set_rng(_rng(seed))
    x = coord_tensor(H, W, cfg["c"])
    x0 = x.clone()
    st, out = guarded(lambda: t(x, {}))
    ev.update(base_event("sa", st, out if st != "ok" else ""))
    if st == "ok":
        shape_ok = torch.is_tensor(out) and tuple(out.shape) == tuple(x0.shape)
        ev["shape"] = bool(shape_ok)
        if shape_ok:
            zero = (out == 0)
            keep = (out == x0)
            ev["cons"] = bool((zero | keep).all()) and bool(torch.equal(zero.any(dim=0), zero.all(dim=0)))
            ev["map"] = _ints(zero.any(dim=0).to(torch.int64).reshape(-1))  # 1 = masked
        else:
            ev.update(cons=False, map=[])
    return ev


# ---------------------------------------------------------------------------------------------------------------
# image / segmentation pairs
# ---------------------------------------------------------------------------------------------------------------
def label_table(H, W, seed, nlab=4):
    """a blocky label image with few classes (incl. the ignore label -1), as a flat table indexed by coordinate-1"""
    r = random.Random(seed * 7919 + H * 131 + W)
    bh, bw = max(1, H // r.randint(1, 3)), max(1, W // r.randint(1, 3))
    blocks = {}
    tab = []
    for rr in range(H):
        for cc in range(W):
            key = (rr // bh, cc // bw)
            if key not in blocks:
                blocks[key] = r.choice([-1] + list(range(nlab)))
            tab.append(blocks[key])
    return tab


def make_pair(H, W, typ, lab):
    """x = coordinate image, semseg = coordinates (lab is None) or the labels of table `lab`"""
    import numpy as np
    import torch
    from PIL import Image
    vals = list(range(1, H * W + 1)) if lab is None else lab
    if typ == "t":
        x = coord_tensor(H, W, 1)
        s = torch.tensor(vals, dtype=torch.int64).view(H, W)
    else:
        x = coord_pil(H, W, "F")
        s = Image.fromarray(np.array(vals, dtype=np.int32).reshape(H, W), mode="I")
    return x, s


def pair_event(kind, cfg, H, W, seed, call, lab=None, exact=True):
    """run `call(x, semseg)` -> (x', semseg') and project both members"""
    ev = dict(H=H, W=W, seed=seed, labid=lab is None, lab=lab or [])
    x, s = make_pair(H, W, cfg["typ"], lab)
    st, out = guarded(lambda: call(x, s))
    ev.update(base_event(kind, st, out if st != "ok" else ""))
    if st == "ok":
        ok = isinstance(out, (tuple, list)) and len(out) == 2
        ev["two"] = ok
        if ok:
            ev.update(pair_projection(out[0], out[1], exact))
    return ev


def pair_projection(xo, so, exact):
    oh, ow = img_size(xo)
    sh, sw, ms, scons = project(so)
    d = dict(oh=oh, ow=ow, sh=sh, sw=sw, ms=ms, exact=exact)
    if exact:
        _, _, mx, xcons = project(xo)
        d.update(mx=mx, cons=bool(xcons and scons))
    else:
        d.update(mx=[], cons=bool(scons))
    return d


def rec_sc(cfg, H, W, seed):
    """KDSemsegRandomCrop"""
    from kappadata.transforms.semseg.kd_semseg_random_crop import KDSemsegRandomCrop
    t = KDSemsegRandomCrop(size=(cfg["th"], cfg["tw"]), max_category_ratio=cfg["mcr"][0] / cfg["mcr"][1])
    t.set_rng(_rng(seed))
    lab = label_table(H, W, seed) if cfg["lab"] else None
    return pair_event("sc", cfg, H, W, seed, lambda x, s: t((x, s), {}), lab)


def rec_sp(cfg, H, W, seed):
    """KDSemsegPad"""
    from kappadata.transforms.semseg.kd_semseg_pad import KDSemsegPad
    t = KDSemsegPad(size=(cfg["th"], cfg["tw"]))
    lab = label_table(H, W, seed) if cfg["lab"] else None
    return pair_event("sp", cfg, H, W, seed, lambda x, s: t((x, s), {}), lab)


def rec_sf(cfg, H, W, seed):
    """KDSemsegRandomHorizontalFlip"""
    from kappadata.transforms.semseg.kd_semseg_random_horizontal_flip import KDSemsegRandomHorizontalFlip
    t = KDSemsegRandomHorizontalFlip(p=cfg["p"][0] / cfg["p"][1])
    t.set_rng(_rng(seed))
    lab = label_table(H, W, seed) if cfg["lab"] else None
    return pair_event("sf", cfg, H, W, seed, lambda x, s: t((x, s), {}), lab)


def rec_sz(cfg, H, W, seed):
    """KDSemsegResize"""
    from kappadata.transforms.semseg.kd_semseg_resize import KDSemsegResize
    t = KDSemsegResize(size=(cfg["th"], cfg["tw"]), interpolation=cfg["interp"])
    lab = label_table(H, W, seed) if cfg["lab"] else None
    return pair_event("sz", cfg, H, W, seed, lambda x, s: t((x, s), {}), lab, exact=cfg["interp"] == "nearest")


def rec_sr(cfg, H, W, seed):
    """KDSemsegRandomResize (kind sr) / KDSemsegRandomResizeOld (kind sro)"""
    if cfg["old"]:
        from kappadata.transforms.semseg.kd_semseg_random_resize_old import KDSemsegRandomResizeOld as T
    else:
        from kappadata.transforms.semseg.kd_semseg_random_resize import KDSemsegRandomResize as T
    t = T(base_size=(cfg["bh"], cfg["bw"]), ratio=(cfg["rmin"][0] / cfg["rmin"][1], cfg["rmax"][0] / cfg["rmax"][1]),
          interpolation=cfg["interp"])
    t.set_rng(_rng(seed))
    lab = label_table(H, W, seed) if cfg["lab"] else None
    return pair_event("sro" if cfg["old"] else "sr", cfg, H, W, seed, lambda x, s: t((x, s), {}), lab,
                      exact=cfg["interp"] == "nearest")


def rec_mc(cfg, H, W, seed):
    """KDSemsegOverlappedMultiCrop (tensor only): crops stacked along a new first axis"""
    import torch
    from kappadata.transforms.semseg.kd_semseg_overlapped_multi_crop import KDSemsegOverlappedMultiCrop
    ev = dict(H=H, W=W, seed=seed)
    st, t = guarded(lambda: KDSemsegOverlappedMultiCrop(crop_size=(cfg["th"], cfg["tw"])))
    if st == "ok":
        x, s = make_pair(H, W, "t", None)
        st, out = guarded(lambda: t((x, s), {}))
    else:
        out = t
    ev.update(base_event("mc", st, out if st != "ok" else ""))
    if st == "ok":
        ok = (isinstance(out, (tuple, list)) and len(out) == 2 and torch.is_tensor(out[0]) and out[0].ndim == 4
              and torch.is_tensor(out[1]) and out[1].ndim == 3 and out[0].shape[0] == out[1].shape[0])
        ev["two"] = bool(ok)
        if ok:
            n = int(out[0].shape[0])
            mxs, mss, cons = [], [], True
            for q in range(n):
                oh, ow, mx, c1 = project(out[0][q])
                sh, sw, ms, c2 = project(out[1][q])
                cons = cons and c1 and c2 and (oh, ow) == (sh, sw)
                mxs.append(mx)
                mss.append(ms)
            ev.update(n=n, oh=int(out[0].shape[2]), ow=int(out[0].shape[3]), mxs=mxs, mss=mss, cons=bool(cons))
    return ev


class PairDataset:
    """built lazily as a KDDataset subclass (kappadata must be imported from VERIF_REPO first)"""
    _cls = None

    @classmethod
    def make(cls, items):
        if cls._cls is None:
            from kappadata.datasets.kd_dataset import KDDataset

            class _PairDataset(KDDataset):
                def __init__(self, items):
                    super().__init__()
                    self.items = items  # list of (H, W, typ, lab)

                def __len__(self):
                    return len(self.items)

                def getitem_x(self, idx, ctx=None):
                    H, W, typ, lab = self.items[idx]
                    return make_pair(H, W, typ, lab)[0]

                def getitem_semseg(self, idx, ctx=None):
                    H, W, typ, lab = self.items[idx]
                    return make_pair(H, W, typ, lab)[1]

            cls._cls = _PairDataset
        return cls._cls(items)


def draw_only():
    """a stochastic IMAGE-ONLY transform of the harness: consumes one draw of its generator, leaves the image as it is
    (stands for colour jitter & co., which sit between the paired transforms of real segmentation pipelines)"""
    from kappadata.transforms.base.kd_stochastic_transform import KDStochasticTransform

    class DrawOnly(KDStochasticTransform):
        def __call__(self, x, ctx=None):
            self.rng.random()
            return x

    return DrawOnly()


def build_pipeline(cfg):
    """the segmentation pipeline of the repository's own integration test, parametrised"""
    from kappadata.transforms.semseg.kd_semseg_pad import KDSemsegPad
    from kappadata.transforms.semseg.kd_semseg_random_crop import KDSemsegRandomCrop
    from kappadata.transforms.semseg.kd_semseg_random_horizontal_flip import KDSemsegRandomHorizontalFlip
    from kappadata.transforms.semseg.kd_semseg_random_resize import KDSemsegRandomResize
    from kappadata.transforms.semseg.kd_semseg_resize import KDSemsegResize
    ts = []
    for step in cfg["steps"]:
        if step == "resize":
            ts.append(KDSemsegResize(size=(cfg["bh"], cfg["bw"]), interpolation="nearest"))
        elif step == "rresize":
            ts.append(KDSemsegRandomResize(base_size=(cfg["bh"], cfg["bw"]), interpolation="nearest",
                                           ratio=(cfg["rmin"][0] / cfg["rmin"][1], cfg["rmax"][0] / cfg["rmax"][1])))
        elif step == "crop":
            ts.append(KDSemsegRandomCrop(size=(cfg["th"], cfg["tw"]), max_category_ratio=cfg["mcr"][0] / cfg["mcr"][1]))
        elif step == "flip":
            ts.append(KDSemsegRandomHorizontalFlip(p=0.5))
        elif step == "pad":
            ts.append(KDSemsegPad(size=(cfg["th"], cfg["tw"])))
        elif step == "draw":
            ts.append(draw_only())
        else:
            raise ValueError(step)
    return ts


def rec_pipe(cfg, H, W, seed):
    """whole pipeline through SemsegTransformWrapper; access = fused ("x semseg" / "semseg x" via ModeWrapper,
    getitem_xsemseg) or the two members fetched separately under a fixed wrapper seed"""
    from kappadata.wrappers import ModeWrapper
    from kappadata.wrappers.sample_wrappers.semseg_transform_wrapper import SemsegTransformWrapper
    lab = label_table(H, W, seed) if cfg["lab"] else None
    ev = dict(H=H, W=W, seed=seed, labid=lab is None, lab=lab or [])

    def go():
        import numpy as np
        ds = PairDataset.make([(H, W, cfg["typ"], lab)] * 3)
        idx = seed % 3
        np.random.seed(seed % (2 ** 31))  # transforms take their generator from the numpy global one at construction
        # seed 0 is a seed like any other (every third seeded case uses it)
        w = SemsegTransformWrapper(dataset=ds, transforms=build_pipeline(cfg),
                                   seed=(0 if seed % 3 == 0 else seed) if cfg["wseed"] else None)
        acc = cfg["access"]
        if acc == "xs":
            x, s = ModeWrapper(dataset=w, mode="x semseg")[idx]
        elif acc == "sx":
            s, x = ModeWrapper(dataset=w, mode="semseg x")[idx]
        elif acc == "fused":
            x, s = w.getitem_xsemseg(idx)
        elif acc == "sep":
            assert cfg["wseed"]
            x = w.getitem_x(idx)
            s = w.getitem_semseg(idx)
        else:
            raise ValueError(acc)
        return x, s

    st, out = guarded(go)
    ev.update(base_event("pipe", st, out if st != "ok" else ""))
    if st == "ok":
        ev["two"] = True
        ev.update(pair_projection(out[0], out[1], True))
    return ev


# ---------------------------------------------------------------------------------------------------------------
# patchify / unpatchify / shuffle, normalise / denormalise
# ---------------------------------------------------------------------------------------------------------------
def _flat0(t):
    """channel 0 of a tensor, flattened row-major; channels_consistent"""
    import torch
    a = t.detach().to(torch.float64)
    ok = True
    for k in range(1, a.shape[0]):
        ok = ok and bool(torch.equal(a[k], a[0] + k * CH_OFF))
    return _ints(a[0].reshape(-1)), ok


def rec_pi(cfg, H, W, seed):
    """PatchifyImage -> [c, lh*lw, ph, pw] (ctx: patchify_lh / patchify_lw) -> UnpatchifyImage(ctx)"""
    import torch
    from kappadata.transforms.patchify_image import PatchifyImage
    from kappadata.transforms.unpatchify_image import UnpatchifyImage
    ev = dict(H=H, W=W, seed=seed)
    x = make_input(H, W, cfg["typ"], cfg["c"])
    ctx = {}

    def go():
        p = PatchifyImage(patch_size=(cfg["ph"], cfg["pw"]))(x, ctx)
        back = UnpatchifyImage()(p, ctx)
        return p, back

    st, out = guarded(go)
    ev.update(base_event("pi", st, out if st != "ok" else ""))
    if st == "ok":
        p, back = out
        ok = torch.is_tensor(p) and p.ndim == 4 and torch.is_tensor(back) and back.ndim == 3
        ev["shape"] = bool(ok)
        if ok:
            f, c1 = _flat0(p)
            b, c2 = _flat0(back)
            ev.update(dims=_ints(p.shape), bdims=_ints(back.shape), seq=f, back=b, cons=c1 and c2,
                      hasctx="patchify_lh" in ctx and "patchify_lw" in ctx,
                      ctx=_ints([ctx.get("patchify_lh", 0), ctx.get("patchify_lw", 0)]))
    return ev


def rec_pa(cfg, H, W, seed):
    """Patchify -> [c, sh, sw, ph, pw] -> Unpatchify"""
    import torch
    from kappadata.transforms.patchify import Patchify
    from kappadata.transforms.unpatchify import Unpatchify
    ev = dict(H=H, W=W, seed=seed)
    x = make_input(H, W, cfg["typ"], cfg["c"])

    def go():
        p = Patchify(patch_size=(cfg["ph"], cfg["pw"]))(x, {})
        back = Unpatchify()(p, {})
        return p, back

    st, out = guarded(go)
    ev.update(base_event("pa", st, out if st != "ok" else ""))
    if st == "ok":
        p, back = out
        ok = torch.is_tensor(p) and p.ndim == 5 and torch.is_tensor(back) and back.ndim == 3
        ev["shape"] = bool(ok)
        if ok:
            f, c1 = _flat0(p)
            b, c2 = _flat0(back)
            ev.update(dims=_ints(p.shape), bdims=_ints(back.shape), seq=f, back=b, cons=c1 and c2)
    return ev


def rec_ps(cfg, H, W, seed):
    """PatchifyImage -> PatchwiseShuffle (ctx: permutation) -> un-shuffle by hand with the recorded permutation ->
    UnpatchifyImage"""
    import numpy as np
    import torch
    from kappadata.transforms.patchify_image import PatchifyImage
    from kappadata.transforms.patchwise_shuffle import PatchwiseShuffle
    from kappadata.transforms.unpatchify_image import UnpatchifyImage
    ev = dict(H=H, W=W, seed=seed)
    x = make_input(H, W, cfg["typ"], cfg["c"])
    ctx = {}

    def go():
        p = PatchifyImage(patch_size=(cfg["ph"], cfg["pw"]))(x, ctx)
        t = PatchwiseShuffle().set_rng(_rng(seed))
        sh = t(p.clone(), ctx)
        if seed % 2 == 0:
            t(p.clone(), {})  # the same instance handles the next sample: what it recorded for this one must stay
        perm = [int(v) for v in np.asarray(ctx["permutation"]).reshape(-1)]
        # by hand: patch k of the shuffled tensor came from position perm[k]
        un = torch.empty_like(sh)
        for k, src in enumerate(perm):
            if 0 <= src < un.shape[1]:
                un[:, src] = sh[:, k]
        back = UnpatchifyImage()(un, ctx)
        return p, sh, perm, back

    st, out = guarded(go)
    ev.update(base_event("ps", st, out if st != "ok" else ""))
    if st == "ok":
        p, sh, perm, back = out
        ok = torch.is_tensor(sh) and sh.ndim == 4 and tuple(sh.shape) == tuple(p.shape) and back.ndim == 3
        ev["shape"] = bool(ok)
        if ok:
            f, c1 = _flat0(sh)
            b, c2 = _flat0(back)
            ev.update(dims=_ints(sh.shape), bdims=_ints(back.shape), seq=f, back=b, perm=perm, cons=c1 and c2)
    return ev


def rec_nm(cfg, H, W, seed):
    """KDImageNorm / KDImageRangeNorm: denormalise(normalise(x)) and normalise(denormalise(x)), errors in 1e-7 units"""
    import numpy as np
    import torch
    from PIL import Image
    from torchvision.transforms.functional import to_tensor
    from kappadata.transforms.norm.kd_image_norm import KDImageNorm
    from kappadata.transforms.norm.kd_image_range_norm import KDImageRangeNorm
    ev = dict(H=H, W=W, seed=seed)
    g = torch.Generator().manual_seed(seed)
    c = cfg["c"]
    if cfg["typ"] == "t":
        x = torch.rand(c, H, W, generator=g)
        ref = x.clone()
    else:
        a = (torch.rand(H, W, c, generator=g) * 255).to(torch.uint8).numpy()
        x = Image.fromarray(a[:, :, 0], mode="L") if c == 1 else Image.fromarray(a, mode="RGB")
        ref = to_tensor(x)
    if cfg["range"]:
        mk = lambda inv: KDImageRangeNorm(inverse=inv, inplace=cfg["inplace"])
        mean, std = [0.5] * c, [0.5] * c
    else:
        mean = [m / 1000 for m in cfg["mean"]]
        std = [s / 1000 for s in cfg["std"]]
        mk = lambda inv: KDImageNorm(mean=mean, std=std, inverse=inv, inplace=cfg["inplace"])

    def go():
        xin = x.clone() if torch.is_tensor(x) else x
        n = mk(False)(xin, {})
        n_keep = n.clone()
        dn = mk(True)(n, {})
        d = mk(True)(ref.clone(), {})
        d_keep = d.clone()
        nd = mk(False)(d, {})
        return n_keep, dn, d_keep, nd

    st, out = guarded(go)
    ev.update(base_event("nm", st, out if st != "ok" else ""))
    if st == "ok":
        n, dn, d, nd = out
        ok = all(torch.is_tensor(t) and tuple(t.shape) == tuple(ref.shape) for t in out)
        ev["shape"] = bool(ok)
        if ok:
            m = torch.tensor(mean).view(-1, 1, 1)
            s = torch.tensor(std).view(-1, 1, 1)
            byhand = (ref - m) / s
            cap = lambda v: int(min(2_000_000_000, round(float(v) * 1e7))) if math.isfinite(float(v)) else 2_000_000_000
            ev.update(err_dn=cap((dn - ref).abs().max()), err_nd=cap((nd - ref).abs().max()),
                      err_aff=cap((n - byhand).abs().max()), moved=cap((n - ref).abs().max()))
    return ev


RECORDERS = dict(rc=rec_rc, trc=rec_trc, rrc=rec_rrc, src=rec_src, er=rec_er, sa=rec_sa, sc=rec_sc, sp=rec_sp, sf=rec_sf,
                 sz=rec_sz, sr=rec_sr, sro=rec_sr, mc=rec_mc, pipe=rec_pipe, pi=rec_pi, pa=rec_pa, ps=rec_ps, nm=rec_nm)


def record_trace(tid, kind, cfg, calls):
    """calls: list of (H, W, seed). One event per call."""
    ev = [RECORDERS[kind](cfg, H, W, s) for (H, W, s) in calls]
    return dict(id=tid, kind=kind, cfg=cfg, ev=ev)


# ---------------------------------------------------------------------------------------------------------------
# case generators: (kind, cfg, calls) with calls = [(H, W, seed), ...]
# ---------------------------------------------------------------------------------------------------------------
PAD_FORMS = ["none", "int", "two", "four"]


def padarg_of(cfg):
    f = cfg["padform"]
    if f == "none":
        return None
    if f == "int":
        return cfg["pl"]
    if f == "two":
        return [cfg["pl"], cfg["pt"]]
    return [cfg["pl"], cfg["pt"], cfg["pr"], cfg["pb"]]


def mode_ok(n, a, b, mode):
    if mode == "reflect":
        return a < n and b < n
    if mode == "symmetric":
        return a <= n and b <= n
    return True


def pad_domain(H, W, c):
    """python mirror of Geometry!PadDomain (the trace spec re-checks it: clause "Domain")"""
    h1, w1 = H + c["pt"] + c["pb"], W + c["pl"] + c["pr"]
    ew = c["tw"] - w1 if c["pin"] and w1 < c["tw"] else 0
    eh = c["th"] - h1 if c["pin"] and h1 < c["th"] else 0
    return (mode_ok(H, c["pt"], c["pb"], c["pmode"]) and mode_ok(W, c["pl"], c["pr"], c["pmode"])
            and mode_ok(h1, eh, eh, c["pmode"]) and mode_ok(w1, ew, ew, c["pmode"]))


def crop_cfg(r, th, tw, typ, padform=None, pin=None, pmode=None, pmax=3):
    padform = padform or r.choice(PAD_FORMS)
    if padform == "none":
        pl = pt = pr = pb = 0
    elif padform == "int":
        pl = pt = pr = pb = r.randint(0, pmax)
    elif padform == "two":
        pl = pr = r.randint(0, pmax)
        pt = pb = r.randint(0, pmax)
    else:
        pl, pt, pr, pb = (r.randint(0, pmax) for _ in range(4))
    c = dict(th=th, tw=tw, padform=padform, pl=pl, pt=pt, pr=pr, pb=pb, pin=bool(r.random() < 0.4) if pin is None else pin,
             pmode=pmode or r.choice(["constant", "constant", "reflect", "edge", "symmetric"]), typ=typ)
    return c


def near(r, t, big):
    """an input extent around target t: smaller, equal, 1-pixel margins, much larger"""
    return max(1, r.choice([t - 2, t - 1, t, t, t + 1, t + 2, 2 * t, r.randint(1, big), r.randint(1, big), big]))


def seeds(r, n):
    return [r.randrange(1, 2 ** 31 - 1) for _ in range(n)]


def gen_rc(r, quick):
    out = []
    typs = ["t", "pI", "pF"]
    n = 0
    # exhaustive small grid: every target <= 3, every input <= 4, without / with explicit padding, pad_if_needed
    for th in range(1, 4):
        for tw in range(1, 4):
            for H in range(1, 5):
                for W in range(1, 5):
                    for padform in ("none", "int"):
                        for pin in (False, True):
                            c = crop_cfg(r, th, tw, typs[n % 3], padform=padform, pin=pin, pmode="constant", pmax=1)
                            if padform == "int":
                                c.update(pl=1, pt=1, pr=1, pb=1)
                            n += 1
                            out.append(("rc", c, [(H, W, s) for s in seeds(r, 2)]))
    for _ in range(700 if quick else 6000):
        th, tw = r.randint(1, 10), r.randint(1, 10)
        c = crop_cfg(r, th, tw, r.choice(typs))
        c["c"] = r.choice([1, 1, 3]) if c["typ"] == "t" else 1
        big = 24 if quick else 64
        calls = []
        for s in seeds(r, 3):
            H, W = near(r, th, big), near(r, tw, big)
            if pad_domain(H, W, c):
                calls.append((H, W, s))
        if not calls:
            c["pmode"] = "constant"
            calls = [(near(r, th, big), near(r, tw, big), s) for s in seeds(r, 3)]
        out.append(("rc", c, calls))
    return out


DYADIC = [[0, 1], [1, 4], [1, 2], [3, 4], [1, 1]]


def gen_trc(r, quick):
    out = []
    for _ in range(500 if quick else 4000):
        th, tw = r.randint(1, 7), r.randint(1, 7)
        c = crop_cfg(r, th, tw, r.choice(["t", "pI", "pF"]), pmode=r.choice(["constant", "constant", "edge"]), pmax=2)
        a, b = sorted([r.randrange(5), r.randrange(5)])
        c.update(omin=DYADIC[a], omax=DYADIC[b], tries=r.choice([1, 2, 3, 5, 20]))
        big = 16 if quick else 40
        calls = [(near(r, th, big), near(r, tw, big), s) for s in seeds(r, 3)]
        calls = [x for x in calls if pad_domain(x[0], x[1], c)] or [(th + 1, tw + 2, 7)]
        out.append(("trc", c, calls))
    return out


RATIOS = [([3, 4], [4, 3]), ([3, 4], [4, 3]), ([1, 1], [1, 1]), ([1, 2], [2, 1]), ([1, 3], [3, 1]), ([2, 1], [3, 1]),
          ([1, 4], [1, 2]), ([3, 1], [4, 1]), ([1, 5], [1, 4])]
SCALES = [([8, 100], [1, 1]), ([8, 100], [1, 1]), ([1, 5], [1, 1]), ([1, 2], [1, 2]), ([1, 1], [1, 1]), ([1, 20], [3, 10])]


def gen_rrc(r, quick):
    out = []
    for _ in range(600 if quick else 5000):
        rmin, rmax = r.choice(RATIOS)
        smin, smax = r.choice(SCALES)
        c = dict(th=r.randint(1, 8), tw=r.randint(1, 8), smin=smin, smax=smax, rmin=rmin, rmax=rmax,
                 interp=r.choice(["nearest", "nearest", "bilinear", "bicubic"]), typ=r.choice(["t", "t", "pI", "pF"]))
        big = 30 if quick else 64
        calls = []
        for s in seeds(r, 3):
            shape = r.randrange(5)
            if shape == 0:
                H, W = 1, r.randint(1, big)          # extreme aspect ratios
            elif shape == 1:
                H, W = r.randint(1, big), 1
            elif shape == 2:
                H, W = r.randint(1, 4), r.randint(1, 4)  # tiny
            else:
                H, W = r.randint(1, big), r.randint(1, big)
            calls.append((H, W, s))
        out.append(("rrc", c, calls))
    return out


def gen_src(r, quick):
    out = []
    for _ in range(200 if quick else 1500):
        pad = r.choice([0, 1, 2, 4])
        size = r.randint(pad + 1, pad + 6)
        sq = r.random() < 0.7
        c = dict(size=size, sq=sq, size2=size if sq else r.randint(pad + 1, pad + 6), pad=pad,
                 interp=r.choice(["bicubic", "bilinear", "nearest"]), pmode=r.choice(["reflect", "reflect", "constant", "edge", "symmetric"]),
                 typ=r.choice(["t", "pF"]))
        big = 24 if quick else 48
        out.append(("src", c, [(r.randint(1, big), r.randint(1, big), s) for s in seeds(r, 2)]))
    return out


def gen_er(r, quick):
    out = []
    for _ in range(350 if quick else 3000):
        cmin, cmax = r.choice([(1, 1), (1, 1), (1, 2), (2, 2), (1, 4), (3, 3)])
        amin, amax = r.choice([([2, 100], [1, 3]), ([1, 10], [9, 10]), ([1, 2], [1, 1]), ([2, 100], [1, 1])])
        c = dict(amin=amin, amax=amax, aspect=r.choice([[3, 10], [1, 2], [1, 1], [1, 10]]), mode=r.choice(["zeros", "zeros", "pixelwise", "channelwise"]),
                 cmin=cmin, cmax=cmax, c=r.choice([1, 3]))
        big = 12 if quick else 24
        out.append(("er", c, [(r.randint(1, big), r.randint(1, big), s) for s in seeds(r, 4)]))
    return out


def gen_sa(r, quick):
    out = []
    for _ in range(350 if quick else 3000):
        tm, fm = r.randint(0, 14), r.randint(0, 14)
        if tm == 0 and fm == 0:
            tm = 3
        c = dict(tm=tm, fm=fm, c=r.choice([1, 2]))
        big = 12 if quick else 24
        out.append(("sa", c, [(r.randint(1, big), r.randint(1, big), s) for s in seeds(r, 4)]))
    return out


def gen_pairs(r, quick):
    out = []
    big = 20 if quick else 40
    m = 1 if quick else 8
    for _ in range(500 * m):
        th, tw = r.randint(1, 9), r.randint(1, 9)
        mcr = r.choice([[1, 1], [1, 1], [3, 4], [1, 2]])
        typ = "t" if mcr != [1, 1] else r.choice(["t", "p"])
        c = dict(th=th, tw=tw, mcr=mcr, typ=typ, lab=mcr != [1, 1] or r.random() < 0.3)
        out.append(("sc", c, [(near(r, th, big), near(r, tw, big), s) for s in seeds(r, 3)]))
    for _ in range(300 * m):
        th, tw = r.randint(1, 12), r.randint(1, 12)
        c = dict(th=th, tw=tw, typ=r.choice(["t", "p"]), lab=r.random() < 0.5)
        out.append(("sp", c, [(near(r, th, 14), near(r, tw, 14), s) for s in seeds(r, 2)]))
    for _ in range(100 * m):
        c = dict(p=r.choice([[0, 1], [1, 2], [1, 2], [1, 1]]), typ=r.choice(["t", "p"]), lab=r.random() < 0.5)
        out.append(("sf", c, [(r.randint(1, 10), r.randint(1, 10), s) for s in seeds(r, 4)]))
    for _ in range(200 * m):
        c = dict(th=r.randint(1, 10), tw=r.randint(1, 10), interp=r.choice(["nearest", "nearest", "bilinear"]),
                 typ=r.choice(["t", "p"]), lab=r.random() < 0.5)
        out.append(("sz", c, [(r.randint(1, 12), r.randint(1, 12), s) for s in seeds(r, 2)]))
    for _ in range(400 * m):
        bh, bw = r.choice([(8, 4), (4, 8), (6, 6), (12, 3), (16, 8)])
        rmin, rmax = r.choice([([1, 2], [2, 1]), ([1, 1], [1, 1]), ([3, 4], [3, 2]), ([1, 2], [1, 2])])
        old = r.random() < 0.25
        c = dict(bh=bh, bw=bw, rmin=rmin, rmax=rmax, interp=r.choice(["nearest", "nearest", "bilinear"]),
                 typ=r.choice(["t", "p"]), lab=r.random() < 0.5, old=old)
        calls = []
        for s in seeds(r, 3):
            sh = r.randrange(4)
            H, W = (1, r.randint(1, big)) if sh == 0 else (r.randint(1, big), 1) if sh == 1 else (r.randint(1, big), r.randint(1, big))
            calls.append((H, W, s))
        out.append(("sro" if old else "sr", c, calls))
    for th in (2, 4, 6):
        for tw in (2, 4, 6):
            for a in range(1, 4):
                for b in range(1, 4):
                    out.append(("mc", dict(th=th, tw=tw), [(a * th, b * tw, 1)]))
    for (th, tw, H, W) in [(2, 3, 4, 6), (3, 2, 6, 4), (2, 2, 5, 4), (4, 4, 8, 6), (2, 4, 3, 8)]:
        out.append(("mc", dict(th=th, tw=tw), [(H, W, 1)]))
    pipes = [["rresize", "crop", "flip", "pad"], ["resize", "crop", "pad"], ["flip", "pad"], ["crop", "flip"], ["rresize", "flip"],
             ["crop", "pad"], ["rresize", "crop", "flip", "pad"], ["draw", "crop", "flip"], ["rresize", "draw", "crop", "pad"],
             ["draw", "flip", "pad"], ["draw", "rresize", "draw", "flip"]]
    for _ in range(450 * m):
        steps = r.choice(pipes)
        bh, bw = r.choice([(8, 4), (4, 8), (6, 6), (12, 6)])
        rmin, rmax = r.choice([([1, 2], [2, 1]), ([1, 1], [1, 1]), ([3, 4], [3, 2])])
        mcr = r.choice([[1, 1], [3, 4], [1, 2]])
        typ = "t" if mcr != [1, 1] else r.choice(["t", "p"])
        wseed = r.random() < 0.6
        access = r.choice(["xs", "sx", "fused", "sep"] if wseed else ["xs", "sx", "fused"])
        fixed = "crop" in steps and "pad" in steps and steps.index("pad") > steps.index("crop")
        c = dict(steps=steps, bh=bh, bw=bw, rmin=rmin, rmax=rmax, th=r.randint(1, 8), tw=r.randint(1, 8), mcr=mcr, typ=typ,
                 lab=r.random() < 0.8, wseed=wseed, access=access, fixed=fixed)
        out.append(("pipe", c, [(r.randint(1, 16), r.randint(1, 16), s) for s in seeds(r, 3)]))
    return out


def gen_patch(r, quick):
    out = []
    lim = 4 if quick else 6
    # exhaustive: every patch size <= lim and every grid of up to lim x lim patches would be large: all (ph, pw, lh, lw) <= 3
    for ph in range(1, 4):
        for pw in range(1, 4):
            for lh in range(1, 4):
                for lw in range(1, 4):
                    c = dict(ph=ph, pw=pw, typ="t", c=1 + (ph + pw + lh + lw) % 3)
                    out.append(("pi", c, [(lh * ph, lw * pw, 1)]))
                    out.append(("ps", c, [(lh * ph, lw * pw, s) for s in seeds(r, 2)]))
    for _ in range(150 if quick else 1200):
        ph, pw, lh, lw = (r.randint(1, lim) for _ in range(4))
        typ = r.choice(["t", "t", "pI", "pF"])
        c = dict(ph=ph, pw=pw, typ=typ, c=r.randint(1, 3) if typ == "t" else 1)
        H, W = lh * ph, lw * pw
        if r.random() < 0.08:
            H += 1  # patch size not dividing the image: outside the stated domain, refusal expected
        k = r.choice(["pi", "pa", "ps"])
        out.append((k, c, [(H, W, s) for s in seeds(r, 2 if k == "ps" else 1)]))
    return out


def gen_nm(r, quick):
    out = []
    for _ in range(150 if quick else 1200):
        ch = r.choice([1, 3])
        c = dict(typ=r.choice(["t", "p"]), c=ch, range=r.random() < 0.3, mean=[r.randint(0, 1000) for _ in range(ch)],
                 std=[r.randint(50, 1000) for _ in range(ch)], inplace=r.random() < 0.5)
        out.append(("nm", c, [(r.randint(1, 8), r.randint(1, 8), s) for s in seeds(r, 2)]))
    return out


def all_cases(seed, quick):
    r = random.Random(seed * 1000003 + 14)
    cases = []
    for g in (gen_rc, gen_trc, gen_rrc, gen_src, gen_er, gen_sa, gen_pairs, gen_patch, gen_nm):
        cases += g(r, quick)
    return cases


# ---------------------------------------------------------------------------------------------------------------
# recording (forked workers), validation, negative controls, verdict
# ---------------------------------------------------------------------------------------------------------------
def _record_chunk(args):
    import torch
    torch.set_num_threads(1)
    core.use_repo()
    out = []
    for tid, kind, cfg, calls in args:
        out.append(record_trace(tid, kind, cfg, calls))
    return out


def make_pool(procs=6):
    """fork the recording workers (before any TLC thread exists: no lock can be held across the fork)"""
    import multiprocessing as mp
    return mp.get_context("fork").Pool(procs)


def record_all(cases, pool, procs=6):
    items = [(i + 1, k, c, calls) for i, (k, c, calls) in enumerate(cases)]
    chunks = [items[i::procs * 4] for i in range(procs * 4)]
    chunks = [c for c in chunks if c]
    res = pool.map(_record_chunk, chunks)
    pool.close()
    pool.join()
    traces = [t for ch in res for t in ch]
    traces.sort(key=lambda t: t["id"])
    return traces


def validate(traces, name, jobs=8, timeout=3000):
    """-> (accepted ids, {id: (position, [clauses])}, {id: [(position, [Desc clauses])]}, stats)"""
    from concurrent.futures import ThreadPoolExecutor
    os.makedirs(tlc.WORK, exist_ok=True)
    if not traces:
        return set(), {}, {}, dict(states=0, transitions=0)
    order = sorted(traces, key=lambda t: -sum(len(json.dumps(e)) for e in t["ev"]))
    chunks = [order[i::jobs] for i in range(jobs)]
    chunks = [c for c in chunks if c]

    def one(i_ch):
        i, ch = i_ch
        path = os.path.join(tlc.WORK, f"{name}-{os.getpid()}-{i}.json")
        with open(path, "w") as f:
            json.dump(dict(traces=ch), f)
        try:
            r = tlc.run_tlc("GeometryTrace", "GeometryTrace.cfg", name=f"{name}{i}", workers=1, env=dict(TRACE_FILE=path),
                            timeout=timeout, heap="3g")
        finally:
            os.remove(path)
        acc, rej, non = tlc.tagged(r.prints, "ACCEPTED"), tlc.tagged(r.prints, "REJECTED"), tlc.tagged(r.prints, "NONCONFORMING")
        if len(acc) != 1 or len(rej) != 1 or len(non) != 1:
            raise tlc.TLCError(f"GeometryTrace: verdict lines missing\n{r.stdout[-3000:]}")
        return set(acc[0]), {x[0]: (x[1], sorted(x[2])) for x in rej[0]}, non[0], r

    acc, rej, non, st, tr = set(), {}, {}, 0, 0
    with ThreadPoolExecutor(max_workers=jobs) as ex:
        for a, rj, nn, r in ex.map(one, list(enumerate(chunks))):
            acc |= a
            rej.update(rj)
            for x in nn:
                non.setdefault(x[0], []).append((x[1], sorted(x[2])))
            st += r.distinct_states
            tr += r.states_generated
    ids = {t["id"] for t in traces}
    acc -= set(rej)
    if acc | set(rej) != ids:
        raise tlc.TLCError(f"GeometryTrace: verdicts not total: {len(ids)} traces, {len(acc)} accepted, {len(rej)} rejected, "
                           f"e.g. missing {sorted(ids - acc - set(rej))[:5]}")
    return acc, rej, non, dict(states=st, transitions=tr)


def case_key(t, pos):
    e = t["ev"][pos - 1]
    c = {k: v for k, v in t["cfg"].items()}
    cs = ",".join(f"{k}={json.dumps(c[k], separators=(',', ':'))}" for k in sorted(c))
    return f"{t['kind']}:{cs}:H={e['H']},W={e['W']},seed={e['seed']}"


def nontrivial(kind, cfg, e):
    """an ok call in which the geometry actually did something"""
    if e["st"] != "ok":
        return False
    if kind in ("rc", "trc", "sc"):
        return e.get("oh", 0) * e.get("ow", 0) < e["H"] * e["W"] or cfg.get("pl", 0) + cfg.get("pt", 0) > 0 or cfg.get("pin", False)
    if kind in ("rrc", "src", "sz", "sr", "sro"):
        return (e.get("oh"), e.get("ow")) != (e["H"], e["W"])
    if kind in ("er", "sa"):
        return any(e.get("map", []))
    if kind == "sp":
        return (e.get("oh"), e.get("ow")) != (e["H"], e["W"])
    if kind in ("sf", "pipe"):
        return e.get("mx", []) != list(range(1, e["H"] * e["W"] + 1))
    if kind == "mc":
        return e.get("n", 0) > 1
    if kind in ("pi", "pa"):
        return e.get("seq", []) != list(range(1, e["H"] * e["W"] + 1))
    if kind == "ps":
        return e.get("perm", []) != sorted(e.get("perm", []))
    if kind == "nm":
        return e.get("moved", 0) > 0
    return False


def corrupt(t, r):
    """negative control: change one logged field of an accepted trace so that a named clause must fail"""
    t = json.loads(json.dumps(t))
    k = t["kind"]
    for e in t["ev"]:
        if e["st"] != "ok":
            continue
        if k in ("rc", "trc") and e.get("hasctx"):
            if r.random() < 0.5:
                e["map"][r.randrange(len(e["map"]))] += 1      # the output no longer is what the recorded window shows
                return t, {"CtxReproduces"}
            e["ctx"][r.randrange(2)] = -1                        # a window that leaves the image
            return t, {"InBounds"}
        if k == "src" and e.get("hasctx"):
            e["ctx"][r.randrange(2)] = -1
            return t, {"InBounds"}
        if k == "rrc" and e.get("hasctx"):
            e["ctx"][2 + r.randrange(2)] += 100
            return t, {"InBounds"}
        if k in ("sc", "sp", "sf", "pipe", "sz", "sr", "sro") and e.get("two") and e.get("exact") and len(e["ms"]) > 0:
            q = r.randrange(len(e["ms"]))
            e["ms"][q] = e["ms"][q] + 7 if e["ms"][q] >= 0 else 3
            return t, {"SameGeometry", "MaskLabelsOnly"}
        if k in ("pi", "pa", "ps") and e.get("shape") and len(e["seq"]) > 1:
            e["seq"][0], e["seq"][-1] = e["seq"][-1], e["seq"][0]
            return t, {"IndexAlgebra", "CtxReproduces"}
        if k == "nm" and e.get("shape"):
            e["err_dn"] = 5000
            return t, {"Inverse"}
        if k == "er" and e.get("shape") and e["H"] >= 2 and e["W"] >= 2 and t["cfg"]["cmin"] == 1 and t["cfg"]["cmax"] <= 2:
            e["map"] = [0] * len(e["map"])
            e["map"][0] = 1
            e["map"][-1] = 1
            return t, {"SingleRect"}
        if k == "sa" and e.get("shape") and e["H"] >= 2 and e["W"] >= 2:
            e["map"] = [0] * len(e["map"])
            e["map"][0] = 1
            return t, {"BandsOnly"}
    return None, None


MUTANTS = {  # negative controls of the design model: mutant -> invariants of which at least one must be violated
    "draw": {"C14_InBounds"},
    "guard": {"C14_Answers", "C14_ServesDomain"},
    "noclamp": {"C14_InBounds", "C14_Size"},
    "padodd": {"C14_Size", "C14_Pad"},
    "patchorder": {"C14_Inverse", "C14_PatchTiles", "C14_InBounds"},
    "erase": {"C14_InBounds"},
    "maskend": {"C14_Mask"},
}
ACTIONS = ["Configure", "PRcStart", "PRcGuard", "PRcDraw", "PTrcFirst", "PTrcTry", "PRrcStart", "PRrcAttempt", "PRrcFallback",
           "PErStart", "PErAttempt", "PErSkip", "PErDone", "PSaMask", "PScDraw", "PSpPad", "PSrResize", "PMcStart", "PMcCrop",
           "PPiCompute"]
INVARIANTS = ["C14_Answers", "C14_ServesDomain", "C14_InBounds", "C14_Size", "C14_TwoCrop", "C14_Erase", "C14_Mask", "C14_Pad",
              "C14_Resize", "C14_Cover", "C14_Inverse", "C14_PatchTiles"]


def neg_cfg(mutant):
    """specs/GeometryProps_neg_<mutant>.cfg: the quick grid shrunk, Mutant = <mutant>, all invariants"""
    return f"GeometryProps_neg_{mutant}.cfg"


def run(prop, tier, seed):
    from concurrent.futures import ThreadPoolExecutor
    assert prop == PROP
    core.use_repo()
    v = core.Verdict(prop, tier, seed)
    quick = tier == "quick"
    r = random.Random(seed * 31 + 14)
    t0 = time.time()

    pool = make_pool(6)
    # ---- (M) model checking the design + mutated models, in the background while the real code is recorded
    ex = ThreadPoolExecutor(max_workers=3)
    mc_cfg = "GeometryProps_quick.cfg" if quick else "GeometryProps_thorough.cfg"
    fut_mc = ex.submit(tlc.run_tlc, "GeometryProps", mc_cfg, name=prop + "mc", workers=4 if quick else 8, coverage=True,
                       timeout=3000)
    muts = ["draw", "guard", "noclamp"] if quick else list(MUTANTS)
    fut_neg = {m: ex.submit(tlc.run_tlc, "GeometryProps", neg_cfg(m), name=f"{prop}neg{m}", workers=1, timeout=1200,
                            heap="2g") for m in muts}

    # ---- (T) traces from the real code
    cases = all_cases(seed, quick)
    traces = record_all(cases, pool, procs=6)
    t_rec = time.time() - t0
    acc, rej, non, st = validate(traces, prop + "tv", jobs=8)
    v.coverage["states"] += st["states"]
    v.coverage["transitions"] += st["transitions"]
    v.coverage["traces_validated_against_impl"] = len(traces)
    v.coverage["evaluations"] = sum(len(t["ev"]) for t in traces)
    by_id = {t["id"]: t for t in traces}

    domain_errors = []
    # report one failing input per (kind, failed clauses, status) first, so that the printed list shows every defect
    seen_groups, first, rest = set(), [], []
    for i in sorted(rej):
        g = (by_id[i]["kind"], tuple(rej[i][1]), by_id[i]["ev"][rej[i][0] - 1]["st"], by_id[i]["ev"][rej[i][0] - 1].get("exc", "")[:40])
        (rest if g in seen_groups else first).append(i)
        seen_groups.add(g)
    for i in first + rest:
        t = by_id[i]
        pos, clauses = rej[i]
        e = t["ev"][pos - 1]
        if "Domain" in clauses:
            domain_errors.append(case_key(t, pos))
            continue
        hard = [c for c in clauses if not c.startswith("Desc_")]
        small = {k: (x if not isinstance(x, list) or len(x) <= 64 else x[:64] + ["..."]) for k, x in e.items()}
        what = f"clauses {hard} fail at call {pos}: status={e['st']} {e.get('exc', '')}".strip()
        v.violation(case_key(t, pos), what, dict(kind=t["kind"], cfg=t["cfg"], event=small, clauses=clauses))
    if domain_errors:
        raise tlc.TLCError(f"harness generated {len(domain_errors)} inputs outside the stated domain, e.g. {domain_errors[:3]}")

    # conformance to the descriptive machine: reported, no verdict
    nonconf = {}
    for i, lst in non.items():
        for pos, clauses in lst:
            for c in clauses:
                nonconf.setdefault(c, []).append(case_key(by_id[i], pos))
    v.coverage["desc_nonconforming"] = {c: dict(count=len(ks), example=ks[0]) for c, ks in sorted(nonconf.items())}
    for c, ks in sorted(nonconf.items()):
        v.notes.append(f"descriptive conformance: {len(ks)} calls are not an instance of the modelled action ({c}), e.g. {ks[0]}")

    keys, per_kind, status = set(), {}, {}
    for t in traces:
        for e in t["ev"]:
            status[e["st"]] = status.get(e["st"], 0) + 1
            if nontrivial(t["kind"], t["cfg"], e):
                keys.add((t["kind"], json.dumps(t["cfg"], sort_keys=True), e["H"], e["W"]))
        per_kind[t["kind"]] = per_kind.get(t["kind"], 0) + 1
    v.coverage["distinct_nontrivial"] = len(keys)
    v.coverage["rule"] = ("cases = (transform kind, constructor parameters, input extent, seed): an exhaustive small grid "
                          "(crops: targets 1..3 x inputs 1..4 x padding x pad_if_needed; patches: sizes and grids 1..3; multi "
                          "crop: 27 grids) plus seeded random larger configurations (extents up to 24..40 quick / 64 thorough, "
                          "1-pixel margins, 1xN strips, tensor and PIL); non-trivial = the call returned and the geometry did "
                          "something (cropped / padded / resized / erased / masked / flipped / permuted / moved values); "
                          "distinct by (kind, parameters, H, W)")
    v.coverage["traces_per_kind"] = per_kind
    v.coverage["call_status"] = status
    v.coverage["rejected_traces"] = len(rej)
    for kind in ("rc", "rrc", "pipe", "ps"):
        for t in traces:
            e = t["ev"][0]
            if t["kind"] == kind and t["id"] in acc and nontrivial(kind, t["cfg"], e) and e["H"] >= 3 and e["W"] >= 3:
                v.sample(dict(kind=kind, cfg=t["cfg"], calls=len(t["ev"]),
                              first_call={k: (x if not isinstance(x, list) or len(x) <= 40 else x[:40] + ["..."]) for k, x in e.items()}))
                break

    # ---- negative control 1: corrupted traces must be rejected, with the expected clause
    pool = [t for t in traces if t["id"] in acc]
    r.shuffle(pool)
    bad, expect, kinds_done = [], {}, {}
    for t in pool:
        if kinds_done.get(t["kind"], 0) >= (3 if quick else 10):
            continue
        ct, exp = corrupt(t, r)
        if ct is None:
            continue
        ct["id"] = 1000000 + len(bad)
        bad.append(ct)
        expect[ct["id"]] = exp
        kinds_done[t["kind"]] = kinds_done.get(t["kind"], 0) + 1
    acc2, rej2, _, st2 = validate(bad, prop + "neg", jobs=2)
    v.coverage["states"] += st2["states"]
    v.coverage["transitions"] += st2["transitions"]
    for b in bad:
        if b["id"] in acc2 or not (set(rej2[b["id"]][1]) & expect[b["id"]]):
            raise tlc.TLCError(f"negative control: corrupted {b['kind']} trace was not rejected with one of {sorted(expect[b['id']])}: "
                               f"{rej2.get(b['id'])}")
    v.coverage["negative_control_corrupted_traces_rejected"] = len(bad)

    # ---- (M) results
    res = fut_mc.result()
    v.add_tlc(res, "GeometryProps exhaustive (" + mc_cfg + ")")
    for nm in res.violated:
        v.violation(f"model:{nm}", f"design model violates {nm}", dict(cex=str(res.cex)[:6000]))
    for act in ACTIONS:
        if res.coverage.get(act, (0, 0))[1] == 0:
            raise tlc.TLCError(f"vacuity: action {act} never taken in {mc_cfg}")
    caught = {}
    for m, f in fut_neg.items():
        rn = f.result()
        if not (set(rn.violated) & MUTANTS[m]):
            raise tlc.TLCError(f"negative control: mutated model '{m}' was not rejected (violated: {rn.violated})")
        caught[m] = sorted(set(rn.violated))
        v.coverage["states"] += rn.distinct_states
        v.coverage["transitions"] += rn.states_generated
    v.coverage["negative_control_mutated_models_rejected"] = caught
    ex.shutdown()
    v.coverage["exhaustive"] = False
    v.coverage["timing_s"] = dict(record=round(t_rec, 1))
    v.assumptions += [
        "coordinate-encoded inputs: a pure crop / pad / flip / patch transform is observed through the map of source coordinates "
        "it returns; interpolating transforms (bilinear / bicubic) are observed through output extent and the harness flag "
        "`replay` (torchvision functional op driven only by the recorded ctx == output, bit for bit)",
        "normalise / denormalise inverse decided by a harness-computed max abs error (1e-7 units) against tolerance 1e-5, float "
        "tensors in [0, 1] and uint8 PIL images, std >= 0.05",
        "domain: reflect / symmetric padding smaller than the padded extent (torch's own rule); KDSemsegRandomCrop with "
        "max_category_ratio < 1 only on tensor masks; SemsegTransformWrapper members fetched separately only under a fixed "
        "wrapper seed; image / mask pairs of equal type (both tensor or both PIL); KDTwoRandomCrop with finite tries and dyadic "
        "overlap bounds; patch sizes dividing the image (else a refusal is accepted)",
        "TLC 1.8, CommunityModules Json, torchvision functional ops and PIL are trusted",
    ]
    return v.finish()
